// Package driver maps properties to rules, reconciles the result with the
// committed known findings and exemptions, and writes the evidence file.
package driver

import (
	"encoding/json"
	"fmt"
	"os"
	"os/exec"
	"path/filepath"
	"sort"
	"strconv"
	"strings"
	"time"

	"crsverif/internal/load"
	"crsverif/internal/rules"
)

type Options struct {
	Property   string
	Tier       string
	Repo       string
	VerifDir   string
	Replay     string
	Dump       string
	Mutation   string
	NoEvidence bool
	Verbose    bool
	MutSummary string // file with the output of tools/mutations.sh for this property (thorough tier)
	Patch      string // unified diff applied to copies of the affected files and loaded as an overlay (the tree is not touched)
}

// KnownFile is /verif/known_findings.json.
type KnownFile struct {
	Findings []KnownFinding `json:"findings"`
	Fixed    []string       `json:"fixed"`
}

type KnownFinding struct {
	Property string `json:"property"`
	Rule     string `json:"rule"`
	Key      string `json:"key"`
	What     string `json:"what"`
	// Scope "package" identifies the finding by rule, package and construct:
	// the same call moved into a helper of that package is the same finding.
	Scope string `json:"scope,omitempty"`
}

// matchKey is the key a finding is looked up by.
func (k KnownFinding) matchKey() string {
	if k.Scope == "package" {
		return packageKey(k.Key)
	}
	return normalKey(k.Key)
}

// lookupKnown finds the listed finding an obligation key belongs to.
func lookupKnown(m map[string]KnownFinding, key string) (KnownFinding, bool) {
	if k, ok := m[normalKey(key)]; ok {
		return k, true
	}
	if k, ok := m[packageKey(key)]; ok && k.Scope == "package" {
		return k, true
	}
	return KnownFinding{}, false
}

// Exemption is one reviewed exception of a rule.
type Exemption struct {
	Rule      string `json:"rule"`
	Key       string `json:"key,omitempty"`
	Construct string `json:"construct,omitempty"`
	Scope     string `json:"scope,omitempty"`
	Reason    string `json:"reason"`
}

func readJSON(path string, v any) error {
	b, err := os.ReadFile(path)
	if err != nil {
		return err
	}
	return json.Unmarshal(b, v)
}

// Main runs one check and returns the exit status.
func Main(o Options) int {
	start := time.Now()
	seed := 0
	if s := os.Getenv("VERIF_SEED"); s != "" {
		if n, err := strconv.Atoi(s); err == nil {
			seed = n
		}
	}
	if t := os.Getenv("VERIF_TIER"); t != "" && o.Tier == "" {
		o.Tier = t
	}
	if o.Tier != "quick" && o.Tier != "thorough" {
		fmt.Fprintf(os.Stderr, "unknown tier %q\n", o.Tier)
		return 2
	}
	var overlay map[string][]byte
	var mut *Mutation
	if o.Mutation != "" {
		m, ov, err := loadMutation(o, o.Mutation)
		if err != nil {
			fmt.Printf("MUTATION %s: SKIPPED (%v)\n", o.Mutation, err)
			return 3
		}
		mut, overlay = m, ov
		if o.Property == "" {
			o.Property = m.Property
		}
	}
	if o.Patch != "" {
		ov, err := patchOverlay(o.Repo, o.Patch)
		if err != nil {
			fmt.Printf("PATCH %s: SKIPPED (%v)\n", o.Patch, err)
			return 3
		}
		overlay = ov
	}
	prog, err := load.Load(load.Options{Dir: o.Repo, Overlay: overlay})
	if err != nil && mut != nil {
		fmt.Printf("MUTATION %s: BROKEN (variant does not load: %v)\n", mut.ID, strings.Split(err.Error(), "\n")[0]+" ...")
		return 4
	}
	if err != nil {
		fmt.Printf("UNDECIDED property=%s: cannot load %s: %v\n", o.Property, o.Repo, err)
		return 2
	}
	if os.Getenv("CRSVERIF_DEBUG") != "" {
		for _, f := range prog.Forwarded {
			fmt.Println("FORWARDED", f)
		}
		if want := os.Getenv("CRSVERIF_FN"); want != "" {
			for _, f := range prog.RepoFns {
				if strings.Contains(f.String(), want) {
					fmt.Println("FN", f.String(), len(f.Blocks))
				}
			}
			for k := range overlay {
				fmt.Println("OVERLAY", k)
			}
		}
	}
	ctx := rules.NewCtx(prog)
	{
		var exs []Exemption
		if err := readJSON(filepath.Join(o.VerifDir, "exemptions.json"), &exs); err != nil && !os.IsNotExist(err) {
			fmt.Printf("UNDECIDED property=%s: exemptions.json unreadable: %v\n", o.Property, err)
			return 2
		}
		ctx.Exemptions = map[string]string{}
		for _, e := range exs {
			if e.Key != "" {
				ctx.Exemptions[e.Key] = e.Reason
			} else if e.Construct != "" && e.Scope != "" {
				ctx.Scoped = append(ctx.Scoped, rules.ScopedExemption{Rule: e.Rule, Construct: e.Construct, Scope: e.Scope, Reason: e.Reason})
			}
		}
	}
	if o.Dump != "" {
		rules.Dump(ctx, o.Dump, os.Stdout)
		return 0
	}
	if o.Property == "ALL" {
		return runAll(ctx, o)
	}
	prop, ok := rules.Properties[o.Property]
	if !ok {
		fmt.Fprintf(os.Stderr, "unknown or unclaimed property %q\n", o.Property)
		return 2
	}
	results, panicked := runProperty(ctx, prop, o.Tier)
	if panicked != "" {
		fmt.Printf("UNDECIDED property=%s: checker panic: %s\n", o.Property, panicked)
		return 2
	}

	var known KnownFile
	if err := readJSON(filepath.Join(o.VerifDir, "known_findings.json"), &known); err != nil && !os.IsNotExist(err) {
		fmt.Printf("UNDECIDED property=%s: known_findings.json unreadable: %v\n", o.Property, err)
		return 2
	}
	var exemptions []Exemption
	if err := readJSON(filepath.Join(o.VerifDir, "exemptions.json"), &exemptions); err != nil && !os.IsNotExist(err) {
		fmt.Printf("UNDECIDED property=%s: exemptions.json unreadable: %v\n", o.Property, err)
		return 2
	}
	exMap := map[string]Exemption{}
	for _, e := range exemptions {
		exMap[e.Key] = e
	}
	// known findings are matched by rule, by the function's own name (a method that becomes a function,
	// or moves to another receiver, is still the same site) and by the construct
	knownMap := map[string]KnownFinding{}
	for _, k := range known.Findings {
		if k.Property == o.Property {
			knownMap[k.matchKey()] = k
		}
	}

	// reconcile
	var all []rules.Obligation
	usedEx := map[string]bool{}
	var floorFailures []string
	ruleStats := []map[string]any{}
	for _, r := range results {
		r.Dedup()
		st := map[string]int{}
		for i := range r.Obls {
			ob := &r.Obls[i]
			if ob.Verdict == rules.Violated || ob.Verdict == rules.Undecided {
				if reason, ok := ctx.ExemptReason(ob.Rule, ob.Key); ok {
					ob.Verdict = rules.Exempt
					ob.Reason = reason
					usedEx[ob.Key] = true
				}
			}
			if ob.Verdict == rules.Violated {
				if k, ok := lookupKnown(knownMap, ob.Key); ok {
					ob.Verdict = rules.Known
					ob.Reason = k.What
				}
			}
			st[string(ob.Verdict)]++
			all = append(all, *ob)
		}
		if r.Instances < r.MinInst {
			floorFailures = append(floorFailures, fmt.Sprintf("rule %s matched %d constructs, fewer than the %d confirmed by hand: the rule no longer sees the code it is about", r.Rule, r.Instances, r.MinInst))
		}
		ruleStats = append(ruleStats, map[string]any{
			"rule": r.Rule, "instances": r.Instances, "floor": r.MinInst, "obligations": len(r.Obls),
			"discharged": st["discharged"], "exempt": st["exempt"], "violated": st["violated"],
			"known_findings": st["known-finding"], "undecided": st["undecided"], "notes": r.Notes,
		})
	}

	if mut != nil {
		return reportMutation(mut, all)
	}

	nViol, nUndec, nKnown, nDis, nEx := 0, 0, 0, 0, 0
	replayDir := filepath.Join(o.VerifDir, "evidence", "replay")
	for _, ob := range all {
		switch ob.Verdict {
		case rules.Violated:
			nViol++
		case rules.Undecided:
			nUndec++
		case rules.Known:
			nKnown++
		case rules.Discharged:
			nDis++
		case rules.Exempt:
			nEx++
		}
	}
	if o.Replay != "" {
		return replay(o, all)
	}
	fmt.Printf("crsverif property=%s tier=%s: %d packages, %d functions; %d obligations: %d discharged, %d exempt, %d known findings, %d violated, %d undecided\n",
		o.Property, o.Tier, len(prog.Roots), len(prog.RepoFns), len(all), nDis, nEx, nKnown, nViol, nUndec)
	for _, st := range ruleStats {
		fmt.Printf("  rule %-13s instances=%-3d (floor %d) obligations=%-3d discharged=%-3d exempt=%-2d known=%-2d violated=%-2d undecided=%d\n",
			st["rule"], st["instances"], st["floor"], st["obligations"], st["discharged"], st["exempt"], st["known_findings"], st["violated"], st["undecided"])
	}
	if o.Verbose {
		for _, ob := range all {
			fmt.Printf("    [%s] %s  %s  %s %s\n", ob.Verdict, ob.Key, ob.Pos, ob.Detail, ob.Reason)
		}
	}
	n := 0
	var undecided []map[string]any
	for _, ob := range all {
		switch ob.Verdict {
		case rules.Known:
			fmt.Printf("KNOWN-FINDING: property=%s %s [%s at %s]\n", o.Property, ob.Reason, ob.Key, ob.Pos)
		case rules.Violated:
			n++
			rp := filepath.Join(replayDir, fmt.Sprintf("%s-%d.json", o.Property, n))
			_ = os.MkdirAll(replayDir, 0o755)
			b, _ := json.MarshalIndent(map[string]any{"property": o.Property, "rule": ob.Rule, "key": ob.Key, "pos": ob.Pos, "detail": ob.Detail}, "", " ")
			_ = os.WriteFile(rp, b, 0o644)
			fmt.Printf("VIOLATION property=%s replay=%s\n", o.Property, rp)
			fmt.Printf("  %s: %s: %s: %s\n", ob.Pos, ob.Rule, ob.Key, ob.Detail)
		case rules.Undecided:
			fmt.Printf("UNDECIDED property=%s %s: %s: %s\n", o.Property, ob.Pos, ob.Key, ob.Detail)
			undecided = append(undecided, map[string]any{"rule": ob.Rule, "key": ob.Key, "pos": ob.Pos, "detail": ob.Detail})
		}
	}
	for _, f := range floorFailures {
		fmt.Printf("UNDECIDED property=%s %s\n", o.Property, f)
		undecided = append(undecided, map[string]any{"rule": "floor", "detail": f})
	}
	if nViol == 0 && len(undecided) > 0 {
		// the interface knows two outcomes. "Could not be established on the current tree" is not
		// "held": it is reported with a VIOLATION line whose replay file says that the verdict is
		// undecided and why (the UNDECIDED lines above carry the same text).
		rp := filepath.Join(replayDir, fmt.Sprintf("%s-undecided.json", o.Property))
		_ = os.MkdirAll(replayDir, 0o755)
		b, _ := json.MarshalIndent(map[string]any{"property": o.Property, "verdict": "undecided", "obligations": undecided}, "", " ")
		_ = os.WriteFile(rp, b, 0o644)
		fmt.Printf("VIOLATION property=%s replay=%s\n", o.Property, rp)
		fmt.Printf("  (undecided: the rule(s) above could not establish the property on this tree; that is reported as not held)\n")
	}
	// exemptions of this property's rules that match nothing are reported (not fatal)
	var staleEx []string
	ruleNames := map[string]bool{}
	for _, r := range results {
		ruleNames[r.Rule] = true
	}
	_ = staleEx

	if !o.NoEvidence {
		if err := writeEvidence(o, prop, seed, all, ruleStats, prog, ctx, time.Since(start), nViol); err != nil {
			fmt.Printf("UNDECIDED property=%s: cannot write evidence: %v\n", o.Property, err)
			return 2
		}
	}
	switch {
	case nViol > 0:
		return 1
	case nUndec > 0 || len(floorFailures) > 0:
		return 1
	}
	return 0
}

func runProperty(ctx *rules.Ctx, prop *rules.Property, tier string) (res []*rules.Result, panicked string) {
	defer func() {
		if r := recover(); r != nil {
			panicked = fmt.Sprint(r)
			if os.Getenv("CRSVERIF_DEBUG") != "" {
				panic(r)
			}
		}
	}()
	return prop.Run(ctx, tier), ""
}

func replay(o Options, all []rules.Obligation) int {
	var rp struct {
		Key         string `json:"key"`
		Verdict     string `json:"verdict"`
		Obligations []struct {
			Key string `json:"key"`
		} `json:"obligations"`
	}
	if err := readJSON(o.Replay, &rp); err != nil {
		fmt.Printf("cannot read replay file: %v\n", err)
		return 2
	}
	if rp.Verdict == "undecided" {
		// replay of an undecided verdict: are the same obligations still undecided (or violated)?
		still := 0
		for _, want := range rp.Obligations {
			for _, ob := range all {
				if want.Key != "" && ob.Key == want.Key && (ob.Verdict == rules.Undecided || ob.Verdict == rules.Violated) {
					fmt.Printf("replay %s: [%s] %s %s\n", ob.Key, ob.Verdict, ob.Pos, ob.Detail)
					still++
				}
			}
		}
		if still > 0 {
			fmt.Printf("VIOLATION property=%s replay=%s\n", o.Property, o.Replay)
			return 1
		}
		fmt.Printf("replay %s: the obligations recorded as undecided are decided on the current tree\n", o.Replay)
		return 0
	}
	for _, ob := range all {
		if ob.Key == rp.Key {
			fmt.Printf("replay %s: [%s] %s %s\n", ob.Key, ob.Verdict, ob.Pos, ob.Detail)
			if ob.Verdict == rules.Violated {
				fmt.Printf("VIOLATION property=%s replay=%s\n", o.Property, o.Replay)
				return 1
			}
			return 0
		}
	}
	fmt.Printf("replay %s: obligation no longer exists on the current tree\n", rp.Key)
	return 0
}

func writeEvidence(o Options, prop *rules.Property, seed int, all []rules.Obligation, ruleStats []map[string]any, prog *load.Program, ctx *rules.Ctx, wall time.Duration, nViol int) error {
	distinct := map[string]bool{}
	discharged := 0
	samples := []any{}
	sort.SliceStable(all, func(i, j int) bool { return all[i].Key < all[j].Key })
	for _, ob := range all {
		distinct[ob.Key] = true
		if ob.Verdict == rules.Discharged || ob.Verdict == rules.Exempt {
			discharged++
		}
		samples = append(samples, ob)
	}
	g := ctx.Graph()
	cov := map[string]any{
		"explanation":         prop.Explanation,
		"does_not_decide":     prop.DoesNotDecide,
		"evaluations":         len(all),
		"distinct_nontrivial": len(distinct),
		"rule":                "one case = one obligation: a rule of DESIGN.md section 4 applied to one construct of the type-checked/SSA program (call site, scanner, map range, pattern pair, command x write site); keyed RULE:function:construct; counted as distinct by key; every obligation stems from a construct the rule matched in /repo's current source, so none is trivial",
		"samples":             samples,
		"rules":               ruleStats,
		"packages_analysed":   len(prog.Roots),
		"packages_in_closure": len(prog.All),
		"functions_analysed":  len(prog.RepoFns),
		"callgraph_nodes":     len(prog.RepoFns),
		"callgraph_edges":     g.Edges,
		"forwarders_inlined":  append([]string{}, prog.Forwarded...),
		"exhaustive":          true,
		"trusted_base":        prop.TrustedBase,
	}
	if o.MutSummary != "" {
		if b, err := os.ReadFile(o.MutSummary); err == nil {
			sens := map[string]any{}
			var missed, falseAlarms, lines []string
			det, silent, skipped := 0, 0, 0
			for _, l := range strings.Split(string(b), "\n") {
				switch {
				case strings.Contains(l, ": DETECTED"), strings.Contains(l, ": UNDECIDED-AS-DESIGNED"):
					det++
				case strings.Contains(l, ": SILENT-AS-EXPECTED"):
					silent++
				case strings.Contains(l, ": MISSED"):
					missed = append(missed, l)
				case strings.Contains(l, ": FALSE-ALARM"):
					falseAlarms = append(falseAlarms, l)
				case strings.Contains(l, ": SKIPPED"), strings.Contains(l, ": BROKEN"):
					skipped++
				}
				if strings.HasPrefix(l, "MUTATION") {
					if len(l) > 200 {
						l = l[:200]
					}
					lines = append(lines, l)
				}
			}
			sens["mutations_applied_as_overlay"] = len(lines)
			sens["detected"] = det
			sens["benign_silent"] = silent
			sens["missed"] = missed
			sens["false_alarms"] = falseAlarms
			sens["skipped"] = skipped
			sens["results"] = lines
			cov["sensitivity_corpus"] = sens
		}
	}
	if prop.Level == "proof" {
		cov["obligations"] = len(all)
		cov["discharged"] = discharged
		cov["checker_cmd"] = fmt.Sprintf("./check %s --tier %s", o.Property, o.Tier)
	}
	ev := map[string]any{
		"property_id": o.Property,
		"tier":        o.Tier,
		"seed":        seed,
		"level":       prop.Level,
		"coverage":    cov,
		"assumptions": prop.Assumptions,
		"wall_s":      float64(wall.Milliseconds()) / 1000.0,
		"violations":  nViol,
		"technique":   prop.Technique,
	}
	b, err := json.MarshalIndent(ev, "", " ")
	if err != nil {
		return err
	}
	dir := filepath.Join(o.VerifDir, "evidence")
	if err := os.MkdirAll(dir, 0o755); err != nil {
		return err
	}
	return os.WriteFile(filepath.Join(dir, o.Property+".json"), append(b, '\n'), 0o644)
}

// ---- mutations (sensitivity corpus) ----

// Mutation is one recorded realistic change, applied as a go/packages overlay.
type Mutation struct {
	ID       string `json:"id"`
	Property string `json:"property"`
	File     string `json:"file"` // relative to the repository
	Old      string `json:"old"`
	New      string `json:"new"`
	Rule     string `json:"rule"` // rule expected to report
	KeyPart  string `json:"key"`  // substring expected in the reported obligation key
	Why      string `json:"why"`
	Benign   bool   `json:"benign"` // behaviour-preserving: no rule may report
	Expect   string `json:"expect"` // "undecided": the designed answer is UNDECIDED (shape outside a recognised fragment)
	Edits    []struct {
		File string `json:"file"`
		Old  string `json:"old"`
		New  string `json:"new"`
	} `json:"edits"` // further edits needed to keep the variant compiling (imports, declarations)
}

func loadMutation(o Options, id string) (*Mutation, map[string][]byte, error) {
	var ms []Mutation
	if err := readJSON(filepath.Join(o.VerifDir, "checker", "mutations", "corpus.json"), &ms); err != nil {
		return nil, nil, err
	}
	for i := range ms {
		if ms[i].ID != id {
			continue
		}
		m := &ms[i]
		abs := filepath.Join(o.Repo, m.File)
		src, err := os.ReadFile(abs)
		if err != nil {
			return nil, nil, err
		}
		if strings.Count(string(src), m.Old) != 1 {
			return nil, nil, fmt.Errorf("old snippet occurs %d times in %s", strings.Count(string(src), m.Old), m.File)
		}
		ov := map[string][]byte{abs: []byte(strings.Replace(string(src), m.Old, m.New, 1))}
		for _, e := range m.Edits {
			f := e.File
			if f == "" {
				f = m.File
			}
			a := filepath.Join(o.Repo, f)
			cur, ok := ov[a]
			if !ok {
				b, err := os.ReadFile(a)
				if err != nil {
					return nil, nil, err
				}
				cur = b
			}
			if strings.Count(string(cur), e.Old) != 1 {
				return nil, nil, fmt.Errorf("extra edit: old snippet occurs %d times in %s", strings.Count(string(cur), e.Old), f)
			}
			ov[a] = []byte(strings.Replace(string(cur), e.Old, e.New, 1))
		}
		return m, ov, nil
	}
	return nil, nil, fmt.Errorf("no mutation %q", id)
}

func reportMutation(m *Mutation, all []rules.Obligation) int {
	var hits []string
	for _, ob := range all {
		if ob.Verdict == rules.Violated || ob.Verdict == rules.Undecided {
			hits = append(hits, fmt.Sprintf("[%s] %s", ob.Verdict, ob.Key))
		}
	}
	if m.Benign {
		if len(hits) == 0 {
			fmt.Printf("MUTATION %s: SILENT-AS-EXPECTED\n", m.ID)
			return 0
		}
		fmt.Printf("MUTATION %s: FALSE-ALARM %s\n", m.ID, strings.Join(hits, "; "))
		return 1
	}
	for _, ob := range all {
		if ob.Verdict == rules.Violated && (m.Rule == "" || ob.Rule == m.Rule) && strings.Contains(ob.Key, m.KeyPart) {
			fmt.Printf("MUTATION %s: DETECTED by %s\n", m.ID, ob.Key)
			return 0
		}
	}
	if m.Expect == "undecided" {
		for _, ob := range all {
			if ob.Verdict == rules.Undecided && strings.Contains(ob.Key, m.KeyPart) {
				fmt.Printf("MUTATION %s: UNDECIDED-AS-DESIGNED by %s\n", m.ID, ob.Key)
				return 0
			}
		}
	}
	fmt.Printf("MUTATION %s: MISSED (expected %s %s; got %s)\n", m.ID, m.Rule, m.KeyPart, strings.Join(hits, "; "))
	return 1
}

// runAll evaluates every claimed property in one process (one load) and prints,
// per property, the violated/undecided obligations that are not known findings.
// Used to try seeded changes quickly; writes no evidence.
func runAll(ctx *rules.Ctx, o Options) int {
	var known KnownFile
	_ = readJSON(filepath.Join(o.VerifDir, "known_findings.json"), &known)
	ids := []string{}
	for id := range rules.Properties {
		if !strings.HasPrefix(id, "X-") {
			ids = append(ids, id)
		}
	}
	sort.Strings(ids)
	rc := 0
	for _, id := range ids {
		results, panicked := runProperty(ctx, rules.Properties[id], "quick")
		if panicked != "" {
			fmt.Printf("PROP %s PANIC %s\n", id, panicked)
			rc = 2
			continue
		}
		knownMap := map[string]KnownFinding{}
		for _, k := range known.Findings {
			if k.Property == id {
				knownMap[k.matchKey()] = k
			}
		}
		var hits []string
		for _, r := range results {
			r.Dedup()
			if r.Instances < r.MinInst {
				hits = append(hits, fmt.Sprintf("[floor] %s %d<%d", r.Rule, r.Instances, r.MinInst))
			}
			for _, ob := range r.Obls {
				if ob.Verdict != rules.Violated && ob.Verdict != rules.Undecided {
					continue
				}
				if _, ex := ctx.ExemptReason(ob.Rule, ob.Key); ex {
					continue
				}
				if _, ok := lookupKnown(knownMap, ob.Key); ok {
					continue
				}
				hits = append(hits, fmt.Sprintf("[%s] %s :: %s", ob.Verdict, ob.Key, ob.Detail))
			}
		}
		if len(hits) == 0 {
			fmt.Printf("PROP %s ok\n", id)
			continue
		}
		rc = 1
		fmt.Printf("PROP %s REPORTS %d\n", id, len(hits))
		for _, h := range hits {
			if len(h) > 420 {
				h = h[:420] + "..."
			}
			fmt.Printf("    %s\n", h)
		}
	}
	return rc
}

// patchOverlay applies a unified diff (git format, -p1) to copies of the files
// it names and returns them as an overlay; the repository itself is not touched.
func patchOverlay(repo, diff string) (map[string][]byte, error) {
	b, err := os.ReadFile(diff)
	if err != nil {
		return nil, err
	}
	var files []string
	for _, l := range strings.Split(string(b), "\n") {
		if strings.HasPrefix(l, "+++ b/") {
			files = append(files, strings.TrimSpace(strings.TrimPrefix(l, "+++ b/")))
		}
	}
	if len(files) == 0 {
		return nil, fmt.Errorf("no files in diff")
	}
	tmp, err := os.MkdirTemp("", "crsverif-patch")
	if err != nil {
		return nil, err
	}
	defer os.RemoveAll(tmp)
	for _, f := range files {
		src, err := os.ReadFile(filepath.Join(repo, f))
		if err != nil {
			if os.IsNotExist(err) {
				continue // file created by the patch
			}
			return nil, err
		}
		dst := filepath.Join(tmp, f)
		if err := os.MkdirAll(filepath.Dir(dst), 0o755); err != nil {
			return nil, err
		}
		if err := os.WriteFile(dst, src, 0o644); err != nil {
			return nil, err
		}
	}
	abs, _ := filepath.Abs(diff)
	cmd := exec.Command("patch", "-s", "-p1", "-i", abs)
	cmd.Dir = tmp
	if out, err := cmd.CombinedOutput(); err != nil {
		return nil, fmt.Errorf("patch does not apply: %s", strings.TrimSpace(string(out)))
	}
	ov := map[string][]byte{}
	for _, f := range files {
		nb, err := os.ReadFile(filepath.Join(tmp, f))
		if err != nil {
			continue
		}
		ov[filepath.Join(repo, f)] = nb
	}
	return ov, nil
}

// normalKey reduces RULE:<function>:<construct> to RULE:<bare function name>:<construct>.
func normalKey(key string) string {
	parts := strings.SplitN(key, ":", 3)
	if len(parts) < 3 {
		return key
	}
	fn := parts[1]
	if i := strings.LastIndex(fn, "."); i >= 0 {
		fn = fn[i+1:]
	}
	return parts[0] + ":" + fn + ":" + parts[2]
}

// packageKey reduces RULE:<function>:<construct> to RULE:<package path>:<construct>.
func packageKey(key string) string {
	parts := strings.SplitN(key, ":", 3)
	if len(parts) < 3 {
		return key
	}
	fn := strings.TrimPrefix(strings.TrimPrefix(parts[1], "("), "*")
	if i := strings.Index(fn, ")"); i >= 0 {
		fn = fn[:i]
	}
	if i := strings.LastIndex(fn, "."); i >= 0 {
		fn = fn[:i]
	}
	return parts[0] + ":pkg " + fn + ":" + parts[2]
}
