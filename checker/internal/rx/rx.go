// Package rx decides emptiness of intersection, inclusion and equivalence of
// regular languages given as Go regexp patterns. It works on the NFA programs
// regexp/syntax compiles (the programs Go's regexp executes) with an
// on-the-fly subset construction over a finite partition of the rune space.
// Nothing of the analysed repository is executed; the inputs are constants of
// its source.
package rx

import (
	"fmt"
	"regexp/syntax"
	"sort"
	"strings"
	"unicode"
)

// Lang is a regular language given by a compiled program with search
// semantics: a string belongs to it if the pattern matches somewhere in it
// (what MatchString / Find* != nil decide). Anchor the pattern for exact
// membership (see Full).
type Lang struct {
	Name string
	Re   *syntax.Regexp
	Prog *syntax.Prog
}

// Parse parses a pattern the way regexp.MustCompile does.
func Parse(pattern string) (*syntax.Regexp, error) {
	return syntax.Parse(pattern, syntax.Perl)
}

// Search builds the language "pattern matches somewhere in the string".
func Search(name string, re *syntax.Regexp) (*Lang, error) {
	s := re.Simplify()
	p, err := syntax.Compile(s)
	if err != nil {
		return nil, err
	}
	return &Lang{Name: name, Re: re, Prog: p}, nil
}

// SearchPattern is Search(Parse(pattern)).
func SearchPattern(name, pattern string) (*Lang, error) {
	re, err := Parse(pattern)
	if err != nil {
		return nil, err
	}
	return Search(name, re)
}

// Full builds the language of strings matched entirely by re.
func Full(name string, re *syntax.Regexp) (*Lang, error) {
	w := &syntax.Regexp{Op: syntax.OpConcat, Flags: re.Flags, Sub: []*syntax.Regexp{
		{Op: syntax.OpBeginText}, re, {Op: syntax.OpEndText},
	}}
	return Search(name, w)
}

// FullPattern is Full(Parse(pattern)).
func FullPattern(name, pattern string) (*Lang, error) {
	re, err := Parse(pattern)
	if err != nil {
		return nil, err
	}
	return Full(name, re)
}

// Capture returns the subexpression of capture group n (1-based) or nil.
func Capture(re *syntax.Regexp, n int) *syntax.Regexp {
	if re.Op == syntax.OpCapture && re.Cap == n {
		return re.Sub[0]
	}
	for _, s := range re.Sub {
		if r := Capture(s, n); r != nil {
			return r
		}
	}
	return nil
}

// ---- alphabet partition ----

type class struct {
	lo, hi rune
	rep    rune
	word   bool
}

func isWord(r rune) bool {
	return r == '_' || (r >= '0' && r <= '9') || (r >= 'a' && r <= 'z') || (r >= 'A' && r <= 'Z')
}

// partition splits the rune space at every boundary occurring in the programs
// so that all runes of a class behave identically in every instruction.
func partition(langs []*Lang, excluded func(r rune) bool) ([]class, error) {
	cuts := map[rune]bool{0: true, unicode.MaxRune + 1: true}
	add := func(lo, hi rune) { cuts[lo] = true; cuts[hi+1] = true }
	// word boundaries and newline
	add('0', '9')
	add('A', 'Z')
	add('a', 'z')
	add('_', '_')
	add('\n', '\n')
	add('\r', '\r')
	fold := false
	for _, l := range langs {
		for i := range l.Prog.Inst {
			in := &l.Prog.Inst[i]
			switch in.Op {
			case syntax.InstRune, syntax.InstRune1:
				if syntax.Flags(in.Arg)&syntax.FoldCase != 0 {
					fold = true
				}
				if len(in.Rune) == 1 {
					add(in.Rune[0], in.Rune[0])
				}
				for j := 0; j+1 < len(in.Rune); j += 2 {
					add(in.Rune[j], in.Rune[j+1])
				}
			}
		}
	}
	if fold {
		// every ASCII letter and the non-ASCII members of their fold orbits alone
		for r := rune('A'); r <= 'Z'; r++ {
			add(r, r)
			add(r+32, r+32)
		}
		for _, r := range []rune{0x212A, 0x17F, 0x130, 0x131} {
			add(r, r)
		}
		for _, l := range langs {
			for i := range l.Prog.Inst {
				in := &l.Prog.Inst[i]
				if (in.Op == syntax.InstRune || in.Op == syntax.InstRune1) && syntax.Flags(in.Arg)&syntax.FoldCase != 0 {
					for _, r := range in.Rune {
						if r > 0x7f && r != 0x212A && r != 0x17F {
							return nil, fmt.Errorf("case-folded non-ASCII range in %s is not supported", l.Name)
						}
					}
				}
			}
		}
	}
	var cs []rune
	for c := range cuts {
		cs = append(cs, c)
	}
	sort.Slice(cs, func(i, j int) bool { return cs[i] < cs[j] })
	var out []class
	for i := 0; i+1 < len(cs); i++ {
		lo, hi := cs[i], cs[i+1]-1
		if lo >= 0xD800 && hi <= 0xDFFF {
			continue
		}
		rep := lo
		// prefer a printable ASCII representative
		for r := lo; r <= hi && r < 0x7f; r++ {
			if r >= 0x21 {
				rep = r
				break
			}
		}
		if lo <= 0xDFFF && hi >= 0xD800 && rep >= 0xD800 && rep <= 0xDFFF {
			rep = 0xE000
			if rep > hi {
				continue
			}
		}
		if excluded != nil && excluded(rep) {
			continue
		}
		out = append(out, class{lo, hi, rep, isWord(rep)})
	}
	// explore readable representatives first so that shortest witnesses are legible
	rank := func(c class) int {
		switch {
		case c.rep >= 'a' && c.rep <= 'z':
			return 0
		case c.rep >= '0' && c.rep <= '9':
			return 1
		case c.rep > 0x20 && c.rep < 0x7f:
			return 2
		case c.rep == ' ':
			return 3
		}
		return 4
	}
	sort.SliceStable(out, func(i, j int) bool { return rank(out[i]) < rank(out[j]) })
	return out, nil
}

// ---- simulation ----

const (
	ctxStart = iota // no previous rune
	ctxWord
	ctxNonWord
)

// dstate is one state of the determinised product.
type dstate struct {
	threads [][]uint32 // per language: sorted pcs waiting to consume (before closure)
	matched []bool     // per language: a match has already been completed (absorbing)
	prev    int
}

func (d *dstate) key() string {
	var sb strings.Builder
	sb.WriteByte(byte('0' + d.prev))
	for i, t := range d.threads {
		sb.WriteByte('|')
		if d.matched[i] {
			sb.WriteByte('M')
			continue
		}
		for _, pc := range t {
			fmt.Fprintf(&sb, "%x,", pc)
		}
	}
	return sb.String()
}

// closure follows empty transitions from pcs under the context (prev, next).
// next: -1 end of text, else the class (word flag used). Returns the rune
// instructions reached and whether InstMatch is reachable.
func closure(p *syntax.Prog, pcs []uint32, prev int, nextEnd bool, nextWord bool) (runeInsts []uint32, match bool) {
	var op syntax.EmptyOp
	if prev == ctxStart {
		op |= syntax.EmptyBeginText | syntax.EmptyBeginLine
	}
	if nextEnd {
		op |= syntax.EmptyEndText | syntax.EmptyEndLine
	}
	pw := prev == ctxWord
	nw := !nextEnd && nextWord
	if pw != nw {
		op |= syntax.EmptyWordBoundary
	} else {
		op |= syntax.EmptyNoWordBoundary
	}
	seen := make(map[uint32]bool, len(pcs)*2)
	stack := append([]uint32(nil), pcs...)
	for len(stack) > 0 {
		pc := stack[len(stack)-1]
		stack = stack[:len(stack)-1]
		if seen[pc] {
			continue
		}
		seen[pc] = true
		in := &p.Inst[pc]
		switch in.Op {
		case syntax.InstAlt, syntax.InstAltMatch:
			stack = append(stack, in.Out, in.Arg)
		case syntax.InstCapture, syntax.InstNop:
			stack = append(stack, in.Out)
		case syntax.InstEmptyWidth:
			if syntax.EmptyOp(in.Arg)&^op == 0 {
				stack = append(stack, in.Out)
			}
		case syntax.InstMatch:
			match = true
		case syntax.InstFail:
		default:
			runeInsts = append(runeInsts, pc)
		}
	}
	sort.Slice(runeInsts, func(i, j int) bool { return runeInsts[i] < runeInsts[j] })
	return runeInsts, match
}

// Query explores the product of langs over the domain of strings without
// excluded runes and returns the shortest string whose membership vector
// satisfies accept, if any.
type Query struct {
	Langs     []*Lang
	Excluded  func(r rune) bool // runes outside the domain (default: '\n')
	Accept    func(member []bool) bool
	MaxStates int
}

// Result of a query.
type Result struct {
	Found   bool
	Witness string
	States  int
}

// Run executes the query.
func (q *Query) Run() (Result, error) {
	excl := q.Excluded
	if excl == nil {
		excl = func(r rune) bool { return r == '\n' }
	}
	classes, err := partition(q.Langs, excl)
	if err != nil {
		return Result{}, err
	}
	max := q.MaxStates
	if max == 0 {
		max = 400000
	}
	n := len(q.Langs)
	start := &dstate{threads: make([][]uint32, n), matched: make([]bool, n), prev: ctxStart}
	for i, l := range q.Langs {
		start.threads[i] = []uint32{uint32(l.Prog.Start)}
	}
	type node struct {
		st     *dstate
		parent int
		r      rune
	}
	nodes := []node{{start, -1, 0}}
	index := map[string]int{start.key(): 0}
	member := make([]bool, n)
	for qi := 0; qi < len(nodes); qi++ {
		cur := nodes[qi].st
		// acceptance at end of text
		for i, l := range q.Langs {
			if cur.matched[i] {
				member[i] = true
				continue
			}
			_, m := closure(l.Prog, cur.threads[i], cur.prev, true, false)
			member[i] = m
		}
		if q.Accept(member) {
			// rebuild witness
			var rs []rune
			for k := qi; nodes[k].parent >= 0; k = nodes[k].parent {
				rs = append(rs, nodes[k].r)
			}
			for i, j := 0, len(rs)-1; i < j; i, j = i+1, j-1 {
				rs[i], rs[j] = rs[j], rs[i]
			}
			return Result{Found: true, Witness: string(rs), States: len(nodes)}, nil
		}
		for _, c := range classes {
			nx := &dstate{threads: make([][]uint32, n), matched: make([]bool, n)}
			if c.word {
				nx.prev = ctxWord
			} else {
				nx.prev = ctxNonWord
			}
			for i, l := range q.Langs {
				if cur.matched[i] {
					nx.matched[i] = true
					continue
				}
				rinsts, m := closure(l.Prog, cur.threads[i], cur.prev, false, c.word)
				if m {
					nx.matched[i] = true // search semantics: a match before this rune stays a match
					continue
				}
				set := map[uint32]bool{}
				for _, pc := range rinsts {
					in := &l.Prog.Inst[pc]
					if in.MatchRune(c.rep) {
						set[in.Out] = true
					}
				}
				// unanchored search: a new attempt may start after this rune
				set[uint32(l.Prog.Start)] = true
				t := make([]uint32, 0, len(set))
				for pc := range set {
					t = append(t, pc)
				}
				sort.Slice(t, func(a, b int) bool { return t[a] < t[b] })
				nx.threads[i] = t
			}
			k := nx.key()
			if _, ok := index[k]; ok {
				continue
			}
			index[k] = len(nodes)
			nodes = append(nodes, node{nx, qi, c.rep})
			if len(nodes) > max {
				return Result{States: len(nodes)}, fmt.Errorf("state limit %d exceeded", max)
			}
		}
	}
	return Result{Found: false, States: len(nodes)}, nil
}

// Intersects: is there a line in all languages? Returns a shortest witness.
func Intersects(langs ...*Lang) (Result, error) {
	q := &Query{Langs: langs, Accept: func(m []bool) bool {
		for _, b := range m {
			if !b {
				return false
			}
		}
		return true
	}}
	return q.Run()
}

// NotIncluded searches a string in a but not in b (witness of a ⊄ b).
func NotIncluded(a, b *Lang) (Result, error) {
	q := &Query{Langs: []*Lang{a, b}, Accept: func(m []bool) bool { return m[0] && !m[1] }}
	return q.Run()
}

// Differ searches a string in exactly one of a, b.
func Differ(a, b *Lang) (Result, error) {
	q := &Query{Langs: []*Lang{a, b}, Accept: func(m []bool) bool { return m[0] != m[1] }}
	return q.Run()
}

// AlphabetStar over-approximates the result of an unknown string
// transformation of a member of l that can only delete characters, reorder
// nothing and insert the runes of extra: (alphabet(l) ∪ extra)*.
func AlphabetStar(name string, l *Lang, extra string) (*Lang, error) {
	var ranges []rune
	any := false
	for i := range l.Prog.Inst {
		in := &l.Prog.Inst[i]
		switch in.Op {
		case syntax.InstRuneAny, syntax.InstRuneAnyNotNL:
			any = true
		case syntax.InstRune, syntax.InstRune1:
			if len(in.Rune) == 1 {
				ranges = append(ranges, in.Rune[0], in.Rune[0])
			}
			for j := 0; j+1 < len(in.Rune); j += 2 {
				ranges = append(ranges, in.Rune[j], in.Rune[j+1])
			}
		}
	}
	for _, r := range extra {
		ranges = append(ranges, r, r)
	}
	var re *syntax.Regexp
	if any {
		re = &syntax.Regexp{Op: syntax.OpStar, Sub: []*syntax.Regexp{{Op: syntax.OpAnyChar}}}
	} else {
		re = &syntax.Regexp{Op: syntax.OpStar, Sub: []*syntax.Regexp{{Op: syntax.OpCharClass, Rune: ranges}}}
	}
	return Full(name, re)
}
