package rx

import "testing"

func mustS(t *testing.T, p string) *Lang {
	l, err := SearchPattern(p, p)
	if err != nil {
		t.Fatal(err)
	}
	return l
}
func mustF(t *testing.T, p string) *Lang {
	l, err := FullPattern(p, p)
	if err != nil {
		t.Fatal(err)
	}
	return l
}

func TestBasics(t *testing.T) {
	inc := mustS(t, `##!>\s*include\s+(\S+)(?:\s*--\s*(.*?))?\s*$`)
	com := mustS(t, `^\s*##!(?:[^^$+><=]|$)`)
	r, err := Intersects(inc, com)
	if err != nil || !r.Found {
		t.Fatalf("expected intersection: %v %v", r, err)
	}
	t.Logf("witness %q states %d", r.Witness, r.States)
	inc2 := mustS(t, `^##!>\s*include\s+(\S+)(?:\s*--\s*(.*?))?\s*$`)
	r, err = Intersects(inc2, com)
	if err != nil || r.Found {
		t.Fatalf("expected empty intersection: %q %v", r.Witness, err)
	}
	a := mustF(t, `^(\d{6})(?:-chain(\d+))?(?:\.ra)?$`)
	b := mustF(t, `\d{6}(-chain\d+)?(\.ra)?`)
	r, err = Differ(a, b)
	if err != nil || r.Found {
		t.Fatalf("expected equivalent: %q %v", r.Witness, err)
	}
	c := mustF(t, `\d{6}(-chain\d*)?(\.ra)?`)
	r, _ = Differ(a, c)
	if !r.Found {
		t.Fatal("expected difference")
	}
	t.Logf("diff witness %q", r.Witness)
	sem := mustF(t, `v?([0-9]+)(\.[0-9]+)?(\.[0-9]+)?(-([0-9A-Za-z\-]+(\.[0-9A-Za-z\-]+)*))?(\+([0-9A-Za-z\-]+(\.[0-9A-Za-z\-]+)*))?`)
	grp := mustF(t, `\d+\.\d+\.\d+(-[a-z0-9-]+)?`)
	r, _ = NotIncluded(sem, grp)
	if !r.Found {
		t.Fatal("expected not included")
	}
	t.Logf("incl witness %q", r.Witness)
	wb := mustS(t, `\bfoo\b`)
	x := mustS(t, `^afoo$`)
	r, _ = Intersects(wb, x)
	if r.Found {
		t.Fatalf("word boundary broken: %q", r.Witness)
	}
	y := mustS(t, `^ foo!$`)
	r, _ = Intersects(wb, y)
	if !r.Found {
		t.Fatal("word boundary broken 2")
	}
}
