package rules

import (
	"fmt"
	"go/types"
	"sort"
	"strings"

	"golang.org/x/tools/go/ssa"

	"crsverif/internal/load"
)

const selfupdatePkg = "github.com/creativeprojects/go-selfupdate"

// RuleUpd: the self-update protocol (C20).
func (c *Ctx) RuleUpd() []*Result {
	validator := &Result{Rule: "UPD-VALIDATOR", MinInst: 1}
	api := &Result{Rule: "UPD-API", MinInst: 1}
	guard := &Result{Rule: "UPD-GUARD", MinInst: 1}
	found := &Result{Rule: "UPD-FOUND", MinInst: 1}

	var updaterVals []ssa.Value // results of NewUpdater
	for _, fn := range c.P.RepoFns {
		allInstrs(fn, func(in ssa.Instruction) {
			call, ok := in.(*ssa.Call)
			if !ok {
				return
			}
			f := staticCallee(&call.Call)
			fnName := load.FnName(fn)
			pos := c.P.InstrPos(call)
			switch {
			case isFn(f, selfupdatePkg, "NewUpdater"):
				validator.Instances++
				key := fnName + ":selfupdate.NewUpdater config"
				if v := resultValue(call, 0); v != nil {
					updaterVals = append(updaterVals, v)
				}
				fields := configFields(call.Call.Args[0])
				if fields == nil {
					validator.undecided(key, pos, "the Config given to NewUpdater is not a literal built in this function")
					return
				}
				var problems []string
				v, has := fields["Validator"]
				switch {
				case !has || isNilConst(v):
					problems = append(problems, "no Validator is configured: downloaded assets are installed without checking them against the release's checksum file")
				default:
					mi, ok := v.(*ssa.MakeInterface)
					pk, tn := "", ""
					if ok {
						pk, tn = namedOf(mi.X.Type())
					}
					if pk != selfupdatePkg || !(tn == "ChecksumValidator" || tn == "SHAValidator" || tn == "ECDSAValidator" || tn == "PGPValidator") {
						if ok && tn == "PatternValidator" {
							// a pattern validator dispatches to others; not analysed
							problems = append(problems, "the Validator is a PatternValidator whose rules are not analysed")
						} else {
							problems = append(problems, fmt.Sprintf("the Validator is %s.%s, not one of the library's checksum/signature validators", pk, tn))
						}
					}
				}
				for _, k := range []string{"Prerelease", "Draft"} {
					if fv, has := fields[k]; has {
						if bv, isC := constBool(fv); !isC || bv {
							problems = append(problems, k+" releases are enabled (possibly depending on the running version): a build can be moved to a release that is flagged as not final")
						}
					}
				}
				if fv, has := fields["Filters"]; has && !isNilConst(fv) {
					problems = append(problems, "Filters are configured: in go-selfupdate v1.4.1 a configured filter replaces the OS/architecture suffix match (detect.go: hasFilters), so an asset built for another platform can be selected")
				}
				for _, k := range []string{"OS", "Arch"} {
					if fv, has := fields[k]; has {
						if s, isC := constString(fv); isC && s != "" {
							problems = append(problems, fmt.Sprintf("%s is fixed to %q instead of the platform the program runs on", k, s))
						}
					}
				}
				if len(problems) > 0 {
					validator.bad(key, pos, strings.Join(problems, "; "))
				} else {
					validator.ok(key, pos, "Validator is a checksum/signature validator of the library; OS and Arch are left to runtime.GOOS/GOARCH")
				}
			case f != nil && objPkgPath(f) == selfupdatePkg && (f.Name() == "UpdateTo" || f.Name() == "UpdateSelf" || f.Name() == "UpdateCommand"):
				api.Instances++
				key := fnName + ":call " + qualName(f)
				if recvNamed(f) != "Updater" {
					api.bad(key, pos, fmt.Sprintf("the executable is replaced through the package-level %s, which builds a default updater without validator: the checksum file of the release is never downloaded or compared (the configured updater is only used to detect the release)", qualName(f)))
				} else {
					// receiver must be an updater configured with a validator in this package
					api.ok(key, pos, "installation goes through a method of *selfupdate.Updater (validates when a validator is configured)")
				}
				// UPD-GUARD: only on the strictly-newer side
				guard.Instances++
				gkey := fnName + ":install only when strictly newer"
				pred := func(cond ssa.Value, val bool) bool {
					cc, ok := cond.(*ssa.Call)
					if !ok {
						return false
					}
					cf := staticCallee(&cc.Call)
					if cf == nil || objPkgPath(cf) != selfupdatePkg || recvNamed(cf) != "Release" {
						return false
					}
					switch cf.Name() {
					case "LessOrEqual":
						return !val
					case "GreaterThan":
						return val
					}
					return false
				}
				if f.Name() == "UpdateTo" {
					guardedInCallers := func() bool {
						n := 0
						for _, e := range c.Graph().In[fn] {
							cc := callCommon(e.Site)
							if cc == nil || staticFn(cc) != fn {
								continue
							}
							n++
							if !c.guardedByEdges(e.Site, pred) {
								return false
							}
						}
						return n > 0
					}
					if c.guardedByEdges(call, pred) || guardedInCallers() {
						guard.ok(gkey, pos, "the install call is only reached on the !LessOrEqual / GreaterThan side of a comparison with the running version")
					} else {
						guard.bad(gkey, pos, "the executable can be replaced although the detected release is not strictly newer than the running version (the guard is missing or uses LessThan/Equal, which let an equal version through)")
					}
				} else {
					guard.ok(gkey, pos, f.Name()+" compares versions inside the library")
				}
			case f != nil && (objPkgPath(f) == selfupdatePkg || call.Call.IsInvoke() && load.InModule(objPkgPath(f))) && (f.Name() == "DetectLatest" || f.Name() == "DetectVersion"):
				api.Instances++
				if call.Call.IsInvoke() && load.InModule(objPkgPath(f)) {
					// an interface of the repository in front of the updater: the implementation behind it is judged where it is built (UPD-VALIDATOR)
					api.ok(fnName+":call "+qualName(f), pos, "detection goes through an interface of the repository; the value behind it is the configured *selfupdate.Updater (UPD-VALIDATOR)")
				} else if recvNamed(f) != "Updater" {
					api.bad(fnName+":call "+qualName(f), pos, "the release is detected through the package-level "+qualName(f)+", which uses the library's default updater: no validator is configured, so a release without (or with a wrong) checksum file is accepted")
				} else {
					api.ok(fnName+":call "+qualName(f), pos, "detection goes through the configured *selfupdate.Updater")
				}
				found.Instances++
				key := fnName + ":found result of " + f.Name()
				fv := resultValue(call, 1)
				if fv == nil {
					found.bad(key, pos, "the 'found' result is ignored: with no matching asset the release pointer is nil or meaningless and the failure is not reported")
					return
				}
				env := newEnvAt(call.Block())
				env.bools = map[ssa.Value]bool{fv: false}
				// the error of the detection itself is nil on the interesting paths
				if ev := resultValue(call, 2); ev != nil {
					env.facts[ev] = isNil
				}
				bad := ""
				c.explore(call.Block(), instrIndex(call)+1, env, exploreCB{
					ret: func(r *ssa.Return, e *pathEnv) {
						if op := retErrOperand(r); op == nil || e.nilnessOf(op) != nonNil {
							bad = fmt.Sprintf("with found == false the function returns without error at %s", c.P.InstrPos(r))
						}
					},
				})
				if bad != "" {
					found.bad(key, pos, bad)
				} else {
					found.ok(key, pos, "found == false leads to a non-nil error on every path")
				}
			}
		})
	}
	_ = updaterVals
	// UPD-VERSION: the running version handed to the updater is read when the command runs
	version := &Result{Rule: "UPD-VERSION", MinInst: 1}
	if cmd := c.Commands().ByName["self-update"]; cmd != nil {
		reach := c.Graph().Reach(c.EntryRoots(cmd))
		var fns []*ssa.Function
		for fn := range reach {
			fns = append(fns, fn)
		}
		sort.Slice(fns, func(i, j int) bool { return load.FnName(fns[i]) < load.FnName(fns[j]) })
		for _, fn := range fns {
			if !c.P.IsRepoFn(fn) {
				continue
			}
			allInstrs(fn, func(in ssa.Instruction) {
				call, ok := in.(*ssa.Call)
				if !ok {
					return
				}
				sf := staticFn(&call.Call)
				if sf == nil || load.ShortPkg(load.FnPkgPath(sf)) != "internal/updater" || len(call.Call.Args) == 0 || load.ShortPkg(load.FnPkgPath(fn)) == "internal/updater" {
					return
				}
				// the version is the first text argument (a context or other options may stand in front of it)
				vi := -1
				for i, a := range call.Call.Args {
					if a.Type().Underlying().String() == "string" {
						vi = i
						break
					}
				}
				if vi < 0 {
					return
				}
				version.Instances++
				key := load.FnName(fn) + ":running version handed to " + load.FnName(sf)
				loads, bad := 0, ""
				var walk func(v ssa.Value, in *ssa.Function, d int)
				walk = func(v ssa.Value, in *ssa.Function, d int) {
					if d > 8 || bad != "" {
						return
					}
					switch x := stripConv(v).(type) {
					case *ssa.Const:
					case *ssa.Phi:
						for _, e := range x.Edges {
							walk(e, in, d+1)
						}
					case *ssa.UnOp:
						if fa, ok := x.X.(*ssa.FieldAddr); ok && isNamed(fa.X.Type(), cobraPkg, "Command") {
							if st, ok := derefType(fa.X.Type()).Underlying().(*types.Struct); ok && st.Field(fa.Field).Name() == "Version" {
								if _, inReach := reach[in]; inReach {
									loads++
									return
								}
							}
						}
						if _, isFree := x.X.(*ssa.FreeVar); isFree {
							bad = "a value captured when the command object was built"
							return
						}
						bad = fmt.Sprintf("a value of unknown origin (%T)", x.X)
					case *ssa.Parameter:
						pi := paramIndex(in, x)
						n := 0
						for _, e := range c.Graph().In[in] {
							cc := callCommon(e.Site)
							if cc == nil || staticFn(cc) != in || pi < 0 || pi >= len(cc.Args) {
								continue
							}
							n++
							walk(cc.Args[pi], e.Caller, d+1)
						}
						if n == 0 {
							bad = "a parameter without a static caller"
						}
					case *ssa.Call:
						if f := staticCallee(&x.Call); f != nil && objPkgPath(f) == "cmp" && f.Name() == "Or" {
							// cmp.Or(a, b, ...): the first non-zero argument
							for _, a := range x.Call.Args {
								if sl, ok := a.(*ssa.Slice); ok {
									for _, e := range variadicElems(sl) {
										walk(e, in, d+1)
									}
								} else {
									walk(a, in, d+1)
								}
							}
							return
						}
						hf := staticFn(&x.Call)
						if hf == nil || !c.P.IsRepoFn(hf) || len(hf.Blocks) == 0 {
							bad = "the result of " + calleeLabel(&x.Call)
							return
						}
						allInstrs(hf, func(in2 ssa.Instruction) {
							if r, ok := in2.(*ssa.Return); ok && len(r.Results) > 0 {
								walk(r.Results[0], hf, d+1)
							}
						})
					case *ssa.FreeVar:
						bad = "a value captured when the command object was built"
					default:
						bad = fmt.Sprintf("a value of unknown origin (%T)", v)
					}
				}
				walk(call.Call.Args[vi], fn, 0)
				if bad == "" && loads > 0 {
					version.ok(key, c.P.InstrPos(call), "the version field of the root command, read when the command runs")
				} else {
					if bad == "" {
						bad = "a constant"
					}
					version.bad(key, c.P.InstrPos(call), "the running version is "+bad+", not the root command's version read when self-update runs (it is computed earlier, e.g. when the command is constructed at package initialisation, before main sets the version): every build reports the placeholder version and reinstalls a release that is not newer")
				}
			})
		}
	}
	return []*Result{validator, api, guard, found, version, c.RuleBuildVars(), c.RuleUpdArgs(), c.RuleChecksumName(), inPkg(c.RuleShadowParam(), 0, "internal/updater", "repository"), c.RuleRecvCopy()}
}

// configFields reads the fields of a struct literal passed by value.
func configFields(v ssa.Value) map[string]ssa.Value {
	ld, ok := v.(*ssa.UnOp)
	if !ok {
		return nil
	}
	al, ok := ld.X.(*ssa.Alloc)
	if !ok {
		return nil
	}
	st, ok := derefType(al.Type()).Underlying().(*types.Struct)
	if !ok {
		return nil
	}
	out := map[string]ssa.Value{}
	for _, r := range referrers(al) {
		fa, ok := r.(*ssa.FieldAddr)
		if !ok {
			continue
		}
		for _, rr := range referrers(fa) {
			if s, ok := rr.(*ssa.Store); ok && s.Addr == ssa.Value(fa) {
				out[st.Field(fa.Field).Name()] = s.Val
			}
		}
	}
	return out
}
