package rules

func init() {
	Properties["X-RX"] = &Property{ID: "X-RX", Level: "other", Run: func(c *Ctx, tier string) []*Result {
		return []*Result{c.RuleRxDisjoint(false), c.RuleRxGrammar(), c.RuleRxGroups(), c.RuleRxRebuild()}
	}}
	Properties["X-FS"] = &Property{ID: "X-FS", Level: "other", Run: func(c *Ctx, tier string) []*Result {
		return []*Result{c.RuleFsWrite(), c.RuleFsGuard([]string{"format", "renumber-tests"}), c.RuleFsSame([]string{"format", "renumber-tests"}), c.RuleFsTarget([]string{"format", "update", "renumber-tests", "update-copyright", "self-update"})}
	}}
	Properties["X-NUM"] = &Property{ID: "X-NUM", Level: "other", Run: func(c *Ctx, tier string) []*Result {
		return []*Result{c.RuleNarrow(), c.RuleSiblingRuleId(), c.RuleSiblingLocator(), c.RuleCompareVerdict()}
	}}
	Properties["X-INCL"] = &Property{ID: "X-INCL", Level: "other", Run: func(c *Ctx, tier string) []*Result {
		return []*Result{c.RuleRxIncl()}
	}}
	Properties["X-TXT"] = &Property{ID: "X-TXT", Level: "other", Run: func(c *Ctx, tier string) []*Result {
		return []*Result{c.RuleEscParity(), c.RuleEscMatch(), c.RuleScanBound(), c.RuleFlagSet(), c.RuleSanitize()}
	}}
	Properties["X-ISO"] = &Property{ID: "X-ISO", Level: "other", Run: func(c *Ctx, tier string) []*Result {
		return []*Result{c.RuleIsoFresh(), c.RuleIsoGlobal("update", "compare", "format", "renumber-tests", "update-copyright"), c.RuleIsoOwner(), c.RuleFlagsReject()}
	}}
	Properties["X-MISC"] = &Property{ID: "X-MISC", Level: "other", Run: func(c *Ctx, tier string) []*Result {
		return append(c.RuleUpd(), c.RuleValidate(), c.RuleResolve(), c.RuleSplitJoinFrame(), c.RuleOrderKey())
	}}
	Properties["X-EXTRA"] = &Property{ID: "X-EXTRA", Level: "other", Run: func(c *Ctx, tier string) []*Result {
		return []*Result{c.RuleTemplate(nil), c.RuleFsAlways([]string{"format", "renumber-tests", "update-copyright"}), c.RuleWalkSkip(), c.RuleFormatOnly(), c.RuleSuffixOps(), c.RuleIdxParam(), c.RuleErrFlags()}
	}}
	Properties["X-MAP"] = &Property{ID: "X-MAP", Level: "other", Run: func(c *Ctx, tier string) []*Result {
		return []*Result{c.RuleMapOrder(), c.RuleDefFragment(), c.RuleNondetSrc([]string{"generate", "update", "compare", "format"})}
	}}
	Properties["X-R7"] = &Property{ID: "X-R7", Level: "other", Run: func(c *Ctx, tier string) []*Result {
		return []*Result{c.RuleErrorfNil(), c.RuleLineKeep(c.lineKeepScope(), 0), c.RuleLitGuard(), c.RuleLocComment(), c.RuleDefKept(), c.RuleCacheReader(), c.RuleAppendAlias(), c.RulePathForm(), c.RuleLoopReplace(), c.RuleStdoutNone("update"), c.RuleOperandVerbatim(), c.RuleWalkStop()}
	}}
	Properties["X-R9"] = &Property{ID: "X-R9", Level: "other", Run: func(c *Ctx, tier string) []*Result {
		return []*Result{c.RuleCaptureRaw(), c.RuleFormatLine(), c.RuleRecvCopy(), c.RuleIdxCall()}
	}}
	Properties["X-R5"] = &Property{ID: "X-R5", Level: "other", Run: func(c *Ctx, tier string) []*Result {
		return []*Result{c.RuleReadLine(), c.RuleBorrow(), c.RuleBufwFlush(), c.RuleSearchResume(), c.RuleIdxArray(), c.RuleIncludeFrame(), c.RuleIncludePass(), c.RuleCmdTypeEnum(), c.RuleBuildVars(), c.RuleExclOrder(), c.RuleScanSplit(), c.RuleDoubleWrap(), c.RuleGoShared(), c.RuleCtorDefaults()}
	}}
}
