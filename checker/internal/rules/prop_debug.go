package rules

func init() {
	Properties["X-RX"] = &Property{ID: "X-RX", Level: "other", Run: func(c *Ctx, tier string) []*Result {
		return []*Result{c.RuleRxDisjoint(false), c.RuleRxGrammar(), c.RuleRxGroups(), c.RuleRxRebuild()}
	}}
	Properties["X-FS"] = &Property{ID: "X-FS", Level: "other", Run: func(c *Ctx, tier string) []*Result {
		return []*Result{c.RuleFsWrite(), c.RuleFsGuard([]string{"format", "renumber-tests"}), c.RuleFsSame([]string{"format", "renumber-tests"}), c.RuleFsTarget([]string{"format", "update", "renumber-tests", "update-copyright", "self-update"})}
	}}
	Properties["X-NUM"] = &Property{ID: "X-NUM", Level: "other", Run: func(c *Ctx, tier string) []*Result {
		return []*Result{c.RuleNarrow(), c.RuleSiblingRuleId(), c.RuleSiblingLocator(), c.RuleCompareVerdict()}
	}}
	Properties["X-MAP"] = &Property{ID: "X-MAP", Level: "other", Run: func(c *Ctx, tier string) []*Result {
		return []*Result{c.RuleMapOrder(), c.RuleDefFragment(), c.RuleNondetSrc([]string{"generate", "update", "compare", "format"})}
	}}
}
