package rules

func init() {
	Properties["X-RX"] = &Property{ID: "X-RX", Level: "other", Run: func(c *Ctx, tier string) []*Result {
		return []*Result{c.RuleRxDisjoint(false), c.RuleRxGrammar(), c.RuleRxGroups(), c.RuleRxRebuild()}
	}}
}
