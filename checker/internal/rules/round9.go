package rules

import (
	"fmt"
	"go/token"
	"go/types"
	"sort"
	"strings"

	"golang.org/x/tools/go/ssa"

	"crsverif/internal/load"
)

// Rules added after the ninth round of independently written changes
// (hardening, input validation, diagnostics).

// whiteSpaceOnly: every byte of s is a blank, tab, CR, LF, VT or FF.
func whiteSpaceOnly(s string) bool {
	for i := 0; i < len(s); i++ {
		switch s[i] {
		case ' ', '\t', '\n', '\r', '\v', '\f':
		default:
			return false
		}
	}
	return true
}

// textRewrite classifies a call of the standard library on a text: "" when the
// call hands its first argument on unchanged or only removes white space at
// its ends; otherwise a description of what it does to the characters.
func textRewrite(cc *ssa.CallCommon) (arg ssa.Value, what string, isText bool) {
	f := staticCallee(cc)
	if f == nil {
		return nil, "", false
	}
	pkg := objPkgPath(f)
	name := f.Name()
	args := cc.Args
	switch pkg {
	case "strings", "bytes":
		if recvNamed(f) != "" {
			if recvNamed(f) == "Replacer" && name == "Replace" && len(args) > 1 {
				return args[1], "a strings.Replacer", true
			}
			return nil, "", false
		}
		if len(args) == 0 {
			return nil, "", false
		}
		switch name {
		case "TrimSpace", "Clone":
			return args[0], "", true
		case "Trim", "TrimLeft", "TrimRight":
			if cut, ok := constString(stripConv(args[1])); ok && whiteSpaceOnly(cut) {
				return args[0], "", true
			}
			return args[0], pkg + "." + name + " with a cutset that is not white space", true
		case "TrimSuffix", "TrimPrefix":
			if cut, ok := constString(stripConv(args[1])); ok && whiteSpaceOnly(cut) {
				return args[0], "", true
			}
			return args[0], pkg + "." + name, true
		case "Replace", "ReplaceAll", "Map", "ToValidUTF8", "ToLower", "ToUpper", "ToTitle", "Title", "TrimFunc", "TrimLeftFunc", "TrimRightFunc", "Repeat":
			a := args[0]
			if name == "Map" && len(args) > 1 {
				a = args[1]
			}
			return a, pkg + "." + name, true
		}
	case "regexp":
		if recvNamed(f) == "Regexp" && strings.HasPrefix(name, "ReplaceAll") && len(args) > 1 {
			return args[1], "(*regexp.Regexp)." + name, true
		}
	}
	return nil, "", false
}

// ---------- CAPTURE-RAW ----------

// RuleCaptureRaw (C16, C05): what a directive line says is what the parser
// acts on. The parser stores the captured groups of the directive patterns
// into the fields of its parsed-line record (include file name, flags, prefix,
// suffix), and everything downstream - the flag validation that rejects an
// unsupported flag, the file lookup - sees only that record. A "normalisation"
// between the capture and the record (dropping every non-letter of a flags
// line, lower-casing an include name) hides characters of the line from the
// validation: `##!+ -s`, `##!+ i1` are then accepted as if the unsupported
// characters were not there. The rule: every text field of the record that is
// filled from a captured group is filled with the group itself; trimming white
// space at its ends is the only rewriting accepted, and helpers of the
// repository are followed into their results.
func (c *Ctx) RuleCaptureRaw() *Result {
	res := &Result{Rule: "CAPTURE-RAW", MinInst: 3}
	parserPkg := load.ModulePath + "/regex/parser"
	// is v an element of a []string (the result of FindStringSubmatch)
	isCapture := func(v ssa.Value) bool {
		ld, ok := stripConv(v).(*ssa.UnOp)
		if !ok || ld.Op != token.MUL {
			return false
		}
		ia, ok := ld.X.(*ssa.IndexAddr)
		if !ok {
			return false
		}
		sl, ok := ia.X.Type().Underlying().(*types.Slice)
		return ok && isStringType(sl.Elem())
	}
	// rewrites on the way from a captured group to v ("" = none); found reports whether a capture was reached
	var trace func(v ssa.Value, params map[*ssa.Parameter]bool, d int, seen map[ssa.Value]bool) (rewrites []string, found bool)
	trace = func(v ssa.Value, params map[*ssa.Parameter]bool, d int, seen map[ssa.Value]bool) ([]string, bool) {
		v = stripConv(v)
		if d > 8 || seen[v] {
			return nil, false
		}
		seen[v] = true
		if isCapture(v) {
			return nil, true
		}
		switch x := v.(type) {
		case *ssa.Parameter:
			return nil, params[x]
		case *ssa.Phi:
			var all []string
			any := false
			for _, e := range x.Edges {
				r, f := trace(e, params, d+1, seen)
				if f {
					any = true
					all = append(all, r...)
				}
			}
			return all, any
		case *ssa.Call:
			if a, what, ok := textRewrite(&x.Call); ok {
				r, f := trace(a, params, d+1, seen)
				if f && what != "" {
					r = append(r, fmt.Sprintf("%s at %s", what, c.P.InstrPos(x)))
				}
				return r, f
			}
			sf := staticFn(&x.Call)
			if sf == nil || !c.P.IsRepoFn(sf) || len(sf.Blocks) == 0 || sf.Signature.Results().Len() == 0 || !isStringType(sf.Signature.Results().At(0).Type()) {
				return nil, false
			}
			// which parameters of the helper carry the capture
			inner := map[*ssa.Parameter]bool{}
			var outer []string
			for i, a := range x.Call.Args {
				if i >= len(sf.Params) || !isStringType(sf.Params[i].Type()) {
					continue
				}
				if r, f := trace(a, params, d+1, seen); f {
					inner[sf.Params[i]] = true
					outer = append(outer, r...)
				}
			}
			if len(inner) == 0 {
				return nil, false
			}
			any := false
			allInstrs(sf, func(in ssa.Instruction) {
				if r, ok := in.(*ssa.Return); ok && len(r.Results) > 0 && !c.Loud().BlockDies(r.Block()) {
					if rr, f := trace(r.Results[0], inner, d+1, map[ssa.Value]bool{}); f {
						any = true
						outer = append(outer, rr...)
					}
				}
			})
			return outer, any
		}
		return nil, false
	}
	type site struct {
		fn    *ssa.Function
		st    *ssa.Store
		field string
	}
	var sites []site
	for _, fn := range c.P.RepoFns {
		if fn.Pkg == nil || fn.Pkg.Pkg.Path() != parserPkg || !c.liveFn(fn) {
			continue
		}
		allInstrs(fn, func(in ssa.Instruction) {
			st, ok := in.(*ssa.Store)
			if !ok || !isStringType(st.Val.Type()) {
				return
			}
			fa, ok := st.Addr.(*ssa.FieldAddr)
			if !ok {
				return
			}
			sites = append(sites, site{fn, st, fieldName(fa)})
		})
	}
	sort.Slice(sites, func(i, j int) bool { return sites[i].st.Pos() < sites[j].st.Pos() })
	count := map[string]int{}
	for _, s := range sites {
		rew, found := trace(s.st.Val, nil, 0, map[ssa.Value]bool{})
		if !found {
			continue
		}
		res.Instances++
		key := fmt.Sprintf("%s:captured group stored in %s", load.FnName(s.fn), s.field)
		count[key]++
		if count[key] > 1 {
			key = fmt.Sprintf("%s#%d", key, count[key])
		}
		if len(rew) > 0 {
			res.bad(key, c.P.InstrPos(s.st), fmt.Sprintf("the captured text is rewritten on its way into the parsed line (%s): characters the line carries are dropped or changed before anything validates them, so what is checked (supported flags, the name of the file to open) is not what the line says", strings.Join(uniq(rew), "; ")))
		} else {
			res.ok(key, c.P.InstrPos(s.st), "the field is the captured group itself (white space at its ends aside)")
		}
	}
	return res
}

// ---------- FORMAT-LINE ----------

// RuleFormatLine (C10): format changes white space only. The formatter reads
// the file through the parser in format-only mode, and what the parser emits
// in that mode is the text processLine works on and format writes back. The
// rule: in the function that carries the format-only switch, the text written
// on the side where the switch is on has not gone through a function that
// changes characters - ToValidUTF8, Replace, a case conversion, a pattern
// substitution, a trim of something other than white space - anywhere between
// the reader and the write (helpers of the repository are followed into their
// results). Reading functions, conversions and white-space trims are
// accepted; a hand-written loop that rewrites the bytes is not recognised.
func (c *Ctx) RuleFormatLine() *Result {
	res := &Result{Rule: "FORMAT-LINE", MinInst: 1}
	fmtFns := c.cmdFns("format")
	isTextWrite := func(cc *ssa.CallCommon) bool {
		f := staticCallee(cc)
		if f == nil || !(f.Name() == "WriteString" || f.Name() == "Write") || len(cc.Args) < 2 {
			return false
		}
		p := objPkgPath(f)
		return p == "bytes" || p == "bufio" || p == "strings" || p == "io"
	}
	// the argument of a call that is text handed to a writer: the write itself, or a
	// helper of the repository that writes its parameter
	writtenArg := func(cc *ssa.CallCommon) ssa.Value {
		if isTextWrite(cc) {
			return cc.Args[len(cc.Args)-1]
		}
		sf := staticFn(cc)
		if sf == nil || !c.P.IsRepoFn(sf) || len(sf.Blocks) == 0 {
			return nil
		}
		var arg ssa.Value
		allInstrs(sf, func(in ssa.Instruction) {
			ic := callCommon(in)
			if ic == nil || !isTextWrite(ic) {
				return
			}
			if p, ok := stripConv(ic.Args[len(ic.Args)-1]).(*ssa.Parameter); ok {
				if pi := paramIndex(sf, p); pi >= 0 && pi < len(cc.Args) {
					arg = cc.Args[pi]
				}
			}
		})
		return arg
	}
	// the format-only switch: a bool parameter that format sets to the constant true,
	// and the parameters it is handed on to
	switches := map[*ssa.Function]*ssa.Parameter{}
	for _, fn := range c.P.RepoFns {
		for i, p := range fn.Params {
			if bt, ok := p.Type().Underlying().(*types.Basic); !ok || bt.Kind() != types.Bool {
				continue
			}
			for _, e := range c.Graph().In[fn] {
				cc := callCommon(e.Site)
				if cc == nil || staticFn(cc) != fn || i >= len(cc.Args) || !fmtFns[load.FnName(e.Caller)] {
					continue
				}
				if bv, ok := constBool(cc.Args[i]); ok && bv {
					switches[fn] = p
				}
			}
		}
	}
	for round := 0; round < 3; round++ {
		for _, fn := range c.P.RepoFns {
			sw := switches[fn]
			if sw == nil {
				continue
			}
			allInstrs(fn, func(in ssa.Instruction) {
				cc := callCommon(in)
				if cc == nil {
					return
				}
				sf := staticFn(cc)
				if sf == nil || !c.P.IsRepoFn(sf) || switches[sf] != nil {
					return
				}
				for ai, a := range cc.Args {
					if a == ssa.Value(sw) && ai < len(sf.Params) {
						switches[sf] = sf.Params[ai]
					}
				}
			})
		}
	}
	for _, fn := range c.P.RepoFns {
		sw := switches[fn]
		if sw == nil || len(fn.Blocks) == 0 {
			continue
		}
		swTrue := func(cond ssa.Value, val bool) bool { return cond == ssa.Value(sw) && val }
		// a character-changing call between the reader and v ("" = none found)
		var rewritten func(v ssa.Value, d int, seen map[ssa.Value]bool) string
		rewritten = func(v ssa.Value, d int, seen map[ssa.Value]bool) string {
			v = stripConv(v)
			if d > 10 || seen[v] {
				return ""
			}
			seen[v] = true
			fromCall := func(call *ssa.Call, idx int) string {
				if a, what, ok := textRewrite(&call.Call); ok {
					if what != "" {
						return fmt.Sprintf("the line passes through %s at %s", what, c.P.InstrPos(call))
					}
					return rewritten(a, d+1, seen)
				}
				if bi, ok := call.Call.Value.(*ssa.Builtin); ok && bi.Name() == "append" {
					for _, a := range call.Call.Args {
						if p := rewritten(a, d+1, seen); p != "" {
							return p
						}
					}
					return ""
				}
				sf := staticFn(&call.Call)
				if sf == nil || !c.P.IsRepoFn(sf) || len(sf.Blocks) == 0 {
					return ""
				}
				prob := ""
				allInstrs(sf, func(in ssa.Instruction) {
					if r, ok := in.(*ssa.Return); ok && idx < len(r.Results) && prob == "" && !c.Loud().BlockDies(r.Block()) {
						prob = rewritten(r.Results[idx], d+1, seen)
					}
				})
				return prob
			}
			switch x := v.(type) {
			case *ssa.Const:
				if s, ok := constString(x); ok && !whiteSpaceOnly(s) {
					return fmt.Sprintf("the constant %s is written with the line", x.Name())
				}
			case *ssa.Phi:
				for _, e := range x.Edges {
					if p := rewritten(e, d+1, seen); p != "" {
						return p
					}
				}
			case *ssa.BinOp:
				if x.Op == token.ADD {
					for _, op := range []ssa.Value{x.X, x.Y} {
						if p := rewritten(op, d+1, seen); p != "" {
							return p
						}
					}
				}
			case *ssa.Slice:
				return rewritten(x.X, d+1, seen)
			case *ssa.Call:
				return fromCall(x, 0)
			case *ssa.Extract:
				if call, ok := x.Tuple.(*ssa.Call); ok {
					return fromCall(call, x.Index)
				}
			}
			return ""
		}
		n := 0
		allInstrs(fn, func(in ssa.Instruction) {
			call, ok := in.(*ssa.Call)
			if !ok {
				return
			}
			arg := writtenArg(&call.Call)
			if arg == nil {
				return
			}
			arg = stripConv(arg)
			// the parts of the argument that exist only when the switch is on
			var leaves []ssa.Value
			var collect func(v ssa.Value, d int, seen map[ssa.Value]bool)
			collect = func(v ssa.Value, d int, seen map[ssa.Value]bool) {
				v = stripConv(v)
				if d > 6 || seen[v] {
					return
				}
				seen[v] = true
				if ph, ok := v.(*ssa.Phi); ok {
					for i, e := range ph.Edges {
						pred := ph.Block().Preds[i]
						if c.Loud().BlockDies(pred) || c.Loud().FirstLoud(pred) >= 0 {
							continue
						}
						if len(pred.Instrs) > 0 && c.guardedByEdges(pred.Instrs[len(pred.Instrs)-1], swTrue) {
							leaves = append(leaves, e)
							continue
						}
						if _, isPhi := stripConv(e).(*ssa.Phi); isPhi {
							collect(e, d+1, seen)
						}
					}
				}
			}
			if c.guardedByEdges(call, swTrue) {
				leaves = append(leaves, arg)
			} else {
				collect(arg, 0, map[ssa.Value]bool{})
			}
			for _, l := range leaves {
				n++
				res.Instances++
				key := fmt.Sprintf("%s:text emitted in format-only mode", load.FnName(fn))
				if n > 1 {
					key = fmt.Sprintf("%s#%d", key, n)
				}
				if p := rewritten(l, 0, map[ssa.Value]bool{}); p != "" {
					res.bad(key, c.P.InstrPos(call), p+" before it is handed to the formatter: format then writes back a line with other characters than the file had, where only white space may change")
				} else {
					res.ok(key, c.P.InstrPos(call), "no character-changing function lies between the reader and the text written in format-only mode (reads, conversions, concatenation with white space and white-space trims only)")
				}
			}
		})
	}
	return res
}

// ---------- RECV-COPY ----------

// RuleRecvCopy (every property whose verdicts, options or error states are kept
// in struct fields): a method with a value receiver works on a copy of the
// object. A store into a field of that copy (`c.failed = true`, a validator set
// on `f.config`), or a call of a pointer-receiver method on a field that is
// held by value (`s.Scanner.Scan()` on an embedded bufio.Scanner), changes the
// copy only: when the method returns the change is gone - the failure flag the
// caller reads is still false, the scanner whose Err() the caller asks never
// scanned. go vet does not report it. The rule: in a method with a value
// receiver of struct type, no field of the receiver copy is stored to, and no
// pointer-receiver method is called on the address of one of its by-value
// struct fields, unless the copy itself is handed on afterwards (returned, or
// passed on as a whole - the builder style `func (o opts) with(x) opts`).
func (c *Ctx) RuleRecvCopy() *Result {
	res := &Result{Rule: "RECV-COPY", MinInst: 0}
	n := 0
	for _, fn := range c.P.RepoFns {
		if fn.Signature.Recv() == nil || len(fn.Params) == 0 || len(fn.Blocks) == 0 || fn.Synthetic != "" {
			continue
		}
		recv := fn.Params[0]
		if _, isPtr := recv.Type().(*types.Pointer); isPtr {
			continue
		}
		if _, isStruct := recv.Type().Underlying().(*types.Struct); !isStruct {
			continue
		}
		// the memory cell the receiver was copied into (present when the method takes its address)
		var cell *ssa.Alloc
		for _, r := range referrers(recv) {
			if st, ok := r.(*ssa.Store); ok && st.Val == ssa.Value(recv) {
				if al, ok := st.Addr.(*ssa.Alloc); ok {
					cell = al
				}
			}
		}
		if cell == nil {
			continue
		}
		// the copy handed on as a whole: loaded and returned / passed / stored
		handedOn := false
		for _, r := range referrers(cell) {
			if ld, ok := r.(*ssa.UnOp); ok && ld.Op == token.MUL {
				for _, rr := range referrers(ld) {
					switch rr.(type) {
					case *ssa.Return, *ssa.Call, *ssa.Store, *ssa.MakeInterface, *ssa.Defer, *ssa.Go:
						handedOn = true
					}
				}
			}
			// its address escapes (a closure, a call): followed no further
			switch x := r.(type) {
			case *ssa.MakeClosure, *ssa.Return:
				handedOn = true
			case *ssa.Call:
				_ = x
				handedOn = true
			}
		}
		if handedOn {
			continue
		}
		count := map[string]int{}
		// the fields of the copy, and the fields of its by-value struct fields
		var fields []*ssa.FieldAddr
		var collect func(v ssa.Value, d int)
		collect = func(v ssa.Value, d int) {
			for _, r := range referrers(v) {
				if fa, ok := r.(*ssa.FieldAddr); ok && d < 4 {
					fields = append(fields, fa)
					collect(fa, d+1)
				}
			}
		}
		collect(cell, 0)
		for _, fa := range fields {
			for _, rr := range referrers(fa) {
				what := ""
				switch x := rr.(type) {
				case *ssa.Store:
					if x.Addr == ssa.Value(fa) && !c.copyFieldReadLater(cell, fa, x) {
						what = "assignment to " + fieldName(fa)
					}
				case *ssa.Call:
					// a pointer-receiver method on a field held by value
					if f := staticCallee(&x.Call); f != nil && len(x.Call.Args) > 0 && x.Call.Args[0] == ssa.Value(fa) {
						if sig, ok := f.Type().(*types.Signature); ok && sig.Recv() != nil {
							if _, ptr := sig.Recv().Type().(*types.Pointer); ptr {
								if _, byValue := derefType(fa.Type()).Underlying().(*types.Struct); byValue {
									what = "call of " + qualName(f) + " on " + fieldName(fa)
								}
							}
						}
					}
				}
				if what == "" {
					continue
				}
				n++
				res.Instances++
				key := fmt.Sprintf("%s:%s of the receiver copy", load.FnName(fn), what)
				count[key]++
				if count[key] > 1 {
					continue
				}
				res.bad(key, c.P.InstrPos(rr.(ssa.Instruction)), fmt.Sprintf("%s has a value receiver: the %s changes the method's private copy of the object and is lost when the method returns - what the caller reads afterwards (a failure flag, an option, the state or error of a scanner) never sees it", load.FnName(fn), what))
			}
		}
	}
	res.Instances++
	res.ok("repository:methods with value receivers", "-", fmt.Sprintf("%d lost updates of a receiver copy found", n))
	return res
}

// copyFieldReadLater: after the store st into field fa of the receiver copy the method itself reads
// that field again (a working copy that is normalised and then used): the update is not lost, it
// was never meant to leave the method.
func (c *Ctx) copyFieldReadLater(cell *ssa.Alloc, fa *ssa.FieldAddr, st *ssa.Store) bool {
	samePath := func(a, b *ssa.FieldAddr) bool {
		for {
			if a.Field != b.Field {
				return false
			}
			pa, okA := a.X.(*ssa.FieldAddr)
			pb, okB := b.X.(*ssa.FieldAddr)
			if okA != okB {
				return false
			}
			if !okA {
				return a.X == b.X
			}
			a, b = pa, pb
		}
	}
	found := false
	allInstrs(cell.Parent(), func(in ssa.Instruction) {
		ld, ok := in.(*ssa.UnOp)
		if !ok || ld.Op != token.MUL || found {
			return
		}
		other, ok := ld.X.(*ssa.FieldAddr)
		if !ok || !samePath(other, fa) {
			return
		}
		// a read that can follow the store: in a block the store's block reaches, or later in its block
		if ld.Block() == st.Block() {
			if instrIndex(ld) > instrIndex(st) {
				found = true
			}
			return
		}
		seen := map[*ssa.BasicBlock]bool{}
		stack := append([]*ssa.BasicBlock{}, st.Block().Succs...)
		for len(stack) > 0 {
			b := stack[len(stack)-1]
			stack = stack[:len(stack)-1]
			if seen[b] {
				continue
			}
			seen[b] = true
			if b == ld.Block() {
				found = true
				return
			}
			stack = append(stack, b.Succs...)
		}
	})
	return found
}

// ---------- IDX-CALL ----------

// RuleIdxCall (C19): strings.Fields(s)[k], strings.Split(s, sep)[k] with k > 0,
// strings.SplitN / bytes.Fields likewise - an element of a library result whose
// length depends on the text - is read only behind a length test. Fields of a
// text that consists of separators (which, for Fields, include vertical tab,
// no-break space and other Unicode blanks that `\s` in a pattern does not
// match) is empty.
func (c *Ctx) RuleIdxCall() *Result {
	res := &Result{Rule: "IDX-CALL", MinInst: 0}
	n := 0
	for _, fn := range c.P.RepoFns {
		if !c.liveFn(fn) {
			continue
		}
		allInstrs(fn, func(in ssa.Instruction) {
			var base ssa.Value
			var idx ssa.Value
			switch x := in.(type) {
			case *ssa.IndexAddr:
				base, idx = x.X, x.Index
			case *ssa.Index:
				base, idx = x.X, x.Index
			default:
				return
			}
			call, ok := stripConv(base).(*ssa.Call)
			if !ok {
				return
			}
			f := staticCallee(&call.Call)
			if f == nil || !(objPkgPath(f) == "strings" || objPkgPath(f) == "bytes") {
				return
			}
			min := 0
			switch f.Name() {
			case "Fields", "FieldsFunc":
			case "Split", "SplitN", "SplitAfter", "SplitAfterN":
				min = 1 // never empty for a non-empty separator
			default:
				return
			}
			k, isConst := constInt(idx)
			if !isConst || int(k) < min {
				return
			}
			n++
			res.Instances++
			key := fmt.Sprintf("%s:%s(...)[%d]", load.FnName(fn), qualName(f), k)
			if knownMinLen(c.factsAt(in), call, int(k)+1) {
				res.ok(key, c.P.InstrPos(in), "behind a length test")
				return
			}
			res.bad(key, c.P.InstrPos(in), fmt.Sprintf("element %d of the result of %s is read without a length test: for a text that yields fewer parts (for Fields: a text of blanks only, which includes vertical tab and no-break space) this is an index out of range", k, qualName(f)))
		})
	}
	res.Instances++
	res.ok("repository:indexed library results", "-", fmt.Sprintf("%d found", n))
	return res
}
