package rules

import (
	"fmt"
	"go/token"
	"go/types"
	"sort"
	"strings"

	"golang.org/x/tools/go/ssa"

	"crsverif/internal/load"
)

// ---------- VALIDATE ----------

// RuleValidate: failures that are not error values are tested and the failing side is loud.
func (c *Ctx) RuleValidate() *Result {
	res := &Result{Rule: "VALIDATE", MinInst: 5}
	ctxPkg := load.ModulePath + "/regex/processors"
	dScope := c.reachFromNamed(func(n string) bool { return n == "(*regex/operators.Operator).Run" })
	for _, fn := range c.P.RepoFns {
		fnName := load.FnName(fn)
		allInstrs(fn, func(in ssa.Instruction) {
			switch x := in.(type) {
			case *ssa.UnOp:
				// (a) element of a Glob result
				if x.Op != token.MUL {
					return
				}
				ia, ok := x.X.(*ssa.IndexAddr)
				if !ok || !isGlobResult(ia.X) {
					return
				}
				res.Instances++
				key := fnName + ":element of filepath.Glob result"
				pos := c.P.InstrPos(x)
				if !c.guardedByEdges(x, globNonEmptyPred) {
					res.bad(key, pos, "an element of the glob result is used without a test that anything matched: with no matching file the command panics or works on nothing")
					return
				}
				if !c.guardedByEdges(x, globSinglePred) {
					res.bad(key, pos, "the first glob match is used without a test that it is the only one: with several matching files one is picked silently")
					return
				}
				// the failing sides must be loud
				if why := c.failingSidesLoud(fn, func(cond ssa.Value, val bool) bool {
					return globNonEmptyPred(cond, !val) || globSinglePred(cond, !val)
				}); why != "" {
					res.bad(key, pos, "the test for 'none or several files matched' does not fail loudly: "+why)
					return
				}
				res.ok(key, pos, "guarded by non-empty and at-most-one tests whose failing sides end in a non-nil error or a loud exit")
			case *ssa.Lookup:
				// (b) reads of the stash
				mt, ok := x.X.Type().Underlying().(*types.Map)
				if !ok {
					return
				}
				_ = mt
				ld, ok := x.X.(*ssa.UnOp)
				if !ok {
					return
				}
				fa, ok := ld.X.(*ssa.FieldAddr)
				if !ok || !isNamed(fa.X.Type(), ctxPkg, "Context") {
					return
				}
				res.Instances++
				key := fnName + ":lookup of a stored expression"
				pos := c.P.InstrPos(x)
				if !x.CommaOk {
					res.bad(key, pos, "the stash is read without the comma-ok form: an unknown stored name yields the empty string instead of a failure")
					return
				}
				var okV ssa.Value
				for _, r := range referrers(x) {
					if ex, isEx := r.(*ssa.Extract); isEx && ex.Index == 1 {
						okV = ex
					}
				}
				if okV == nil {
					res.bad(key, pos, "the 'found' result of the stash lookup is ignored")
					return
				}
				loud := false
				for _, br := range condBranches(okV) {
					succ := 1 // ok == false
					if br.neg {
						succ = 0
					}
					blk := br.iff.Block()
					env := newEnvAt(blk)
					t := blk.Succs[succ]
					env.enter(t, blk)
					if ok2, _, _ := c.loudFrom(t, env, nil); ok2 {
						loud = true
					}
				}
				if loud {
					res.ok(key, pos, "comma-ok lookup; the not-found side returns a non-nil error on every path")
				} else {
					res.bad(key, pos, "an unknown stored name is not treated as a failure")
				}
			case *ssa.BinOp:
				// (f) parity of a list length
				if x.Op != token.REM || !isByteConst(x.Y, 2) {
					return
				}
				lc, ok := x.X.(*ssa.Call)
				if !ok {
					return
				}
				if bi, ok := lc.Call.Value.(*ssa.Builtin); !ok || bi.Name() != "len" {
					return
				}
				if fnCountsParity(fn) && isEscapedLike(fn) {
					return
				}
				res.Instances++
				key := fnName + ":odd-length list test"
				pos := c.P.InstrPos(x)
				loud := false
				for _, r := range referrers(x) {
					cmp, ok := r.(*ssa.BinOp)
					if !ok {
						continue
					}
					n, _ := constInt(cmp.Y)
					oddWhenTrue := (cmp.Op == token.GTR && n == 0) || (cmp.Op == token.NEQ && n == 0) || (cmp.Op == token.EQL && n == 1)
					oddWhenFalse := cmp.Op == token.EQL && n == 0
					if !oddWhenTrue && !oddWhenFalse {
						continue
					}
					for _, br := range condBranches(cmp) {
						succ := 0
						if oddWhenFalse != br.neg {
							succ = 1
						}
						blk := br.iff.Block()
						env := newEnvAt(blk)
						t := blk.Succs[succ]
						env.enter(t, blk)
						if ok2, _, _ := c.loudFrom(t, env, nil); ok2 {
							loud = true
						}
					}
				}
				if loud {
					res.ok(key, pos, "an odd number of list elements ends loudly")
				} else {
					res.bad(key, pos, "the parity of the list is computed but an odd list is not treated as a failure")
				}
			}
		})
		// (d) switches over a string parameter: the no-case-matched path fails. Scope: what
		// the compiler reaches from Operator.Run (processor names, cmdline types) and the
		// flag value types (output format); other switches are not fault classes of C16.
		if fnHasErrResult(fn) && (dScope[fnName] || (fn.Name() == "Set" && fn.Signature.Recv() != nil)) {
			for _, p := range fn.Params {
				if p.Type().Underlying().String() != "string" {
					continue
				}
				var cmps []*ssa.BinOp
				for _, r := range referrers(p) {
					if b, ok := r.(*ssa.BinOp); ok && b.Op == token.EQL {
						if _, isC := constString(b.Y); isC {
							cmps = append(cmps, b)
						}
					}
				}
				if len(cmps) < 2 {
					continue
				}
				res.Instances++
				key := fnName + ":no case of the switch on " + p.Name() + " matched"
				env := newEnvAt(fn.Blocks[0])
				env.bools = map[ssa.Value]bool{}
				for _, b := range cmps {
					env.bools[b] = false
				}
				bad := ""
				c.explore(fn.Blocks[0], 0, env, exploreCB{
					ret: func(r *ssa.Return, e *pathEnv) {
						if op := retErrOperand(r); op == nil || e.nilnessOf(op) != nonNil {
							bad = fmt.Sprintf("with a value that matches no case the function returns success at %s", c.P.InstrPos(r))
						}
					},
				})
				if bad != "" {
					res.bad(key, c.P.FnPos(fn), bad)
				} else {
					res.ok(key, c.P.FnPos(fn), fmt.Sprintf("%d constant cases; the default path returns a non-nil error or ends loudly", len(cmps)))
				}
			}
		}
	}
	// (e) unbalanced blocks: a non-empty processor stack after assembling fails
	opPkg := load.ModulePath + "/regex/operators"
	for _, fn := range c.P.RepoFns {
		if !(fn.Signature.Recv() != nil && isNamed(fn.Signature.Recv().Type(), opPkg, "Operator") && fnHasErrResult(fn)) {
			continue
		}
		// the function that creates the parser and assembles: calls NewParser
		callsNewParser := false
		allInstrs(fn, func(in ssa.Instruction) {
			if call, ok := in.(*ssa.Call); ok {
				if f := staticCallee(&call.Call); f != nil && f.Name() == "NewParser" {
					callsNewParser = true
				}
			}
		})
		if !callsNewParser {
			continue
		}
		res.Instances++
		key := load.FnName(fn) + ":processor stack empty after assembling"
		okE := false
		allInstrs(fn, func(in ssa.Instruction) {
			b, ok := in.(*ssa.BinOp)
			if !ok {
				return
			}
			x, trueMeansNil, isTest := nilTest(b)
			if !isTest {
				return
			}
			ex, ok := x.(*ssa.Extract)
			if !ok || ex.Index != 0 || isErrorType(ex.Type()) {
				return
			}
			call, ok := ex.Tuple.(*ssa.Call)
			if !ok || len(call.Call.Args) == 0 {
				return
			}
			// the stack: a package-level variable, or a field of the operator itself
			recvOK := false
			switch r0 := call.Call.Args[0].(type) {
			case *ssa.Global:
				recvOK = true
			case *ssa.Alloc:
				// a stack that lives for exactly one run: a local of the function, handed down by address
				if nt, ok := derefType(r0.Type()).(*types.Named); ok && nt.Obj().Pkg() != nil && nt.Obj().Pkg().Path() == opPkg {
					recvOK = true
				}
			case *ssa.FieldAddr:
				recvOK = len(fn.Params) > 0 && r0.X == ssa.Value(fn.Params[0])
			case *ssa.UnOp:
				if fa, ok := r0.X.(*ssa.FieldAddr); ok {
					recvOK = len(fn.Params) > 0 && fa.X == ssa.Value(fn.Params[0])
				}
			}
			if !recvOK {
				return
			}
			for _, br := range condBranches(b) {
				succ := 1 // non-nil side
				if !trueMeansNil != br.neg {
					succ = 0
				}
				blk := br.iff.Block()
				env := newEnvAt(blk)
				t := blk.Succs[succ]
				env.enter(t, blk)
				if ok2, _, _ := c.loudFrom(t, env, nil); ok2 {
					okE = true
				}
			}
		})
		if okE {
			res.ok(key, c.P.FnPos(fn), "an element left on the processor stack (missing end marker) returns a non-nil error")
		} else {
			res.bad(key, c.P.FnPos(fn), "nothing fails when block markers are left open: the processor stack is not tested after assembling")
		}
	}
	return res
}

// failingSidesLoud: every branch edge on which pred holds leads to a failure on all paths.
func (c *Ctx) failingSidesLoud(fn *ssa.Function, pred func(cond ssa.Value, val bool) bool) string {
	why := ""
	for _, b := range fn.Blocks {
		iff, ok := b.Instrs[len(b.Instrs)-1].(*ssa.If)
		if !ok || b.Succs[0] == b.Succs[1] {
			continue
		}
		cond, neg := unwrapNot(iff.Cond)
		for si, t := range b.Succs {
			val := si == 0
			if neg {
				val = !val
			}
			if !pred(cond, val) {
				continue
			}
			env := newEnvAt(b)
			env.enter(t, b)
			if ok2, _, off := c.loudFrom(t, env, nil); !ok2 {
				why = off
			}
		}
	}
	return why
}

// ---------- RESOLVE (C18) ----------

func (c *Ctx) RuleResolve() *Result {
	res := &Result{Rule: "RESOLVE", MinInst: 6}
	// (r1) the resolved file-name field: stored from the whole match of the rule-id pattern
	type gfield struct {
		g     *ssa.Global
		Field int
	}
	var nameField *gfield
	// the struct a store goes to: the global itself, or a pointer parameter that every caller
	// binds to the address of the same global (a method of the holder type)
	holder := func(fa *ssa.FieldAddr, in ssa.Instruction) *gfield {
		if g, ok := fa.X.(*ssa.Global); ok {
			return &gfield{g, fa.Field}
		}
		par, ok := fa.X.(*ssa.Parameter)
		if !ok || in.Parent() == nil {
			return nil
		}
		fn := in.Parent()
		pi := paramIndex(fn, par)
		var g *ssa.Global
		n := 0
		for _, e := range c.Graph().In[fn] {
			cc := callCommon(e.Site)
			if cc == nil || staticFn(cc) != fn || pi < 0 || pi >= len(cc.Args) {
				return nil
			}
			gg, ok := cc.Args[pi].(*ssa.Global)
			if !ok || (g != nil && gg != g) {
				return nil
			}
			g = gg
			n++
		}
		if g == nil || n == 0 {
			return nil
		}
		return &gfield{g, fa.Field}
	}
	for _, s := range c.submatchSites() {
		if s.pattern == nil || s.pattern.Name != "regex.RuleIdFileNameRegex" {
			continue
		}
		for _, u := range s.uses {
			if u.group != 0 || u.val == nil {
				continue
			}
			// follow through phi / concat to a store into a global field
			seen := map[ssa.Value]bool{}
			var walk func(v ssa.Value, d int)
			walk = func(v ssa.Value, d int) {
				if d > 6 || seen[v] {
					return
				}
				seen[v] = true
				for _, r := range referrers(v) {
					switch x := r.(type) {
					case *ssa.Phi:
						walk(x, d+1)
					case *ssa.BinOp:
						if x.Op == token.ADD {
							walk(x, d+1)
						}
					case *ssa.Store:
						if fa, ok := x.Addr.(*ssa.FieldAddr); ok {
							if h := holder(fa, x); h != nil {
								nameField = h
							}
							// a field of the record the function returns: go on with what the callers read from it
							if al, isLocal := fa.X.(*ssa.Alloc); isLocal && x.Val == v {
								for _, rd := range c.readsOfReturnedField(al, fa.Field) {
									walk(rd, d+1)
								}
							}
						}
					}
				}
				// the read of the field, stored on
				if _, _, isRead := fieldRead(v); isRead {
					for _, r := range referrers(v) {
						if st, ok := r.(*ssa.Store); ok && st.Val == v {
							if fa, ok := st.Addr.(*ssa.FieldAddr); ok {
								if h := holder(fa, st); h != nil {
									nameField = h
								}
							}
						}
					}
				}
			}
			walk(u.val, 0)
		}
	}
	if nameField == nil {
		// the pattern is anchored at both ends (RX-GRAMMAR): a successful match is the whole subject, so
		// storing the subject itself (the argument handed to the function that matches it) is the same
		for _, s := range c.submatchSites() {
			if s.pattern == nil || s.pattern.Name != "regex.RuleIdFileNameRegex" {
				continue
			}
			_, _, _, subj, ok := regexpCall(s.call)
			if !ok {
				continue
			}
			var starts []ssa.Value
			starts = append(starts, subj)
			if par, ok := stripConv(subj).(*ssa.Parameter); ok {
				pi := paramIndex(s.fn, par)
				for _, e := range c.Graph().In[s.fn] {
					cc := callCommon(e.Site)
					if cc != nil && staticFn(cc) == s.fn && pi >= 0 && pi < len(cc.Args) {
						starts = append(starts, cc.Args[pi])
					}
				}
			}
			for _, st := range starts {
				seen := map[ssa.Value]bool{}
				var walk func(v ssa.Value, d int)
				walk = func(v ssa.Value, d int) {
					if d > 6 || seen[v] {
						return
					}
					seen[v] = true
					for _, r := range referrers(v) {
						switch x := r.(type) {
						case *ssa.Phi:
							walk(x, d+1)
						case *ssa.BinOp:
							if x.Op == token.ADD {
								walk(x, d+1)
							}
						case *ssa.Store:
							if fa, ok := x.Addr.(*ssa.FieldAddr); ok && x.Val == v && isTextType(x.Val.Type()) {
								if h := holder(fa, x); h != nil {
									nameField = h
								}
							}
						}
					}
				}
				walk(st, 0)
			}
		}
	}
	if nameField == nil {
		// resolved by hand-written code instead of the pattern: a parameter (plus the extension) stored into a text
		// field of a package-level struct by a function that does not match the rule-id pattern at all
		handWritten := ""
		for _, fn := range c.P.RepoFns {
			if load.ShortPkg(load.FnPkgPath(fn)) != "cmd" || !c.liveFn(fn) {
				continue
			}
			usesPattern := false
			for _, s := range c.submatchSites() {
				if s.fn == fn && s.pattern != nil && s.pattern.Name == "regex.RuleIdFileNameRegex" {
					usesPattern = true
				}
			}
			if usesPattern || !c.aliasSet("@rule-id-resolver")[load.FnName(fn)] {
				continue // only the function that fills the rule-values holder (id, file name, chain offset)
			}
			allInstrs(fn, func(in ssa.Instruction) {
				st, ok := in.(*ssa.Store)
				if !ok || !isTextType(st.Val.Type()) {
					return
				}
				fa, ok := st.Addr.(*ssa.FieldAddr)
				if !ok {
					return
				}
				if _, isG := fa.X.(*ssa.Global); !isG {
					return
				}
				for _, op := range stringOperands(st.Val, 0) {
					v := stripConv(op)
					if ph, ok := v.(*ssa.Phi); ok {
						for _, e := range ph.Edges {
							for _, o2 := range stringOperands(e, 0) {
								if _, isPar := stripConv(o2).(*ssa.Parameter); isPar {
									handWritten = load.FnName(fn)
								}
							}
						}
					}
					if _, isPar := v.(*ssa.Parameter); isPar {
						handWritten = load.FnName(fn)
					}
				}
			})
		}
		if handWritten != "" {
			res.Instances++
			res.undecided("cmd:resolved file name", "-", handWritten+" stores its argument as the resolved file name without matching it against the rule-id pattern: whether the hand-written parse accepts exactly the arguments the pattern accepts (and nothing that names another file) is not decided by this rule")
			nameField = nil
		}
	}
	if nameField == nil && !res.hasKey("cmd:resolved file name") {
		res.Instances++
		res.bad("cmd:resolved file name", "-", "no place stores the matched argument text (group 0 of the rule-id pattern, plus .ra when missing) as the resolved file name: the file that is opened is rebuilt from parsed parts and can differ from the one named (chain0, zero-padded offsets)")
	} else if nameField != nil {
		g := nameField.g
		for _, fn := range c.P.RepoFns {
			allInstrs(fn, func(in ssa.Instruction) {
				fa, ok := in.(*ssa.FieldAddr)
				if !ok || fa.X != ssa.Value(g) || fa.Field != nameField.Field {
					return
				}
				for _, r := range referrers(fa) {
					ld, ok := r.(*ssa.UnOp)
					if !ok || ld.Op != token.MUL {
						continue
					}
					res.Instances++
					key := load.FnName(fn) + ":use of the resolved file name"
					pos := c.P.InstrPos(ld)
					okUse := false
					for _, rr := range referrers(ld) {
						// variadic slot of path.Join(AssemblyDir(), name)
						var joins []*ssa.Call
						switch y := rr.(type) {
						case *ssa.Call:
							joins = append(joins, y)
						case *ssa.Store:
							if ia, ok := y.Addr.(*ssa.IndexAddr); ok {
								if al, ok := ia.X.(*ssa.Alloc); ok {
									for _, r3 := range referrers(al) {
										if sl, ok := r3.(*ssa.Slice); ok {
											for _, r4 := range referrers(sl) {
												if cj, ok := r4.(*ssa.Call); ok {
													joins = append(joins, cj)
												}
											}
										}
									}
								}
							}
						}
						for _, cj := range joins {
							f := staticCallee(&cj.Call)
							if !(isFn(f, "path", "Join") || isFn(f, "path/filepath", "Join")) {
								continue
							}
							sl, ok := cj.Call.Args[0].(*ssa.Slice)
							if !ok {
								continue
							}
							els := variadicElems(sl)
							if len(els) >= 2 && c.isAssemblyDir(els[0], 0) {
								okUse = true
							}
						}
					}
					if !okUse {
						// handed to a helper of the repository that joins it below AssemblyDir()
						for _, rr := range referrers(ld) {
							if hc, ok := rr.(*ssa.Call); ok {
								if sf := staticFn(&hc.Call); sf != nil && c.P.IsRepoFn(sf) {
									for i, a := range hc.Call.Args {
										if a == ssa.Value(ld) && i < len(sf.Params) && paramJoinedBelowAssemblyDir(sf.Params[i]) {
											okUse = true
										}
									}
								}
							}
						}
					}
					if !okUse && onlyLogged(ld, 0) {
						res.ok(key, pos, "only written to the log")
					} else if okUse {
						res.ok(key, pos, "joined below AssemblyDir()")
					} else if len(referrers(ld)) == 0 {
						res.ok(key, pos, "unused load")
					} else {
						res.bad(key, pos, "the resolved file name is used for something other than path.Join(AssemblyDir(), name): the argument no longer resolves to regex-assembly/NNNNNN[-chainK].ra")
					}
				}
			})
		}
	}
	// (r3) every call of the assembler in package cmd (generate, and the copy used by update and compare)
	// is fed by string(phi(stdin bytes, file bytes)) and nothing else
	{
		var cmdFns []*ssa.Function
		for _, fn := range c.P.RepoFns {
			if load.ShortPkg(load.FnPkgPath(fn)) == "cmd" {
				cmdFns = append(cmdFns, fn)
			}
		}
		for _, entry := range cmdFns {
			allInstrs(entry, func(in ssa.Instruction) {
				call, ok := in.(*ssa.Call)
				if !ok {
					return
				}
				f := staticCallee(&call.Call)
				if !isMeth(f, load.ModulePath+"/regex/operators", "Operator", "Run") {
					return
				}
				res.Instances++
				key := load.FnName(entry) + ":input of the assembler"
				pos := c.P.InstrPos(call)
				cv, ok := call.Call.Args[1].(*ssa.Convert)
				if !ok {
					res.bad(key, pos, "the assembler input is not the plain string conversion of the bytes read")
					return
				}
				srcs := map[string]bool{}
				var walk func(v ssa.Value, d int)
				walk = func(v ssa.Value, d int) {
					if d > 4 {
						srcs["?"] = true
						return
					}
					switch x := v.(type) {
					case *ssa.Phi:
						for _, e := range x.Edges {
							walk(e, d+1)
						}
					case *ssa.Extract:
						if rc, ok := x.Tuple.(*ssa.Call); ok && x.Index == 0 {
							srcs[qualName(staticCallee(&rc.Call))] = true
							return
						}
						srcs["?"] = true
					case *ssa.Call:
						// a repository helper that reads the input: follow what it returns
						if sf := staticFn(&x.Call); sf != nil && c.P.IsRepoFn(sf) && len(sf.Blocks) > 0 {
							allInstrs(sf, func(in2 ssa.Instruction) {
								if r, ok := in2.(*ssa.Return); ok && len(r.Results) > 0 {
									walk(r.Results[0], d+1)
								}
							})
							return
						}
						srcs[calleeLabel(&x.Call)] = true
					case *ssa.Const:
						if x.Value == nil {
							return // the zero value of the declaration
						}
						srcs["?"] = true
					default:
						srcs[fmt.Sprintf("%T", v)] = true
					}
				}
				walk(cv.X, 0)
				if len(srcs) == 2 && srcs["io.ReadAll"] && srcs["os.ReadFile"] {
					res.ok(key, pos, "string(phi(io.ReadAll(stdin), os.ReadFile(file))): stdin and file input share one path into the single Run call")
				} else {
					var ks []string
					for k := range srcs {
						ks = append(ks, k)
					}
					res.bad(key, pos, "the bytes given to the assembler do not come unchanged from io.ReadAll(stdin) or os.ReadFile(file): "+strings.Join(sortStrings(ks), ", "))
				}
			})
		}
	}
	// (r4) every context.New gets the resolved root and the configuration file name
	for _, fn := range c.P.RepoFns {
		allInstrs(fn, func(in ssa.Instruction) {
			call, ok := in.(*ssa.Call)
			if !ok {
				return
			}
			f := staticCallee(&call.Call)
			if !isFn(f, contextPkg, "New") {
				return
			}
			res.Instances++
			key := load.FnName(fn) + ":context.New arguments"
			pos := c.P.InstrPos(call)
			want := []string{"workingDirectory", "configurationFileName"}
			var problems []string
			for i, w := range want {
				a, ok := call.Call.Args[i].(*ssa.Call)
				okArg := false
				if ok {
					af := staticCallee(&a.Call)
					if af != nil && af.Name() == "String" && recvNamed(af) == w && len(a.Call.Args) == 1 {
						if fa, ok := a.Call.Args[0].(*ssa.FieldAddr); ok {
							if _, isG := fa.X.(*ssa.Global); isG {
								okArg = true
							}
						}
					}
				}
				if !okArg {
					problems = append(problems, fmt.Sprintf("argument %d is not the command-line %s", i+1, w))
				}
			}
			if len(problems) > 0 {
				res.bad(key, pos, strings.Join(problems, "; ")+": this command resolves the CRS root differently from the others")
			} else {
				res.ok(key, pos, "root = -d flag value (resolved), configuration = -f flag value")
			}
		})
	}
	// (r2'') the upward search stops at the nearest hit
	for _, fn := range c.P.RepoFns {
		if load.ShortPkg(load.FnPkgPath(fn)) != "cmd" || !fnHasErrResult(fn) {
			continue
		}
		var stat *ssa.Call
		hasConst := false
		allInstrs(fn, func(in ssa.Instruction) {
			if c2, ok := in.(*ssa.Call); ok && isFn(staticCallee(&c2.Call), "os", "Stat") {
				stat = c2
			}
			for _, op := range in.Operands(nil) {
				if op != nil && *op != nil {
					if sv, ok := constString(*op); ok && sv == "regex-assembly" {
						hasConst = true
					}
				}
			}
		})
		if stat == nil || !hasConst || !inCycle(stat.Block()) {
			continue
		}
		res.Instances++
		key := load.FnName(fn) + ":nearest root wins"
		ev := resultValue(stat, 1)
		bad := ""
		if ev == nil {
			bad = "the result of the probe is ignored"
		} else {
			for _, r := range referrers(ev) {
				bin, ok := r.(*ssa.BinOp)
				if !ok {
					continue
				}
				_, trueMeansNil, isTest := nilTest(bin)
				if !isTest {
					continue
				}
				for _, br := range condBranches(bin) {
					succ := 0 // err == nil side
					if !trueMeansNil != br.neg {
						succ = 1
					}
					blk := br.iff.Block()
					t := blk.Succs[succ]
					env := newEnvAt(blk)
					env.facts[ev] = isNil
					env.enter(t, blk)
					c.explore(t, 0, env, exploreCB{
						instr: func(in ssa.Instruction, e *pathEnv) bool {
							if in == ssa.Instruction(stat) {
								bad = "after a directory containing regex-assembly was found the search goes on probing its ancestors: with nested roots an outer root wins over the nearest one"
								return true
							}
							return false
						},
					})
				}
			}
		}
		if bad != "" {
			res.bad(key, c.P.InstrPos(stat), bad)
		} else {
			res.ok(key, c.P.InstrPos(stat), "from the success side of the probe the function returns without probing again")
		}
		// a root is only reported after the probe found regex-assembly in it
		if ev != nil {
			res.Instances++
			key2 := load.FnName(fn) + ":root reported only after a successful probe"
			probed := func(cond ssa.Value, val bool) bool {
				b, ok := cond.(*ssa.BinOp)
				if !ok {
					return false
				}
				x, trueMeansNil, isTest := nilTest(b)
				return isTest && x == ev && val == trueMeansNil
			}
			unproven := ""
			allInstrs(fn, func(in ssa.Instruction) {
				r, ok := in.(*ssa.Return)
				if !ok || unproven != "" {
					return
				}
				op := retErrOperand(r)
				if op == nil || !isNilConst(op) {
					return // failure exits
				}
				if !c.guardedByEdges(r, probed) {
					unproven = c.P.InstrPos(r)
				}
			})
			if unproven != "" {
				res.bad(key2, c.P.InstrPos(stat), "the function reports a root at "+unproven+" on a path where the probe for regex-assembly did not succeed (a shortcut on the text of the path): a directory that merely has regex-assembly in its name, or no such directory at all, is taken for the CRS root and the rewriting commands work outside the tree")
			} else {
				res.ok(key2, c.P.InstrPos(stat), "every successful return is reached only through the success side of the os.Stat probe")
			}
		}
	}
	// (r1') every path below the assembly directory is built from the resolved file name
	if nameField != nil {
		g := nameField.g
		for _, fn := range c.P.RepoFns {
			if load.ShortPkg(load.FnPkgPath(fn)) != "cmd" {
				continue
			}
			allInstrs(fn, func(in ssa.Instruction) {
				cj, ok := in.(*ssa.Call)
				if !ok {
					return
				}
				f := staticCallee(&cj.Call)
				if !(isFn(f, "path", "Join") || isFn(f, "path/filepath", "Join")) {
					return
				}
				sl, ok := cj.Call.Args[0].(*ssa.Slice)
				if !ok {
					return
				}
				els := variadicElems(sl)
				if len(els) < 2 {
					return
				}
				if !c.isAssemblyDir(els[0], 0) {
					return
				}
				res.Instances++
				key := load.FnName(fn) + ":file below AssemblyDir()"
				okName := false
				if gg, fi, ok := c.globalFieldLoad(stripConv(els[1]), fn); ok && gg == g && fi == nameField.Field {
					okName = true
				}
				if par, isPar := stripConv(els[1]).(*ssa.Parameter); isPar && !okName {
					// the name arrives in a parameter: every caller passes the resolved file name
					pi := paramIndex(fn, par)
					n, all := 0, true
					for _, e := range c.Graph().In[fn] {
						cc := callCommon(e.Site)
						if cc == nil || staticFn(cc) != fn || pi < 0 || pi >= len(cc.Args) {
							continue
						}
						n++
						ld, ok := stripConv(cc.Args[pi]).(*ssa.UnOp)
						if !ok {
							all = false
							continue
						}
						if fa, ok := ld.X.(*ssa.FieldAddr); !ok || fa.X != ssa.Value(g) || fa.Field != nameField.Field {
							all = false
						}
					}
					okName = n > 0 && all
				}
				if okName {
					res.ok(key, c.P.InstrPos(cj), "the resolved file name")
				} else {
					res.bad(key, c.P.InstrPos(cj), "a file below the assembly directory is named by something other than the resolved file name of the argument (the chain suffix or the matched text can get lost): the command reads another file than the one named")
				}
			})
		}
	}
	// (r2') without -d the root is the working directory itself
	for _, fn := range c.P.RepoFns {
		allInstrs(fn, func(in ssa.Instruction) {
			st, ok := in.(*ssa.Store)
			if !ok {
				return
			}
			_, tn := namedOf(st.Val.Type())
			if tn != "workingDirectory" {
				return
			}
			// inside the flag's own Set method the search result is stored (r2)
			if fn.Name() == "Set" {
				return
			}
			src := stripConv(st.Val)
			if _, isConst := src.(*ssa.Const); isConst {
				return
			}
			res.Instances++
			key := load.FnName(fn) + ":default root"
			if ex, ok := src.(*ssa.Extract); ok && ex.Index == 0 {
				if rc, ok := ex.Tuple.(*ssa.Call); ok && isFn(staticCallee(&rc.Call), "os", "Getwd") {
					res.ok(key, c.P.InstrPos(st), "the default root is os.Getwd() itself")
					return
				}
			}
			res.bad(key, c.P.InstrPos(st), "without -d the CRS root is not the working directory itself but a computed value: a command run below a root adopts (and may rewrite) the enclosing tree")
		})
	}
	// (r2) the -d flag stores the result of the root search
	for _, fn := range c.P.RepoFns {
		if fn.Name() != "Set" || fn.Signature.Recv() == nil || recvNamed(fn.Object().(*types.Func)) != "workingDirectory" {
			continue
		}
		res.Instances++
		key := load.FnName(fn) + ":stored root"
		okSet := false
		earlyExit := ""
		var rootStore *ssa.Store
		allInstrs(fn, func(in ssa.Instruction) {
			st, ok := in.(*ssa.Store)
			if !ok || st.Addr != ssa.Value(fn.Params[0]) {
				return
			}
			cv, ok := st.Val.(*ssa.ChangeType)
			var src ssa.Value
			if ok {
				src = cv.X
			} else if cv2, ok := st.Val.(*ssa.Convert); ok {
				src = cv2.X
			}
			ex, ok := src.(*ssa.Extract)
			if !ok {
				return
			}
			rc, ok := ex.Tuple.(*ssa.Call)
			if !ok {
				return
			}
			sf := staticFn(&rc.Call)
			if sf == nil || !c.P.IsRepoFn(sf) {
				return
			}
			// the search function probes for "regex-assembly" with os.Stat
			hasStat, hasConst := false, false
			var callsStat func(f *ssa.Function, d int) bool
			callsStat = func(f *ssa.Function, d int) bool {
				found := false
				allInstrs(f, func(in3 ssa.Instruction) {
					if c3, ok := in3.(*ssa.Call); ok {
						if isFn(staticCallee(&c3.Call), "os", "Stat") || isFn(staticCallee(&c3.Call), "os", "Lstat") {
							found = true
						} else if g := staticFn(&c3.Call); g != nil && c.P.IsRepoFn(g) && d < 2 && callsStat(g, d+1) {
							found = true
						}
					}
				})
				return found
			}
			var scan func(f *ssa.Function, d int)
			scan = func(f *ssa.Function, d int) {
				allInstrs(f, func(in2 ssa.Instruction) {
					if c2, ok := in2.(*ssa.Call); ok {
						if isFn(staticCallee(&c2.Call), "os", "Stat") {
							hasStat = true
						} else if g := staticFn(&c2.Call); g != nil && c.P.IsRepoFn(g) {
							if callsStat(g, 0) {
								hasStat = true
							}
							// the search itself may sit one call further down (a method on the probing function)
							if d < 2 && len(g.Blocks) > 0 {
								scan(g, d+1)
							}
						}
					}
					for _, op := range in2.Operands(nil) {
						if op != nil && *op != nil {
							if s, ok := constString(*op); ok && s == "regex-assembly" {
								hasConst = true
							}
							// the probe handed on as a function value
							if pf, ok := (*op).(*ssa.Function); ok && c.P.IsRepoFn(pf) && len(pf.Blocks) > 0 && callsStat(pf, 0) {
								hasStat = true
							}
						}
					}
				})
			}
			scan(sf, 0)
			// its argument is the absolute form of the flag value
			if a, ok := rc.Call.Args[0].(*ssa.Extract); ok {
				if ac, ok := a.Tuple.(*ssa.Call); ok && isFn(staticCallee(&ac.Call), "path/filepath", "Abs") && hasStat && hasConst {
					okSet = true
					rootStore = st
				}
			}
			// the upward loop is left only by its own condition (the file-system root) or with a hit
			for _, l := range naturalLoops(sf) {
				for blk := range l.body {
					for _, succ := range blk.Succs {
						if l.body[succ] || blk == l.header {
							continue
						}
						okExit := false
						if r, ok := succ.Instrs[len(succ.Instrs)-1].(*ssa.Return); ok && len(r.Results) == 2 && isNilConst(r.Results[1]) {
							okExit = true
						}
						if c.Loud().BlockDies(succ) {
							okExit = true
						}
						if !okExit {
							earlyExit = c.P.InstrPos(blk.Instrs[len(blk.Instrs)-1])
						}
					}
				}
			}
		})
		// success is reported only after the search result was stored: a "nothing to do" return in front of the
		// search (the value equals what the flag already holds) keeps whatever was there, root or not
		skipped := ""
		if okSet && rootStore != nil && len(fn.Blocks) > 0 {
			seen := map[*ssa.BasicBlock]bool{}
			stack := []*ssa.BasicBlock{fn.Blocks[0]}
			for len(stack) > 0 && skipped == "" {
				b := stack[len(stack)-1]
				stack = stack[:len(stack)-1]
				if seen[b] || b == rootStore.Block() || c.Loud().BlockDies(b) {
					continue
				}
				seen[b] = true
				if r, ok := b.Instrs[len(b.Instrs)-1].(*ssa.Return); ok && len(r.Results) == 1 && isNilConst(r.Results[0]) {
					skipped = c.P.InstrPos(r)
				}
				stack = append(stack, b.Succs...)
			}
		}
		if okSet && skipped != "" {
			res.bad(key, c.P.FnPos(fn), "the -d flag can report success at "+skipped+" without having stored the result of the upward search: the value the flag held before (the working directory itself, set as the default) stays in place although the nearest root lies above it")
		} else if okSet && earlyExit != "" {
			res.bad(key, c.P.FnPos(fn), "the upward search for the directory containing regex-assembly can be left at "+earlyExit+" without a hit and before the file-system root is reached: the root is the nearest ancestor that contains regex-assembly, whatever lies in between (a .git directory of a plugin or submodule, a marker file)")
		} else if okSet {
			res.ok(key, c.P.FnPos(fn), "*w = search(filepath.Abs(value)), the search probes for regex-assembly with os.Stat")
		} else {
			res.bad(key, c.P.FnPos(fn), "the -d flag does not store the result of the upward search for the directory containing regex-assembly")
		}
	}
	return res
}

// ---------- FRAME (C11) ----------

// RuleSplitJoinFrame: update rewrites one element of split(contents) and writes join(lines).
func (c *Ctx) RuleSplitJoinFrame() *Result {
	res := &Result{Rule: "FRAME", MinInst: 1}
	cmd := c.Commands().ByName["update"]
	if cmd == nil {
		res.undecided("cmd update", "-", "command not found")
		return res
	}
	reach := c.Graph().Reach(c.EntryRoots(cmd))
	for _, ws := range c.writeSites() {
		if _, ok := reach[ws.fn]; !ok || ws.prim.dataArg < 0 {
			continue
		}
		res.Instances++
		key := load.FnName(ws.fn) + ":" + ws.name + " data"
		pos := c.P.InstrPos(ws.call)
		data := stripConv(ws.cc.Args[ws.prim.dataArg])
		join, ok := data.(*ssa.Call)
		if !ok || !isFn(staticCallee(&join.Call), "bytes", "Join") {
			res.bad(key, pos, "the bytes written are not bytes.Join of the file's own lines")
			continue
		}
		split, ok := join.Call.Args[0].(*ssa.Call)
		if !ok || !isFn(staticCallee(&split.Call), "bytes", "Split") {
			// the lines may come from a helper shared with compare that reads, splits and locates
			if why, done := c.frameThroughHelper(ws, join); done {
				if why != "" {
					res.bad(key, pos, why)
				} else {
					res.ok(key, pos, "WriteFile(path, Join(lines, sep)) with lines = Split(ReadFile(path), sep) in the shared locator helper, exactly one element replaced, rebuilt from the captured groups")
				}
				continue
			}
			res.bad(key, pos, "the lines joined are not the result of splitting the file's contents")
			continue
		}
		var problems []string
		s1, ok1 := constString(stripConv(split.Call.Args[1]))
		s2, ok2 := constString(stripConv(join.Call.Args[1]))
		if !ok1 || !ok2 || s1 != s2 {
			problems = append(problems, fmt.Sprintf("split separator %q and join separator %q differ: every line ending of the file changes", s1, s2))
		}
		if ex, ok := split.Call.Args[0].(*ssa.Extract); !ok || ex.Index != 0 {
			problems = append(problems, "the text split is not what was read from the file")
		} else if rc, ok := ex.Tuple.(*ssa.Call); !ok || !isFn(staticCallee(&rc.Call), "os", "ReadFile") || rc.Call.Args[0] != ws.cc.Args[ws.prim.pathArg] {
			problems = append(problems, "the text split was not read from the path that is written")
		}
		stores := 0
		for _, r := range referrers(split) {
			if ia, ok := r.(*ssa.IndexAddr); ok {
				for _, rr := range referrers(ia) {
					if st, ok := rr.(*ssa.Store); ok && st.Addr == ssa.Value(ia) {
						stores++
					}
				}
			}
		}
		if stores != 1 {
			problems = append(problems, fmt.Sprintf("%d line elements are assigned instead of exactly one", stores))
		}
		// the assigned line is put together from the captured parts of the rule-line pattern
		for _, r := range referrers(split) {
			ia, ok := r.(*ssa.IndexAddr)
			if !ok {
				continue
			}
			for _, rr := range referrers(ia) {
				st, ok := rr.(*ssa.Store)
				if !ok || st.Addr != ssa.Value(ia) {
					continue
				}
				groups := c.capturedParts(ws.fn, stripConv(st.Val), 0)
				if groups < 2 {
					problems = append(problems, "the line that is assigned is not put together from the text before and after the operand as captured by the rule-line pattern: what is replaced is found some other way (first occurrence of the old text, fixed offsets) and can hit another part of the line")
				}
			}
		}
		if len(problems) > 0 {
			res.bad(key, pos, strings.Join(problems, "; "))
		} else {
			res.ok(key, pos, fmt.Sprintf("WriteFile(path, Join(Split(ReadFile(path), %q), %q)) with exactly one element replaced", s1, s2))
		}
	}
	return res
}

// ---------- ORDER-KEY (C06) ----------

// RuleOrderKey: the sort that restores file order compares a per-element
// insertion index.
func (c *Ctx) RuleOrderKey() *Result {
	res := &Result{Rule: "ORDER-KEY", MinInst: 1}
	// comparators: Less methods of sort.Interface types, and the functions handed to sort.Slice /
	// sort.SliceStable / slices.SortFunc / slices.SortStableFunc, in package regex/parser
	comparators := map[*ssa.Function]bool{}
	for _, fn := range c.P.RepoFns {
		if load.ShortPkg(load.FnPkgPath(fn)) != "regex/parser" {
			continue
		}
		if fn.Name() == "Less" && fn.Signature.Recv() != nil && fn.Synthetic == "" {
			comparators[fn] = true
		}
		allInstrs(fn, func(in ssa.Instruction) {
			cc := callCommon(in)
			if cc == nil {
				return
			}
			f := staticCallee(cc)
			if f == nil || !(objPkgPath(f) == "sort" && strings.HasPrefix(f.Name(), "Slice") || objPkgPath(f) == "slices" && strings.HasSuffix(f.Name(), "Func") && strings.HasPrefix(f.Name(), "Sort")) {
				return
			}
			for _, a := range cc.Args {
				for _, cf := range fnValuesIn(a, 2) {
					comparators[cf] = true
				}
			}
		})
	}
	var cmpFns []*ssa.Function
	for fn := range comparators {
		cmpFns = append(cmpFns, fn)
	}
	sort.Slice(cmpFns, func(i, j int) bool { return load.FnName(cmpFns[i]) < load.FnName(cmpFns[j]) })
	for _, fn := range cmpFns {
		res.Instances++
		key := load.FnName(fn) + ":comparator"
		pos := c.P.FnPos(fn)
		var field *types.Var
		okCmp := false
		allInstrs(fn, func(in ssa.Instruction) {
			r, ok := in.(*ssa.Return)
			if !ok || len(r.Results) != 1 {
				return
			}
			var x, y ssa.Value
			switch v := r.Results[0].(type) {
			case *ssa.BinOp:
				if v.Op == token.LSS || v.Op == token.SUB {
					x, y = v.X, v.Y
				}
			case *ssa.Call:
				if f := staticCallee(&v.Call); f != nil && objPkgPath(f) == "cmp" && f.Name() == "Compare" && len(v.Call.Args) == 2 {
					x, y = v.Call.Args[0], v.Call.Args[1]
				}
			}
			if x == nil {
				return
			}
			fx, fy := fieldOfLoad(x), fieldOfLoad(y)
			if fx != nil && fx == fy {
				if bt, ok := fx.Type().Underlying().(*types.Basic); ok && bt.Info()&types.IsInteger != 0 {
					field, okCmp = fx, true
				}
			}
		})
		if !okCmp {
			res.bad(key, pos, "the comparator does not order by one integer field of the elements: the entries that survive include-except no longer keep the file's order")
			continue
		}
		// every construction of the element type assigns that field from a loop counter
		assigns, counters := 0, 0
		for _, g := range c.P.RepoFns {
			allInstrs(g, func(in ssa.Instruction) {
				st, ok := in.(*ssa.Store)
				if !ok {
					return
				}
				fa, ok := st.Addr.(*ssa.FieldAddr)
				if !ok {
					return
				}
				stt, ok := derefType(fa.X.Type()).Underlying().(*types.Struct)
				if !ok || stt.Field(fa.Field) != field {
					return
				}
				assigns++
				if p, ok := st.Val.(*ssa.Phi); ok && phiSteps(p, +1) {
					counters++
				} else if capturedCounter(st.Val, g) {
					counters++
				}
			})
		}
		if assigns == 0 || assigns != counters {
			res.bad(key, pos, fmt.Sprintf("the field %s the comparator orders by is not always the running index of the entry in its file (%d of %d assignments come from a loop counter)", field.Name(), counters, assigns))
		} else {
			res.ok(key, pos, fmt.Sprintf("Less orders by %s, which every construction sets from the loop counter of the file scan: sorting restores file order", field.Name()))
		}
	}
	return res
}

func fieldOfLoad(v ssa.Value) *types.Var {
	ld, ok := v.(*ssa.UnOp)
	if !ok || ld.Op != token.MUL {
		if f, ok := v.(*ssa.Field); ok {
			st, ok := f.X.Type().Underlying().(*types.Struct)
			if ok {
				return st.Field(f.Field)
			}
		}
		return nil
	}
	fa, ok := ld.X.(*ssa.FieldAddr)
	if !ok {
		return nil
	}
	st, ok := derefType(fa.X.Type()).Underlying().(*types.Struct)
	if !ok {
		return nil
	}
	return st.Field(fa.Field)
}

// paramJoinedBelowAssemblyDir: every use of the parameter is the second element of path.Join(AssemblyDir(), p).
func paramJoinedBelowAssemblyDir(p *ssa.Parameter) bool {
	uses, joined := 0, 0
	for _, r := range referrers(p) {
		if _, dbg := r.(*ssa.DebugRef); dbg {
			continue
		}
		uses++
		st, ok := r.(*ssa.Store)
		if !ok {
			continue
		}
		ia, ok := st.Addr.(*ssa.IndexAddr)
		if !ok {
			continue
		}
		al, ok := ia.X.(*ssa.Alloc)
		if !ok {
			continue
		}
		for _, r3 := range referrers(al) {
			sl, ok := r3.(*ssa.Slice)
			if !ok {
				continue
			}
			for _, r4 := range referrers(sl) {
				cj, ok := r4.(*ssa.Call)
				if !ok {
					continue
				}
				f := staticCallee(&cj.Call)
				if !(isFn(f, "path", "Join") || isFn(f, "path/filepath", "Join")) {
					continue
				}
				els := variadicElems(sl)
				if len(els) >= 2 && stripConv(els[1]) == ssa.Value(p) {
					if dc, ok := stripConv(els[0]).(*ssa.Call); ok {
						if df := staticCallee(&dc.Call); df != nil && df.Name() == "AssemblyDir" {
							joined++
						}
					}
				}
			}
		}
	}
	return uses > 0 && uses == joined
}

// capturedCounter: v is the current value of a variable captured by the closure fn that
// the closure increments by one (and nothing else writes except a constant initialisation in
// the parent): the running index of a visit callback.
func capturedCounter(v ssa.Value, fn *ssa.Function) bool {
	ld, ok := v.(*ssa.UnOp)
	if !ok || ld.Op != token.MUL {
		return false
	}
	fv, ok := ld.X.(*ssa.FreeVar)
	if !ok {
		return false
	}
	incs := 0
	for _, r := range referrers(fv) {
		st, ok := r.(*ssa.Store)
		if !ok || st.Addr != ssa.Value(fv) {
			continue
		}
		b, ok := st.Val.(*ssa.BinOp)
		if !ok || b.Op != token.ADD {
			return false
		}
		l2, ok := b.X.(*ssa.UnOp)
		if !ok || l2.X != ssa.Value(fv) {
			return false
		}
		if k, ok := constInt(b.Y); !ok || k != 1 {
			return false
		}
		incs++
	}
	if incs != 1 {
		return false
	}
	al := allocOf(fv, fn)
	if al == nil {
		return false
	}
	for _, r := range referrers(al) {
		if st, ok := r.(*ssa.Store); ok && st.Addr == ssa.Value(al) {
			if _, isConst := st.Val.(*ssa.Const); !isConst {
				return false
			}
		}
	}
	return true
}

// isAssemblyDir: v is the result of AssemblyDir(), or a parameter that every static caller fills with it.
func (c *Ctx) isAssemblyDir(v ssa.Value, depth int) bool {
	v = stripConv(v)
	if dc, ok := v.(*ssa.Call); ok {
		df := staticCallee(&dc.Call)
		return df != nil && df.Name() == "AssemblyDir"
	}
	par, ok := v.(*ssa.Parameter)
	if !ok || depth > 2 {
		return false
	}
	fn := par.Parent()
	pi := paramIndex(fn, par)
	n := 0
	for _, e := range c.Graph().In[fn] {
		cc := callCommon(e.Site)
		if cc == nil || staticFn(cc) != fn || pi < 0 || pi >= len(cc.Args) {
			return false
		}
		n++
		if !c.isAssemblyDir(cc.Args[pi], depth+1) {
			return false
		}
	}
	return n > 0
}

// capturedParts counts the operands of the concatenation v (in fn) that are captured groups of a
// pattern matched in fn. A line that a helper of the repository puts together counts as the weakest
// of the helper's results (results that are nil, the failure returns, aside).
func (c *Ctx) capturedParts(fn *ssa.Function, v ssa.Value, depth int) int {
	if depth < 2 {
		idx := 0
		var hc *ssa.Call
		switch x := v.(type) {
		case *ssa.Extract:
			hc, _ = x.Tuple.(*ssa.Call)
			idx = x.Index
		case *ssa.Call:
			hc = x
		}
		if hc != nil {
			if H := staticFn(&hc.Call); H != nil && c.P.IsRepoFn(H) && len(H.Blocks) > 0 {
				weakest := -1
				allInstrs(H, func(in ssa.Instruction) {
					r, ok := in.(*ssa.Return)
					if !ok || idx >= len(r.Results) {
						return
					}
					rv := stripConv(r.Results[idx])
					if k, ok := rv.(*ssa.Const); ok && k.IsNil() {
						return
					}
					n := c.capturedParts(H, rv, depth+1)
					if weakest < 0 || n < weakest {
						weakest = n
					}
				})
				if weakest >= 0 {
					return weakest
				}
				return 0
			}
		}
	}
	groups := 0
	for _, op := range stringOperands(v, 0) {
		if g := indexPairGroup(op); g > 0 {
			groups++
			continue
		}
		for _, sm := range c.submatchSites() {
			if sm.pattern == nil {
				continue
			}
			for _, u := range sm.uses {
				// uses in fn itself, or uses of a match that a helper handed back to fn
				if (sm.fn == fn || u.inFn == fn) && u.val != nil && u.val == op && u.group > 0 {
					groups++
				}
			}
		}
	}
	return groups
}

// readsOfReturnedField: al is a local struct of a function that returns its value (a composite
// literal handed back as a result); the values the callers read from field i of that result.
func (c *Ctx) readsOfReturnedField(al *ssa.Alloc, field int) []ssa.Value {
	fn := al.Parent()
	ri := -1
	allInstrs(fn, func(in ssa.Instruction) {
		if r, ok := in.(*ssa.Return); ok {
			for i, rv := range r.Results {
				if ld, ok := stripConv(rv).(*ssa.UnOp); ok && ld.X == ssa.Value(al) {
					ri = i
				}
			}
		}
	})
	if ri < 0 {
		return nil
	}
	var out []ssa.Value
	for _, e := range c.Graph().In[fn] {
		call, ok := e.Site.(*ssa.Call)
		if !ok || staticFn(&call.Call) != fn {
			continue
		}
		var got []ssa.Value
		if fn.Signature.Results().Len() == 1 {
			got = append(got, call)
		} else {
			for _, r := range referrers(call) {
				if ex, ok := r.(*ssa.Extract); ok && ex.Index == ri {
					got = append(got, ex)
				}
			}
		}
		for _, g := range got {
			for _, r := range referrers(g) {
				switch x := r.(type) {
				case *ssa.Field:
					if x.Field == field {
						out = append(out, x)
					}
				case *ssa.Store:
					// kept in a local struct variable
					if loc, ok := x.Addr.(*ssa.Alloc); ok && x.Val == g {
						for _, rr := range referrers(loc) {
							if fa, ok := rr.(*ssa.FieldAddr); ok && fa.Field == field {
								for _, r3 := range referrers(fa) {
									if ld, ok := r3.(*ssa.UnOp); ok && ld.Op == token.MUL {
										out = append(out, ld)
									}
								}
							}
						}
					}
				}
			}
		}
	}
	return out
}

// frameThroughHelper: FRAME when the split happens in a helper H that returns
// (lines, index, groups): lines is bytes.Split(ReadFile(path), sep) with the
// join's separator and the written path, the caller assigns exactly one
// element, and the assigned line is put together from at least two captured
// groups of the rule-line match the helper returns.
func (c *Ctx) frameThroughHelper(ws *writeSite, join *ssa.Call) (why string, done bool) {
	ex, ok := join.Call.Args[0].(*ssa.Extract)
	if !ok {
		return c.frameThroughRecord(ws, join)
	}
	hc, ok := ex.Tuple.(*ssa.Call)
	if !ok {
		return "", false
	}
	H := staticFn(&hc.Call)
	if H == nil || !c.P.IsRepoFn(H) || len(H.Blocks) == 0 {
		return "", false
	}
	pathV := ws.cc.Args[ws.prim.pathArg]
	pi := -1
	for i, a := range hc.Call.Args {
		if a == pathV {
			pi = i
		}
	}
	if pi < 0 || pi >= len(H.Params) {
		return "the helper that yields the lines is not handed the path that is written", true
	}
	var problems []string
	sepJoin, okJ := constString(stripConv(join.Call.Args[1]))
	rets := 0
	var matchResult = -1
	allInstrs(H, func(in ssa.Instruction) {
		r, ok := in.(*ssa.Return)
		if !ok || ex.Index >= len(r.Results) {
			return
		}
		rets++
		sp, ok := stripConv(r.Results[ex.Index]).(*ssa.Call)
		if !ok || !isFn(staticCallee(&sp.Call), "bytes", "Split") {
			problems = append(problems, "the helper does not return bytes.Split of the file's contents as the lines")
			return
		}
		sepSplit, okS := constString(stripConv(sp.Call.Args[1]))
		if !okJ || !okS || sepJoin != sepSplit {
			problems = append(problems, fmt.Sprintf("split separator %q and join separator %q differ: every line ending of the file changes", sepSplit, sepJoin))
		}
		if cx, ok := sp.Call.Args[0].(*ssa.Extract); !ok || cx.Index != 0 {
			problems = append(problems, "the text split is not what was read from the file")
		} else if rc, ok := cx.Tuple.(*ssa.Call); !ok || !isFn(staticCallee(&rc.Call), "os", "ReadFile") || rc.Call.Args[0] != ssa.Value(H.Params[pi]) {
			problems = append(problems, "the text split was not read from the path that is written")
		}
		// no element is assigned inside the helper
		for _, rr := range referrers(sp) {
			if ia, ok := rr.(*ssa.IndexAddr); ok {
				for _, r3 := range referrers(ia) {
					if st, ok := r3.(*ssa.Store); ok && st.Addr == ssa.Value(ia) {
						problems = append(problems, "the helper itself assigns a line")
					}
				}
			}
		}
		// which result carries the groups of the rule-line match
		for j, rv := range r.Results {
			v := stripConv(rv)
			if ld, ok := v.(*ssa.UnOp); ok && ld.Op == token.MUL {
				if ia, ok := ld.X.(*ssa.IndexAddr); ok {
					v = ia.X
				}
			}
			if _, _, recv, _, ok := regexpCall(asInstr(v)); ok {
				if p, _ := c.Rx().Resolve(recv); p != nil && p.NumCap() >= 3 {
					matchResult = j
				}
			}
		}
	})
	if rets == 0 {
		problems = append(problems, "the helper never returns")
	}
	// the caller assigns exactly one element
	stores := 0
	var assigned ssa.Value
	for _, r := range referrers(ex) {
		if ia, ok := r.(*ssa.IndexAddr); ok {
			for _, rr := range referrers(ia) {
				if st, ok := rr.(*ssa.Store); ok && st.Addr == ssa.Value(ia) {
					stores++
					assigned = st.Val
				}
			}
		}
	}
	if stores != 1 {
		problems = append(problems, fmt.Sprintf("%d line elements are assigned instead of exactly one", stores))
	} else {
		groups := 0
		for _, op := range stringOperands(stripConv(assigned), 0) {
			ld, ok := op.(*ssa.UnOp)
			if !ok || ld.Op != token.MUL {
				continue
			}
			ia, ok := ld.X.(*ssa.IndexAddr)
			if !ok {
				continue
			}
			if gx, ok := ia.X.(*ssa.Extract); ok && gx.Tuple == ssa.Value(hc) && gx.Index == matchResult {
				if k, ok := constInt(ia.Index); ok && k > 0 {
					groups++
				}
			}
		}
		if groups < 2 {
			problems = append(problems, "the line that is assigned is not put together from the text before and after the operand as captured by the rule-line pattern: what is replaced is found some other way (first occurrence of the old text, fixed offsets) and can hit another part of the line")
		}
	}
	return strings.Join(uniq(problems), "; "), true
}

// frameThroughRecord: FRAME when the helper hands back one record (a struct by value) that holds
// the lines, the index and the captured parts: the same conditions as frameThroughHelper, read
// through the fields of the record.
func (c *Ctx) frameThroughRecord(ws *writeSite, join *ssa.Call) (why string, done bool) {
	base, fLines, ok := fieldRead(stripConv(join.Call.Args[0]))
	if !ok {
		return "", false
	}
	callOf := func(v ssa.Value) *ssa.Call {
		switch x := stripConv(v).(type) {
		case *ssa.Call:
			return x
		case *ssa.Extract:
			hc, _ := x.Tuple.(*ssa.Call)
			return hc
		}
		return nil
	}
	hc := callOf(base)
	if hc == nil {
		return "", false
	}
	lineVals, H := c.structResultField(base, fLines)
	if H == nil || len(lineVals) == 0 {
		return "", false
	}
	pathV := ws.cc.Args[ws.prim.pathArg]
	pi := -1
	for i, a := range hc.Call.Args {
		if a == pathV {
			pi = i
		}
	}
	if pi < 0 || pi >= len(H.Params) {
		return "the helper that yields the lines is not handed the path that is written", true
	}
	var problems []string
	sepJoin, okJ := constString(stripConv(join.Call.Args[1]))
	for _, lv := range lineVals {
		sp, ok := stripConv(lv).(*ssa.Call)
		if !ok || !isFn(staticCallee(&sp.Call), "bytes", "Split") {
			problems = append(problems, "the helper does not return bytes.Split of the file's contents as the lines")
			continue
		}
		sepSplit, okS := constString(stripConv(sp.Call.Args[1]))
		if !okJ || !okS || sepJoin != sepSplit {
			problems = append(problems, fmt.Sprintf("split separator %q and join separator %q differ: every line ending of the file changes", sepSplit, sepJoin))
		}
		if cx, ok := sp.Call.Args[0].(*ssa.Extract); !ok || cx.Index != 0 {
			problems = append(problems, "the text split is not what was read from the file")
		} else if rc, ok := cx.Tuple.(*ssa.Call); !ok || !isFn(staticCallee(&rc.Call), "os", "ReadFile") || rc.Call.Args[0] != ssa.Value(H.Params[pi]) {
			problems = append(problems, "the text split was not read from the path that is written")
		}
		for _, rr := range referrers(sp) {
			if ia, ok := rr.(*ssa.IndexAddr); ok {
				for _, r3 := range referrers(ia) {
					if st, ok := r3.(*ssa.Store); ok && st.Addr == ssa.Value(ia) {
						problems = append(problems, "the helper itself assigns a line")
					}
				}
			}
		}
	}
	// the caller assigns exactly one element of the record's lines
	stores := 0
	var assigned ssa.Value
	allInstrs(ws.fn, func(in ssa.Instruction) {
		st, ok := in.(*ssa.Store)
		if !ok {
			return
		}
		ia, ok := st.Addr.(*ssa.IndexAddr)
		if !ok {
			return
		}
		if b2, f2, ok := fieldRead(stripConv(ia.X)); ok && f2 == fLines && callOf(b2) == hc {
			stores++
			assigned = st.Val
		}
	})
	if stores != 1 {
		problems = append(problems, fmt.Sprintf("%d line elements are assigned instead of exactly one", stores))
	} else {
		groups := 0
		for _, op := range stringOperands(stripConv(assigned), 0) {
			b2, f2, ok := fieldRead(stripConv(op))
			if !ok || callOf(b2) != hc {
				continue
			}
			vals, _ := c.structResultField(b2, f2)
			captured := len(vals) > 0
			for _, v := range vals {
				isGroup := false
				for _, sm := range c.submatchSites() {
					if sm.pattern == nil || sm.pattern.NumCap() < 3 {
						continue
					}
					for _, u := range sm.uses {
						if u.val != nil && u.val == stripConv(v) && u.group > 0 {
							isGroup = true
						}
					}
				}
				if !isGroup {
					captured = false
				}
			}
			if captured {
				groups++
			}
		}
		if groups < 2 {
			problems = append(problems, "the line that is assigned is not put together from the text before and after the operand as captured by the rule-line pattern: what is replaced is found some other way (first occurrence of the old text, fixed offsets) and can hit another part of the line")
		}
	}
	return strings.Join(uniq(problems), "; "), true
}

// indexPairGroup: v is subject[loc[2g]:loc[2g+1]] with loc the result of
// FindSubmatchIndex / FindStringSubmatchIndex on that subject: the text of
// capture group g (0 when v is not of that form).
func indexPairGroup(v ssa.Value) int {
	sl, ok := stripConv(v).(*ssa.Slice)
	if !ok || sl.Low == nil || sl.High == nil {
		return 0
	}
	elem := func(x ssa.Value) (ssa.Value, int64, bool) {
		ld, ok := x.(*ssa.UnOp)
		if !ok || ld.Op != token.MUL {
			return nil, 0, false
		}
		ia, ok := ld.X.(*ssa.IndexAddr)
		if !ok {
			return nil, 0, false
		}
		k, ok := constInt(ia.Index)
		return ia.X, k, ok
	}
	la, a, ok1 := elem(sl.Low)
	lb, b, ok2 := elem(sl.High)
	if !ok1 || !ok2 || la != lb || a%2 != 0 || b != a+1 {
		return 0
	}
	_, m, _, subj, ok := regexpCall(asInstr(la))
	if !ok || !(m == "FindSubmatchIndex" || m == "FindStringSubmatchIndex") {
		return 0
	}
	if stripConv(subj) != stripConv(sl.X) {
		return 0
	}
	return int(a / 2)
}

// globalFieldLoad: v reads field fi of the package-level struct g: directly
// (*(&g.f)), or through a struct parameter (or its spill slot) for which every
// caller passes the value of g (`performUpdate(all, ctx, ruleValues)`).
func (c *Ctx) globalFieldLoad(v ssa.Value, fn *ssa.Function) (*ssa.Global, int, bool) {
	paramGlobal := func(p *ssa.Parameter) *ssa.Global {
		pi := paramIndex(fn, p)
		var g *ssa.Global
		n := 0
		for _, e := range c.Graph().In[fn] {
			cc := callCommon(e.Site)
			if cc == nil || staticFn(cc) != fn || pi < 0 || pi >= len(cc.Args) {
				continue
			}
			n++
			ld, ok := cc.Args[pi].(*ssa.UnOp)
			if !ok || ld.Op != token.MUL {
				return nil
			}
			gg, ok := ld.X.(*ssa.Global)
			if !ok || (g != nil && gg != g) {
				return nil
			}
			g = gg
		}
		if n == 0 {
			return nil
		}
		return g
	}
	structParam := func(x ssa.Value) *ssa.Parameter {
		switch y := x.(type) {
		case *ssa.Parameter:
			return y
		case *ssa.UnOp:
			if al, ok := y.X.(*ssa.Alloc); ok && y.Op == token.MUL {
				return spilledParam(al)
			}
		case *ssa.Alloc:
			return spilledParam(y)
		}
		return nil
	}
	switch x := v.(type) {
	case *ssa.UnOp:
		if x.Op != token.MUL {
			return nil, 0, false
		}
		fa, ok := x.X.(*ssa.FieldAddr)
		if !ok {
			return nil, 0, false
		}
		if g, ok := fa.X.(*ssa.Global); ok {
			return g, fa.Field, true
		}
		if p := structParam(fa.X); p != nil {
			if g := paramGlobal(p); g != nil {
				return g, fa.Field, true
			}
		}
	case *ssa.Field:
		if p := structParam(x.X); p != nil {
			if g := paramGlobal(p); g != nil {
				return g, x.Field, true
			}
		}
	}
	return nil, 0, false
}

// spilledParam: al is the stack slot a struct parameter was copied into (its only store is that parameter).
func spilledParam(al *ssa.Alloc) *ssa.Parameter {
	var p *ssa.Parameter
	n := 0
	for _, r := range referrers(al) {
		if st, ok := r.(*ssa.Store); ok && st.Addr == ssa.Value(al) {
			n++
			p, _ = st.Val.(*ssa.Parameter)
		}
	}
	if n == 1 {
		return p
	}
	return nil
}

// onlyLogged: every use of v is an argument of a zerolog call (directly, or in the argument list of Msgf).
func onlyLogged(v ssa.Value, d int) bool {
	if d > 4 {
		return false
	}
	n := 0
	for _, r := range referrers(v) {
		switch x := r.(type) {
		case *ssa.DebugRef:
		case *ssa.MakeInterface:
			n++
			if !onlyLogged(x, d+1) {
				return false
			}
		case *ssa.Store:
			// the variadic slot of Msgf
			ia, ok := x.Addr.(*ssa.IndexAddr)
			if !ok || x.Val != v {
				return false
			}
			al, ok := ia.X.(*ssa.Alloc)
			if !ok {
				return false
			}
			n++
			for _, r2 := range referrers(al) {
				if sl, ok := r2.(*ssa.Slice); ok && !onlyLogged(sl, d+1) {
					return false
				}
			}
		case *ssa.Call:
			f := staticCallee(&x.Call)
			if f == nil || objPkgPath(f) != zerologPkg {
				return false
			}
			n++
		default:
			return false
		}
	}
	return n > 0
}
