package rules

import (
	"go/constant"
	"go/token"
	"go/types"
	"strings"

	"golang.org/x/tools/go/ssa"

	"crsverif/internal/load"
)

// staticCallee returns the types.Func a call resolves to: the static callee of
// a function or concrete method call, or the interface method of an invoke.
func staticCallee(c *ssa.CallCommon) *types.Func {
	if c.IsInvoke() {
		return c.Method
	}
	if fn := funcVarTarget(c.Value); fn != nil {
		if o, ok := fn.Object().(*types.Func); ok {
			return o
		}
	}
	switch v := c.Value.(type) {
	case *ssa.Function:
		if o, ok := v.Object().(*types.Func); ok {
			return o
		}
		if v.Origin() != nil {
			if o, ok := v.Origin().Object().(*types.Func); ok {
				return o
			}
		}
	case *ssa.MakeClosure:
		if fn, ok := v.Fn.(*ssa.Function); ok {
			if o, ok := fn.Object().(*types.Func); ok {
				return o
			}
		}
	}
	return nil
}

// staticFn returns the ssa.Function called, when it is statically known.
func staticFn(c *ssa.CallCommon) *ssa.Function {
	if c.IsInvoke() {
		return nil
	}
	if fn := funcVarTarget(c.Value); fn != nil {
		return fn
	}
	switch v := c.Value.(type) {
	case *ssa.Function:
		return v
	case *ssa.MakeClosure:
		if fn, ok := v.Fn.(*ssa.Function); ok {
			return fn
		}
	}
	return nil
}

func objPkgPath(o types.Object) string {
	if o == nil || o.Pkg() == nil {
		return ""
	}
	return o.Pkg().Path()
}

// recvNamed gives the name of the receiver's named type ("" for functions).
func recvNamed(f *types.Func) string {
	if f == nil {
		return ""
	}
	sig, ok := f.Type().(*types.Signature)
	if !ok || sig.Recv() == nil {
		return ""
	}
	t := sig.Recv().Type()
	if p, ok := t.(*types.Pointer); ok {
		t = p.Elem()
	}
	if n, ok := t.(*types.Named); ok {
		return n.Obj().Name()
	}
	return ""
}

// isFn: package-level function pkg.name.
func isFn(f *types.Func, pkg, name string) bool {
	return f != nil && objPkgPath(f) == pkg && f.Name() == name && recvNamed(f) == ""
}

// isMeth: method pkg.(recv).name (pointer or value receiver).
func isMeth(f *types.Func, pkg, recv, name string) bool {
	return f != nil && objPkgPath(f) == pkg && f.Name() == name && recvNamed(f) == recv
}

// qualName renders a callee as pkg.Func or pkg.(T).M with short package paths.
func qualName(f *types.Func) string {
	if f == nil {
		return "<dynamic>"
	}
	pkg := objPkgPath(f)
	if load.InModule(pkg) {
		pkg = load.ShortPkg(pkg)
	}
	if r := recvNamed(f); r != "" {
		return pkg + ".(" + r + ")." + f.Name()
	}
	return pkg + "." + f.Name()
}

var errorType = types.Universe.Lookup("error").Type()

func isErrorType(t types.Type) bool {
	if types.Identical(t, errorType) {
		return true
	}
	// a concrete error type of the repository used as a result (func f() *updateError): nil means success
	if pt, ok := t.(*types.Pointer); ok {
		if n, ok := pt.Elem().(*types.Named); ok && n.Obj().Pkg() != nil && load.InModule(n.Obj().Pkg().Path()) {
			return types.Implements(pt, errorType.Underlying().(*types.Interface))
		}
	}
	return false
}

// errResultIndex returns the index of the last result if it is of type error, else -1.
func errResultIndex(sig *types.Signature) int {
	if sig == nil {
		return -1
	}
	n := sig.Results().Len()
	if n == 0 {
		return -1
	}
	if isErrorType(sig.Results().At(n - 1).Type()) {
		return n - 1
	}
	return -1
}

// callInstr is the common view of Call/Defer/Go.
func callCommon(in ssa.Instruction) *ssa.CallCommon {
	switch c := in.(type) {
	case *ssa.Call:
		return &c.Call
	case *ssa.Defer:
		return &c.Call
	case *ssa.Go:
		return &c.Call
	}
	return nil
}

// resultValue returns the SSA value of result idx of call c: the call itself
// for single-result callees, the Extract otherwise (nil if never extracted).
func resultValue(c *ssa.Call, idx int) ssa.Value {
	sig := c.Call.Signature()
	if sig.Results().Len() == 1 {
		if idx == 0 {
			return c
		}
		return nil
	}
	for _, r := range *c.Referrers() {
		if ex, ok := r.(*ssa.Extract); ok && ex.Index == idx {
			return ex
		}
	}
	return nil
}

func isNilConst(v ssa.Value) bool {
	c, ok := v.(*ssa.Const)
	return ok && c.Value == nil
}

func constString(v ssa.Value) (string, bool) {
	c, ok := v.(*ssa.Const)
	if !ok || c.Value == nil || c.Value.Kind() != constant.String {
		return "", false
	}
	return constant.StringVal(c.Value), true
}

func constInt(v ssa.Value) (int64, bool) {
	c, ok := v.(*ssa.Const)
	if !ok || c.Value == nil || c.Value.Kind() != constant.Int {
		return 0, false
	}
	i, ok := constant.Int64Val(c.Value)
	return i, ok
}

func constBool(v ssa.Value) (bool, bool) {
	c, ok := v.(*ssa.Const)
	if !ok || c.Value == nil || c.Value.Kind() != constant.Bool {
		return false, false
	}
	return constant.BoolVal(c.Value), true
}

// nilTest decodes "v == nil" / "v != nil": returns v and whether the TRUE
// outcome of cond means v is nil.
func nilTest(cond ssa.Value) (v ssa.Value, trueMeansNil bool, ok bool) {
	b, isBin := cond.(*ssa.BinOp)
	if !isBin || (b.Op != token.EQL && b.Op != token.NEQ) {
		return nil, false, false
	}
	switch {
	case isNilConst(b.Y):
		v = b.X
	case isNilConst(b.X):
		v = b.Y
	default:
		return nil, false, false
	}
	return v, b.Op == token.EQL, true
}

// unwrapNot strips boolean negations; neg reports an odd number of them.
func unwrapNot(v ssa.Value) (inner ssa.Value, neg bool) {
	for {
		u, ok := v.(*ssa.UnOp)
		if !ok || u.Op != token.NOT {
			return v, neg
		}
		v = u.X
		neg = !neg
	}
}

// instrIndex returns the index of in inside its block.
func instrIndex(in ssa.Instruction) int {
	for i, x := range in.Block().Instrs {
		if x == in {
			return i
		}
	}
	return -1
}

// blockOfValue returns the block defining v (nil for params, consts, globals).
func blockOfValue(v ssa.Value) *ssa.BasicBlock {
	if in, ok := v.(ssa.Instruction); ok {
		return in.Block()
	}
	return nil
}

// derefType strips one pointer.
func derefType(t types.Type) types.Type {
	if p, ok := t.Underlying().(*types.Pointer); ok {
		return p.Elem()
	}
	return t
}

// namedOf returns (pkgpath, name) of a possibly pointer-to named type.
func namedOf(t types.Type) (string, string) {
	if p, ok := t.(*types.Pointer); ok {
		t = p.Elem()
	}
	if n, ok := t.(*types.Named); ok {
		pk := ""
		if n.Obj().Pkg() != nil {
			pk = n.Obj().Pkg().Path()
		}
		return pk, n.Obj().Name()
	}
	return "", ""
}

func isNamed(t types.Type, pkg, name string) bool {
	p, n := namedOf(t)
	return p == pkg && n == name
}

// calleeLabel names the callee of a call for obligation keys.
func calleeLabel(c *ssa.CallCommon) string {
	if f := staticCallee(c); f != nil {
		return qualName(f)
	}
	if fn := staticFn(c); fn != nil {
		return load.FnName(fn)
	}
	return "dynamic(" + strings.ReplaceAll(c.Value.Type().String(), load.ModulePath+"/", "") + ")"
}

// allInstrs iterates over the instructions of fn.
func allInstrs(fn *ssa.Function, f func(in ssa.Instruction)) {
	for _, b := range fn.Blocks {
		// the recover block of a function with a defer is only entered after a recovered panic;
		// nothing in the repository recovers (NO-RECOVER), so it is dead code and its synthetic
		// return is not a way out of the function
		if b == fn.Recover {
			continue
		}
		for _, in := range b.Instrs {
			f(in)
		}
	}
}

// referrers returns the referrers of v or nil.
func referrers(v ssa.Value) []ssa.Instruction {
	r := v.Referrers()
	if r == nil {
		return nil
	}
	return *r
}

// stripConv follows ChangeType/Convert/ChangeInterface/MakeInterface back.
func stripConv(v ssa.Value) ssa.Value {
	for {
		switch x := v.(type) {
		case *ssa.ChangeType:
			v = x.X
		case *ssa.Convert:
			v = x.X
		case *ssa.ChangeInterface:
			v = x.X
		case *ssa.MakeInterface:
			v = x.X
		default:
			return v
		}
	}
}

// funcVarTargets: package-level function variables of the repository that are
// assigned exactly once, by their initialiser, to a named function (the
// "injectable" form `var writeFile = os.WriteFile`). Nothing in the analysed
// (non-test) program can change them, so a call through such a variable is a
// call of that function. Filled by NewCtx.
var funcVarTargets = map[*ssa.Global]*ssa.Function{}

// funcVarTarget: v is a load of such a variable.
func funcVarTarget(v ssa.Value) *ssa.Function {
	ld, ok := v.(*ssa.UnOp)
	if !ok || ld.Op != token.MUL {
		return nil
	}
	g, ok := ld.X.(*ssa.Global)
	if !ok {
		return nil
	}
	return funcVarTargets[g]
}
