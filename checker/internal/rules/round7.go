package rules

import (
	"fmt"
	"go/token"
	"go/types"
	"sort"
	"strings"

	"golang.org/x/tools/go/ssa"

	"crsverif/internal/load"
	"crsverif/internal/rx"
)

// Rules added after the seventh round of seeded changes ("lint and review
// clean-ups applied too eagerly").

// ---------- ERRORF-NIL ----------

// RuleErrorfNil (C12, C16 and the other exit-status sentences): fmt.Errorf
// makes an error out of anything, a nil error included. "Add context to the
// returned error" written as
//
//	return fmt.Errorf("failed to compare %s: %w", id, err)
//
// outside the `if err != nil` turns the successful end of the function into a
// failure: the command prints its normal output and exits 1. The rule asks of
// every error-typed operand of an Errorf that it cannot be nil there: a test of
// the value dominates the call, or the value is itself constructed
// (errors.New, Errorf, a concrete error type, a sentinel variable), or - for a
// parameter - every caller hands over such a value.
func (c *Ctx) RuleErrorfNil() *Result {
	res := &Result{Rule: "ERRORF-NIL", MinInst: 0}
	sites := 0
	for _, fn := range c.P.RepoFns {
		if !c.liveFn(fn) {
			continue
		}
		allInstrs(fn, func(in ssa.Instruction) {
			call, ok := in.(*ssa.Call)
			if !ok || !isFn(staticCallee(&call.Call), "fmt", "Errorf") || len(call.Call.Args) < 2 {
				return
			}
			sl, ok := call.Call.Args[1].(*ssa.Slice)
			if !ok {
				return
			}
			for i, el := range rawVariadicElems(sl) {
				v := stripErrConv(el)
				if v == nil || !isErrorType(v.Type()) {
					continue
				}
				sites++
				res.Instances++
				key := fmt.Sprintf("%s:operand %d of fmt.Errorf", load.FnName(fn), i+1)
				pos := c.P.InstrPos(call)
				if why := c.errNonNilAt(v, call, fn, 0); why != "" {
					res.ok(key, pos, why)
				} else {
					res.bad(key, pos, "the error wrapped by fmt.Errorf can be nil here (no test of it dominates the call and it is not a constructed error): Errorf turns a nil error into a non-nil one, so the successful end of "+load.FnName(fn)+" is reported as a failure (normal output, exit status 1)")
				}
			}
		})
	}
	res.Instances++
	res.ok("repository:error operands of fmt.Errorf", "-", fmt.Sprintf("%d error-typed operands of fmt.Errorf examined", sites))
	return res
}

// rawVariadicElems: the values stored into the argument array of a variadic call, in order.
func rawVariadicElems(sl *ssa.Slice) []ssa.Value {
	al, ok := sl.X.(*ssa.Alloc)
	if !ok {
		return nil
	}
	type el struct {
		i int64
		v ssa.Value
	}
	var els []el
	for _, r := range referrers(al) {
		if ia, ok := r.(*ssa.IndexAddr); ok {
			k, _ := constInt(ia.Index)
			for _, rr := range referrers(ia) {
				if st, ok := rr.(*ssa.Store); ok && st.Addr == ssa.Value(ia) {
					els = append(els, el{k, st.Val})
				}
			}
		}
	}
	sort.Slice(els, func(i, j int) bool { return els[i].i < els[j].i })
	var out []ssa.Value
	for _, e := range els {
		out = append(out, e.v)
	}
	return out
}

// stripErrConv: through the conversions to interface{} of a variadic slot, but not through the
// MakeInterface that builds the error itself.
func stripErrConv(v ssa.Value) ssa.Value {
	for {
		switch x := v.(type) {
		case *ssa.ChangeInterface:
			v = x.X
		case *ssa.MakeInterface:
			if isErrorType(x.X.Type()) && types.IsInterface(x.X.Type()) {
				v = x.X
				continue
			}
			return v
		default:
			return v
		}
	}
}

// errNonNilAt: why the error value v cannot be nil at instruction at ("" when it can).
func (c *Ctx) errNonNilAt(v ssa.Value, at ssa.Instruction, fn *ssa.Function, depth int) string {
	if depth > 3 {
		return ""
	}
	if knownNonEmpty(c.factsAt(at), v) {
		return "a test that the error is not nil dominates the call"
	}
	switch x := v.(type) {
	case *ssa.MakeInterface:
		if !types.IsInterface(x.X.Type()) {
			return "a value of a concrete error type"
		}
	case *ssa.Call:
		f := staticCallee(&x.Call)
		if isFn(f, "fmt", "Errorf") || isFn(f, "errors", "New") {
			return "a constructed error"
		}
	case *ssa.UnOp:
		if g, ok := x.X.(*ssa.Global); ok && x.Op == token.MUL {
			if c.sentinelNeverNil(g) {
				return "the sentinel variable " + g.Name()
			}
		}
	case *ssa.Phi:
		for _, e := range x.Edges {
			if e == v {
				continue
			}
			// on the edge the value came in by, the test may have been made in the predecessor
			if c.errNonNilAt(e, at, fn, depth+1) == "" {
				return ""
			}
		}
		return "every value that reaches the call is a constructed error"
	case *ssa.Parameter:
		pi := paramIndex(fn, x)
		n := 0
		for _, e := range c.Graph().In[fn] {
			cc := callCommon(e.Site)
			if cc == nil || staticFn(cc) != fn {
				if e.Kind != "methodset" {
					return "" // called through a value: what is handed over is not known
				}
				continue
			}
			if pi < 0 || pi >= len(cc.Args) {
				return ""
			}
			if !c.liveFn(e.Caller) {
				continue
			}
			n++
			if c.errNonNilAt(stripErrConv(cc.Args[pi]), e.Site, e.Caller, depth+1) == "" {
				return ""
			}
		}
		if n > 0 {
			return "every caller hands over an error that is not nil"
		}
	}
	return ""
}

// sentinelNeverNil: a package-level error variable assigned once, in its initialiser, a constructed error.
func (c *Ctx) sentinelNeverNil(g *ssa.Global) bool {
	if !isErrorType(derefType(g.Type())) {
		return false
	}
	if g.Pkg == nil || !strings.HasPrefix(g.Pkg.Pkg.Path(), load.ModulePath) {
		// a sentinel of another module or the standard library (io.EOF, fs.ErrNotExist): by convention never nil
		return true
	}
	stores, good := 0, true
	for _, fn := range c.P.RepoFns {
		allInstrs(fn, func(in ssa.Instruction) {
			st, ok := in.(*ssa.Store)
			if !ok || st.Addr != ssa.Value(g) {
				return
			}
			stores++
			if fn.Name() != "init" || !errOperandAlwaysNonNil(st.Val) {
				good = false
			}
		})
	}
	return good && stores == 1
}

var _ = sort.Strings
var _ = strings.Contains

// ---------- LINE-KEEP ----------

// lineLoop is a loop that reads a text line by line and accumulates text made from the lines.
type lineLoop struct {
	fn    *ssa.Function
	loop  *natLoop
	reads []ssa.Instruction // where a line becomes available (Text(), Bytes(), the element load)
	accs  []ssa.Instruction // where text made from the line is accumulated
}

// lineLoops finds the line loops of fn.
func (c *Ctx) lineLoops(fn *ssa.Function) []*lineLoop {
	var out []*lineLoop
	loops := naturalLoops(fn)
	for _, l := range loops {
		// outermost loops only: a loop nested in another line loop belongs to its body
		ll := &lineLoop{fn: fn, loop: l}
		tainted := map[ssa.Value]bool{}
		var work []ssa.Value
		add := func(v ssa.Value) {
			if v != nil && !tainted[v] {
				tainted[v] = true
				work = append(work, v)
			}
		}
		for b := range l.body {
			for _, in := range b.Instrs {
				// the element of a range over the lines of a split text
				if ld, ok := in.(*ssa.UnOp); ok && ld.Op == token.MUL {
					if ia, ok := ld.X.(*ssa.IndexAddr); ok {
						if sp, ok := stripConv(ia.X).(*ssa.Call); ok {
							if f := staticCallee(&sp.Call); (isFn(f, "strings", "Split") || isFn(f, "bytes", "Split") || isFn(f, "strings", "SplitAfter") || isFn(f, "bytes", "SplitAfter")) && !l.body[sp.Block()] {
								if _, isPhi := ia.Index.(*ssa.Phi); isPhi || isLoopCounter(ia.Index, l) {
									ll.reads = append(ll.reads, ld)
									add(ld)
								}
							}
						}
					}
				}
				call, ok := in.(*ssa.Call)
				if !ok {
					continue
				}
				f := staticCallee(&call.Call)
				if isMeth(f, "bufio", "Scanner", "Text") || isMeth(f, "bufio", "Scanner", "Bytes") {
					ll.reads = append(ll.reads, call)
					add(call)
				}
				if isMeth(f, "bufio", "Reader", "ReadString") || isMeth(f, "bufio", "Reader", "ReadBytes") || isMeth(f, "bufio", "Reader", "ReadLine") {
					ll.reads = append(ll.reads, call)
					add(call)
				}
			}
		}
		if len(ll.reads) == 0 {
			continue
		}
		for len(work) > 0 {
			v := work[len(work)-1]
			work = work[:len(work)-1]
			for _, r := range referrers(v) {
				if r.Block() == nil || !l.body[r.Block()] {
					continue
				}
				switch x := r.(type) {
				case *ssa.Call:
					if isAccumulate(x, v) {
						ll.accs = append(ll.accs, x)
						continue
					}
					add(x)
				case *ssa.Extract, *ssa.Phi, *ssa.BinOp, *ssa.Convert, *ssa.ChangeType, *ssa.Slice, *ssa.MakeInterface, *ssa.ChangeInterface, *ssa.Field, *ssa.UnOp, *ssa.Index, *ssa.Lookup:
					add(x.(ssa.Value))
				case *ssa.Store:
					// the variadic slot of a formatting call, a local that is read again
					if ia, ok := x.Addr.(*ssa.IndexAddr); ok {
						if al, ok := ia.X.(*ssa.Alloc); ok {
							for _, r2 := range referrers(al) {
								if sl, ok := r2.(*ssa.Slice); ok {
									add(sl)
								}
							}
						}
					}
					if al, ok := x.Addr.(*ssa.Alloc); ok {
						for _, r2 := range referrers(al) {
							if ld, ok := r2.(*ssa.UnOp); ok && ld.Op == token.MUL {
								add(ld)
							}
						}
					}
				case *ssa.MapUpdate:
					ll.accs = append(ll.accs, x)
				}
			}
		}
		if len(ll.accs) > 0 {
			out = append(out, ll)
		}
	}
	return out
}

// isAccumulate: the call adds v (text) to something that outlives the iteration: a write to a
// builder, buffer or writer, a formatted write, or append.
func isAccumulate(call *ssa.Call, v ssa.Value) bool {
	if bi, ok := call.Call.Value.(*ssa.Builtin); ok && bi.Name() == "append" {
		return len(call.Call.Args) == 2 && call.Call.Args[1] == v || len(call.Call.Args) == 2 && sliceOf(call.Call.Args[1], v)
	}
	f := staticCallee(&call.Call)
	if f == nil {
		return false
	}
	if objPkgPath(f) == "fmt" && strings.HasPrefix(f.Name(), "Fprint") {
		return true
	}
	switch objPkgPath(f) + "." + recvNamed(f) {
	case "strings.Builder", "bytes.Buffer", "bufio.Writer":
		return strings.HasPrefix(f.Name(), "Write") && len(call.Call.Args) > 1 && call.Call.Args[0] != v
	}
	if call.Call.IsInvoke() && strings.HasPrefix(call.Call.Method.Name(), "Write") {
		return true
	}
	return false
}

// sliceOf: s is the variadic argument array holding v.
func sliceOf(s, v ssa.Value) bool {
	sl, ok := s.(*ssa.Slice)
	if !ok {
		return false
	}
	al, ok := sl.X.(*ssa.Alloc)
	if !ok {
		return false
	}
	for _, r := range referrers(al) {
		if ia, ok := r.(*ssa.IndexAddr); ok {
			for _, rr := range referrers(ia) {
				if st, ok := rr.(*ssa.Store); ok && st.Val == v {
					return true
				}
			}
		}
	}
	return false
}

// RuleLineKeep (C06 suffix rewrite, C10 format, C13 renumber-tests, C14
// update-copyright): a function that rewrites a text line by line and is not
// meant to filter it keeps every line. In its read loop there is no way from
// the point where a line has been read back to the next read that does not
// put text made from that line into the result: an early `continue` in front
// of the write (the "reduce nesting" form of `if !skip { rewrite }; write`)
// drops the lines it was meant to leave alone. Leaving the loop (return,
// loud exit) is not a drop. Functions that classify lines on purpose (the
// parser's Parse, which consumes directives) are outside the rule: it is
// applied to the functions named by role in the wiring.
func (c *Ctx) RuleLineKeep(scope func(fn *ssa.Function) bool, floor int) *Result {
	res := &Result{Rule: "LINE-KEEP", MinInst: floor}
	lm := c.Loud()
	for _, fn := range c.P.RepoFns {
		if !scope(fn) || !c.liveFn(fn) {
			continue
		}
		for _, ll := range c.lineLoops(fn) {
			res.Instances++
			key := load.FnName(fn) + ":every line read is kept"
			pos := c.P.InstrPos(ll.reads[0])
			accBlock := map[*ssa.BasicBlock]bool{}
			for _, a := range ll.accs {
				accBlock[a.Block()] = true
			}
			// from the block of the read: can the loop header be reached again without an accumulating block?
			bad := ""
			for _, rd := range ll.reads {
				start := rd.Block()
				if accBlock[start] {
					continue
				}
				seen := map[*ssa.BasicBlock]bool{}
				stack := append([]*ssa.BasicBlock(nil), start.Succs...)
				for len(stack) > 0 && bad == "" {
					b := stack[len(stack)-1]
					stack = stack[:len(stack)-1]
					if seen[b] || !ll.loop.body[b] {
						continue
					}
					seen[b] = true
					if b == ll.loop.header {
						bad = fmt.Sprintf("the line read at %s can reach the next iteration without anything made from it being written or appended (the accumulating statements are at %s): lines the function is meant to leave alone are dropped from the result", c.P.InstrPos(rd), instrPositions(c, ll.accs))
						break
					}
					if accBlock[b] || lm.BlockDies(b) {
						continue
					}
					stack = append(stack, b.Succs...)
				}
			}
			if bad != "" {
				res.bad(key, pos, bad)
			} else {
				res.ok(key, pos, fmt.Sprintf("every path from the read back to the loop header passes one of the %d accumulating statements", len(ll.accs)))
			}
		}
	}
	return res
}

func instrPositions(c *Ctx, ins []ssa.Instruction) string {
	var ps []string
	for _, in := range ins {
		ps = append(ps, c.P.InstrPos(in))
	}
	ps = uniq(ps)
	sort.Strings(ps)
	if len(ps) > 4 {
		ps = append(ps[:4], "...")
	}
	return strings.Join(ps, ", ")
}

// lineKeepScope: every function except the ones that classify lines on purpose (they obtain a
// parser.ParsedLine for the line and decide by its kind what becomes of it).
func (c *Ctx) lineKeepScope(pkgs ...string) func(fn *ssa.Function) bool {
	return func(fn *ssa.Function) bool {
		if len(pkgs) > 0 {
			in := false
			for _, p := range pkgs {
				if load.ShortPkg(load.FnPkgPath(fn)) == p {
					in = true
				}
			}
			if !in {
				return false
			}
		}
		classifies := false
		allInstrs(fn, func(in ssa.Instruction) {
			if call, ok := in.(*ssa.Call); ok {
				if isNamed(call.Type(), load.ModulePath+"/regex/parser", "ParsedLine") {
					classifies = true
				}
			}
		})
		return !classifies
	}
}

// isLoopCounter: v is the counter of loop l (a phi of its header, or that phi plus one: the rotated form).
func isLoopCounter(v ssa.Value, l *natLoop) bool {
	if b, ok := v.(*ssa.BinOp); ok && b.Op == token.ADD {
		v = b.X
	}
	ph, ok := v.(*ssa.Phi)
	return ok && ph.Block() == l.header
}

// ---------- LIT-GUARD ----------

// RuleLitGuard (C09, C10 and wherever lines are classified by pattern): a
// "cheap test first" in front of a pattern match - the match is only tried
// when strings.HasPrefix / HasSuffix / Contains of the same text and a
// constant holds - is harmless only if the pattern cannot match a text that
// fails the cheap test. `strings.HasPrefix(line, "##!")` in front of a pattern
// that starts `^\s*##!` is not: the indented comment lines the pattern was
// written to accept are no longer recognised. Decided on the languages: the
// search language of the pattern must be included in the language of the
// literal test; a witness is reported otherwise.
func (c *Ctx) RuleLitGuard() *Result {
	res := &Result{Rule: "LIT-GUARD", MinInst: 0}
	n := 0
	for _, fn := range c.P.RepoFns {
		if !c.liveFn(fn) {
			continue
		}
		allInstrs(fn, func(in ssa.Instruction) {
			call, m, recv, subj, ok := regexpCall(in)
			if !ok || !(regexpMatchMethods[m] || strings.HasPrefix(m, "Find")) {
				return
			}
			p, _ := c.Rx().Resolve(recv)
			if p == nil {
				return
			}
			// the literal tests of the same text that hold on every path to the match
			type lit struct {
				kind, text string
				at         ssa.Instruction
			}
			var lits []lit
			for _, b := range fn.Blocks {
				for _, in2 := range b.Instrs {
					t, ok := in2.(*ssa.Call)
					if !ok || len(t.Call.Args) != 2 {
						continue
					}
					f := staticCallee(&t.Call)
					if f == nil || (objPkgPath(f) != "strings" && objPkgPath(f) != "bytes") {
						continue
					}
					if f.Name() != "HasPrefix" && f.Name() != "HasSuffix" && f.Name() != "Contains" {
						continue
					}
					text, isC := constString(stripConv(t.Call.Args[1]))
					if !isC || text == "" || !sameEntry(subj, t.Call.Args[0]) {
						continue
					}
					holds := func(cond ssa.Value, val bool) bool { return cond == ssa.Value(t) && val }
					if c.guardedByEdges(call, holds) {
						lits = append(lits, lit{f.Name(), text, t})
					}
				}
			}
			for _, l := range lits {
				n++
				res.Instances++
				key := fmt.Sprintf("%s:%s(%q) in front of %s", load.FnName(fn), l.kind, l.text, p.Name)
				pos := c.P.InstrPos(call)
				var src string
				switch l.kind {
				case "HasPrefix":
					src = `(?s)^` + regexpQuote(l.text)
				case "HasSuffix":
					src = `(?s)` + regexpQuote(l.text) + `$`
				default:
					src = regexpQuote(l.text)
				}
				guard, err := rx.SearchPattern("texts that pass "+l.kind+"("+l.text+")", src)
				if err != nil {
					res.undecided(key, pos, "the literal test cannot be expressed as a language: "+err.Error())
					continue
				}
				r, err := rx.NotIncluded(searchLang(p), guard)
				if err != nil {
					res.undecided(key, pos, "inclusion not decided: "+err.Error())
					continue
				}
				if r.Found {
					res.bad(key, pos, fmt.Sprintf("the match of %s (%s) is only tried when strings.%s(text, %q) holds (%s), but the pattern also matches texts that fail that test, e.g. %q: they are no longer recognised by the pattern", p.Name, p.Src, l.kind, l.text, c.P.InstrPos(l.at), r.Witness))
				} else {
					res.ok(key, pos, fmt.Sprintf("every text %s matches passes %s(%q): the test in front only saves the match", p.Name, l.kind, l.text))
				}
			}
		})
	}
	// the same at the level of a whole function: a pass that hands its text back untouched when a literal test
	// of it fails ("nothing to strip") is the identity on exactly the texts that fail the test, so none of
	// the patterns the pass would have tried may match such a text
	for _, fn := range c.P.RepoFns {
		if !c.liveFn(fn) || len(fn.Blocks) == 0 {
			continue
		}
		for _, par := range fn.Params {
			if !isStringType(par.Type()) && !isByteSlice(par.Type()) {
				continue
			}
			for _, r := range referrers(par) {
				t, ok := r.(*ssa.Call)
				if !ok || len(t.Call.Args) != 2 || t.Call.Args[0] != ssa.Value(par) {
					continue
				}
				f := staticCallee(&t.Call)
				if f == nil || (objPkgPath(f) != "strings" && objPkgPath(f) != "bytes") {
					continue
				}
				text, isC := constString(stripConv(t.Call.Args[1]))
				if !isC || text == "" {
					continue
				}
				var src string
				switch f.Name() {
				case "HasPrefix":
					src = `(?s)^` + regexpQuote(text)
				case "HasSuffix":
					src = `(?s)` + regexpQuote(text) + `$`
				case "Contains":
					src = regexpQuote(text)
				case "ContainsAny":
					src = `[` + classQuote(text) + `]`
				default:
					continue
				}
				// the failing side returns the parameter itself
				returnsInput := false
				for _, br := range condBranches(t) {
					failSucc := 1
					if br.neg {
						failSucc = 0
					}
					blk := br.iff.Block().Succs[failSucc]
					if ret, ok := blk.Instrs[len(blk.Instrs)-1].(*ssa.Return); ok && len(blk.Preds) == 1 {
						for _, rv := range ret.Results {
							if stripConv(rv) == ssa.Value(par) {
								returnsInput = true
							}
						}
					}
				}
				if !returnsInput {
					continue
				}
				guard, err := rx.SearchPattern("texts that pass "+f.Name()+"("+text+")", src)
				if err != nil {
					continue
				}
				allInstrs(fn, func(in ssa.Instruction) {
					call, m, recv, _, ok := regexpCall(in)
					if !ok || !(regexpMatchMethods[m] || strings.HasPrefix(m, "Find") || strings.HasPrefix(m, "Replace")) {
						return
					}
					p, _ := c.Rx().Resolve(recv)
					if p == nil {
						return
					}
					n++
					res.Instances++
					key := fmt.Sprintf("%s:untouched unless %s(%q), then %s", load.FnName(fn), f.Name(), text, p.Name)
					pos := c.P.InstrPos(call)
					r, err := rx.NotIncluded(searchLang(p), guard)
					if err != nil {
						res.undecided(key, pos, "inclusion not decided: "+err.Error())
						return
					}
					if r.Found {
						res.bad(key, pos, fmt.Sprintf("%s returns its text untouched when strings.%s(text, %q) fails (%s), but the pattern %s (%s) it would otherwise apply also matches texts that fail that test, e.g. %q: for them the pass is skipped although it has work to do", load.FnName(fn), f.Name(), text, c.P.InstrPos(t), p.Name, p.Src, r.Witness))
					} else {
						res.ok(key, pos, fmt.Sprintf("every text %s matches passes %s(%q): skipping the pass when the test fails changes nothing", p.Name, f.Name(), text))
					}
				})
			}
		}
	}
	res.Instances++
	res.ok("repository:literal tests in front of pattern matches", "-", fmt.Sprintf("%d found", n))
	return res
}

// classQuote escapes s for use inside a character class.
func classQuote(s string) string {
	var sb strings.Builder
	for _, r := range s {
		if strings.ContainsRune(`\]^-[`, r) {
			sb.WriteByte('\\')
		}
		sb.WriteRune(r)
	}
	return sb.String()
}

func regexpQuote(s string) string {
	var sb strings.Builder
	for _, r := range s {
		if strings.ContainsRune(`\.+*?()|[]{}^$`, r) {
			sb.WriteByte('\\')
		}
		sb.WriteRune(r)
	}
	return sb.String()
}

// ---------- LOC-COMMENT ----------

// RuleLocComment (C11, C12): the loops of update and compare that look for a
// rule in the lines of a rules file do not take a comment line for a line of
// the rule. C11 quantifies over rules files with "comments mentioning ids": a
// comment such as `# the next rule, id:942100, ...` in front of the rule, or
// a commented-out `# SecRule ... "@rx ..." \` inside a chain, is matched by
// the unanchored id pattern / by a SecRule pattern without `^`, and the
// operand of another line (or of the comment) is rewritten, or the rule is
// reported as not found. For every pattern match on the current line inside
// such a search loop the rule asks that either the pattern's language and the
// language of comment lines (`^\s*#`) are disjoint (product automaton), or the
// match is only reached on the no-match side of a test that recognises every
// comment line.
func (c *Ctx) RuleLocComment() *Result {
	res := &Result{Rule: "LOC-COMMENT", MinInst: 2}
	commentLines, err := rx.SearchPattern("comment lines of a rules file", `^\s*#`)
	if err != nil {
		res.undecided("reference", "-", err.Error())
		return res
	}
	// the functions that locate the operand: those that match the rule-line pattern, with the helpers of the
	// same package they call and the functions of the same package that call them
	scope := map[*ssa.Function]bool{}
	for _, s := range c.submatchSites() {
		if s.pattern != nil && s.pattern.Name == "regex.RuleRxRegex" && c.liveFn(s.fn) {
			scope[s.fn] = true
		}
	}
	var base []*ssa.Function
	for fn := range scope {
		base = append(base, fn)
	}
	for _, fn := range base {
		for _, e := range c.Graph().Out[fn] {
			if e.Callee != nil && c.P.IsRepoFn(e.Callee) && e.Callee.Pkg == fn.Pkg && e.Kind == "static" {
				scope[e.Callee] = true
			}
		}
		for _, e := range c.Graph().In[fn] {
			if e.Caller != nil && c.P.IsRepoFn(e.Caller) && e.Caller.Pkg == fn.Pkg && e.Kind == "static" {
				scope[e.Caller] = true
				for _, e2 := range c.Graph().Out[e.Caller] {
					if e2.Callee != nil && c.P.IsRepoFn(e2.Callee) && e2.Callee.Pkg == fn.Pkg && e2.Kind == "static" {
						scope[e2.Callee] = true
					}
				}
			}
		}
	}
	var fns []*ssa.Function
	for fn := range scope {
		fns = append(fns, fn)
	}
	sort.Slice(fns, func(i, j int) bool { return load.FnName(fns[i]) < load.FnName(fns[j]) })
	coversComments := func(p *Pattern) bool {
		r, err := rx.NotIncluded(commentLines, searchLang(p))
		return err == nil && !r.Found
	}
	// the predicates handed to slices.IndexFunc / ContainsFunc by those functions: their parameter is the line
	preds := map[*ssa.Function]bool{}
	for _, fn := range fns {
		allInstrs(fn, func(in ssa.Instruction) {
			cc := callCommon(in)
			if cc == nil {
				return
			}
			f := staticCallee(cc)
			if f == nil || objPkgPath(f) != "slices" || !(strings.HasPrefix(f.Name(), "IndexFunc") || strings.HasPrefix(f.Name(), "ContainsFunc")) {
				return
			}
			for _, a := range cc.Args {
				for _, pf := range fnValuesIn(a, 3) {
					if len(pf.Params) == 1 && len(pf.Blocks) > 0 && pf.Synthetic == "" {
						preds[pf] = true
					}
				}
			}
		})
	}
	type searchSite struct {
		fn   *ssa.Function
		call *ssa.Call
	}
	var sites []searchSite
	for _, fn := range fns {
		for _, l := range naturalLoops(fn) {
			for b := range l.body {
				for _, in := range b.Instrs {
					call, m, _, subj, ok := regexpCall(in)
					// the subject is the element the loop is looking at
					if ok && regexpMatchMethods[m] && isLoopElement(stripConv(subj), l) {
						sites = append(sites, searchSite{fn, call})
					}
				}
			}
		}
	}
	var predFns []*ssa.Function
	for pf := range preds {
		predFns = append(predFns, pf)
	}
	sort.Slice(predFns, func(i, j int) bool { return load.FnName(predFns[i]) < load.FnName(predFns[j]) })
	for _, pf := range predFns {
		allInstrs(pf, func(in ssa.Instruction) {
			call, m, _, subj, ok := regexpCall(in)
			if ok && regexpMatchMethods[m] && stripConv(subj) == ssa.Value(pf.Params[0]) {
				sites = append(sites, searchSite{pf, call})
			}
		})
	}
	{
		{
			{
				for _, site := range sites {
					fn, call := site.fn, site.call
					_, _, recv, subj, _ := regexpCall(call)
					res.Instances++
					p, _ := c.Rx().Resolve(recv)
					pname := "a pattern built at run time"
					if p != nil {
						pname = p.Name
					}
					key := fmt.Sprintf("%s:%s tried on the lines of the rules file", load.FnName(fn), pname)
					pos := c.P.InstrPos(call)
					if p != nil {
						if coversComments(p) {
							// the comment test itself: it must not take anything else for a comment
							if r, err := rx.NotIncluded(searchLang(p), commentLines); err == nil && r.Found {
								res.bad(key, pos, fmt.Sprintf("%s (%s) is used to tell comment lines from the lines of a rule, but it also matches lines that are not comments, e.g. %q: a SecRule line whose operand contains '#' is skipped, chained rules are miscounted and the operand of a later rule is rewritten", p.Name, p.Src, r.Witness))
							} else {
								res.ok(key, pos, "the pattern is the comment test itself: it matches every comment line and nothing else")
							}
							continue
						}
						r, err := rx.Intersects(searchLang(p), commentLines)
						if err == nil && !r.Found {
							res.ok(key, pos, fmt.Sprintf("%s (%s) matches no comment line", p.Name, p.Src))
							continue
						}
					}
					skipped := func(cond ssa.Value, val bool) bool {
						if _, m2, recv2, subj2, ok := regexpCall(asInstr(cond)); ok && regexpMatchMethods[m2] && !val && sameEntry(subj, subj2) {
							if p2, _ := c.Rx().Resolve(recv2); p2 != nil && coversComments(p2) {
								return true
							}
						}
						// bytes.HasPrefix(bytes.TrimSpace(line), "#") and its strings form
						if t, ok := cond.(*ssa.Call); ok && !val && len(t.Call.Args) == 2 {
							f := staticCallee(&t.Call)
							if (isFn(f, "bytes", "HasPrefix") || isFn(f, "strings", "HasPrefix")) && isConstText(t.Call.Args[1], "#") {
								if tr, ok := stripConv(t.Call.Args[0]).(*ssa.Call); ok {
									g := staticCallee(&tr.Call)
									if g != nil && (objPkgPath(g) == "bytes" || objPkgPath(g) == "strings") && (g.Name() == "TrimSpace" || g.Name() == "TrimLeft") && sameEntry(subj, tr.Call.Args[0]) {
										return true
									}
								}
							}
						}
						return false
					}
					if c.guardedByEdges(call, skipped) {
						res.ok(key, pos, "only reached for lines that a comment test did not recognise")
						continue
					}
					w := ""
					if p != nil {
						if r, err := rx.Intersects(searchLang(p), commentLines); err == nil && r.Found {
							w = fmt.Sprintf(" (%s matches the comment line %q)", p.Src, r.Witness)
						}
					}
					res.bad(key, pos, fmt.Sprintf("%s is matched against every line of the rules file, comment lines included%s: a comment that mentions the rule's id, or a commented-out SecRule inside a chain, is taken for a line of the rule, and the operand of another line is rewritten or the rule is reported as not found", pname, w))
				}
			}
		}
	}
	return res
}

// isLoopElement: v is the element of the slice the loop walks (a load of slice[i] with i the loop's counter),
// possibly through the variable of the range statement.
func isLoopElement(v ssa.Value, l *natLoop) bool {
	switch x := v.(type) {
	case *ssa.UnOp:
		if x.Op != token.MUL {
			return false
		}
		if ia, ok := x.X.(*ssa.IndexAddr); ok {
			return l.body[x.Block()] && isLoopCounter(ia.Index, l)
		}
	case *ssa.Phi:
		for _, e := range x.Edges {
			if e != v && isLoopElement(stripConv(e), l) {
				return true
			}
		}
	}
	return false
}

func isConstText(v ssa.Value, want string) bool {
	v = stripConv(v)
	if s, ok := constString(v); ok {
		return s == want
	}
	// []byte("#")
	if sl, ok := v.(*ssa.Slice); ok {
		_ = sl
	}
	return false
}

// ---------- DEF-KEPT ----------

// RuleDefKept (C07, C05): the text in which the definitions were expanded is
// the text everybody gets. The parser keeps its output in a field and hands
// it out as the result of Parse; expansion makes a new buffer. When that new
// buffer is only returned and not stored back, whoever reads the field (the
// code that wraps an included file's output) or ignores the result gets the
// text from before the expansion: the definitions of an included file are not
// applied to its own entries. The rule: the result of the expansion call is
// stored into the field its input was loaded from, or nobody but the
// expanding method reads that field and no call of the method drops its
// result.
func (c *Ctx) RuleDefKept() *Result {
	res := &Result{Rule: "DEF-KEPT", MinInst: 0}
	res.Instances++
	res.ok("repository:methods that expand definitions", "-", "scanned")
	defFns := c.defFragmentFns()
	for _, fn := range c.P.RepoFns {
		if !c.liveFn(fn) || len(fn.Params) == 0 || fn.Signature.Recv() == nil {
			continue
		}
		allInstrs(fn, func(in ssa.Instruction) {
			call, ok := in.(*ssa.Call)
			if !ok {
				return
			}
			sf := staticFn(&call.Call)
			if sf == nil {
				return
			}
			if _, isDef := defFns[sf]; !isDef || sf == fn {
				return
			}
			res.Instances++
			key := load.FnName(fn) + ":text after definition expansion"
			pos := c.P.InstrPos(call)
			if call.Type() == nil || sf.Signature.Results().Len() == 0 {
				res.ok(key, pos, "the expansion works on the parser's own state (it returns nothing that could be lost)")
				return
			}
			// the field the input was loaded from
			var field *ssa.FieldAddr
			for _, a := range call.Call.Args {
				if ld, ok := a.(*ssa.UnOp); ok && ld.Op == token.MUL {
					if fa, ok := ld.X.(*ssa.FieldAddr); ok && fa.X == ssa.Value(fn.Params[0]) && types.Identical(ld.Type(), call.Type()) {
						field = fa
					}
				}
			}
			if field == nil {
				res.ok(key, pos, "the text that is expanded is not kept in a field of the receiver")
				return
			}
			stored := false
			for _, r := range referrers(call) {
				if st, ok := r.(*ssa.Store); ok && st.Val == ssa.Value(call) {
					if fa, ok := st.Addr.(*ssa.FieldAddr); ok && fa.X == field.X && fa.Field == field.Field {
						stored = true
					}
				}
			}
			if stored {
				res.ok(key, pos, "the expanded text is stored back into the field it was taken from")
				return
			}
			fname := fieldName(field)
			// who else reads the field, who drops the result
			var problems []string
			for _, g := range c.P.RepoFns {
				if g == fn || !c.liveFn(g) {
					continue
				}
				allInstrs(g, func(in2 ssa.Instruction) {
					fa, ok := in2.(*ssa.FieldAddr)
					if !ok || fa.Field != field.Field || !types.Identical(fa.X.Type(), field.X.Type()) {
						return
					}
					for _, r := range referrers(fa) {
						if ld, ok := r.(*ssa.UnOp); ok && ld.Op == token.MUL {
							problems = append(problems, fmt.Sprintf("%s reads %s at %s", load.FnName(g), fname, c.P.InstrPos(ld)))
						}
					}
				})
			}
			for _, e := range c.Graph().In[fn] {
				cc := callCommon(e.Site)
				if cc == nil || staticFn(cc) != fn || !c.liveFn(e.Caller) {
					continue
				}
				v, ok := e.Site.(ssa.Value)
				if !ok {
					continue
				}
				used := false
				for _, r := range referrers(v) {
					if ex, ok := r.(*ssa.Extract); ok && ex.Index == 0 && len(referrers(ex)) > 0 {
						used = true
					}
					if _, isEx := r.(*ssa.Extract); !isEx {
						if _, isDbg := r.(*ssa.DebugRef); !isDbg {
							used = true
						}
					}
				}
				if !used {
					problems = append(problems, fmt.Sprintf("%s calls %s and drops the text it returns (%s)", load.FnName(e.Caller), load.FnName(fn), c.P.InstrPos(e.Site)))
				}
			}
			if len(problems) > 0 {
				res.bad(key, pos, fmt.Sprintf("the text in which the definitions were expanded is only returned, %s keeps the text from before the expansion, and %s: the definitions of that file are not applied to what is taken from there", fname, strings.Join(uniq(problems), "; ")))
			} else {
				res.ok(key, pos, "the expanded text is the result of the method; the field is read by nobody else and no caller drops the result")
			}
		})
	}
	return res
}

func fieldName(fa *ssa.FieldAddr) string {
	if st, ok := derefType(fa.X.Type()).Underlying().(*types.Struct); ok && fa.Field < st.NumFields() {
		return "field " + st.Field(fa.Field).Name()
	}
	return "the field"
}

// ---------- CACHE-READER ----------

// RuleCacheReader (C17, C05): a buffer or reader has a read position. A
// function that hands out such an object from a map - a cache of parsed
// include files whose values are the *bytes.Buffer themselves - gives the
// second caller an object the first one has already read to the end: the
// second inclusion of the same file is silently empty (every Scan() is false,
// every Err() nil). The rule: no function returns a *bytes.Buffer,
// *bytes.Reader, *strings.Reader, *bufio.Reader or *os.File that it looked up
// in a map, or that it also stores into one.
func (c *Ctx) RuleCacheReader() *Result {
	res := &Result{Rule: "CACHE-READER", MinInst: 0}
	res.Instances++
	res.ok("repository:functions that return a buffer or reader", "-", "scanned")
	stateful := func(t types.Type) bool {
		for _, n := range [][2]string{{"bytes", "Buffer"}, {"bytes", "Reader"}, {"strings", "Reader"}, {"bufio", "Reader"}, {"os", "File"}} {
			if isNamed(derefType(t), n[0], n[1]) {
				if _, isPtr := t.Underlying().(*types.Pointer); isPtr {
					return true
				}
			}
		}
		return false
	}
	for _, fn := range c.P.RepoFns {
		if !c.liveFn(fn) || len(fn.Blocks) == 0 {
			continue
		}
		results := fn.Signature.Results()
		any := false
		for i := 0; i < results.Len(); i++ {
			if stateful(results.At(i).Type()) {
				any = true
			}
		}
		if !any {
			continue
		}
		res.Instances++
		key := load.FnName(fn) + ":reader handed out"
		var why string
		var fromMap func(v ssa.Value, d int, seen map[ssa.Value]bool) string
		fromMap = func(v ssa.Value, d int, seen map[ssa.Value]bool) string {
			v = stripConv(v)
			if d > 6 || seen[v] {
				return ""
			}
			seen[v] = true
			switch x := v.(type) {
			case *ssa.Phi:
				for _, e := range x.Edges {
					if w := fromMap(e, d+1, seen); w != "" {
						return w
					}
				}
			case *ssa.Lookup:
				if isMapType(x.X.Type()) {
					return "it was looked up in a map at " + c.P.InstrPos(x)
				}
			case *ssa.Extract:
				if lk, ok := x.Tuple.(*ssa.Lookup); ok && x.Index == 0 && isMapType(lk.X.Type()) {
					return "it was looked up in a map at " + c.P.InstrPos(lk)
				}
			case *ssa.Field:
				// a field of a struct that came out of the map
				return fromMap(x.X, d+1, seen)
			case *ssa.UnOp:
				if fa, ok := x.X.(*ssa.FieldAddr); ok && x.Op == token.MUL {
					if ld, ok := fa.X.(*ssa.UnOp); ok {
						return fromMap(ld, d+1, seen)
					}
					if al, ok := fa.X.(*ssa.Alloc); ok {
						for _, r := range referrers(al) {
							if st, ok := r.(*ssa.Store); ok && st.Addr == ssa.Value(al) {
								if w := fromMap(st.Val, d+1, seen); w != "" {
									return w
								}
							}
						}
					}
				}
			}
			// also stored into a map by this function (directly or as a field of the struct that is stored):
			// the caller reads the object the cache keeps
			for _, r := range referrers(v) {
				switch y := r.(type) {
				case *ssa.MapUpdate:
					if stripConv(y.Value) == v {
						return "it is also stored into a map at " + c.P.InstrPos(y)
					}
				case *ssa.Store:
					if fa, ok := y.Addr.(*ssa.FieldAddr); ok && y.Val == v {
						if al, ok := fa.X.(*ssa.Alloc); ok {
							for _, r2 := range referrers(al) {
								if ld, ok := r2.(*ssa.UnOp); ok && ld.Op == token.MUL {
									for _, r3 := range referrers(ld) {
										if mu, ok := r3.(*ssa.MapUpdate); ok && mu.Value == ssa.Value(ld) {
											return "it is also stored, inside a struct, into a map at " + c.P.InstrPos(mu)
										}
									}
								}
							}
						}
					}
				}
			}
			return ""
		}
		allInstrs(fn, func(in ssa.Instruction) {
			r, ok := in.(*ssa.Return)
			if !ok || why != "" {
				return
			}
			for _, rv := range r.Results {
				if stateful(rv.Type()) {
					if w := fromMap(rv, 0, map[ssa.Value]bool{}); w != "" {
						why = fmt.Sprintf("the %s returned at %s is shared: %s. Whoever reads it first moves its read position to the end; the next caller that is handed the same object finds it empty, without any error (an include of the same file a second time contributes nothing)", types.TypeString(rv.Type(), nil), c.P.InstrPos(r), w)
					}
				}
			}
		})
		if why != "" {
			res.bad(key, c.P.FnPos(fn), why)
		} else {
			res.ok(key, c.P.FnPos(fn), "every buffer or reader the function returns is made by this call or kept in a field of its own object, not taken from a keyed cache")
		}
	}
	return res
}

// ---------- hand-written predicates as languages ----------

// textPredicate is a function of the repository of the form func(text) bool whose answer is a boolean
// combination of tests that are regular: a constant prefix, suffix or substring, "nothing but characters
// of a constant set" (Trim*(text, set) == "", TrimSpace(text) == "", a byte loop that returns false on
// the first byte outside a set of constants) and emptiness. atoms are the languages of those tests;
// eval computes the function's answer from the membership of the text in each of them by running the
// function's control flow.
type textPredicate struct {
	atoms []*rx.Lang
	eval  func(m []bool) bool
}

const unicodeSpaceClass = `\t\n\x0b\f\r \x{85}\x{A0}\x{1680}\x{2000}-\x{200a}\x{2028}\x{2029}\x{202f}\x{205f}\x{3000}`

func (c *Ctx) textPredicateOf(fn *ssa.Function) (*textPredicate, string) {
	if fn == nil || len(fn.Blocks) == 0 || len(fn.Params) != 1 || fn.Signature.Results().Len() != 1 {
		return nil, "not a function of one text to bool"
	}
	if b, ok := fn.Signature.Results().At(0).Type().Underlying().(*types.Basic); !ok || b.Kind() != types.Bool {
		return nil, "not a function of one text to bool"
	}
	par := fn.Params[0]
	tp := &textPredicate{}
	atomOf := map[ssa.Value]int{}
	loopAtom := map[*ssa.BasicBlock]int{}             // header of a byte loop -> atom
	loopExit := map[*ssa.BasicBlock]*ssa.BasicBlock{} // header -> block after the loop
	addAtom := func(v ssa.Value, src string) bool {
		l, err := rx.SearchPattern(src, src)
		if err != nil {
			return false
		}
		atomOf[v] = len(tp.atoms)
		tp.atoms = append(tp.atoms, l)
		return true
	}
	allOf := func(set string) string { return `(?s)^[` + classQuote(set) + `]*$` }
	// the text, possibly trimmed: which set of characters may surround / make up the text for it to be ""
	emptyAfter := func(v ssa.Value) (string, bool) {
		v = stripConv(v)
		if v == ssa.Value(par) {
			return `(?s)^$`, true
		}
		call, ok := v.(*ssa.Call)
		if !ok || len(call.Call.Args) == 0 || stripConv(call.Call.Args[0]) != ssa.Value(par) {
			return "", false
		}
		f := staticCallee(&call.Call)
		if f == nil || (objPkgPath(f) != "strings" && objPkgPath(f) != "bytes") {
			return "", false
		}
		switch f.Name() {
		case "TrimSpace":
			return `(?s)^[` + unicodeSpaceClass + `]*$`, true
		case "Trim", "TrimLeft", "TrimRight":
			if set, ok := constString(stripConv(call.Call.Args[1])); ok && set != "" {
				return allOf(set), true
			}
		}
		return "", false
	}
	var classify func(v ssa.Value) bool
	classify = func(v ssa.Value) bool {
		if _, done := atomOf[v]; done {
			return true
		}
		switch x := v.(type) {
		case *ssa.Const:
			_, ok := constBool(x)
			return ok
		case *ssa.UnOp:
			return x.Op == token.NOT && classify(x.X)
		case *ssa.Phi:
			for _, e := range x.Edges {
				if !classify(e) {
					return false
				}
			}
			return true
		case *ssa.Call:
			if l, subj, ok := literalTestLang(x); ok && stripConv(subj) == ssa.Value(par) {
				atomOf[v] = len(tp.atoms)
				tp.atoms = append(tp.atoms, l)
				return true
			}
		case *ssa.BinOp:
			if x.Op != token.EQL && x.Op != token.NEQ {
				return false
			}
			// X == "" / len(X) == 0
			for _, pair := range [][2]ssa.Value{{x.X, x.Y}, {x.Y, x.X}} {
				if s, ok := constString(stripConv(pair[1])); ok && s == "" {
					if src, ok := emptyAfter(pair[0]); ok {
						return addAtom(v, src)
					}
				}
				if k, ok := constInt(pair[1]); ok && k == 0 {
					if lc, ok := pair[0].(*ssa.Call); ok {
						if bi, ok := lc.Call.Value.(*ssa.Builtin); ok && bi.Name() == "len" {
							if src, ok := emptyAfter(lc.Call.Args[0]); ok {
								return addAtom(v, src)
							}
						}
					}
				}
			}
		}
		return false
	}
	// byte loops: for i := 0; i < len(text); i++ { switch text[i] { case constants: default: return false } }
	for _, l := range naturalLoops(fn) {
		iff, ok := l.header.Instrs[len(l.header.Instrs)-1].(*ssa.If)
		if !ok {
			return nil, "a loop of the predicate is not a scan over the bytes of the text"
		}
		var exit *ssa.BasicBlock
		for _, sc := range l.header.Succs {
			if !l.body[sc] {
				exit = sc
			}
		}
		cmp, ok := iff.Cond.(*ssa.BinOp)
		if !ok || cmp.Op != token.LSS || exit == nil {
			return nil, "a loop of the predicate is not a scan over the bytes of the text"
		}
		if lc, ok := cmp.Y.(*ssa.Call); !ok || len(lc.Call.Args) != 1 || lc.Call.Args[0] != ssa.Value(par) {
			return nil, "a loop of the predicate is not bounded by the length of the text"
		}
		var set []byte
		okLoop := true
		for b := range l.body {
			if b == l.header {
				continue
			}
			for _, in := range b.Instrs {
				switch y := in.(type) {
				case *ssa.BinOp:
					if y.Op == token.EQL {
						if k, ok := constInt(y.Y); ok && k >= 0 && k < 128 {
							if base, _, isEl := elemLoad(stripConv(y.X)); isEl && base == ssa.Value(par) {
								set = append(set, byte(k))
								continue
							}
						}
						okLoop = false
					} else if y.Op != token.ADD {
						okLoop = false
					}
				case *ssa.If, *ssa.Jump, *ssa.Phi, *ssa.Lookup, *ssa.Index, *ssa.IndexAddr, *ssa.UnOp, *ssa.DebugRef, *ssa.Convert:
				default:
					okLoop = false
				}
			}
			// every way out of the loop other than through the header is "return false"
			for _, sc := range b.Succs {
				if l.body[sc] {
					continue
				}
				ret, isRet := sc.Instrs[len(sc.Instrs)-1].(*ssa.Return)
				if !isRet || len(sc.Instrs) != 1 {
					okLoop = false
					continue
				}
				if t, ok := constBool(ret.Results[0]); !ok || t {
					okLoop = false
				}
			}
		}
		if !okLoop || len(set) == 0 {
			return nil, "a loop of the predicate is not recognised as 'every byte is one of a set of constants'"
		}
		l2, err := rx.SearchPattern("every byte in the set", allOf(string(set)))
		if err != nil {
			return nil, err.Error()
		}
		loopAtom[l.header] = len(tp.atoms)
		loopExit[l.header] = exit
		tp.atoms = append(tp.atoms, l2)
	}
	// every branch condition outside the loops and every returned value must be evaluable
	inLoop := map[*ssa.BasicBlock]bool{}
	for _, l := range naturalLoops(fn) {
		for b := range l.body {
			if b != l.header {
				inLoop[b] = true
			}
		}
	}
	for _, b := range fn.Blocks {
		if inLoop[b] {
			continue
		}
		if _, isHdr := loopAtom[b]; isHdr {
			continue
		}
		switch t := b.Instrs[len(b.Instrs)-1].(type) {
		case *ssa.If:
			if !classify(t.Cond) {
				return nil, "a condition of the predicate is not a regular test of the text (" + c.P.InstrPos(t) + ")"
			}
		case *ssa.Return:
			if len(t.Results) != 1 || !classify(t.Results[0]) {
				return nil, "the predicate returns something other than a combination of regular tests (" + c.P.InstrPos(t) + ")"
			}
		}
	}
	tp.eval = func(m []bool) bool {
		var prev *ssa.BasicBlock
		b := fn.Blocks[0]
		var val func(v ssa.Value) bool
		val = func(v ssa.Value) bool {
			if i, ok := atomOf[v]; ok {
				return m[i]
			}
			switch x := v.(type) {
			case *ssa.Const:
				t, _ := constBool(x)
				return t
			case *ssa.UnOp:
				return !val(x.X)
			case *ssa.Phi:
				for i, p := range x.Block().Preds {
					if p == prev {
						return val(x.Edges[i])
					}
				}
			}
			return false
		}
		for steps := 0; steps < 64; steps++ {
			if ai, isLoop := loopAtom[b]; isLoop {
				if !m[ai] {
					return false
				}
				prev, b = b, loopExit[b]
				continue
			}
			switch t := b.Instrs[len(b.Instrs)-1].(type) {
			case *ssa.Return:
				// phis of the return block were fixed by prev
				return val(t.Results[0])
			case *ssa.If:
				// evaluate with the block's own phis resolved through prev
				if val(t.Cond) {
					prev, b = b, b.Succs[0]
				} else {
					prev, b = b, b.Succs[1]
				}
			case *ssa.Jump:
				prev, b = b, b.Succs[0]
			default:
				return false
			}
		}
		return false
	}
	return tp, ""
}

// ---------- APPEND-ALIAS ----------

// RuleAppendAlias (every property about text that is carried in byte slices):
// append(s[a:b], more...) writes `more` into the memory behind s[b:] whenever
// s has room there - and a sub-slice of a buffer almost always has. Written in a
// helper that "abbreviates a line for the log" (append(line[:117], "..."...)),
// it overwrites three bytes of the caller's line, of the file contents or of
// the scanner's buffer, at every log level, because the arguments of a log
// call are evaluated whether or not the line is printed. The rule: the first
// argument of an append is not a two-index sub-slice (high bound given, no
// capacity bound) of memory the function does not own - a parameter, borrowed
// reader memory, the bytes of a buffer, the contents read from a file - unless
// the result replaces the very slice that was cut (the delete and truncate
// idioms, s = append(s[:i], s[i+1:]...) and buf = append(buf[:0], ...)).
func (c *Ctx) RuleAppendAlias() *Result {
	res := &Result{Rule: "APPEND-ALIAS", MinInst: 0}
	n := 0
	for _, fn := range c.P.RepoFns {
		if !c.liveFn(fn) || len(fn.Blocks) == 0 {
			continue
		}
		var st *borrowState
		k := 0
		allInstrs(fn, func(in ssa.Instruction) {
			call, ok := in.(*ssa.Call)
			if !ok {
				return
			}
			bi, isB := call.Call.Value.(*ssa.Builtin)
			if !isB || bi.Name() != "append" || len(call.Call.Args) != 2 {
				return
			}
			sl, ok := call.Call.Args[0].(*ssa.Slice)
			if !ok || sl.High == nil || sl.Max != nil {
				return
			}
			if h, ok := constInt(sl.High); ok && h == 0 {
				return // buf[:0]: emptied for reuse
			}
			if _, isArr := derefType(sl.X.Type()).Underlying().(*types.Array); isArr {
				return // a local array used as scratch space
			}
			if !isByteSlice(sl.X.Type()) {
				return // a list of lines cut and extended (lines = f(lines)): the text itself is not touched
			}
			base := sl.X
			n++
			// the result replaces the slice that was cut: delete / truncate idioms
			replaces := false
			if more, ok := call.Call.Args[1].(*ssa.Slice); ok && more.X == base {
				replaces = true
			}
			for _, r := range referrers(call) {
				if ph, ok := r.(*ssa.Phi); ok {
					if ssa.Value(ph) == base {
						replaces = true
					}
					for _, e := range ph.Edges {
						if e == base {
							replaces = true
						}
					}
				}
			}
			if replaces {
				return
			}
			why := ""
			switch x := stripConv(base).(type) {
			case *ssa.Parameter:
				why = "the parameter " + x.Name() + " (the caller's memory)"
			case *ssa.Call:
				f := staticCallee(&x.Call)
				if isMeth(f, "bytes", "Buffer", "Bytes") {
					why = "the bytes of a buffer"
				}
			case *ssa.Extract:
				if rc, ok := x.Tuple.(*ssa.Call); ok && (isFn(staticCallee(&rc.Call), "os", "ReadFile") || isFn(staticCallee(&rc.Call), "io", "ReadAll")) {
					why = "the contents read from a file"
				}
			}
			if why == "" {
				if st == nil {
					st = c.borrowTaint(fn)
				}
				if s := st.tainted[base]; s != nil {
					why = "memory borrowed from a reader (" + s.what + ")"
				}
			}
			if why == "" {
				return
			}
			k++
			res.Instances++
			key := fmt.Sprintf("%s:append to a sub-slice#%d", load.FnName(fn), k)
			res.bad(key, c.P.InstrPos(call), fmt.Sprintf("append(x[:n], ...) with x %s: the appended bytes are written over x[n:] (a sub-slice keeps the capacity of what it was cut from), so text that is still in use - the rest of the line, of the file, of the reader's buffer - is overwritten; copy first (append([]byte(nil), x[:n]...)) or cut with a capacity bound (x[:n:n])", why))
		})
	}
	res.Instances++
	res.ok("repository:appends to sub-slices", "-", fmt.Sprintf("%d appends to a two-index sub-slice examined", n))
	return res
}

// ---------- PATH-FORM ----------

// RulePathForm (C05, C08, C13, C14, C15 - wherever a path is tested for lying
// below a directory): "is this file below that directory" is asked of two path
// strings with strings.HasPrefix or filepath.Rel, and only makes sense when
// both are in the same form. A containment check added as hardening typically
// resolves the candidate with filepath.EvalSymlinks and compares it with the
// directory as configured: as soon as any component of the checkout is a
// symbolic link (~/src -> /data/src, /tmp -> /private/tmp, a CI workspace),
// nothing is below the directory any more, every file is refused or skipped,
// and the command often still exits 0. The rule: in a HasPrefix / Rel
// comparison of two paths, either both sides derive from an EvalSymlinks result
// or neither does.
func (c *Ctx) RulePathForm() *Result {
	res := &Result{Rule: "PATH-FORM", MinInst: 0}
	n := 0
	resolved := func(v ssa.Value) bool {
		seen := map[ssa.Value]bool{}
		var walk func(v ssa.Value, d int) bool
		walk = func(v ssa.Value, d int) bool {
			if d > 8 || v == nil || seen[v] {
				return false
			}
			seen[v] = true
			switch x := v.(type) {
			case *ssa.Extract:
				if call, ok := x.Tuple.(*ssa.Call); ok {
					if isFn(staticCallee(&call.Call), "path/filepath", "EvalSymlinks") {
						return true
					}
					return walk(call, d+1)
				}
			case *ssa.Call:
				f := staticCallee(&x.Call)
				if isFn(f, "path/filepath", "EvalSymlinks") {
					return true
				}
				if f != nil && (objPkgPath(f) == "path/filepath" || objPkgPath(f) == "path" || objPkgPath(f) == "strings") {
					for _, a := range x.Call.Args {
						if sl, ok := a.(*ssa.Slice); ok {
							for _, e := range rawVariadicElems(sl) {
								if walk(e, d+1) {
									return true
								}
							}
						}
						if walk(a, d+1) {
							return true
						}
					}
				}
				// a helper of the repository that returns a resolved path
				if sf := staticFn(&x.Call); sf != nil && c.P.IsRepoFn(sf) && d < 4 {
					found := false
					allInstrs(sf, func(in ssa.Instruction) {
						if r, ok := in.(*ssa.Return); ok && len(r.Results) > 0 && walk(r.Results[0], d+2) {
							found = true
						}
					})
					return found
				}
			case *ssa.BinOp:
				return walk(x.X, d+1) || walk(x.Y, d+1)
			case *ssa.Phi:
				for _, e := range x.Edges {
					if walk(e, d+1) {
						return true
					}
				}
			case *ssa.Convert:
				return walk(x.X, d+1)
			case *ssa.ChangeType:
				return walk(x.X, d+1)
			case *ssa.Parameter:
				// the comparison sits in a helper: what the callers hand over
				if pf := x.Parent(); pf != nil && d < 6 {
					pi := paramIndex(pf, x)
					for _, e := range c.Graph().In[pf] {
						cc := callCommon(e.Site)
						if cc != nil && staticFn(cc) == pf && pi >= 0 && pi < len(cc.Args) && walk(cc.Args[pi], d+2) {
							return true
						}
					}
				}
			case *ssa.UnOp:
				// a local variable assigned the resolved path
				if al, ok := x.X.(*ssa.Alloc); ok {
					for _, r := range referrers(al) {
						if st, ok := r.(*ssa.Store); ok && st.Addr == ssa.Value(al) && walk(st.Val, d+1) {
							return true
						}
					}
				}
			}
			return false
		}
		return walk(v, 0)
	}
	for _, fn := range c.P.RepoFns {
		if !c.liveFn(fn) {
			continue
		}
		k := 0
		allInstrs(fn, func(in ssa.Instruction) {
			call, ok := in.(*ssa.Call)
			if !ok || len(call.Call.Args) != 2 {
				return
			}
			f := staticCallee(&call.Call)
			var a, b ssa.Value
			what := ""
			switch {
			case isFn(f, "strings", "HasPrefix"):
				a, b, what = call.Call.Args[0], call.Call.Args[1], "strings.HasPrefix(path, directory)"
			case isFn(f, "path/filepath", "Rel"):
				a, b, what = call.Call.Args[1], call.Call.Args[0], "filepath.Rel(directory, path)"
			default:
				return
			}
			ra, rb := resolved(a), resolved(b)
			if !ra && !rb {
				return
			}
			n++
			k++
			res.Instances++
			key := fmt.Sprintf("%s:containment test#%d", load.FnName(fn), k)
			if ra != rb {
				side := "the path"
				other := "the directory it is compared with"
				if rb {
					side, other = "the directory", "the path it is compared with"
				}
				res.bad(key, c.P.InstrPos(call), fmt.Sprintf("%s: %s went through filepath.EvalSymlinks, %s did not: when any component of the tree is a symbolic link the two are spelled differently, nothing lies below the directory any more and every file is refused or skipped", what, side, other))
			} else {
				res.ok(key, c.P.InstrPos(call), "both sides of the containment test are symlink-resolved")
			}
		})
	}
	res.Instances++
	res.ok("repository:containment tests on resolved paths", "-", fmt.Sprintf("%d found", n))
	return res
}

// ---------- LOOP-REPLACE ----------

// RuleLoopReplace (C19 "never hangs"): the clean-up loop
//
//	for strings.Contains(s, A) { s = strings.ReplaceAll(s, B, C) }
//
// ends only if every text that contains A also contains B (B is a substring of
// A) and the replacement makes progress (C does not contain B and is shorter
// than B). `for strings.Contains(name, "..") { name = strings.ReplaceAll(name,
// "../", "") }` spins forever on "a..b". Decided on the constants.
func (c *Ctx) RuleLoopReplace() *Result {
	res := &Result{Rule: "LOOP-REPLACE", MinInst: 0}
	n := 0
	for _, fn := range c.P.RepoFns {
		if !c.liveFn(fn) {
			continue
		}
		for _, l := range naturalLoops(fn) {
			iff, ok := l.header.Instrs[len(l.header.Instrs)-1].(*ssa.If)
			if !ok {
				continue
			}
			cond, _ := unwrapNot(iff.Cond)
			test, ok := cond.(*ssa.Call)
			if !ok || len(test.Call.Args) != 2 {
				continue
			}
			tf := staticCallee(&test.Call)
			if !(isFn(tf, "strings", "Contains") || isFn(tf, "bytes", "Contains")) {
				continue
			}
			a, okA := constString(stripConv(test.Call.Args[1]))
			ph, isPhi := test.Call.Args[0].(*ssa.Phi)
			if !okA || !isPhi || ph.Block() != l.header {
				continue
			}
			// the value carried round the loop: the result of a ReplaceAll of the same text
			for i, e := range ph.Edges {
				if !l.body[l.header.Preds[i]] {
					continue
				}
				rep, ok := e.(*ssa.Call)
				if !ok || len(rep.Call.Args) < 3 {
					continue
				}
				rf := staticCallee(&rep.Call)
				if !(isFn(rf, "strings", "ReplaceAll") || isFn(rf, "bytes", "ReplaceAll") || isFn(rf, "strings", "Replace") || isFn(rf, "bytes", "Replace")) || rep.Call.Args[0] != ssa.Value(ph) {
					continue
				}
				b, okB := constString(stripConv(rep.Call.Args[1]))
				cc, okC := constString(stripConv(rep.Call.Args[2]))
				if !okB || !okC {
					continue
				}
				n++
				res.Instances++
				key := fmt.Sprintf("%s:replace until %q is gone", load.FnName(fn), a)
				pos := c.P.InstrPos(rep)
				switch {
				case !strings.Contains(a, b):
					res.bad(key, pos, fmt.Sprintf("the loop runs while the text contains %q but each round only replaces %q: a text that contains the first and not the second (%q) is never changed and the loop does not end", a, b, a))
				case b == "" || strings.Contains(cc, b) || len(cc) >= len(b):
					res.bad(key, pos, fmt.Sprintf("replacing %q by %q does not shorten the text (or re-creates what it removes): the loop need not end", b, cc))
				default:
					res.ok(key, pos, fmt.Sprintf("every text that contains %q contains %q, and each round removes at least one occurrence and shortens the text", a, b))
				}
			}
		}
	}
	res.Instances++
	res.ok("repository:replace-until-gone loops", "-", fmt.Sprintf("%d found", n))
	return res
}

// ---------- STDOUT-NONE ----------

// RuleStdoutNone (C16, C11): `regex update` writes to rules files and to the
// log, never to standard output. A generated expression printed there "so that
// the user can paste it by hand" in front of a fatal message is exactly what
// C16 excludes: a failed command that prints a regex. The rule: nothing
// reachable from the entry points of the named command writes to standard
// output (fmt.Print*, fmt.Fprint*(os.Stdout, ...), os.Stdout.Write*).
func (c *Ctx) RuleStdoutNone(name string) *Result {
	res := &Result{Rule: "STDOUT-NONE", MinInst: 1}
	cmd := c.Commands().ByName[name]
	res.Instances++
	if cmd == nil {
		res.undecided("cmd "+name, "-", "command not found")
		return res
	}
	reach := c.Graph().Reach(c.EntryRoots(cmd))
	isStdout := func(v ssa.Value) bool {
		v = stripConv(v)
		ld, ok := v.(*ssa.UnOp)
		if !ok {
			return false
		}
		g, ok := ld.X.(*ssa.Global)
		return ok && g.Pkg != nil && g.Pkg.Pkg.Path() == "os" && g.Name() == "Stdout"
	}
	var fns []*ssa.Function
	for fn := range reach {
		if c.P.IsRepoFn(fn) {
			fns = append(fns, fn)
		}
	}
	sort.Slice(fns, func(i, j int) bool { return load.FnName(fns[i]) < load.FnName(fns[j]) })
	n := 0
	for _, fn := range fns {
		allInstrs(fn, func(in ssa.Instruction) {
			cc := callCommon(in)
			if cc == nil {
				return
			}
			f := staticCallee(cc)
			if f == nil {
				return
			}
			what := ""
			switch {
			case objPkgPath(f) == "fmt" && (f.Name() == "Print" || f.Name() == "Printf" || f.Name() == "Println"):
				what = qualName(f)
			case objPkgPath(f) == "fmt" && strings.HasPrefix(f.Name(), "Fprint") && len(cc.Args) > 0 && isStdout(cc.Args[0]):
				what = qualName(f) + "(os.Stdout, ...)"
			case recvNamed(f) == "File" && objPkgPath(f) == "os" && strings.HasPrefix(f.Name(), "Write") && len(cc.Args) > 1 && isStdout(cc.Args[0]):
				what = "os.Stdout." + f.Name()
			default:
				return
			}
			n++
			res.Instances++
			res.bad(load.FnName(fn)+":"+what, c.P.InstrPos(in), fmt.Sprintf("%s is reachable from %s (%s): the command's results are the rules files and its exit status, anything it prints on standard output - a generated expression in front of a failure message - is output of a command that may have failed", what, name, PathTo(reach, fn)))
		})
	}
	res.ok("cmd "+name+":standard output", c.P.FnPos(cmd.In), fmt.Sprintf("%d functions reachable, %d writes to standard output", len(fns), n))
	return res
}

// ---------- OPERAND-VERBATIM ----------

// RuleOperandVerbatim (C12, C11): what update writes between the quotes is
// what generate prints - the string returned by Operator.Run, byte for byte.
// The new operand that update concatenates into the rule line is followed
// backwards through parameters and phis to the call that assembled it; any
// other call on the way (a helper that "escapes bare quotes", a strings.*
// clean-up, a trim) makes the stored operand differ from generate's output and
// compare report a change right after a successful update.
func (c *Ctx) RuleOperandVerbatim() *Result {
	res := &Result{Rule: "OPERAND-VERBATIM", MinInst: 0}
	res.Instances++
	res.ok("cmd update:operand written", "-", "scanned")
	opPkg := load.ModulePath + "/regex/operators"
	// functions whose text result is Operator.Run's result, handed on unchanged
	assembles := map[*ssa.Function]bool{}
	var isAssembled func(v ssa.Value, d int) bool
	isAssembled = func(v ssa.Value, d int) bool {
		if d > 6 {
			return false
		}
		switch x := stripConv(v).(type) {
		case *ssa.Extract:
			if call, ok := x.Tuple.(*ssa.Call); ok && x.Index == 0 {
				if isMeth(staticCallee(&call.Call), opPkg, "Operator", "Run") {
					return true
				}
				if sf := staticFn(&call.Call); sf != nil && assembles[sf] {
					return true
				}
			}
		case *ssa.Call:
			if sf := staticFn(&x.Call); sf != nil && assembles[sf] {
				return true
			}
		case *ssa.Phi:
			for _, e := range x.Edges {
				if !isAssembled(e, d+1) {
					return false
				}
			}
			return len(x.Edges) > 0
		}
		return false
	}
	for round := 0; round < 3; round++ {
		for _, fn := range c.P.RepoFns {
			if assembles[fn] || len(fn.Blocks) == 0 || fn.Signature.Results().Len() == 0 || !isStringType(fn.Signature.Results().At(0).Type()) {
				continue
			}
			all, any := true, false
			allInstrs(fn, func(in ssa.Instruction) {
				if r, ok := in.(*ssa.Return); ok && len(r.Results) > 0 {
					if c.Loud().BlockDies(r.Block()) {
						return
					}
					// a failing return hands back no expression
					if op := retErrOperand(r); op != nil && len(r.Results) > 1 && (errOperandAlwaysNonNil(op) || domFacts(r.Block())[op] == nonNil || c.factsNonNil(r.Block(), op)) {
						return
					}
					any = true
					if !isAssembled(r.Results[0], 0) {
						all = false
					}
				}
			})
			if all && any {
				assembles[fn] = true
			}
		}
	}
	upd := c.cmdFns("update")
	for _, s := range c.submatchSites() {
		if s.pattern == nil || s.pattern.Name != "regex.RuleRxRegex" || !upd[load.FnName(s.fn)] {
			continue
		}
		fn := s.fn
		// the parameter that is concatenated with the captured groups
		var operand *ssa.Parameter
		allInstrs(fn, func(in ssa.Instruction) {
			b, ok := in.(*ssa.BinOp)
			if !ok || b.Op != token.ADD {
				return
			}
			for _, op := range stringOperands(b, 0) {
				if p, ok := stripConv(op).(*ssa.Parameter); ok && isStringType(p.Type()) {
					operand = p
				}
			}
		})
		if operand == nil {
			for _, p := range fn.Params {
				for _, r := range referrers(p) {
					if call, ok := r.(*ssa.Call); ok {
						if bi, ok := call.Call.Value.(*ssa.Builtin); ok && bi.Name() == "append" && isStringType(p.Type()) {
							operand = p
						}
					}
				}
			}
		}
		if operand == nil {
			continue
		}
		res.Instances++
		key := load.FnName(fn) + ":the operand that is written"
		var problems []string
		seen := map[ssa.Value]bool{}
		var back func(v ssa.Value, in *ssa.Function, d int)
		back = func(v ssa.Value, in *ssa.Function, d int) {
			v = stripConv(v)
			if d > 6 || seen[v] {
				return
			}
			seen[v] = true
			if isAssembled(v, 0) {
				return
			}
			switch x := v.(type) {
			case *ssa.Parameter:
				pi := paramIndex(in, x)
				n := 0
				for _, e := range c.Graph().In[in] {
					cc := callCommon(e.Site)
					if cc == nil || staticFn(cc) != in || pi < 0 || pi >= len(cc.Args) || !c.liveFn(e.Caller) {
						continue
					}
					n++
					back(cc.Args[pi], e.Caller, d+1)
				}
				if n == 0 {
					problems = append(problems, "the operand arrives in parameter "+x.Name()+" of "+load.FnName(in)+", which nothing calls statically")
				}
			case *ssa.Phi:
				for _, e := range x.Edges {
					back(e, in, d+1)
				}
			case *ssa.Call:
				problems = append(problems, fmt.Sprintf("the operand passes through %s at %s before it is written", calleeLabel(&x.Call), c.P.InstrPos(x)))
			case *ssa.Extract:
				if call, ok := x.Tuple.(*ssa.Call); ok {
					problems = append(problems, fmt.Sprintf("the operand passes through %s at %s before it is written", calleeLabel(&call.Call), c.P.InstrPos(call)))
				}
			case *ssa.BinOp:
				problems = append(problems, "the operand is put together at "+c.P.InstrPos(x)+" instead of being the assembled expression itself")
			default:
				problems = append(problems, fmt.Sprintf("the origin of the operand is not followed (%T)", v))
			}
		}
		back(operand, fn, 0)
		if len(problems) > 0 {
			res.bad(key, c.P.FnPos(fn), strings.Join(uniq(problems), "; ")+": what update stores is no longer byte for byte what generate prints for the same file, so compare reports a change right after a successful update")
		} else {
			res.ok(key, c.P.FnPos(fn), "the operand concatenated into the rule line is the string returned by Operator.Run, handed through parameters only")
		}
	}
	return res
}

// ---------- WALK-STOP ----------

// RuleWalkStop (C08, C11, C16): a directory walk ends at the first non-nil
// error its callback returns. An error value that the caller of the walk then
// forgives - `if err != nil && !errors.Is(err, errRuleUpToDate)` - must
// therefore never be what the callback returns: "this rule is already up to
// date" returned from the callback ends the --all run at that rule with exit
// status 0 and leaves every later rule untouched. The rule: for every sentinel
// S that the result of filepath.WalkDir / Walk is compared with (errors.Is or
// ==), S cannot be among the values the callback returns (followed through the
// functions of the repository whose result it returns).
func (c *Ctx) RuleWalkStop() *Result {
	res := &Result{Rule: "WALK-STOP", MinInst: 0}
	n := 0
	var canReturn func(fn *ssa.Function, g *ssa.Global, d int, seen map[*ssa.Function]bool) string
	canReturn = func(fn *ssa.Function, g *ssa.Global, d int, seen map[*ssa.Function]bool) string {
		if fn == nil || d > 5 || seen[fn] || len(fn.Blocks) == 0 {
			return ""
		}
		seen[fn] = true
		why := ""
		var valueIs func(v ssa.Value, k int) string
		valueIs = func(v ssa.Value, k int) string {
			if k > 6 {
				return ""
			}
			switch x := stripConv(v).(type) {
			case *ssa.UnOp:
				if x.Op == token.MUL && x.X == ssa.Value(g) {
					return "returned at " + c.P.InstrPos(x)
				}
			case *ssa.Phi:
				for _, e := range x.Edges {
					if w := valueIs(e, k+1); w != "" {
						return w
					}
				}
			case *ssa.Call:
				if isFn(staticCallee(&x.Call), "fmt", "Errorf") && len(x.Call.Args) > 1 {
					if sl, ok := x.Call.Args[1].(*ssa.Slice); ok {
						for _, e := range rawVariadicElems(sl) {
							if w := valueIs(stripErrConv(e), k+1); w != "" {
								return w + " (wrapped)"
							}
						}
					}
				}
				if sf := staticFn(&x.Call); sf != nil && c.P.IsRepoFn(sf) {
					if w := canReturn(sf, g, d+1, seen); w != "" {
						return "through " + load.FnName(sf) + ", " + w
					}
				}
			case *ssa.Extract:
				if call, ok := x.Tuple.(*ssa.Call); ok {
					if sf := staticFn(&call.Call); sf != nil && c.P.IsRepoFn(sf) && isErrorType(x.Type()) {
						if w := canReturn(sf, g, d+1, seen); w != "" {
							return "through " + load.FnName(sf) + ", " + w
						}
					}
				}
			}
			return ""
		}
		allInstrs(fn, func(in ssa.Instruction) {
			if r, ok := in.(*ssa.Return); ok && why == "" {
				if op := retErrOperand(r); op != nil {
					why = valueIs(op, 0)
				}
			}
		})
		return why
	}
	for _, fn := range c.P.RepoFns {
		if !c.liveFn(fn) {
			continue
		}
		allInstrs(fn, func(in ssa.Instruction) {
			call, ok := in.(*ssa.Call)
			if !ok {
				return
			}
			f := staticCallee(&call.Call)
			if !(isFn(f, "path/filepath", "WalkDir") || isFn(f, "path/filepath", "Walk")) || len(call.Call.Args) < 2 {
				return
			}
			cbs := fnValuesIn(call.Call.Args[1], 3)
			if len(cbs) == 0 {
				return
			}
			// the values the walk's result is compared with
			seenVals := map[ssa.Value]bool{}
			var sentinels []*ssa.Global
			var follow func(v ssa.Value, d int)
			follow = func(v ssa.Value, d int) {
				if d > 4 || seenVals[v] {
					return
				}
				seenVals[v] = true
				for _, r := range referrers(v) {
					switch x := r.(type) {
					case *ssa.Phi:
						follow(x, d+1)
					case *ssa.Store:
						if al, ok := x.Addr.(*ssa.Alloc); ok && x.Val == v {
							for _, rr := range referrers(al) {
								if ld, ok := rr.(*ssa.UnOp); ok && ld.Op == token.MUL {
									follow(ld, d+1)
								}
							}
						}
					case *ssa.Call:
						if isFn(staticCallee(&x.Call), "errors", "Is") && len(x.Call.Args) == 2 && x.Call.Args[0] == v {
							if ld, ok := stripConv(x.Call.Args[1]).(*ssa.UnOp); ok {
								if g, ok := ld.X.(*ssa.Global); ok {
									sentinels = append(sentinels, g)
								}
							}
						}
					case *ssa.BinOp:
						if x.Op == token.EQL || x.Op == token.NEQ {
							for _, side := range []ssa.Value{x.X, x.Y} {
								if ld, ok := stripConv(side).(*ssa.UnOp); ok && side != v {
									if g, ok := ld.X.(*ssa.Global); ok && isErrorType(derefType(g.Type())) {
										sentinels = append(sentinels, g)
									}
								}
							}
						}
					}
				}
			}
			follow(call, 0)
			for _, g := range sentinels {
				if g.Pkg == nil || !strings.HasPrefix(g.Pkg.Pkg.Path(), load.ModulePath) {
					continue // fs.SkipAll and friends are the walk's own protocol
				}
				n++
				res.Instances++
				key := fmt.Sprintf("%s:walk result compared with %s", load.FnName(fn), g.Name())
				why := ""
				for _, cb := range cbs {
					if w := canReturn(unwrapBound(cb), g, 0, map[*ssa.Function]bool{}); w != "" {
						why = w
					}
				}
				if why != "" {
					res.bad(key, c.P.InstrPos(call), fmt.Sprintf("%s is treated specially in the result of the walk, and the callback can return it (%s): the walk ends at the first entry that yields it, every later entry is left unprocessed, and the caller does not count that as a failure", g.Name(), why))
				} else {
					res.ok(key, c.P.InstrPos(call), "the callback cannot return the value the result is compared with")
				}
			}
		})
	}
	res.Instances++
	res.ok("repository:walk results compared with a sentinel of the repository", "-", fmt.Sprintf("%d found", n))
	return res
}
