package rules

// addenda: necessary conditions that were added to a property's check after
// independently written faulty variants of the repository slipped past the
// first set of rules (DESIGN.md section 11). Appended to the explanation that
// goes into MANIFEST.json and the evidence files.
var addenda = map[string]string{
	"C02": "Also: FLAG-PATTERN (the two patterns that strip inline flag groups match, by language inclusion, every (?flags) / (?flags: spelling regexp/syntax can print), LOG-STDERR (the console log writer is os.Stderr, so log text cannot reach the regex on stdout), TEMPLATE and RX-REBUILD on the update path (the rule line is rebuilt from groups 1 and 3 with a constant template).",
	"C03": "Also: ORDER-KEY and SUFFIX-OPS (the order of include-except entries and the application of suffix pairs do not depend on map iteration), the trimmed-line domain of RX-DISJOINT (the line handed to the classifier is the TrimLeft result the disjointness proof is about), ISO-GLOBAL with one compiled source as the unit (no package-level cache survives from one Run to the next).",
	"C05": "Also: ISO-GLOBAL with one compiled source as the unit (no package-level cache of parsed include files).",
	"C06": "Also: SUFFIX-OPS (the suffix loop is skipped only for comment and blank lines, each pair is cut from the running result, first matching pair wins in sorted order), EXCL-KEY (entries are inserted into and deleted from the inclusion map under the same, untransformed, scanner line), ISO-GLOBAL with one compiled source as the unit.",
	"C07": "Also: the line handed to the classifier is the TrimLeft result (an indented definition line is still a definition line).",
	"C08": "Also: WALK-SKIP (no SkipDir/SkipAll result for a file entry) and WALK-FILTER (an entry is skipped only when it is a directory, the walk failed, a repository pattern did not match or the .ra test failed).",
	"C09": "Also: FS-ALWAYS (without --check the write is not conditional on anything but the comparison), FS-WRITE-DISCIPLINE (the write truncates, goes to a path not opened for reading at the same time, and is not reachable after a failed step), FORMAT-ONLY (the parser's format-only mode expands nothing), ERR-FLAG (failure flags latch).",
	"C10": "Also: FORMAT-ONLY, FS-WRITE-DISCIPLINE (no write after a line failed to format) and PRINTF-CONST (text of the file is never used as a format string).",
	"C11": "Also: TEMPLATE, FS-WRITE-DISCIPLINE, RESOLVE (the assembly file of the single-target form is AssemblyDir/<file name resolved from the argument>) and ISO-FRESH for update (every file gets its own processors.Context).",
	"C12": "Also: NARROW and SIBLING-ID on update and compare (the chain offset used to locate the operand is parsed, not carried over or wrapped), FRAME (the write side replaces one element of the split), ISO-GLOBAL for update and compare, and CMP-VERDICT follows the compared strings into the repository functions that produce them (no strings/bytes transformation on the way).",
	"C13": "Also: FS-ALWAYS, FS-WRITE-DISCIPLINE, ERR-FLAG, ISO-GLOBAL and WALK-FILTER for renumber-tests (the walk skips directories only; files are selected by the test-file pattern in the function both forms share).",
	"C14": "Also: RX-INCL's structural clauses (every marker pattern is applied unconditionally to every line, the replaced group is neither lazy nor over-reaching, the validated flag value is not reassigned), FS-ALWAYS, TEMPLATE, FS-WRITE-DISCIPLINE, ISO-GLOBAL and WALK-FILTER (*.conf and *.example, nothing narrower) for update-copyright.",
	"C15": "Also: FS-WRITE-DISCIPLINE for every command that writes (truncating write to the path that was read, no temp file with a fixed name, no write after a failed step).",
	"C16": "Also: NARROW and SIBLING-ID (a chain offset above 255 is an error at every derivation site), FLAGS-REJECT (flags in an included file are rejected before any early return), PROC-START (the assembler hands every line \"##!>\" blanks name to the dispatcher that rejects unknown names: language inclusion against the selecting pattern), ISO-FRESH and FS-WRITE-DISCIPLINE (no target is written after a failed step).",
	"C19": "Also: IDX-PARAM and LAST-INDEX (constant and len-relative indexing of processor arguments and input text is guarded by a length test), VALIDATE for the odd-length replacement list, PRINTF-CONST (input text is never a format string), DEF-FRAGMENT (definition expansion is one pass: no repeat-until-stable loop that cyclic definitions keep alive), REC-BOUND (every recursion reachable from Operator.Run has a visible bound: constant arguments that select a base case, an explicit depth/visited guard, or — for the include recursion — a file opened with os.Open and held across the recursive call, which bounds the depth by the descriptor limit and ends a cyclic include in the open-failure diagnostic).",
	"C20": "Also: UPD-VERSION (the running version handed to the updater is read from the root command when self-update runs, not when the command is constructed) and UPD-VALIDATOR rejects Prerelease/Draft channels and release filters.",
}

func init() {
	for id, text := range addenda {
		if p := Properties[id]; p != nil {
			p.Explanation += " " + text
		}
	}
}
