package rules

import (
	_ "embed"
	"encoding/json"
	"fmt"
	"go/ast"
	"go/token"
	"go/types"
	"os"
	"path/filepath"
	"regexp/syntax"
	"strings"

	"golang.org/x/tools/go/ssa"

	"crsverif/internal/load"
	"crsverif/internal/rx"
)

// Rules added after the third round of independently seeded changes. Most of
// them have an expected count of zero on today's tree (there is no recover, no
// defer, no size-limited read): the summary obligation counts what was scanned
// and the mutation corpus holds a positive example for each.

// RuleNoRecover: the loud-exit model (a Fatal or Panic log event ends the
// process with a non-zero status) holds only while nothing recovers from the
// panic. A recover() anywhere in the repository turns every logger.Panic()
// into a possible success.
func (c *Ctx) RuleNoRecover() *Result {
	res := &Result{Rule: "NO-RECOVER", MinInst: 100}
	n := 0
	for _, fn := range c.P.RepoFns {
		res.Instances++
		allInstrs(fn, func(in ssa.Instruction) {
			cc := callCommon(in)
			if cc == nil {
				return
			}
			if bi, ok := cc.Value.(*ssa.Builtin); ok && bi.Name() == "recover" {
				n++
				res.bad(load.FnName(fn)+":recover()", c.P.InstrPos(in), "recover() swallows the panic that logger.Panic() raises to end the process: faults reported that way (unsupported flag, odd replacement list) end with exit status 0")
			}
		})
	}
	if n == 0 {
		res.ok("repository:no recover()", "-", fmt.Sprintf("%d functions scanned, none calls recover()", res.Instances))
	}
	return res
}

// RuleDeferInLoop: a deferred call inside a loop runs when the function
// returns, not when the iteration ends: a counter or resource released that way
// accumulates over the iterations (include depth counted per sibling, files
// held open for the whole walk).
func (c *Ctx) RuleDeferInLoop() *Result {
	res := &Result{Rule: "DEFER-IN-LOOP", MinInst: 100}
	n := 0
	for _, fn := range c.P.RepoFns {
		res.Instances++
		var loops []*natLoop
		got := false
		allInstrs(fn, func(in ssa.Instruction) {
			d, ok := in.(*ssa.Defer)
			if !ok {
				return
			}
			if !got {
				loops, got = naturalLoops(fn), true
			}
			for _, l := range loops {
				if l.body[d.Block()] {
					n++
					res.bad(load.FnName(fn)+":defer inside a loop", c.P.InstrPos(d), "the deferred call runs when "+load.FnName(fn)+" returns, not at the end of the iteration: what it releases stays taken for every remaining iteration (an include-depth counter then counts sibling includes, not nesting)")
					return
				}
			}
		})
	}
	if n == 0 {
		res.ok("repository:no defer inside a loop", "-", fmt.Sprintf("%d functions scanned", res.Instances))
	}
	return res
}

// RuleLimitRead (C17): nothing reads input through a size-limited reader that
// cuts silently.
func (c *Ctx) RuleLimitRead() *Result {
	res := &Result{Rule: "LIMIT-READ", MinInst: 100}
	n := 0
	for _, fn := range c.P.RepoFns {
		res.Instances++
		allInstrs(fn, func(in ssa.Instruction) {
			what := ""
			if cc := callCommon(in); cc != nil {
				f := staticCallee(cc)
				switch {
				case isFn(f, "io", "LimitReader"), isFn(f, "io", "CopyN"), isFn(f, "io", "ReadFull"), isFn(f, "io", "ReadAtLeast"):
					what = qualName(f)
				}
			}
			if al, ok := in.(*ssa.Alloc); ok && isNamed(derefType(al.Type()), "io", "LimitedReader") {
				what = "io.LimitedReader"
			}
			if what != "" {
				n++
				res.bad(load.FnName(fn)+":"+what, c.P.InstrPos(in), what+" stops at a fixed size without an error: input beyond it is dropped silently and the command succeeds on the truncated data")
			}
		})
	}
	if n == 0 {
		res.ok("repository:no size-limited read", "-", fmt.Sprintf("%d functions scanned: no io.LimitReader, CopyN, ReadFull or LimitedReader", res.Instances))
	}
	return res
}

// RuleErrWrap: an error value of a type the repository recognises with
// errors.Is / errors.As must be wrapped with %w when it is put into another
// error: with %v the test no longer sees it and the caller takes the other
// branch (compare --all aborts at the first out-of-date rule).
func (c *Ctx) RuleErrWrap() *Result {
	res := &Result{Rule: "ERR-WRAP", MinInst: 1}
	// types recognised by errors.Is / errors.As
	recognised := map[string]bool{}
	typeKey := func(t types.Type) string {
		for {
			if p, ok := t.(*types.Pointer); ok {
				t = p.Elem()
				continue
			}
			break
		}
		return t.String()
	}
	for _, fn := range c.P.RepoFns {
		allInstrs(fn, func(in ssa.Instruction) {
			cc := callCommon(in)
			if cc == nil {
				return
			}
			f := staticCallee(cc)
			if !(isFn(f, "errors", "Is") || isFn(f, "errors", "As")) || len(cc.Args) < 2 {
				return
			}
			t := cc.Args[1]
			if mi, ok := t.(*ssa.MakeInterface); ok {
				t = mi.X
			}
			recognised[typeKey(t.Type())] = true
		})
	}
	delete(recognised, "error")
	res.Instances++
	res.ok("repository:error types recognised by errors.Is/As", "-", fmt.Sprintf("%d type(s): %s", len(recognised), strings.Join(sortStrings(keysOf(recognised)), ", ")))
	for _, fn := range c.P.RepoFns {
		allInstrs(fn, func(in ssa.Instruction) {
			call, ok := in.(*ssa.Call)
			if !ok || !isFn(staticCallee(&call.Call), "fmt", "Errorf") || len(call.Call.Args) < 2 {
				return
			}
			format, ok := constString(call.Call.Args[0])
			if !ok {
				return
			}
			sl, ok := call.Call.Args[1].(*ssa.Slice)
			if !ok {
				return
			}
			args := variadicElems(sl)
			verbs := formatVerbs(format)
			for i, a := range args {
				v := a
				if mi, ok := v.(*ssa.MakeInterface); ok {
					v = mi.X
				}
				if !recognised[typeKey(v.Type())] {
					continue
				}
				res.Instances++
				key := fmt.Sprintf("%s:%s in fmt.Errorf", load.FnName(fn), typeKey(v.Type()))
				if i < len(verbs) && verbs[i] == 'w' {
					res.ok(key, c.P.InstrPos(call), "wrapped with %w")
				} else {
					res.bad(key, c.P.InstrPos(call), fmt.Sprintf("a %s is formatted into the new error with %%%c instead of %%w: errors.Is/As in the caller no longer recognises it and takes the branch for unexpected failures", typeKey(v.Type()), verbOr(verbs, i)))
				}
			}
		})
	}
	return res
}

func keysOf(m map[string]bool) []string {
	var out []string
	for k := range m {
		out = append(out, k)
	}
	return out
}

func verbOr(verbs []byte, i int) byte {
	if i < len(verbs) {
		return verbs[i]
	}
	return '?'
}

// formatVerbs returns the verb letters of a Printf format, in argument order (no explicit indexes).
func formatVerbs(format string) []byte {
	var out []byte
	for i := 0; i < len(format); i++ {
		if format[i] != '%' {
			continue
		}
		i++
		for i < len(format) && strings.ContainsRune("+-# 0123456789.", rune(format[i])) {
			i++
		}
		if i < len(format) && format[i] != '%' {
			out = append(out, format[i])
		}
	}
	return out
}

// RuleBuildVars (C20): the release pipeline sets the running version with the
// linker flag -X main.version=... (goreleaser's default; the repository's
// configuration does not override it). The variable handed to cmd.Execute as
// the version must therefore be package main's string variable named version.
func (c *Ctx) RuleBuildVars() *Result {
	res := &Result{Rule: "BUILD-VARS", MinInst: 1}
	for _, fn := range c.P.RepoFns {
		if fn.Pkg == nil || fn.Pkg.Pkg.Name() != "main" || fn.Name() != "main" {
			continue
		}
		allInstrs(fn, func(in ssa.Instruction) {
			call, ok := in.(*ssa.Call)
			if !ok {
				return
			}
			sf := staticFn(&call.Call)
			if sf == nil || !c.P.IsRepoFn(sf) || sf.Name() != "Execute" || len(call.Call.Args) == 0 {
				return
			}
			res.Instances++
			key := "main.main:version handed to " + load.FnName(sf)
			ld, ok := call.Call.Args[0].(*ssa.UnOp)
			var g *ssa.Global
			if ok {
				g, _ = ld.X.(*ssa.Global)
			}
			switch {
			case g == nil:
				res.bad(key, c.P.InstrPos(call), "the version is not read from a package-level variable of package main: the linker flag -X main.version=... of the release build has nothing to set")
			case g.Name() != "version":
				res.bad(key, c.P.InstrPos(call), fmt.Sprintf("the version is read from main.%s; the release build sets main.version (goreleaser's default -X flags, not overridden in .goreleaser.yml): every release binary reports the development placeholder and self-update reinstalls or downgrades", g.Name()))
			default:
				res.ok(key, c.P.InstrPos(call), "main.version, the variable the release build sets with -X")
			}
			// and the callee makes it the version of the root command, which is what self-update reads
			res.Instances++
			key2 := load.FnName(sf) + ":version stored in the root command"
			stored := false
			if len(sf.Params) > 0 {
				for _, r := range referrers(sf.Params[0]) {
					st, ok := r.(*ssa.Store)
					if !ok || st.Val != ssa.Value(sf.Params[0]) {
						continue
					}
					if fa, ok := st.Addr.(*ssa.FieldAddr); ok && isNamed(fa.X.Type(), cobraPkg, "Command") {
						if stt, ok := derefType(fa.X.Type()).Underlying().(*types.Struct); ok && stt.Field(fa.Field).Name() == "Version" {
							stored = true
						}
					}
				}
			}
			// ... and nothing else is: the semver guard of self-update reads this field
			other := ""
			for _, fn2 := range c.P.RepoFns {
				allInstrs(fn2, func(in2 ssa.Instruction) {
					st, ok := in2.(*ssa.Store)
					if !ok {
						return
					}
					fa, ok := st.Addr.(*ssa.FieldAddr)
					if !ok || !isNamed(fa.X.Type(), cobraPkg, "Command") {
						return
					}
					stt, ok := derefType(fa.X.Type()).Underlying().(*types.Struct)
					if !ok || stt.Field(fa.Field).Name() != "Version" {
						return
					}
					if len(sf.Params) > 0 && st.Val == ssa.Value(sf.Params[0]) {
						return
					}
					if _, isConst := st.Val.(*ssa.Const); isConst && fn2 != sf {
						return
					}
					other = c.P.InstrPos(st)
				})
			}
			if stored && other != "" {
				res.bad(key2, c.P.FnPos(sf), fmt.Sprintf("the Version field of a command is also assigned something other than the build version (%s): self-update hands that field to the semver comparison, and a decorated version (a commit suffix is a semver pre-release, which sorts before the release itself) makes the current release look newer than the running build, so it is reinstalled on every run", other))
			} else if stored {
				res.ok(key2, c.P.FnPos(sf), "the first parameter is assigned to the Version field of the root command, and nothing else is")
			} else {
				res.bad(key2, c.P.FnPos(sf), load.FnName(sf)+" no longer assigns the version it is handed to the root command: self-update compares every release with the placeholder and reinstalls or downgrades")
			}
		})
	}
	return res
}

// RulePredPure (C10): a function whose only result is a bool is a test; it
// does not write through its slice or map parameters.
func (c *Ctx) RulePredPure() *Result {
	res := &Result{Rule: "PRED-PURE", MinInst: 1}
	for _, fn := range c.P.RepoFns {
		sig := fn.Signature
		if sig.Results().Len() != 1 || len(fn.Blocks) == 0 {
			continue
		}
		if b, ok := sig.Results().At(0).Type().Underlying().(*types.Basic); !ok || b.Kind() != types.Bool {
			continue
		}
		var refParams []*ssa.Parameter
		for _, p := range fn.Params {
			switch p.Type().Underlying().(type) {
			case *types.Slice, *types.Map:
				refParams = append(refParams, p)
			}
		}
		if len(refParams) == 0 {
			continue
		}
		res.Instances++
		key := load.FnName(fn) + ":predicate leaves its arguments alone"
		bad := ""
		isParam := func(v ssa.Value) bool {
			for _, p := range refParams {
				if v == ssa.Value(p) {
					return true
				}
			}
			return false
		}
		allInstrs(fn, func(in ssa.Instruction) {
			switch x := in.(type) {
			case *ssa.Store:
				if ia, ok := x.Addr.(*ssa.IndexAddr); ok && isParam(ia.X) {
					bad = "assigns to an element of its parameter at " + c.P.InstrPos(in)
				}
			case *ssa.MapUpdate:
				if isParam(x.Map) {
					bad = "updates its map parameter at " + c.P.InstrPos(in)
				}
			case *ssa.Call:
				if bi, ok := x.Call.Value.(*ssa.Builtin); ok && bi.Name() == "copy" && len(x.Call.Args) > 0 {
					dst := x.Call.Args[0]
					if sl, ok := dst.(*ssa.Slice); ok {
						dst = sl.X
					}
					if isParam(dst) {
						bad = "copies into its parameter at " + c.P.InstrPos(in)
					}
				}
			}
		})
		if bad != "" {
			res.bad(key, c.P.FnPos(fn), "the test "+bad+": the caller's lines are changed by what reads like a question (content of the file is replaced while it is being checked)")
		} else {
			res.ok(key, c.P.FnPos(fn), "no store, map update or copy through a parameter")
		}
	}
	return res
}

var _ = token.ADD

var trimFamily = map[string]bool{"Trim": true, "TrimLeft": true, "TrimRight": true, "TrimSpace": true, "TrimFunc": true, "TrimLeftFunc": true, "TrimRightFunc": true}

// parserStrip: the call with which the compiler removes indentation before it
// classifies a line (strings.TrimLeft(line, " \t") in Parser.Parse).
func (c *Ctx) parserStrip() (name, cutset string, pos string) {
	for _, fn := range c.P.RepoFns {
		if load.ShortPkg(load.FnPkgPath(fn)) != "regex/parser" {
			continue
		}
		allInstrs(fn, func(in ssa.Instruction) {
			call, ok := in.(*ssa.Call)
			if !ok {
				return
			}
			f := staticCallee(&call.Call)
			if f == nil || !(objPkgPath(f) == "strings" || objPkgPath(f) == "bytes") || !trimFamily[f.Name()] {
				return
			}
			// its result is handed to the classifier
			for _, r := range referrers(call) {
				if cc := callCommon(r); cc != nil {
					if sf := staticFn(cc); sf != nil && c.P.IsRepoFn(sf) {
						name = f.Name()
						if len(call.Call.Args) > 1 {
							cutset, _ = constString(call.Call.Args[1])
						}
						pos = c.P.InstrPos(call)
					}
				}
			}
		})
	}
	return
}

// RuleFmtTrim (C10): formatting changes leading white space only, and "leading
// white space" means what the compiler means by it. In the formatter's source
// file (the file of the function that rebuilds lines from the directive
// patterns) the only trimming of text is the compiler's own indentation strip.
func (c *Ctx) RuleFmtTrim() *Result {
	res := &Result{Rule: "FMT-TRIM", MinInst: 1}
	pname, pcut, ppos := c.parserStrip()
	if pname == "" {
		res.Instances++
		res.undecided("regex/parser:indentation strip", "-", "the call that removes indentation before the parser classifies a line was not found")
		return res
	}
	// the formatter's file
	files := map[string]bool{}
	for _, mc := range c.formatterChains() {
		files[c.P.Fset.Position(mc.Pos()).Filename] = true
	}
	entry := map[*ssa.Function]bool{}
	for _, cmd := range c.Commands().Commands {
		for _, e := range cmd.Entries {
			entry[e] = true
		}
		for _, e := range cmd.ArgsInner {
			entry[e] = true
		}
	}
	for _, fn := range c.P.RepoFns {
		if !files[c.P.Fset.Position(fn.Pos()).Filename] || entry[fn] {
			continue
		}
		allInstrs(fn, func(in ssa.Instruction) {
			call, ok := in.(*ssa.Call)
			if !ok {
				return
			}
			f := staticCallee(&call.Call)
			if f == nil || !(objPkgPath(f) == "strings" || objPkgPath(f) == "bytes") || !trimFamily[f.Name()] {
				return
			}
			if _, isConst := call.Call.Args[0].(*ssa.Const); isConst {
				return
			}
			res.Instances++
			key := load.FnName(fn) + ":" + qualName(f)
			cut := ""
			if len(call.Call.Args) > 1 {
				cut, _ = constString(call.Call.Args[1])
			}
			if f.Name() == pname && sameByteSet(cut, pcut) {
				res.ok(key, c.P.InstrPos(call), fmt.Sprintf("the compiler's own indentation strip (%s with %q, %s)", pname, pcut, ppos))
			} else {
				res.bad(key, c.P.InstrPos(call), fmt.Sprintf("the formatter removes text with %s where the compiler removes indentation with %s(line, %q): white space that is part of an entry for generate (trailing blanks, a leading form feed or no-break space) is deleted by format, so the regex changes", qualName(f), pname, pcut))
			}
		})
	}
	return res
}

// sameByteSet: two cutsets name the same set of bytes (their order and repetitions do not matter).
func sameByteSet(a, b string) bool {
	set := func(s string) [256]bool {
		var m [256]bool
		for i := 0; i < len(s); i++ {
			m[s[i]] = true
		}
		return m
	}
	return set(a) == set(b)
}

// formatterChains: functions of package cmd that classify a line with the directive patterns.
func (c *Ctx) formatterChains() []*ssa.Function {
	var out []*ssa.Function
	for _, fn := range c.P.RepoFns {
		if load.ShortPkg(load.FnPkgPath(fn)) != "cmd" {
			continue
		}
		if chains := c.matchChains(fn); len(chains) > 0 {
			for _, ch := range chains {
				if len(ch.patterns) >= 4 {
					out = append(out, fn)
					break
				}
			}
		}
	}
	return out
}

// RuleDefMerge (C05-C07): definitions are merged without the override option:
// the first definition of a name stays, and a map shared with an included
// file's parser cannot be rewritten from below.
func (c *Ctx) RuleDefMerge() *Result {
	res := &Result{Rule: "DEF-MERGE", MinInst: 1}
	for _, fn := range c.P.RepoFns {
		if load.ShortPkg(load.FnPkgPath(fn)) != "regex/parser" {
			continue
		}
		allInstrs(fn, func(in ssa.Instruction) {
			call, ok := in.(*ssa.Call)
			if !ok {
				return
			}
			f := staticCallee(&call.Call)
			if f == nil || objPkgPath(f) != "dario.cat/mergo" || !(f.Name() == "Merge" || f.Name() == "Map" || f.Name() == "MergeWithOverwrite") {
				return
			}
			res.Instances++
			key := load.FnName(fn) + ":" + qualName(f) + " options"
			opts := 0
			if len(call.Call.Args) > 2 {
				if sl, ok := call.Call.Args[2].(*ssa.Slice); ok {
					opts = len(variadicElems(sl))
				} else if !isNilConst(call.Call.Args[2]) {
					opts = 1
				}
			}
			if opts > 0 || f.Name() == "MergeWithOverwrite" {
				res.bad(key, c.P.InstrPos(call), "definitions are merged with an option (override): a later definition of a name replaces the earlier one, and because exclude-file parsers share the include file's map, a redefinition in one exclude file changes what the files parsed after it see")
			} else {
				res.ok(key, c.P.InstrPos(call), "plain merge: an existing name keeps its value")
			}
		})
	}
	return res
}

// RuleValidateStore (C12, C16): a flag's Set method stores the value it
// validated. Validating a normalised copy (lower-cased, trimmed) and storing the
// raw argument accepts spellings the rest of the program does not recognise.
func (c *Ctx) RuleValidateStore() *Result {
	res := &Result{Rule: "VALIDATE-STORE", MinInst: 3}
	for _, fn := range c.P.RepoFns {
		if fn.Name() != "Set" || fn.Signature.Recv() == nil || len(fn.Params) != 2 || len(fn.Blocks) == 0 {
			continue
		}
		if !c.implementsPflagValue(fn.Signature.Recv().Type()) {
			continue
		}
		p := fn.Params[1]
		res.Instances++
		key := load.FnName(fn) + ":validated value is the stored value"
		var normalised *ssa.Call
		storesRaw := false
		for _, r := range referrers(p) {
			switch x := r.(type) {
			case *ssa.Call:
				if f := staticCallee(&x.Call); f != nil && objPkgPath(f) == "strings" && len(x.Call.Args) > 0 && x.Call.Args[0] == ssa.Value(p) {
					// is the result compared (validation) ?
					for _, rr := range referrers(x) {
						if b, ok := rr.(*ssa.BinOp); ok && (b.Op == token.EQL || b.Op == token.NEQ) {
							normalised = x
						}
					}
				}
			case *ssa.ChangeType, *ssa.Convert:
				for _, rr := range referrers(x.(ssa.Value)) {
					if _, ok := rr.(*ssa.Store); ok {
						storesRaw = true
					}
				}
			case *ssa.Store:
				if x.Val == ssa.Value(p) {
					storesRaw = true
				}
			}
		}
		if normalised != nil && storesRaw {
			res.bad(key, c.P.InstrPos(normalised), fmt.Sprintf("the value is validated after %s but stored as typed: a spelling that only passes because of the normalisation (GitHub, ' text') is accepted and then matches none of the values the program compares with", calleeLabel(&normalised.Call)))
		} else {
			res.ok(key, c.P.FnPos(fn), "the stored value is the value that was tested")
		}
	}
	return res
}

// RuleRxSibling (C13): the test_id and the legacy test_title line are rewritten
// by the same code from two patterns that differ in the key only. The two
// patterns must be the same pattern up to that key.
func (c *Ctx) RuleRxSibling() *Result {
	res := &Result{Rule: "RX-SIBLING", MinInst: 1}
	a, b := c.Rx().ByName("regex.TestIdRegex"), c.Rx().ByName("regex.TestTitleRegex")
	res.Instances++
	key := "regex:TestIdRegex ~ TestTitleRegex"
	if a == nil || b == nil {
		res.undecided(key, "-", "one of the two patterns is not a constant")
		return res
	}
	na, nb := strings.ReplaceAll(a.Src, "test_id", "KEY"), strings.ReplaceAll(b.Src, "test_title", "KEY")
	if na == nb {
		res.ok(key, "-", "identical up to the key: "+na)
	} else {
		res.bad(key, "-", fmt.Sprintf("the id pattern %s and the title pattern %s differ in more than the key: a line shape one of them accepts (an empty value, a value after a tab) is numbered by one rule and skipped by the other, so the numbering of the n-th test depends on which field it uses", a.Src, b.Src))
	}
	return res
}

// RuleWriteReached (C11, C12): below the point where update has decided which
// rule to write, there is no silent way out: in the functions between that
// point and the write that report failure by ending the process, every path to
// a normal return passes the call that leads to the write.
func (c *Ctx) RuleWriteReached(commands ...string) *Result {
	res := &Result{Rule: "WRITE-REACHED", MinInst: len(commands)}
	g := c.Graph()
	for _, name := range commands {
		cmd := c.Commands().ByName[name]
		if cmd == nil {
			continue
		}
		reach := g.Reach(c.CommandRoots(cmd))
		// functions that reach a write site
		writes := map[*ssa.Function]bool{}
		sites := map[ssa.Instruction]bool{}
		for _, ws := range c.writeSites() {
			if _, ok := reach[ws.fn]; ok && !ws.isExt {
				writes[ws.fn] = true
				sites[ws.call] = true
			}
		}
		for changed := true; changed; {
			changed = false
			for fn := range reach {
				if writes[fn] {
					continue
				}
				for _, e := range g.Out[fn] {
					if writes[e.Callee] && e.Kind == "static" {
						writes[fn], changed = true, true
					}
				}
			}
		}
		skip := map[*ssa.Function]bool{}
		for _, e := range c.EntryRoots(cmd) {
			skip[e] = true
		}
		for _, cb := range c.perFileCallbacks(cmd) {
			skip[cb] = true
			skip[unwrapBound(cb)] = true
		}
		for fn := range writes {
			if skip[fn] || fnHasErrResult(fn) || len(fn.Blocks) == 0 || !c.P.IsRepoFn(fn) {
				continue
			}
			hasWalk := false
			allInstrs(fn, func(in ssa.Instruction) {
				if cc := callCommon(in); cc != nil {
					f := staticCallee(cc)
					if isFn(f, "path/filepath", "WalkDir") || isFn(f, "path/filepath", "Walk") {
						hasWalk = true
					}
				}
			})
			if !hasWalk {
				// the walk is delegated to a helper of the repository (a walk skeleton with a callback)
				allInstrs(fn, func(in ssa.Instruction) {
					if cc := callCommon(in); cc != nil {
						if sf := staticFn(cc); sf != nil && c.P.IsRepoFn(sf) {
							if _, _, isWalk := walkSkeleton(sf); isWalk {
								hasWalk = true
							}
						}
					}
				})
			}
			if hasWalk {
				continue
			}
			res.Instances++
			key := fmt.Sprintf("cmd %s:%s:no silent way past the write", name, load.FnName(fn))
			missed := ""
			// nothing to change: the text to be written was found equal to the text that is there
			// (a comparison of a text parameter of the function with a value that is not a constant)
			nothingToChange := func(cond ssa.Value, val bool) bool {
				b, ok := cond.(*ssa.BinOp)
				if !ok || b.Op != token.EQL || !val || !isStringType(b.X.Type()) {
					return false
				}
				_, kx := b.X.(*ssa.Const)
				_, ky := b.Y.(*ssa.Const)
				if kx || ky {
					return false
				}
				_, px := stripConv(b.X).(*ssa.Parameter)
				_, py := stripConv(b.Y).(*ssa.Parameter)
				return px || py
			}
			c.explore(fn.Blocks[0], 0, newEnvAt(fn.Blocks[0]), exploreCB{
				instr: func(in ssa.Instruction, e *pathEnv) bool {
					if sites[in] {
						return true
					}
					if cc := callCommon(in); cc != nil {
						if sf := staticFn(cc); sf != nil && writes[sf] {
							return true
						}
					}
					return false
				},
				ret: func(r *ssa.Return, e *pathEnv) {
					if missed == "" && !c.guardedByEdges(r, nothingToChange) {
						missed = c.P.InstrPos(r)
					}
				},
			})
			if missed != "" {
				res.bad(key, c.P.FnPos(fn), fmt.Sprintf("%s can return normally at %s without writing and without failing: the command exits 0, the rules file keeps the old operand, and compare reports a change that update just claimed to have made", load.FnName(fn), missed))
			} else {
				res.ok(key, c.P.FnPos(fn), "every path to a normal return passes the write (or the call that leads to it); the other paths end the process")
			}
		}
	}
	return res
}

// RuleStdoutPure (C02): what generate prints on standard output is the regex
// and nothing else: every write to stdout that is reachable from the generate
// command writes the value returned by Operator.Run.
func (c *Ctx) RuleStdoutPure() *Result {
	res := &Result{Rule: "STDOUT-PURE", MinInst: 1}
	cmd := c.Commands().ByName["generate"]
	if cmd == nil {
		res.Instances++
		res.undecided("cmd generate", "-", "command not found")
		return res
	}
	reach := c.Graph().Reach(c.EntryRoots(cmd))
	isStdout := func(v ssa.Value) bool {
		v = stripConv(v)
		if mi, ok := v.(*ssa.MakeInterface); ok {
			v = mi.X
		}
		ld, ok := v.(*ssa.UnOp)
		if !ok {
			return false
		}
		g, ok := ld.X.(*ssa.Global)
		return ok && g.Pkg != nil && g.Pkg.Pkg.Path() == "os" && g.Name() == "Stdout"
	}
	fromRun := func(v ssa.Value) bool {
		var walk func(v ssa.Value, d int) bool
		walk = func(v ssa.Value, d int) bool {
			if d > 4 {
				return false
			}
			switch x := stripConv(v).(type) {
			case *ssa.Extract:
				if call, ok := x.Tuple.(*ssa.Call); ok && x.Index == 0 {
					return isMeth(staticCallee(&call.Call), load.ModulePath+"/regex/operators", "Operator", "Run")
				}
			case *ssa.MakeInterface:
				return walk(x.X, d+1)
			}
			return false
		}
		return walk(v, 0)
	}
	var fns []*ssa.Function
	for fn := range reach {
		fns = append(fns, fn)
	}
	for _, fn := range fns {
		allInstrs(fn, func(in ssa.Instruction) {
			cc := callCommon(in)
			if cc == nil {
				return
			}
			f := staticCallee(cc)
			if f == nil {
				return
			}
			var data []ssa.Value
			what := ""
			switch {
			case objPkgPath(f) == "fmt" && (f.Name() == "Print" || f.Name() == "Printf" || f.Name() == "Println"):
				what = qualName(f)
				if len(cc.Args) > 0 {
					if sl, ok := cc.Args[len(cc.Args)-1].(*ssa.Slice); ok {
						data = variadicElems(sl)
					}
				}
			case objPkgPath(f) == "fmt" && strings.HasPrefix(f.Name(), "Fprint") && len(cc.Args) > 0 && isStdout(cc.Args[0]):
				what = qualName(f) + "(os.Stdout, …)"
				if sl, ok := cc.Args[len(cc.Args)-1].(*ssa.Slice); ok {
					data = variadicElems(sl)
				}
			case recvNamed(f) == "File" && objPkgPath(f) == "os" && strings.HasPrefix(f.Name(), "Write") && len(cc.Args) > 1 && isStdout(cc.Args[0]):
				what = "os.Stdout." + f.Name()
				data = cc.Args[1:]
			default:
				return
			}
			res.Instances++
			key := load.FnName(fn) + ":" + what
			ok := len(data) > 0
			for _, d := range data {
				if !fromRun(d) {
					ok = false
				}
			}
			// and only after Run's error was found to be nil
			if ok {
				for _, d := range data {
					if ex, isEx := stripConv(d).(*ssa.Extract); isEx {
						if rc, isCall := ex.Tuple.(*ssa.Call); isCall {
							errV := resultValue(rc, 1)
							succeeded := func(cond ssa.Value, val bool) bool {
								b, isB := cond.(*ssa.BinOp)
								if !isB {
									return false
								}
								x, trueMeansNil, isTest := nilTest(b)
								return isTest && x == errV && val == trueMeansNil
							}
							if errV == nil || !c.guardedByEdges(in, succeeded) {
								res.bad(key, c.P.InstrPos(in), "the regex is written to standard output before (or without) the test of the error that Operator.Run returned with it: a failed run still prints an expression, or the error is overwritten by the write before it is looked at")
								return
							}
						}
					}
				}
			}
			if ok {
				res.ok(key, c.P.InstrPos(in), "writes the value returned by Operator.Run, and only on the side where its error is nil")
			} else {
				res.bad(key, c.P.InstrPos(in), fmt.Sprintf("%s is reachable from generate (%s) and writes something other than the generated regex to standard output: the output is no longer the single line that can be pasted between the quotes of a SecRule", what, PathTo(reach, fn)))
			}
		})
	}
	return res
}

// contextDirs: the directory layout below the CRS root, as the statements of
// C05, C15 and C18 name it (regex-assembly and its include/exclude
// directories, rules, tests/regression/tests).
var contextDirs = []string{"ROOT", "ROOT/regex-assembly", "ROOT/regex-assembly/exclude", "ROOT/regex-assembly/include", "ROOT/rules", "ROOT/tests/regression/tests"}

// RuleContextDirs: the set of directories the root context is built with is
// that layout. The values are evaluated symbolically (concatenation and
// path.Join / filepath.Join of the root parameter and constants), so the rule
// does not depend on how the constructor spells them.
func (c *Ctx) RuleContextDirs() *Result {
	res := &Result{Rule: "CONTEXT-DIRS", MinInst: 1}
	for _, fn := range c.P.RepoFns {
		if load.ShortPkg(load.FnPkgPath(fn)) != "context" || len(fn.Blocks) == 0 {
			continue
		}
		bound := map[ssa.Value]string{}
		var eval func(v ssa.Value, d int) (string, bool)
		eval = func(v ssa.Value, d int) (string, bool) {
			if d > 8 {
				return "", false
			}
			switch x := stripConv(v).(type) {
			case *ssa.Const:
				return constString(x)
			case *ssa.Parameter:
				if bv, ok := bound[x]; ok {
					return bv, true
				}
				if x.Type().Underlying().String() == "string" && x.Parent() == fn {
					return "ROOT", true
				}
			case *ssa.BinOp:
				if x.Op == token.ADD {
					a, ok1 := eval(x.X, d+1)
					b, ok2 := eval(x.Y, d+1)
					return a + b, ok1 && ok2
				}
			case *ssa.Call:
				f := staticCallee(&x.Call)
				// a helper of the repository that builds a path from its arguments
				if sf := staticFn(&x.Call); sf != nil && c.P.IsRepoFn(sf) && len(sf.Blocks) == 1 {
					if r, ok := sf.Blocks[0].Instrs[len(sf.Blocks[0].Instrs)-1].(*ssa.Return); ok && len(r.Results) == 1 {
						for i, a := range x.Call.Args {
							if i < len(sf.Params) {
								if av, ok := eval(a, d+1); ok {
									bound[sf.Params[i]] = av
								}
							}
						}
						return eval(r.Results[0], d+1)
					}
				}
				if (isFn(f, "path", "Join") || isFn(f, "path/filepath", "Join")) && len(x.Call.Args) == 1 {
					if sl, ok := x.Call.Args[0].(*ssa.Slice); ok {
						var parts []string
						for _, e := range variadicElems(sl) {
							p, ok := eval(e, d+1)
							if !ok {
								return "", false
							}
							parts = append(parts, p)
						}
						return strings.Join(parts, "/"), true
					}
				}
			}
			return "", false
		}
		got := map[string]bool{}
		n := 0
		var pos string
		allInstrs(fn, func(in ssa.Instruction) {
			st, ok := in.(*ssa.Store)
			if !ok {
				return
			}
			fa, ok := st.Addr.(*ssa.FieldAddr)
			if !ok || !isNamed(derefType(fa.X.Type()), load.ModulePath+"/context", "Context") {
				return
			}
			if st.Val.Type().Underlying().String() != "string" {
				return
			}
			n++
			pos = c.P.InstrPos(st)
			if v, ok := eval(st.Val, 0); ok {
				for strings.Contains(v, "//") {
					v = strings.ReplaceAll(v, "//", "/")
				}
				got[strings.TrimSuffix(v, "/")] = true
			} else {
				got["?"] = true
			}
		})
		if n == 0 {
			continue
		}
		res.Instances++
		key := load.FnName(fn) + ":directories of the root context"
		want := map[string]bool{}
		for _, d := range contextDirs {
			want[d] = true
		}
		var missing, extra []string
		for d := range want {
			if !got[d] {
				missing = append(missing, d)
			}
		}
		for d := range got {
			if !want[d] {
				extra = append(extra, d)
			}
		}
		if len(missing) == 0 && len(extra) == 0 {
			res.ok(key, pos, "the context is built with "+strings.Join(contextDirs, ", "))
		} else {
			res.bad(key, pos, fmt.Sprintf("the context is built with %s instead of %s: files in the directory the layout names are no longer found (or another directory is read and written)", strings.Join(sortStrings(extra), ", "), strings.Join(sortStrings(missing), ", ")))
		}
	}
	return res
}

// RuleCutset: strings.Trim / TrimLeft / TrimRight take a SET of characters. A
// constant cutset with letters or digits in it that is longer than one
// character is a suffix or prefix mistaken for a set (".ra" strips every
// trailing '.', 'r' and 'a'); TrimSuffix / TrimPrefix is what was meant.
func (c *Ctx) RuleCutset() *Result {
	res := &Result{Rule: "CUTSET", MinInst: 1}
	n := 0
	for _, fn := range c.P.RepoFns {
		allInstrs(fn, func(in ssa.Instruction) {
			call, ok := in.(*ssa.Call)
			if !ok {
				return
			}
			f := staticCallee(&call.Call)
			if f == nil || !(objPkgPath(f) == "strings" || objPkgPath(f) == "bytes") || !(f.Name() == "Trim" || f.Name() == "TrimLeft" || f.Name() == "TrimRight") || len(call.Call.Args) != 2 {
				return
			}
			cut, ok := constString(call.Call.Args[1])
			if !ok {
				return // computed cutsets are SUFFIX-OPS's business
			}
			n++
			res.Instances++
			key := fmt.Sprintf("%s:%s cutset %q", load.FnName(fn), qualName(f), cut)
			alnum := false
			for _, r := range cut {
				if r >= '0' && r <= '9' || r >= 'a' && r <= 'z' || r >= 'A' && r <= 'Z' {
					alnum = true
				}
			}
			if len(cut) > 1 && alnum {
				res.bad(key, c.P.InstrPos(call), fmt.Sprintf("%s(_, %q) removes every leading/trailing character that occurs in %q, not that prefix/suffix: names whose own ending consists of those characters are cut short (java -> jav) and resolve to another file or to none", qualName(f), cut, cut))
			} else {
				res.ok(key, c.P.InstrPos(call), "a set of separator characters")
			}
		})
	}
	if n == 0 {
		res.Instances++
		res.ok("repository:constant cutsets", "-", "no Trim/TrimLeft/TrimRight with a constant cutset")
	}
	return res
}

// RuleLoopProgress (C19, "never loops"): a loop whose exit condition is a pure
// function of its loop-carried values (a search in text[offset:], a scan with
// an index) terminates only if every trip round it changes one of them. A back
// edge on which every loop-carried value keeps its value (a `continue` that
// forgot to advance the offset) is an endless loop for the inputs that take it.
func (c *Ctx) RuleLoopProgress() *Result {
	res := &Result{Rule: "LOOP-PROGRESS", MinInst: 2}
	scope := c.reachFromNamed(func(n string) bool { return n == "(*regex/operators.Operator).Run" })
	for _, fn := range c.P.RepoFns {
		if !scope[load.FnName(fn)] || len(fn.Blocks) == 0 {
			continue
		}
		for _, l := range naturalLoops(fn) {
			var phis []*ssa.Phi
			for _, in := range l.header.Instrs {
				if ph, ok := in.(*ssa.Phi); ok {
					phis = append(phis, ph)
				}
			}
			if len(phis) == 0 {
				continue
			}
			isHeaderPhi := map[ssa.Value]bool{}
			for _, ph := range phis {
				isHeaderPhi[ph] = true
			}
			// exit conditions: Ifs in the loop with a successor outside
			pure := true
			exits := 0
			var dep func(v ssa.Value, d int) bool
			dep = func(v ssa.Value, d int) bool {
				if d > 10 {
					return false
				}
				switch x := v.(type) {
				case *ssa.Const, *ssa.Parameter, *ssa.FreeVar, *ssa.Global, *ssa.Builtin, *ssa.Function:
					return true
				case *ssa.Phi:
					if isHeaderPhi[x] {
						return true
					}
					for _, e := range x.Edges {
						if !dep(e, d+1) {
							return false
						}
					}
					return true
				case *ssa.BinOp:
					return dep(x.X, d+1) && dep(x.Y, d+1)
				case *ssa.UnOp:
					if x.Op == token.MUL {
						// a load: only of an element of a value computed purely (location[0]) or of a pattern global
						switch y := x.X.(type) {
						case *ssa.IndexAddr:
							return dep(y.X, d+1) && dep(y.Index, d+1)
						case *ssa.Global:
							return isRegexpPtr(x)
						}
						return false
					}
					return dep(x.X, d+1)
				case *ssa.Slice:
					ok := dep(x.X, d+1)
					for _, b := range []ssa.Value{x.Low, x.High} {
						if b != nil && !dep(b, d+1) {
							ok = false
						}
					}
					return ok
				case *ssa.Index:
					return dep(x.X, d+1) && dep(x.Index, d+1)
				case *ssa.Lookup:
					return false
				case *ssa.Convert:
					return dep(x.X, d+1)
				case *ssa.ChangeType:
					return dep(x.X, d+1)
				case *ssa.Extract:
					return dep(x.Tuple, d+1)
				case *ssa.Call:
					if !l.body[x.Block()] {
						return true // computed before the loop: invariant
					}
					if _, ok := isBuiltinCall(x, "len", "cap", "min", "max"); !ok {
						f := staticCallee(&x.Call)
						if f == nil {
							return false
						}
						switch objPkgPath(f) {
						case "strings", "bytes", "regexp", "unicode", "unicode/utf8":
							if recvNamed(f) == "Builder" || recvNamed(f) == "Buffer" || recvNamed(f) == "Reader" {
								return false
							}
						default:
							return false
						}
					}
					for _, a := range x.Call.Args {
						if !dep(a, d+1) {
							return false
						}
					}
					return true
				}
				if in, ok := v.(ssa.Instruction); ok && !l.body[in.Block()] {
					return true // loop-invariant
				}
				return false
			}
			for b := range l.body {
				iff, ok := b.Instrs[len(b.Instrs)-1].(*ssa.If)
				if !ok {
					continue
				}
				leaves := false
				for _, s := range b.Succs {
					if !l.body[s] {
						leaves = true
					}
				}
				if !leaves {
					continue
				}
				exits++
				if !dep(iff.Cond, 0) {
					pure = false
				}
			}
			// a Return inside the loop is an exit too; its reachability is decided by the same Ifs
			if exits == 0 || !pure {
				continue
			}
			res.Instances++
			key := fmt.Sprintf("%s:loop at %s makes progress", load.FnName(fn), c.P.InstrPos(l.header.Instrs[len(l.header.Instrs)-1]))
			key = load.FnName(fn) + ":loop makes progress"
			stuck := ""
			for i, p := range l.header.Preds {
				if !l.body[p] {
					continue
				}
				changed := false
				for _, ph := range phis {
					if ph.Edges[i] != ssa.Value(ph) {
						changed = true
					}
				}
				if !changed {
					stuck = c.P.InstrPos(p.Instrs[len(p.Instrs)-1])
				}
			}
			if stuck != "" {
				res.bad(key, c.P.InstrPos(l.header.Instrs[0]), fmt.Sprintf("the loop goes round at %s with every loop-carried value unchanged, and its exit test depends on nothing else: for an input that takes this path (an escaped look-alike of a flag group) generate never terminates", stuck))
			} else {
				res.ok(key, c.P.InstrPos(l.header.Instrs[0]), fmt.Sprintf("exit test is a pure function of %d loop-carried value(s); every back edge changes one of them", len(phis)))
			}
		}
	}
	res.Dedup()
	return res
}

// RuleEscPos (C02, C19): inside a loop that walks a text with an index and asks
// "is the character here escaped?", the question is asked about the position
// of the character that was just looked at - not about some other position.
func (c *Ctx) RuleEscPos() *Result {
	res := &Result{Rule: "ESC-POS", MinInst: 1}
	for _, fn := range c.P.RepoFns {
		if len(fn.Blocks) == 0 {
			continue
		}
		for _, l := range naturalLoops(fn) {
			// texts indexed in this loop, with the index values used
			idxOf := map[ssa.Value][]ssa.Value{}
			for b := range l.body {
				for _, in := range b.Instrs {
					switch x := in.(type) {
					case *ssa.Index:
						idxOf[x.X] = append(idxOf[x.X], x.Index)
					case *ssa.Lookup:
						if bt, ok := x.X.Type().Underlying().(*types.Basic); ok && bt.Kind() == types.String {
							idxOf[x.X] = append(idxOf[x.X], x.Index)
						}
					}
				}
			}
			if len(idxOf) == 0 {
				continue
			}
			for b := range l.body {
				for _, in := range b.Instrs {
					call, ok := in.(*ssa.Call)
					if !ok || !isEscapedLike(staticFn(&call.Call)) || len(call.Call.Args) != 2 {
						continue
					}
					idxs, ok := idxOf[call.Call.Args[0]]
					if !ok {
						continue
					}
					res.Instances++
					key := load.FnName(fn) + ":escape test at the inspected position"
					pos := call.Call.Args[1]
					okPos := false
					for _, iv := range idxs {
						if iv == pos {
							okPos = true
						}
					}
					if okPos {
						res.ok(key, c.P.InstrPos(call), "the escape test is asked about the index of the character that is inspected")
					} else {
						res.bad(key, c.P.InstrPos(call), "the scan looks at one character of the text and asks whether a different position is escaped: an escaped parenthesis is counted as a group boundary (or a real one is ignored), and the text is cut at the wrong place")
					}
				}
			}
		}
	}
	res.Dedup()
	return res
}

// RuleIncludeName (C05): the include file that is opened is the one that was
// named. In package regex/parser, what is handed to os.Open is the name itself
// or path.Join(directory, name) - the same name in both cases, derived from
// the parameter by nothing but appending the extension - and the search over
// the directories stops at the first directory in which the open succeeded.
func (c *Ctx) RuleIncludeName() *Result {
	res := &Result{Rule: "INCLUDE-NAME", MinInst: 1}
	for _, fn := range c.P.RepoFns {
		if load.ShortPkg(load.FnPkgPath(fn)) != "regex/parser" || len(fn.Blocks) == 0 {
			continue
		}
		allInstrs(fn, func(in ssa.Instruction) {
			call, ok := in.(*ssa.Call)
			if !ok || !isFn(staticCallee(&call.Call), "os", "Open") {
				return
			}
			res.Instances++
			key := load.FnName(fn) + ":file opened for an include"
			pos := c.P.InstrPos(call)
			var problems []string
			// (a) the names
			names := map[ssa.Value]bool{}
			seenPhi := map[*ssa.Phi]bool{}
			var edges func(v ssa.Value, d int)
			edges = func(v ssa.Value, d int) {
				v = stripConv(v)
				if ph, ok := v.(*ssa.Phi); ok {
					if seenPhi[ph] {
						return
					}
					seenPhi[ph] = true
					// a phi that merges "as given" with "joined below a directory"
					isNameMerge := true
					for _, e := range ph.Edges {
						if jc, ok := stripConv(e).(*ssa.Call); ok {
							f := staticCallee(&jc.Call)
							if isFn(f, "path", "Join") || isFn(f, "path/filepath", "Join") {
								isNameMerge = false
							}
						}
						if _, ok := stripConv(e).(*ssa.Phi); ok {
							isNameMerge = false
						}
					}
					if !isNameMerge {
						for _, e := range ph.Edges {
							edges(e, d+1)
						}
						return
					}
				}
				if jc, ok := v.(*ssa.Call); ok {
					f := staticCallee(&jc.Call)
					if (isFn(f, "path", "Join") || isFn(f, "path/filepath", "Join")) && len(jc.Call.Args) == 1 {
						if sl, ok := jc.Call.Args[0].(*ssa.Slice); ok {
							els := variadicElems(sl)
							if len(els) == 2 {
								names[stripConv(els[1])] = true
								return
							}
						}
					}
				}
				names[v] = true
			}
			edges(call.Call.Args[0], 0)
			// (a') the name as given, opened without a directory in front of it, is relative to wherever the tool was
			// started: that is only right for a name known to be absolute
			if !c.openNameQualified(call, call.Call.Args[0], fn, 0) {
				problems = append(problems, "the include name is opened as it is, without the include or exclude directory in front of it and without being known to be absolute: a relative name is looked up in the directory the tool was started from first, and a file of that name there is parsed instead of the include file")
			}
			// (a'') a directory of the search that can be the empty string: Join("", name) is the bare name again
			if why := c.joinedDirMayBeEmpty(call, call.Call.Args[0], fn); why != "" {
				problems = append(problems, "one of the directories the name is joined to can be the empty string ("+why+"): filepath.Join(\"\", name) is the bare name, so a relative include is looked up in the directory the tool was started from, and a file of that name there is parsed instead of the include file")
			}
			var derivedOK func(v ssa.Value, d int) bool
			derivedOK = func(v ssa.Value, d int) bool {
				if d > 4 {
					return false
				}
				switch x := v.(type) {
				case *ssa.Parameter:
					return true
				case *ssa.Const:
					return true
				case *ssa.Phi:
					for _, e := range x.Edges {
						if !derivedOK(e, d+1) {
							return false
						}
					}
					return true
				case *ssa.BinOp:
					return x.Op == token.ADD && derivedOK(x.X, d+1) && derivedOK(x.Y, d+1)
				}
				return false
			}
			if len(names) != 1 {
				problems = append(problems, "the name that is opened as given (absolute names) and the name that is joined below the include and exclude directories are not the same value: one of them misses what the other got (the .ra extension)")
			}
			for n := range names {
				if !derivedOK(n, 0) {
					problems = append(problems, fmt.Sprintf("the name handed to os.Open is not the include name with at most the extension appended (it goes through %T): part of the name (a sub-directory) is dropped and another file is read", n))
				}
			}
			// (b) first success wins
			if errV := resultValue(call, 1); errV != nil {
				for _, l := range naturalLoops(fn) {
					if !l.body[call.Block()] {
						continue
					}
					found := false
					for _, r := range referrers(errV) {
						bin, ok := r.(*ssa.BinOp)
						if !ok {
							continue
						}
						_, trueMeansNil, isTest := nilTest(bin)
						if !isTest {
							continue
						}
						for _, br := range condBranches(bin) {
							if !l.body[br.iff.Block()] {
								continue
							}
							found = true
							nilSide := 0
							if trueMeansNil == br.neg {
								nilSide = 1
							}
							blk := br.iff.Block()
							if l.body[blk.Succs[nilSide]] && !l.body[blk.Succs[1-nilSide]] {
								problems = append(problems, fmt.Sprintf("the search over the directories goes on after the file was opened and stops when an open fails (%s): a relative include is only found when it exists in the last directory tried", c.P.InstrPos(br.iff)))
							}
						}
					}
					_ = found
					break
				}
			}
			// (c) the include directory is tried before the exclude directory
			{
				var order []string
				allInstrs(fn, func(in2 ssa.Instruction) {
					st, ok := in2.(*ssa.Store)
					if !ok {
						return
					}
					ia, ok := st.Addr.(*ssa.IndexAddr)
					if !ok {
						return
					}
					k, ok := constInt(ia.Index)
					if !ok {
						return
					}
					if dc, ok := st.Val.(*ssa.Call); ok {
						if df := staticCallee(&dc.Call); df != nil && (df.Name() == "IncludesDir" || df.Name() == "ExcludesDir") {
							for int64(len(order)) <= k {
								order = append(order, "")
							}
							order[k] = df.Name()
						}
					}
				})
				if len(order) >= 2 && !(order[0] == "IncludesDir" && order[1] == "ExcludesDir") {
					problems = append(problems, "the exclude directory is searched before the include directory: a name that exists in both resolves to the exclusion list")
				}
			}
			if len(problems) > 0 {
				res.bad(key, pos, strings.Join(problems, "; "))
			} else {
				res.ok(key, pos, "os.Open gets the include name (extension appended) as given or joined below a directory; include directory first; the search stops at the first success")
			}
		})
	}
	return res
}

// RuleTestFileGrammar (C13, C15): the test-file name pattern accepts exactly
// NNNNNN, NNNNNN.yaml and NNNNNN.yml (the shapes the statement of C13 names);
// anything looser selects files that are not test files for rewriting.
func (c *Ctx) RuleTestFileGrammar() *Result {
	res := &Result{Rule: "RX-GRAMMAR-TESTS", MinInst: 1}
	res.Instances++
	key := "regex:RuleIdTestFileNameRegex"
	p := c.Rx().ByName("regex.RuleIdTestFileNameRegex")
	if p == nil {
		res.undecided(key, "-", "the test-file name pattern is not a resolvable constant")
		return res
	}
	have := searchLang(p)
	want, _ := rx.SearchPattern("stated grammar", `^\d{6}(\.ya?ml)?$`)
	none := func(r rune) bool { return false }
	q := &rx.Query{Langs: []*rx.Lang{have, want}, Excluded: none, Accept: func(m []bool) bool { return m[0] != m[1] }}
	r, err := q.Run()
	switch {
	case err != nil:
		res.undecided(key, p.Pos, err.Error())
	case r.Found:
		res.bad(key, p.Pos, fmt.Sprintf("the test-file name pattern %s and the grammar NNNNNN[.yaml|.yml] disagree on %q: files that are not test files are renumbered and written (or test files are skipped)", p.Src, r.Witness))
	default:
		res.ok(key, p.Pos, "accepts exactly NNNNNN, NNNNNN.yaml, NNNNNN.yml (language equality)")
	}
	return res
}

// RuleUpdArgs (C20): what is downloaded and installed is the asset of the
// detected release: the URL and the name handed to the installing call are the
// AssetURL and AssetName fields of the release that detection returned.
func (c *Ctx) RuleUpdArgs() *Result {
	res := &Result{Rule: "UPD-ARGS", MinInst: 1}
	for _, fn := range c.P.RepoFns {
		if load.ShortPkg(load.FnPkgPath(fn)) != "internal/updater" {
			continue
		}
		allInstrs(fn, func(in ssa.Instruction) {
			call, ok := in.(*ssa.Call)
			if !ok {
				return
			}
			f := staticCallee(&call.Call)
			if f == nil || objPkgPath(f) != selfupdatePkg || f.Name() != "UpdateTo" {
				return
			}
			res.Instances++
			key := load.FnName(fn) + ":asset handed to " + qualName(f)
			// string arguments that are fields of a *selfupdate.Release
			var fields []string
			for _, a := range call.Call.Args {
				if a.Type().Underlying().String() != "string" {
					continue
				}
				name := "?"
				if ld, ok := a.(*ssa.UnOp); ok {
					if fa, ok := ld.X.(*ssa.FieldAddr); ok && isNamed(fa.X.Type(), selfupdatePkg, "Release") {
						if st, ok := derefType(fa.X.Type()).Underlying().(*types.Struct); ok {
							name = st.Field(fa.Field).Name()
						}
					}
				}
				fields = append(fields, name)
			}
			if len(fields) >= 2 && fields[0] == "AssetURL" && fields[1] == "AssetName" {
				res.ok(key, c.P.InstrPos(call), "AssetURL and AssetName of the detected release")
			} else {
				res.bad(key, c.P.InstrPos(call), fmt.Sprintf("the installing call is given (%s) instead of the release's AssetURL and AssetName: the library decides from the name how to unpack the download, so the executable is replaced by the raw archive or by something that is not the platform's asset", strings.Join(fields, ", ")))
			}
		})
	}
	return res
}

// RuleChecksumName (C20): the checksum file the validator looks for is the one
// the release pipeline publishes: .goreleaser.yml's checksum.name_template with
// the project name filled in. (Two tables that must agree: the writer's in the
// build configuration, the reader's in the source.)
func (c *Ctx) RuleChecksumName() *Result {
	res := &Result{Rule: "UPD-CHECKSUM-NAME", MinInst: 1}
	data, err := os.ReadFile(filepath.Join(c.P.Dir, ".goreleaser.yml"))
	want := ""
	if err == nil {
		project, tmpl := "", ""
		inChecksum := false
		for _, line := range strings.Split(string(data), "\n") {
			t := strings.TrimSpace(line)
			if strings.HasPrefix(line, "project_name:") {
				project = strings.Trim(strings.TrimSpace(strings.TrimPrefix(line, "project_name:")), `"'`)
			}
			if !strings.HasPrefix(line, " ") && !strings.HasPrefix(line, "\t") {
				inChecksum = strings.HasPrefix(line, "checksum:")
			}
			if inChecksum && strings.HasPrefix(t, "name_template:") {
				tmpl = strings.Trim(strings.TrimSpace(strings.TrimPrefix(t, "name_template:")), `"'`)
			}
		}
		if project != "" && tmpl != "" {
			want = strings.NewReplacer("{{ .ProjectName }}", project, "{{.ProjectName}}", project).Replace(tmpl)
			if strings.Contains(want, "{{") {
				want = ""
			}
		}
	}
	for _, fn := range c.P.RepoFns {
		if load.ShortPkg(load.FnPkgPath(fn)) != "internal/updater" {
			continue
		}
		allInstrs(fn, func(in ssa.Instruction) {
			st, ok := in.(*ssa.Store)
			if !ok {
				return
			}
			fa, ok := st.Addr.(*ssa.FieldAddr)
			if !ok || !isNamed(fa.X.Type(), selfupdatePkg, "ChecksumValidator") {
				return
			}
			stt, _ := derefType(fa.X.Type()).Underlying().(*types.Struct)
			if stt == nil || stt.Field(fa.Field).Name() != "UniqueFilename" {
				return
			}
			res.Instances++
			key := load.FnName(fn) + ":checksum file name"
			got, isConst := constString(st.Val)
			switch {
			case want == "":
				res.ok(key, c.P.InstrPos(st), "the release configuration does not state a checksum file name that can be read statically; nothing to compare with")
			case !isConst:
				res.undecided(key, c.P.InstrPos(st), "the checksum file name is not a constant")
			case got != want:
				res.bad(key, c.P.InstrPos(st), fmt.Sprintf("the validator looks for %q but the release pipeline publishes %q (.goreleaser.yml): every proper release is refused, and a release that carries some other file of that name is installed without the project's checksums", got, want))
			default:
				res.ok(key, c.P.InstrPos(st), fmt.Sprintf("%q, as published by the release configuration", want))
			}
		})
	}
	return res
}

// RuleShadowParam: a short variable declaration in an inner block that reuses
// the name of a parameter of the function, while the parameter is still used
// after that block, assigns to a new variable what was meant for the
// parameter (executablePath := exe).
func (c *Ctx) RuleShadowParam() *Result {
	res := &Result{Rule: "SHADOW-PARAM", MinInst: 1}
	n := 0
	for _, pkg := range c.P.Roots {
		info := pkg.TypesInfo
		for _, file := range pkg.Syntax {
			ast.Inspect(file, func(nd ast.Node) bool {
				fd, ok := nd.(*ast.FuncDecl)
				if !ok || fd.Body == nil || fd.Type.Params == nil {
					return true
				}
				n++
				params := map[string]types.Object{}
				for _, fl := range fd.Type.Params.List {
					for _, nm := range fl.Names {
						if o := info.Defs[nm]; o != nil && nm.Name != "_" {
							params[nm.Name] = o
						}
					}
				}
				if len(params) == 0 {
					return true
				}
				ast.Inspect(fd.Body, func(m ast.Node) bool {
					as, ok := m.(*ast.AssignStmt)
					if !ok || as.Tok != token.DEFINE {
						return true
					}
					for _, lhs := range as.Lhs {
						id, ok := lhs.(*ast.Ident)
						if !ok {
							continue
						}
						po, isParam := params[id.Name]
						inner := info.Defs[id]
						if !isParam || inner == nil || inner == po {
							continue
						}
						// the parameter is still used after the scope of the inner variable ends
						end := inner.Parent().End()
						usedAfter := false
						for use, obj := range info.Uses {
							if obj == po && use.Pos() > end {
								usedAfter = true
							}
						}
						if !usedAfter {
							continue
						}
						res.Instances++
						res.bad(fmt.Sprintf("%s.%s:parameter %s shadowed", load.ShortPkg(pkg.PkgPath), fd.Name.Name, id.Name), c.P.Pos(id.Pos()), fmt.Sprintf("%s := … declares a new variable in the inner block; the parameter %s, which is used again after the block, keeps its old value (the computed path is logged but an empty one is passed on)", id.Name, id.Name))
					}
					return true
				})
				return true
			})
		}
	}
	res.Instances++
	res.ok("repository:no shadowed parameter that is used afterwards", "-", fmt.Sprintf("%d function declarations scanned", n))
	return res
}

// RuleExactCompare (C09, C10, C12): file content and regexes are compared byte
// for byte. strings.EqualFold / bytes.EqualFold anywhere in the repository
// makes a comparison blind to case, which is a difference the properties count.
func (c *Ctx) RuleExactCompare() *Result {
	res := &Result{Rule: "EXACT-COMPARE", MinInst: 100}
	n := 0
	for _, fn := range c.P.RepoFns {
		res.Instances++
		allInstrs(fn, func(in ssa.Instruction) {
			cc := callCommon(in)
			if cc == nil {
				return
			}
			f := staticCallee(cc)
			if isFn(f, "strings", "EqualFold") || isFn(f, "bytes", "EqualFold") {
				n++
				res.bad(load.FnName(fn)+":"+qualName(f), c.P.InstrPos(in), qualName(f)+" treats texts that differ only in letter case as equal: a stored operand or a header that differs from the generated one in case alone (\\\\s against \\\\S) is reported as unchanged / as standard")
			}
		})
	}
	if n == 0 {
		res.ok("repository:no case-insensitive comparison", "-", fmt.Sprintf("%d functions scanned", res.Instances))
	}
	return res
}

// RuleBufAlias (C13, C14): an output buffer is not built on the memory of the
// input that is still being read: bytes.NewBuffer(p[:0]) or append(p[:0], …)
// with p a parameter overwrites unread input as soon as the output grows
// faster than the input is consumed.
func (c *Ctx) RuleBufAlias() *Result {
	res := &Result{Rule: "BUF-ALIAS", MinInst: 100}
	n := 0
	isParamSlice := func(v ssa.Value) bool {
		sl, ok := v.(*ssa.Slice)
		if !ok {
			return false
		}
		_, isParam := sl.X.(*ssa.Parameter)
		return isParam
	}
	for _, fn := range c.P.RepoFns {
		res.Instances++
		allInstrs(fn, func(in ssa.Instruction) {
			cc := callCommon(in)
			if cc == nil {
				return
			}
			what := ""
			if f := staticCallee(cc); isFn(f, "bytes", "NewBuffer") && len(cc.Args) == 1 && isParamSlice(cc.Args[0]) {
				what = "bytes.NewBuffer on a slice of a parameter"
			}
			if bi, ok := cc.Value.(*ssa.Builtin); ok && bi.Name() == "append" && len(cc.Args) > 0 && isParamSlice(cc.Args[0]) {
				if sl := cc.Args[0].(*ssa.Slice); sl.High != nil {
					if k, ok := constInt(sl.High); ok && k == 0 {
						what = "append to p[:0] of a parameter"
					}
				}
			}
			if what != "" {
				n++
				res.bad(load.FnName(fn)+":"+what, c.P.InstrPos(in), what+": the output shares its memory with the input; when the rewritten text is longer than the original, unread input is overwritten and the rest of the file is duplicated or lost")
			}
		})
	}
	if n == 0 {
		res.ok("repository:no output buffer on input memory", "-", fmt.Sprintf("%d functions scanned", res.Instances))
	}
	return res
}

// RuleCtorNonNil (C19): a constructor of the repository that returns a pointer
// and no error never returns nil: its callers use the result without a test
// (configuration.New, NewContext, NewParser, ...), so a nil from it is a nil
// dereference a few calls later.
func (c *Ctx) RuleCtorNonNil() *Result {
	res := &Result{Rule: "CTOR-NONNIL", MinInst: 5}
	for _, fn := range c.P.RepoFns {
		if !strings.HasPrefix(fn.Name(), "New") || fn.Signature.Recv() != nil || fn.Signature.Results().Len() != 1 || len(fn.Blocks) == 0 {
			continue
		}
		if _, ok := fn.Signature.Results().At(0).Type().Underlying().(*types.Pointer); !ok {
			continue
		}
		res.Instances++
		key := load.FnName(fn) + ":never returns nil"
		bad := ""
		allInstrs(fn, func(in ssa.Instruction) {
			r, ok := in.(*ssa.Return)
			if !ok || len(r.Results) == 0 {
				return
			}
			var walk func(v ssa.Value, d int)
			walk = func(v ssa.Value, d int) {
				if d > 4 {
					return
				}
				switch x := v.(type) {
				case *ssa.Const:
					if x.Value == nil {
						bad = c.P.InstrPos(r)
					}
				case *ssa.Phi:
					for _, e := range x.Edges {
						walk(e, d+1)
					}
				}
			}
			walk(r.Results[0], 0)
		})
		if bad != "" {
			res.bad(key, c.P.FnPos(fn), fmt.Sprintf("%s returns nil at %s; it has no error result and its callers use what it returns without a test: the next access is a nil-pointer dereference (a runtime fault instead of a diagnostic)", load.FnName(fn), bad))
		} else {
			res.ok(key, c.P.FnPos(fn), "every return yields an allocated value")
		}
	}
	return res
}

//go:embed patterns_ref.json
var patternsRefJSON []byte

// greedSignature: the greedy/lazy flags of the quantifiers of a pattern, in order.
func greedSignature(re *syntax.Regexp) string {
	var sb strings.Builder
	var walk func(r *syntax.Regexp)
	walk = func(r *syntax.Regexp) {
		switch r.Op {
		case syntax.OpStar, syntax.OpPlus, syntax.OpQuest, syntax.OpRepeat:
			if r.Flags&syntax.NonGreedy != 0 {
				sb.WriteByte('l')
			} else {
				sb.WriteByte('g')
			}
		}
		for _, s := range r.Sub {
			walk(s)
		}
	}
	walk(re)
	return sb.String()
}

// RulePatternPin: the patterns named are, as languages, what they were when
// they were reviewed (patterns_ref.json): the same lines are accepted, every
// capture group has the same language, and the quantifiers keep their
// greediness. The text of a pattern is free; what it matches and how it
// splits a line is not, because the properties wired to this rule were argued
// from exactly that.
func (c *Ctx) RulePatternPin(names ...string) *Result {
	res := &Result{Rule: "PATTERN-PIN", MinInst: len(names)}
	var ref struct {
		Patterns map[string]string `json:"patterns"`
	}
	if err := json.Unmarshal(patternsRefJSON, &ref); err != nil {
		res.Instances++
		res.undecided("reference", "-", "patterns_ref.json does not parse: "+err.Error())
		return res
	}
	none := func(r rune) bool { return false }
	for _, name := range names {
		res.Instances++
		key := "regex:" + strings.TrimPrefix(name, "regex.") + " as reviewed"
		want, ok := ref.Patterns[name]
		if !ok {
			res.undecided(key, "-", "no reviewed reference for "+name)
			continue
		}
		p := c.Rx().ByName(name)
		if p == nil {
			res.undecided(key, "-", name+" is not a resolvable constant pattern")
			continue
		}
		wre, err := rx.Parse(want)
		if err != nil {
			res.undecided(key, p.Pos, "reference does not parse: "+err.Error())
			continue
		}
		var problems []string
		diff := func(what string, a, b *rx.Lang) {
			q := &rx.Query{Langs: []*rx.Lang{a, b}, Excluded: none, Accept: func(m []bool) bool { return m[0] != m[1] }}
			if r, err := q.Run(); err != nil {
				problems = append(problems, what+": "+err.Error())
			} else if r.Found {
				problems = append(problems, fmt.Sprintf("%s differs from the reviewed pattern on %q", what, r.Witness))
			}
		}
		hs, err1 := rx.Search(name, p.Re)
		ws, err2 := rx.Search("reviewed "+name, wre)
		if err1 != nil || err2 != nil {
			res.undecided(key, p.Pos, "pattern does not compile for the comparison")
			continue
		}
		diff("the set of lines matched", hs, ws)
		if p.Re.MaxCap() != wre.MaxCap() {
			problems = append(problems, fmt.Sprintf("%d capture groups instead of %d", p.Re.MaxCap(), wre.MaxCap()))
		} else {
			for g := 1; g <= wre.MaxCap(); g++ {
				a, b := rx.Capture(p.Re, g), rx.Capture(wre, g)
				if a == nil || b == nil {
					continue
				}
				ha, e1 := rx.Full(fmt.Sprintf("group %d", g), a)
				hb, e2 := rx.Full(fmt.Sprintf("reviewed group %d", g), b)
				if e1 == nil && e2 == nil {
					diff(fmt.Sprintf("what group %d can capture", g), ha, hb)
				}
			}
		}
		if gs, gw := greedSignature(p.Re), greedSignature(wre); gs != gw && len(problems) == 0 {
			problems = append(problems, "a quantifier changed between greedy and lazy: the same lines match but the groups split them differently")
		}
		if len(problems) > 0 {
			res.bad(key, p.Pos, fmt.Sprintf("%s is now %s; %s", name, p.Src, strings.Join(problems, "; ")))
		} else {
			res.ok(key, p.Pos, "same lines matched, same group languages, same greediness as the reviewed pattern (language comparison by product automata)")
		}
	}
	return res
}

// containsJoin: v is a path joined below a directory, or a merge of values one of which is.
func containsJoin(v ssa.Value, seen map[ssa.Value]bool) bool {
	v = stripConv(v)
	if seen[v] {
		return false
	}
	seen[v] = true
	switch x := v.(type) {
	case *ssa.Phi:
		for _, e := range x.Edges {
			if containsJoin(e, seen) {
				return true
			}
		}
	case *ssa.Call:
		f := staticCallee(&x.Call)
		return isFn(f, "path", "Join") || isFn(f, "path/filepath", "Join")
	}
	return false
}

// openNameQualified: the name handed to the open at site is joined below a directory, or known to be
// absolute there; a name that is a parameter of a wrapper around the open is judged at the callers.
func (c *Ctx) openNameQualified(site ssa.Instruction, name ssa.Value, fn *ssa.Function, depth int) bool {
	raw := stripConv(name)
	if containsJoin(raw, map[ssa.Value]bool{}) {
		return true
	}
	isAbs := func(cond ssa.Value, val bool) bool {
		t, ok := cond.(*ssa.Call)
		if !ok || !val || len(t.Call.Args) != 1 {
			return false
		}
		f := staticCallee(&t.Call)
		return (isFn(f, "path/filepath", "IsAbs") || isFn(f, "path", "IsAbs")) && sameEntry(raw, t.Call.Args[0])
	}
	if c.guardedByEdges(site, isAbs) {
		return true
	}
	if par, ok := raw.(*ssa.Parameter); ok && depth < 2 {
		pi := paramIndex(fn, par)
		n := 0
		for _, e := range c.Graph().In[fn] {
			cc := callCommon(e.Site)
			if cc == nil || staticFn(cc) != fn || pi < 0 || pi >= len(cc.Args) || !c.liveFn(e.Caller) {
				continue
			}
			// only wrappers around the open are followed: the function that receives the include name itself
			// (it appends the extension and searches the directories) is where the judgement is made
			n++
			if !c.openNameQualified(e.Site, cc.Args[pi], e.Caller, depth+1) {
				return false
			}
		}
		return n > 0 && depth+1 <= 2 && isOpenWrapper(fn)
	}
	return false
}

// joinedDirMayBeEmpty: the name opened at site is Join(dir, name) and dir can be "": a constant, or an
// element of a slice that holds one (a literal with "", the result of strings.Split), with no test
// dir != "" in front of the open. Returns a description, "" when no such source is found.
func (c *Ctx) joinedDirMayBeEmpty(site ssa.Instruction, name ssa.Value, fn *ssa.Function) string {
	var join *ssa.Call
	var find func(v ssa.Value, seen map[ssa.Value]bool)
	find = func(v ssa.Value, seen map[ssa.Value]bool) {
		v = stripConv(v)
		if seen[v] {
			return
		}
		seen[v] = true
		switch x := v.(type) {
		case *ssa.Phi:
			for _, e := range x.Edges {
				find(e, seen)
			}
		case *ssa.Call:
			f := staticCallee(&x.Call)
			if isFn(f, "path", "Join") || isFn(f, "path/filepath", "Join") {
				join = x
			}
		}
	}
	find(name, map[ssa.Value]bool{})
	if join == nil || len(join.Call.Args) != 1 {
		return ""
	}
	sl, ok := join.Call.Args[0].(*ssa.Slice)
	if !ok {
		return ""
	}
	els := variadicElems(sl)
	if len(els) < 2 {
		return ""
	}
	dir := stripConv(els[0])
	// a test dir != "" in front of the open
	nonEmpty := func(cond ssa.Value, val bool) bool {
		b, ok := cond.(*ssa.BinOp)
		if !ok {
			return false
		}
		other := b.Y
		if stripConv(b.X) != dir {
			if stripConv(b.Y) != dir {
				return false
			}
			other = b.X
		}
		if s, isC := constString(other); !isC || s != "" {
			return false
		}
		return (b.Op == token.NEQ && val) || (b.Op == token.EQL && !val)
	}
	if c.guardedByEdges(site, nonEmpty) {
		return ""
	}
	var sliceHolds func(v ssa.Value, in *ssa.Function, d int) string
	var valueMay func(v ssa.Value, in *ssa.Function, d int) string
	valueMay = func(v ssa.Value, in *ssa.Function, d int) string {
		v = stripConv(v)
		if d > 6 {
			return ""
		}
		switch x := v.(type) {
		case *ssa.Const:
			if s, ok := constString(x); ok && s == "" {
				return "the constant \"\""
			}
		case *ssa.Phi:
			for _, e := range x.Edges {
				if w := valueMay(e, in, d+1); w != "" {
					return w
				}
			}
		case *ssa.UnOp:
			if ia, ok := x.X.(*ssa.IndexAddr); ok {
				return sliceHolds(ia.X, in, d+1)
			}
		case *ssa.Extract:
			// range over a slice value yields (index, element) through Next in some forms
			if nx, ok := x.Tuple.(*ssa.Next); ok {
				if rg, ok := nx.Iter.(*ssa.Range); ok {
					return sliceHolds(rg.X, in, d+1)
				}
			}
		}
		return ""
	}
	sliceHolds = func(v ssa.Value, in *ssa.Function, d int) string {
		v = stripConv(v)
		if d > 8 {
			return ""
		}
		switch x := v.(type) {
		case *ssa.Slice:
			if al, ok := x.X.(*ssa.Alloc); ok {
				for _, r := range referrers(al) {
					if ia, ok := r.(*ssa.IndexAddr); ok {
						for _, rr := range referrers(ia) {
							if st, ok := rr.(*ssa.Store); ok && st.Addr == ssa.Value(ia) {
								if w := valueMay(st.Val, in, d+1); w != "" {
									return w + " in the list of directories at " + c.P.InstrPos(st)
								}
							}
						}
					}
				}
				return ""
			}
			return sliceHolds(x.X, in, d+1)
		case *ssa.Phi:
			for _, e := range x.Edges {
				if w := sliceHolds(e, in, d+1); w != "" {
					return w
				}
			}
		case *ssa.Parameter:
			pi := paramIndex(in, x)
			for _, e := range c.Graph().In[in] {
				cc := callCommon(e.Site)
				if cc == nil || staticFn(cc) != in || pi < 0 || pi >= len(cc.Args) {
					continue
				}
				if w := sliceHolds(cc.Args[pi], e.Caller, d+1); w != "" {
					return w
				}
			}
		case *ssa.UnOp:
			if fa, ok := x.X.(*ssa.FieldAddr); ok {
				if f := fieldVarOf(fa); f != nil {
					stores, _ := c.fieldAccesses(f)
					for _, st := range stores {
						if w := sliceHolds(st.Val, st.Parent(), d+1); w != "" {
							return w
						}
					}
				}
			}
		case *ssa.Call:
			if bi, ok := x.Call.Value.(*ssa.Builtin); ok && bi.Name() == "append" {
				for _, a := range x.Call.Args {
					if w := sliceHolds(a, in, d+1); w != "" {
						return w
					}
				}
				return ""
			}
			f := staticCallee(&x.Call)
			if f != nil && objPkgPath(f) == "strings" && (f.Name() == "Split" || f.Name() == "SplitN" || f.Name() == "SplitAfter") {
				return "an element of the result of strings." + f.Name() + " at " + c.P.InstrPos(x) + ", which is \"\" for an empty text and between two separators"
			}
			if sf := staticFn(&x.Call); sf != nil && c.P.IsRepoFn(sf) && len(sf.Blocks) > 0 {
				out := ""
				allInstrs(sf, func(in2 ssa.Instruction) {
					if r, ok := in2.(*ssa.Return); ok && len(r.Results) > 0 && out == "" {
						out = sliceHolds(r.Results[0], sf, d+1)
					}
				})
				return out
			}
		}
		return ""
	}
	return valueMay(dir, fn, 0)
}

// isOpenWrapper: a small function that hands its string parameter straight to os.Open.
func isOpenWrapper(fn *ssa.Function) bool {
	return len(fn.Blocks) <= 3
}
