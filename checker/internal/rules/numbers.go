package rules

import (
	"fmt"
	"go/token"
	"go/types"
	"sort"
	"strings"

	"golang.org/x/tools/go/ssa"

	"crsverif/internal/load"
)

func intInfo(t types.Type) (bits int, signed bool, ok bool) {
	b, isBasic := t.Underlying().(*types.Basic)
	if !isBasic || b.Info()&types.IsInteger == 0 {
		return 0, false, false
	}
	switch b.Kind() {
	case types.Int8:
		return 8, true, true
	case types.Int16:
		return 16, true, true
	case types.Int32:
		return 32, true, true
	case types.Int64, types.Int:
		return 64, true, true
	case types.Uint8:
		return 8, false, true
	case types.Uint16:
		return 16, false, true
	case types.Uint32:
		return 32, false, true
	case types.Uint64, types.Uint, types.Uintptr:
		return 64, false, true
	case types.UntypedInt, types.UntypedRune:
		return 64, true, true
	}
	return 0, false, false
}

// parseCallOf: v is result 0 of strconv.ParseUint/ParseInt; returns the call.
func parseCallOf(v ssa.Value) (*ssa.Call, bool) {
	ex, ok := v.(*ssa.Extract)
	if !ok || ex.Index != 0 {
		return nil, false
	}
	call, ok := ex.Tuple.(*ssa.Call)
	if !ok {
		return nil, false
	}
	f := staticCallee(&call.Call)
	if isFn(f, "strconv", "ParseUint") || isFn(f, "strconv", "ParseInt") {
		return call, true
	}
	return nil, false
}

// RuleNarrow: no integer is narrowed without a range proof.
func (c *Ctx) RuleNarrow() *Result {
	res := &Result{Rule: "NARROW", MinInst: 1}
	for _, fn := range c.P.RepoFns {
		allInstrs(fn, func(in ssa.Instruction) {
			cv, ok := in.(*ssa.Convert)
			if !ok {
				return
			}
			sb, ss, ok1 := intInfo(cv.X.Type())
			db, ds, ok2 := intInfo(cv.Type())
			if !ok1 || !ok2 {
				return
			}
			if _, isConst := cv.X.(*ssa.Const); isConst {
				return // constant conversions are range-checked by the compiler
			}
			if !(db < sb || (db == sb && ss != ds)) {
				return
			}
			if db == sb && db == 64 {
				// int(uint) and uint(int) at full width: only values beyond 2^63 change, which no count, width
				// or offset of this program comes near; the rule is about conversions that lose bits
				return
			}
			res.Instances++
			key := fmt.Sprintf("%s:%s(%s)", load.FnName(fn), cv.Type().String(), cv.X.Type().String())
			pos := c.P.InstrPos(cv)
			// a range check on every path: comparisons of the value with constants that leave only values the
			// target type holds
			if c.rangeChecked(cv, cv.X, ss, db, ds) {
				res.ok(key, pos, "every path to the conversion passes comparisons with constants that leave only values of the target's range")
				return
			}
			// zero when there is nothing to parse, the parsed number otherwise
			site := ssa.Instruction(cv)
			operand := cv.X
			if ph, isPhi := cv.X.(*ssa.Phi); isPhi {
				var parsed ssa.Value
				okPhi := true
				for i, e := range ph.Edges {
					if k, isC := e.(*ssa.Const); isC {
						if kv, ok := constInt(k); !ok || kv < 0 || (db < 63 && kv >= int64(1)<<uint(db)) {
							okPhi = false
						}
						continue
					}
					if _, isParse := parseCallOf(e); !isParse || parsed != nil {
						okPhi = false
						continue
					}
					parsed = e
					pred := ph.Block().Preds[i]
					site = pred.Instrs[len(pred.Instrs)-1]
				}
				if okPhi && parsed != nil {
					operand = parsed
				}
			}
			call, isParse := parseCallOf(operand)
			if !isParse {
				res.bad(key, pos, fmt.Sprintf("%s is narrowed to %s without a range check: values outside the target range wrap around", cv.X.Type(), cv.Type()))
				return
			}
			f := staticCallee(&call.Call)
			base, okb := constInt(call.Call.Args[1])
			bits, okn := constInt(call.Call.Args[2])
			var problems []string
			if !okb || base != 10 {
				problems = append(problems, "the number is not parsed in base 10")
			}
			if !okn || int(bits) > db || bits == 0 {
				problems = append(problems, fmt.Sprintf("the parser accepts %d-bit values but the target has %d bits: larger values are truncated instead of rejected", bits, db))
			}
			if (f.Name() == "ParseUint") == ds {
				problems = append(problems, "signedness of the parser and the target differ")
			}
			// the conversion must only be reached with err == nil or an empty input
			errV := resultValue(call, 1)
			input := call.Call.Args[0]
			pred := func(cond ssa.Value, val bool) bool {
				b, ok := cond.(*ssa.BinOp)
				if !ok {
					return false
				}
				if x, trueMeansNil, isTest := nilTest(b); isTest && errV != nil && x == errV {
					return val == trueMeansNil
				}
				if lc, ok := b.X.(*ssa.Call); ok {
					if bi, ok := lc.Call.Value.(*ssa.Builtin); ok && bi.Name() == "len" && lc.Call.Args[0] == input {
						if n, ok := constInt(b.Y); ok && n == 0 {
							return (b.Op == token.GTR && !val) || (b.Op == token.EQL && val) || (b.Op == token.NEQ && !val)
						}
					}
				}
				return false
			}
			edgeOK := false
			if iff, isIf := site.(*ssa.If); isIf && site != ssa.Instruction(cv) {
				// the value arrives over the edge of this very test
				cond, neg := unwrapNot(iff.Cond)
				for si, sc := range iff.Block().Succs {
					if ph, isPhi := cv.X.(*ssa.Phi); isPhi && sc == ph.Block() {
						val := si == 0
						if neg {
							val = !val
						}
						if pred(cond, val) {
							edgeOK = true
						}
					}
				}
			}
			if errV == nil || (!edgeOK && !c.guardedByEdges(site, pred)) {
				problems = append(problems, "the conversion can be reached although parsing failed (the parse error is not tested before the value is used)")
			}
			if v, ok := c.ErrVerdicts()[call]; ok && v.Verdict == Violated {
				problems = append(problems, "the parse error has no failing side: "+v.Detail)
			}
			if len(problems) > 0 {
				res.bad(key, pos, strings.Join(problems, "; "))
			} else {
				res.ok(key, pos, fmt.Sprintf("operand is %s(_, 10, %d); reached only when the parse succeeded or the input is empty; the failing side is loud", f.Name(), bits))
			}
		})
	}
	return res
}

// rangeChecked: every path to site passes edges that bound v from below by 0 (or v is unsigned, or a rune
// taken from a range over a string) and from above by the largest value of a target of db bits.
func (c *Ctx) rangeChecked(site ssa.Instruction, v ssa.Value, srcSigned bool, db int, dstSigned bool) bool {
	max := int64(1)<<uint(db) - 1
	if dstSigned {
		max = int64(1)<<uint(db-1) - 1
	}
	if db >= 63 {
		return false
	}
	cmpWith := func(cond ssa.Value) (token.Token, int64, bool) {
		b, ok := cond.(*ssa.BinOp)
		if !ok {
			return 0, 0, false
		}
		if b.X == v {
			if k, ok := constInt(b.Y); ok {
				return b.Op, k, true
			}
		}
		if b.Y == v {
			if k, ok := constInt(b.X); ok {
				// k OP v  ==  v OP' k
				switch b.Op {
				case token.LSS:
					return token.GTR, k, true
				case token.LEQ:
					return token.GEQ, k, true
				case token.GTR:
					return token.LSS, k, true
				case token.GEQ:
					return token.LEQ, k, true
				}
			}
		}
		return 0, 0, false
	}
	upper := func(cond ssa.Value, val bool) bool {
		op, k, ok := cmpWith(cond)
		if !ok {
			return false
		}
		switch op {
		case token.LSS:
			return val && k-1 <= max
		case token.LEQ:
			return val && k <= max
		case token.GTR:
			return !val && k <= max
		case token.GEQ:
			return !val && k-1 <= max
		}
		return false
	}
	lower := func(cond ssa.Value, val bool) bool {
		op, k, ok := cmpWith(cond)
		if !ok {
			return false
		}
		switch op {
		case token.LSS:
			return !val && k >= 0
		case token.LEQ:
			return !val && k >= -1
		case token.GTR:
			return val && k >= -1
		case token.GEQ:
			return val && k >= 0
		}
		return false
	}
	nonNegative := !srcSigned
	if ex, ok := v.(*ssa.Extract); ok && ex.Index == 2 {
		if nx, ok := ex.Tuple.(*ssa.Next); ok && nx.IsString {
			nonNegative = true // the rune of a range over a string
		}
	}
	if !c.guardedByEdges(site, upper) {
		return false
	}
	return nonNegative || c.guardedByEdges(site, lower)
}

// ---------- SIBLING ----------

// RuleSiblingRuleId: every place that turns a name into (rule id, chain
// offset) does it the same way: same pattern object, id from group 1, offset
// from group 2 parsed with base 10 into 8 bits.
func (c *Ctx) RuleSiblingRuleId() *Result {
	res := &Result{Rule: "SIBLING-ID", MinInst: 3}
	for _, s := range c.submatchSites() {
		if s.pattern == nil || s.pattern.Name != "regex.RuleIdFileNameRegex" {
			continue
		}
		res.Instances++
		key := load.FnName(s.fn) + ":rule id and chain offset from " + s.pattern.Name
		pos := c.P.InstrPos(s.call)
		var problems []string
		used := map[int][]ssa.Value{}
		for _, u := range s.uses {
			if u.val != nil {
				used[u.group] = append(used[u.group], u.val)
			}
		}
		// the text matched against the grammar is the argument / file name itself
		if _, _, _, subj, ok := regexpCall(s.call); ok {
			if tc, isCall := stripConv(subj).(*ssa.Call); isCall {
				if f := staticCallee(&tc.Call); f != nil && (objPkgPath(f) == "strings" || objPkgPath(f) == "bytes") {
					problems = append(problems, "the text matched against the argument grammar went through "+qualName(f)+" first: the set of accepted arguments is no longer the grammar of the statement (and what is cut off is guessed)")
				}
			}
		}
		if len(used[1]) == 0 {
			problems = append(problems, "the rule id is not taken from group 1")
		}
		if len(used[2]) == 0 {
			problems = append(problems, "the chain offset is not taken from group 2")
		}
		for g, vals := range used {
			for _, v := range vals {
				for _, r := range referrers(v) {
					call, ok := r.(*ssa.Call)
					if !ok {
						continue
					}
					f := staticCallee(&call.Call)
					if f == nil || objPkgPath(f) != "strconv" {
						continue
					}
					if g != 2 {
						problems = append(problems, fmt.Sprintf("group %d is parsed as a number (the offset is group 2)", g))
						continue
					}
					if !(isFn(f, "strconv", "ParseUint")) {
						problems = append(problems, "the chain offset is parsed with "+f.Name()+" instead of ParseUint(_, 10, 8)")
						continue
					}
					base, _ := constInt(call.Call.Args[1])
					bits, _ := constInt(call.Call.Args[2])
					if base != 10 || bits != 8 {
						problems = append(problems, fmt.Sprintf("the chain offset is parsed with base %d into %d bits; the sibling sites use base 10 and 8 bits (offsets above 255 must be rejected)", base, bits))
					}
				}
			}
		}
		if len(problems) > 0 {
			res.bad(key, pos, strings.Join(uniq(problems), "; "))
		} else {
			res.ok(key, pos, "id = group 1, offset = ParseUint(group 2, 10, 8)")
		}
	}
	// a function that is handed the chain offset uses it (and not the global of the single-target form)
	for _, fn := range c.P.RepoFns {
		if load.ShortPkg(load.FnPkgPath(fn)) != "cmd" || len(fn.Blocks) == 0 {
			continue
		}
		for _, p := range fn.Params {
			if b, ok := p.Type().(*types.Basic); !ok || b.Kind() != types.Uint8 {
				continue // a plain uint8 is a chain offset; a named type on top of it (a mode) is not
			}
			res.Instances++
			key := fmt.Sprintf("%s:parameter %s is used", load.FnName(fn), p.Name())
			used := false
			for _, r := range referrers(p) {
				if _, dbg := r.(*ssa.DebugRef); !dbg {
					used = true
				}
			}
			if used {
				res.ok(key, c.P.FnPos(fn), "the offset handed in is the one that is used")
			} else {
				res.bad(key, c.P.FnPos(fn), fmt.Sprintf("%s receives the chain offset in %s but never uses it: whatever it uses instead (the value parsed from the command argument) is 0 in an --all run, so every chained rule is read or written at the chain starter", load.FnName(fn), p.Name()))
			}
		}
	}
	// the argument is not cut before it is validated: in a command's entry functions nothing
	// lossy (path.Base, strings.Trim*, ...) is applied to what is handed to the grammar
	for _, cmd := range c.Commands().Commands {
		var entries []*ssa.Function
		for _, e := range cmd.Entries {
			entries = append(entries, e)
		}
		entries = append(entries, cmd.ArgsInner...)
		for _, fn := range entries {
			if fn == nil || len(fn.Blocks) == 0 {
				continue
			}
			allInstrs(fn, func(in ssa.Instruction) {
				call, ok := in.(*ssa.Call)
				if !ok {
					return
				}
				f := staticCallee(&call.Call)
				lossy := isFn(f, "path", "Base") || isFn(f, "path/filepath", "Base") || isFn(f, "path", "Dir") ||
					(f != nil && objPkgPath(f) == "strings" && (strings.HasPrefix(f.Name(), "Trim") || f.Name() == "ToLower" || f.Name() == "ToUpper" || strings.HasPrefix(f.Name(), "Replace")))
				if !lossy || len(call.Call.Args) == 0 {
					return
				}
				// operand is an element of the cobra args slice
				ld, ok := stripConv(call.Call.Args[0]).(*ssa.UnOp)
				if !ok {
					return
				}
				ia, ok := ld.X.(*ssa.IndexAddr)
				if !ok {
					return
				}
				if par, ok := ia.X.(*ssa.Parameter); !ok || par.Type().String() != "[]string" {
					return
				}
				res.Instances++
				res.bad(fmt.Sprintf("%s:%s applied to the argument", load.FnName(fn), qualName(f)), c.P.InstrPos(call), fmt.Sprintf("the command argument goes through %s before it is matched against the argument grammar: part of what the user typed is discarded unchecked (a directory, an ending), so shapes the statement says are rejected are accepted and resolved by guessing", qualName(f)))
			})
		}
	}
	// every uint8 chain-offset argument of a repository call comes from such a parse, the
	// parsed global, a constant or a parameter
	for _, fn := range c.P.RepoFns {
		allInstrs(fn, func(in ssa.Instruction) {
			call, ok := in.(*ssa.Call)
			if !ok {
				return
			}
			sf := staticFn(&call.Call)
			if sf == nil || !c.P.IsRepoFn(sf) || load.ShortPkg(load.FnPkgPath(sf)) != "cmd" {
				return
			}
			for i, a := range call.Call.Args {
				if b, ok := a.Type().(*types.Basic); !ok || b.Kind() != types.Uint8 {
					continue
				}
				if i >= len(sf.Params) {
					continue
				}
				res.Instances++
				key := fmt.Sprintf("%s:uint8 argument of %s", load.FnName(fn), load.FnName(sf))
				switch x := a.(type) {
				case *ssa.Parameter, *ssa.Const:
					res.ok(key, c.P.InstrPos(call), "passed through")
				case *ssa.Convert:
					if _, ok := parseCallOf(x.X); ok {
						res.ok(key, c.P.InstrPos(call), "converted from the guarded ParseUint result (NARROW)")
					} else {
						res.bad(key, c.P.InstrPos(call), "the chain offset handed on is not the result of the guarded 8-bit parse")
					}
				case *ssa.UnOp, *ssa.Field:
					if _, _, isG := c.globalFieldLoad(a, fn); isG {
						{
							handedIn := ""
							for _, q := range fn.Params {
								if b, ok := q.Type().Underlying().(*types.Basic); ok && b.Kind() == types.Uint8 {
									handedIn = q.Name()
								}
							}
							if handedIn != "" {
								res.bad(key, c.P.InstrPos(call), fmt.Sprintf("%s is handed the chain offset in its parameter %s but passes on the value parsed from the command argument: in an --all run that value is 0, so every chained rule is read or written at the chain starter", load.FnName(fn), handedIn))
								break
							}
							res.ok(key, c.P.InstrPos(call), "the offset parsed from the command argument")
							break
						}
					}
					// a field of the record that a repository helper returns (the parsed argument as a struct)
					if base, fi, isField := fieldRead(a); isField {
						if vals, H := c.structResultField(base, fi); len(vals) > 0 {
							bad := ""
							for _, v := range vals {
								switch y := v.(type) {
								case *ssa.Const:
								case *ssa.Convert:
									if _, ok := parseCallOf(y.X); !ok {
										bad = "is not the result of the guarded 8-bit parse in " + load.FnName(H)
									}
								default:
									bad = fmt.Sprintf("has an unrecognised origin in %s (%T)", load.FnName(H), v)
								}
							}
							if bad == "" {
								res.ok(key, c.P.InstrPos(call), "a field of the record returned by "+load.FnName(H)+", filled from the guarded ParseUint result (NARROW)")
							} else {
								res.bad(key, c.P.InstrPos(call), "the chain offset handed on "+bad)
							}
							break
						}
					}
					res.bad(key, c.P.InstrPos(call), "the chain offset handed on has an unrecognised origin")
				case *ssa.Extract, *ssa.Call:
					// the result of a repository helper that does the guarded parse
					if why := c.helperReturnsParsedOffset(a); why == "" {
						res.ok(key, c.P.InstrPos(call), "returned by a helper whose every non-constant result is converted from the guarded ParseUint result (NARROW)")
					} else {
						res.bad(key, c.P.InstrPos(call), "the chain offset handed on "+why)
					}
				default:
					res.bad(key, c.P.InstrPos(call), fmt.Sprintf("the chain offset handed on has an unrecognised origin (%T)", a))
				}
			}
		})
	}
	return res
}

// helperReturnsParsedOffset: v is (a result of) a call of a repository function
// all of whose returned values at that index are constants or conversions of a
// ParseUint result.
func (c *Ctx) helperReturnsParsedOffset(v ssa.Value) string {
	idx := 0
	var call *ssa.Call
	switch x := v.(type) {
	case *ssa.Extract:
		idx = x.Index
		call, _ = x.Tuple.(*ssa.Call)
	case *ssa.Call:
		call = x
	}
	if call == nil {
		return "has an unrecognised origin"
	}
	sf := staticFn(&call.Call)
	if sf == nil || !c.P.IsRepoFn(sf) || len(sf.Blocks) == 0 {
		return "comes from a call that cannot be followed"
	}
	why := ""
	allInstrs(sf, func(in ssa.Instruction) {
		r, ok := in.(*ssa.Return)
		if !ok || idx >= len(r.Results) || why != "" {
			return
		}
		var walk func(o ssa.Value, d int)
		walk = func(o ssa.Value, d int) {
			switch y := o.(type) {
			case *ssa.Const:
			case *ssa.Convert:
				if _, ok := parseCallOf(y.X); !ok {
					why = "is returned by " + load.FnName(sf) + " without going through the guarded 8-bit parse"
				}
			case *ssa.Phi:
				if d > 3 {
					why = "is followed too deep in " + load.FnName(sf)
					return
				}
				for _, e := range y.Edges {
					walk(e, d+1)
				}
			default:
				why = fmt.Sprintf("has an unrecognised origin in %s (%T)", load.FnName(sf), o)
			}
		}
		walk(r.Results[idx], 0)
	})
	return why
}

// canonicalRegion renders the SSA of fn between instruction `from` and
// instruction `to` in an alpha-normalised form.
func canonicalRegion(fn *ssa.Function, from, to ssa.Instruction) []string {
	// blocks: reachable from from.Block() that can reach to.Block()
	canReach := map[*ssa.BasicBlock]bool{}
	var back func(b *ssa.BasicBlock)
	back = func(b *ssa.BasicBlock) {
		if canReach[b] {
			return
		}
		canReach[b] = true
		if b == from.Block() {
			return
		}
		for _, p := range b.Preds {
			back(p)
		}
	}
	back(to.Block())
	names := map[ssa.Value]string{}
	blockName := map[*ssa.BasicBlock]string{}
	var order []*ssa.BasicBlock
	var dfs func(b *ssa.BasicBlock)
	dfs = func(b *ssa.BasicBlock) {
		if _, ok := blockName[b]; ok || !canReach[b] {
			return
		}
		blockName[b] = fmt.Sprintf("B%d", len(blockName))
		order = append(order, b)
		if b == to.Block() {
			return
		}
		for _, s := range b.Succs {
			dfs(s)
		}
	}
	dfs(from.Block())
	nameOf := func(v ssa.Value) string {
		switch x := v.(type) {
		case *ssa.Const:
			return "const(" + x.String() + ")"
		case *ssa.Global:
			return "global(" + x.Pkg.Pkg.Path() + "." + x.Name() + ")"
		case *ssa.Function:
			return "func(" + x.String() + ")"
		case *ssa.Builtin:
			return "builtin(" + x.Name() + ")"
		case *ssa.Parameter:
			// parameters are compared by position and type
			for i, p := range fn.Params {
				if p == x {
					return fmt.Sprintf("param%d:%s", i, x.Type())
				}
			}
		}
		if n, ok := names[v]; ok {
			return n
		}
		return "outer:" + v.Type().String()
	}
	var out []string
	for _, b := range order {
		out = append(out, blockName[b]+":")
		for _, in := range b.Instrs {
			if b == from.Block() && instrIndex(in) < instrIndex(from) {
				continue
			}
			if _, dbg := in.(*ssa.DebugRef); dbg {
				continue
			}
			if v, ok := in.(ssa.Value); ok {
				names[v] = fmt.Sprintf("v%d", len(names))
			}
			var ops []string
			for _, op := range in.Operands(nil) {
				if op != nil && *op != nil {
					ops = append(ops, nameOf(*op))
				}
			}
			desc := fmt.Sprintf("%T", in)
			switch x := in.(type) {
			case *ssa.BinOp:
				desc += " " + x.Op.String()
			case *ssa.UnOp:
				desc += " " + x.Op.String()
			case *ssa.Call:
				if f := staticCallee(&x.Call); f != nil && objPkgPath(f) == zerologPkg {
					// log calls: the wording of messages is not part of the computation
					desc, ops = "log", nil
					break
				}
				desc += " " + calleeLabel(&x.Call)
			case *ssa.Slice:
				if _, isArr := derefType(x.X.Type()).Underlying().(*types.Array); isArr {
					desc += " varargs"
				}
			case *ssa.If:
				for _, s := range b.Succs {
					ops = append(ops, "->"+blockName[s])
				}
			case *ssa.Jump:
				ops = append(ops, "->"+blockName[b.Succs[0]])
			case *ssa.Phi:
				// edges in predecessor order: name predecessors
				for _, p := range b.Preds {
					ops = append(ops, "<-"+blockName[p])
				}
			case *ssa.FieldAddr:
				desc += fmt.Sprintf(" #%d", x.Field)
			case *ssa.Extract:
				desc += fmt.Sprintf(" #%d", x.Index)
			}
			out = append(out, "  "+desc+" "+strings.Join(ops, ", "))
			if in == to {
				break
			}
		}
	}
	return out
}

// fieldRead: v reads field i of a struct value: x.f on a value, or a load of &local.f where the
// local is assigned once (a struct variable is kept in memory by the SSA builder).
func fieldRead(v ssa.Value) (base ssa.Value, field int, ok bool) {
	switch x := v.(type) {
	case *ssa.Field:
		return x.X, x.Field, true
	case *ssa.UnOp:
		fa, isFA := x.X.(*ssa.FieldAddr)
		if !isFA || x.Op != token.MUL {
			return nil, 0, false
		}
		al, isAlloc := fa.X.(*ssa.Alloc)
		if !isAlloc {
			return nil, 0, false
		}
		var stored ssa.Value
		n := 0
		for _, r := range referrers(al) {
			if st, isSt := r.(*ssa.Store); isSt && st.Addr == ssa.Value(al) {
				stored = st.Val
				n++
			}
		}
		if n == 1 {
			return stored, fa.Field, true
		}
	}
	return nil, 0, false
}

// structResultField: f reads a field of a struct value that a helper of the repository returns;
// the values the helper stores into that field of the composite it returns, over all returns
// that are not failures. nil when the shape is not recognised.
func (c *Ctx) structResultField(base ssa.Value, field int) ([]ssa.Value, *ssa.Function) {
	var hc *ssa.Call
	idx := 0
	switch x := stripConv(base).(type) {
	case *ssa.Extract:
		hc, _ = x.Tuple.(*ssa.Call)
		idx = x.Index
	case *ssa.Call:
		hc = x
	}
	if hc == nil {
		return nil, nil
	}
	H := staticFn(&hc.Call)
	if H == nil || !c.P.IsRepoFn(H) || len(H.Blocks) == 0 {
		return nil, nil
	}
	var vals []ssa.Value
	ok := true
	allInstrs(H, func(in ssa.Instruction) {
		r, isRet := in.(*ssa.Return)
		if !isRet || idx >= len(r.Results) || c.Loud().BlockDies(r.Block()) {
			return
		}
		if e := retErrOperand(r); e != nil && len(r.Results) > 1 && (errOperandAlwaysNonNil(e) || domFacts(r.Block())[e] == nonNil || c.factsNonNil(r.Block(), e)) {
			return // a failing return carries no record
		}
		if e := retErrOperand(r); e != nil && len(r.Results) > 1 {
			if gl, isLd := stripErrConv(e).(*ssa.UnOp); isLd {
				if g, isG := gl.X.(*ssa.Global); isG && c.sentinelNeverNil(g) {
					return // a sentinel error
				}
			}
		}
		ld, isLoad := stripConv(r.Results[idx]).(*ssa.UnOp)
		if !isLoad {
			ok = false
			return
		}
		al, isAlloc := ld.X.(*ssa.Alloc)
		if !isAlloc {
			ok = false
			return
		}
		n := 0
		for _, rr := range referrers(al) {
			fa, isFA := rr.(*ssa.FieldAddr)
			if !isFA || fa.Field != field {
				continue
			}
			for _, r3 := range referrers(fa) {
				if st, isSt := r3.(*ssa.Store); isSt && st.Addr == ssa.Value(fa) {
					vals = append(vals, st.Val)
					n++
				}
			}
		}
		if n == 0 {
			ok = false
		}
	})
	if !ok {
		return nil, H
	}
	return vals, H
}

// RuleSiblingLocator: the operand is read back by the same computation that
// wrote it (C12).
func (c *Ctx) RuleSiblingLocator() *Result {
	res := &Result{Rule: "SIBLING-LOC", MinInst: 1}
	type loc struct {
		fn       *ssa.Function
		from, to ssa.Instruction
		shared   *ssa.Function
	}
	var locs []loc
	for _, s := range c.submatchSites() {
		if s.pattern == nil || s.pattern.Name != "regex.RuleRxRegex" {
			continue
		}
		// the split that starts the locator
		var split ssa.Instruction
		allInstrs(s.fn, func(in ssa.Instruction) {
			if call, ok := in.(*ssa.Call); ok {
				f := staticCallee(&call.Call)
				if (isFn(f, "bytes", "Split") || isFn(f, "strings", "Split")) && instrDominates(call, s.call) {
					split = call
				}
			}
		})
		locFn, locTo := s.fn, ssa.Instruction(s.call)
		sharedDone := false
		// the match may sit in a helper that is handed one line: the locator then is the caller's,
		// from its split to the call of the helper (two levels)
		for lift := 0; split == nil && lift < 2; lift++ {
			var callers []ssa.Instruction
			for _, e := range c.Graph().In[locFn] {
				if cc := callCommon(e.Site); cc != nil && staticFn(cc) == locFn && c.liveFn(e.Caller) {
					callers = append(callers, e.Site)
				}
			}
			if len(callers) > 1 && lift == 0 {
				// one matching helper shared by the writer and the reader: each caller is a locator of its own,
				// from its split to its call of the helper
				all := true
				var shared []loc
				for _, site := range callers {
					var sp ssa.Instruction
					allInstrs(site.Parent(), func(in ssa.Instruction) {
						if call, ok := in.(*ssa.Call); ok {
							f := staticCallee(&call.Call)
							if (isFn(f, "bytes", "Split") || isFn(f, "strings", "Split")) && instrDominates(call, site) {
								sp = call
							}
						}
					})
					if sp == nil {
						all = false
						break
					}
					shared = append(shared, loc{fn: site.Parent(), from: sp, to: site})
				}
				if all {
					locs = append(locs, shared...)
					split = shared[0].from
					sharedDone = true
				}
				break
			}
			if len(callers) != 1 {
				break
			}
			locFn, locTo = callers[0].Parent(), callers[0]
			allInstrs(locFn, func(in ssa.Instruction) {
				if call, ok := in.(*ssa.Call); ok {
					f := staticCallee(&call.Call)
					if (isFn(f, "bytes", "Split") || isFn(f, "strings", "Split")) && instrDominates(call, locTo) {
						split = call
					}
				}
			})
		}
		if split == nil {
			res.Instances++
			res.undecided(load.FnName(s.fn)+":operand locator", c.P.InstrPos(s.call), "the rule line is matched but no split into lines dominates the match: locator shape not recognised")
			continue
		}
		if sharedDone {
			continue
		}
		locs = append(locs, loc{fn: locFn, from: split, to: locTo})
	}
	if len(locs) < 2 {
		res.Instances++
		if len(locs) == 1 {
			res.ok(load.FnName(locs[0].fn)+":operand locator", c.P.InstrPos(locs[0].to), "a single locator serves every reader and writer of the operand")
		} else {
			res.undecided("cmd:operand locator", "-", "no function locates the @rx operand with the rule-line pattern")
		}
		return res
	}
	// each locator (and the helper it delegates the search to) fails when the search runs out of lines
	for _, l := range locs {
		res.Instances++
		key := load.FnName(l.fn) + ":search that runs out of lines"
		why := c.searchExhausted(l.fn)
		if why == "" {
			allInstrs(l.fn, func(in ssa.Instruction) {
				if call, ok := in.(*ssa.Call); ok && why == "" {
					if sf := staticFn(&call.Call); sf != nil && c.P.IsRepoFn(sf) && load.FnPkgPath(sf) == load.FnPkgPath(l.fn) {
						why = c.searchExhausted(sf)
					}
				}
			})
		}
		if why != "" {
			res.bad(key, c.P.InstrPos(l.to), why)
		} else {
			res.ok(key, c.P.InstrPos(l.to), "from the exit of the line loop every path looks at the chain offset again, fails, or reports 'not found'")
		}
	}
	ref := canonicalRegion(locs[0].fn, locs[0].from, locs[0].to)
	for _, l := range locs[1:] {
		res.Instances++
		key := fmt.Sprintf("%s:operand locator vs %s", load.FnName(l.fn), load.FnName(locs[0].fn))
		got := canonicalRegion(l.fn, l.from, l.to)
		diff := ""
		for i := 0; i < len(ref) || i < len(got); i++ {
			a, b := "<end>", "<end>"
			if i < len(ref) {
				a = ref[i]
			}
			if i < len(got) {
				b = got[i]
			}
			if a != b {
				diff = fmt.Sprintf("first difference at step %d: %s has %q, %s has %q", i, load.FnName(locs[0].fn), strings.TrimSpace(a), load.FnName(l.fn), strings.TrimSpace(b))
				break
			}
		}
		if diff != "" {
			// the two may be arranged differently (a helper extracted from one of them, conditions regrouped) and
			// still locate the same line: compare what they are made of
			a1, a2 := c.locatorAtoms(locs[0].fn), c.locatorAtoms(l.fn)
			if d2 := atomDiff(a1, a2); d2 == "" {
				res.ok(key, c.P.InstrPos(l.to), fmt.Sprintf("arranged differently, same ingredients: the same patterns are matched, the same offset comparisons and steps back are made (%d atoms)", len(a1)))
				continue
			} else {
				diff = d2
			}
		}
		if diff != "" && sameMatchAtoms(c.locatorAtoms(locs[0].fn), c.locatorAtoms(l.fn)) && (hasAtom(c.locatorAtoms(locs[0].fn), "search-by-library-call") != hasAtom(c.locatorAtoms(l.fn), "search-by-library-call")) {
			// one side walks the lines by hand, the other lets slices.IndexFunc do it: the same patterns
			// are matched, but that the two algorithms select the same line is a statement about all
			// inputs that the comparison of shapes cannot settle
			res.undecided(key, c.P.InstrPos(l.to), "the rule line is located by two different algorithms when it is written and when it is read back (one is a hand-written loop, the other a library search with the same patterns): whether they always select the same line cannot be decided by comparing them; rewrite both the same way or share one helper ("+diff+")")
			continue
		}
		if diff != "" {
			res.bad(key, c.P.InstrPos(l.to), "the rule line is located differently when it is written and when it is read back: "+diff)
		} else {
			res.ok(key, c.P.InstrPos(l.to), fmt.Sprintf("alpha-normalised SSA of the locator (split ... rule-line match) is identical: %d steps", len(ref)))
		}
	}
	return res
}

// locatorAtoms: what a locator is made of, independent of how it is arranged: which patterns are matched
// against lines, which comparisons involve the chain offset, which steps back are taken. Helpers of the
// same package are inlined (two levels).
func (c *Ctx) locatorAtoms(fn *ssa.Function) []string {
	var atoms []string
	libSearches := 0
	seen := map[*ssa.Function]bool{}
	var patternAtom func(v ssa.Value, in *ssa.Function, d int) string
	patternAtom = func(v ssa.Value, in *ssa.Function, d int) string {
		if p, _ := c.Rx().Resolve(v); p != nil {
			return p.Name
		}
		switch x := v.(type) {
		case *ssa.Call:
			if isFn(staticCallee(&x.Call), "regexp", "MustCompile") && len(x.Call.Args) == 1 {
				for _, op := range stringOperands(x.Call.Args[0], 0) {
					if sv, ok := constString(op); ok {
						return "compiled(" + sv + ")"
					}
				}
				return "compiled(?)"
			}
		case *ssa.UnOp:
			// a variable of the enclosing function captured by a closure
			if fv, ok := x.X.(*ssa.FreeVar); ok && x.Op == token.MUL && in.Parent() != nil && d < 3 {
				idx := -1
				for i, f := range in.FreeVars {
					if f == fv {
						idx = i
					}
				}
				parent := in.Parent()
				var out string
				allInstrs(parent, func(pi ssa.Instruction) {
					mc, ok := pi.(*ssa.MakeClosure)
					if !ok || mc.Fn != ssa.Value(in) || idx < 0 || idx >= len(mc.Bindings) || out != "" {
						return
					}
					if al, ok := mc.Bindings[idx].(*ssa.Alloc); ok {
						for _, r := range referrers(al) {
							if st, ok := r.(*ssa.Store); ok && st.Addr == ssa.Value(al) {
								out = patternAtom(st.Val, parent, d+1)
							}
						}
					} else {
						out = patternAtom(mc.Bindings[idx], parent, d+1)
					}
				})
				if out != "" {
					return out
				}
			}
		case *ssa.FreeVar:
			if in.Parent() != nil && d < 3 {
				idx := -1
				for i, f := range in.FreeVars {
					if f == x {
						idx = i
					}
				}
				parent := in.Parent()
				var out string
				allInstrs(parent, func(pi ssa.Instruction) {
					mc, ok := pi.(*ssa.MakeClosure)
					if ok && mc.Fn == ssa.Value(in) && idx >= 0 && idx < len(mc.Bindings) && out == "" {
						out = patternAtom(mc.Bindings[idx], parent, d+1)
					}
				})
				if out != "" {
					return out
				}
			}
		case *ssa.Parameter:
			if d < 2 {
				pi := paramIndex(in, x)
				for _, e := range c.Graph().In[in] {
					cc := callCommon(e.Site)
					if cc != nil && staticFn(cc) == in && pi >= 0 && pi < len(cc.Args) {
						return patternAtom(cc.Args[pi], e.Caller, d+1)
					}
				}
			}
		}
		return "?"
	}
	var walk func(f *ssa.Function, d int)
	walk = func(f *ssa.Function, d int) {
		if seen[f] || d > 2 {
			return
		}
		seen[f] = true
		allInstrs(f, func(in ssa.Instruction) {
			if _, _, recv, _, ok := regexpCall(in); ok {
				atoms = append(atoms, "match:"+patternAtom(recv, f, 0))
				return
			}
			switch x := in.(type) {
			case *ssa.BinOp:
				is8 := func(v ssa.Value) bool {
					b, ok := v.Type().Underlying().(*types.Basic)
					return ok && b.Kind() == types.Uint8
				}
				switch x.Op {
				case token.SUB:
					if k, ok := constInt(x.Y); ok {
						atoms = append(atoms, fmt.Sprintf("step-back:%d", k))
					}
				case token.EQL, token.NEQ:
					if is8(x.X) || is8(x.Y) {
						o := "var"
						if k, ok := constInt(x.Y); ok {
							o = fmt.Sprintf("%d", k)
						} else if k, ok := constInt(x.X); ok {
							o = fmt.Sprintf("%d", k)
						}
						atoms = append(atoms, "offset-compared-with:"+o)
					}
				case token.LSS, token.LEQ, token.GTR, token.GEQ:
					if is8(x.X) || is8(x.Y) {
						atoms = append(atoms, "offset-ordered:"+x.Op.String())
					}
				}
			case *ssa.Call:
				if sf := staticFn(&x.Call); sf != nil && c.P.IsRepoFn(sf) && load.FnPkgPath(sf) == load.FnPkgPath(fn) {
					walk(sf, d+1)
				}
				for _, arg := range x.Call.Args {
					if af, ok := arg.(*ssa.Function); ok && c.P.IsRepoFn(af) {
						walk(af, d+1) // a function literal without captured variables
					}
				}
				// a library search driven by a predicate (slices.IndexFunc(lines, re.Match)) is a search loop of its own
				if f := staticCallee(&x.Call); f != nil && objPkgPath(f) == "slices" && (f.Name() == "IndexFunc" || f.Name() == "ContainsFunc") {
					libSearches++
				}
			case *ssa.MakeClosure:
				cf, ok := x.Fn.(*ssa.Function)
				if !ok {
					break
				}
				if strings.Contains(cf.Synthetic, "bound method") && len(x.Bindings) == 1 && isRegexpPtr(x.Bindings[0]) {
					// re.Match handed over as a predicate
					atoms = append(atoms, "match:"+patternAtom(x.Bindings[0], f, 0))
					break
				}
				if c.P.IsRepoFn(cf) {
					walk(cf, d+1)
				}
			}
		})
	}
	walk(fn, 0)
	// how many loops search with a pattern (a second search loop is a different algorithm)
	nLoops := 0
	for f := range seen {
		for _, l := range naturalLoops(f) {
			has := false
			for b := range l.body {
				for _, in := range b.Instrs {
					if _, _, _, _, ok := regexpCall(in); ok {
						has = true
					}
				}
			}
			if has {
				nLoops++
				// what else the search loop does to a line before it is matched (a filter on one side only)
				for b := range l.body {
					for _, in := range b.Instrs {
						if cc := callCommon(in); cc != nil {
							if f := staticCallee(cc); f != nil && (objPkgPath(f) == "strings" || objPkgPath(f) == "bytes") {
								atoms = append(atoms, "line-test:"+qualName(f))
							}
						}
					}
				}
			}
		}
	}
	if libSearches > 0 {
		atoms = append(atoms, "search-by-library-call")
	}
	atoms = append(atoms, fmt.Sprintf("search-loops:%d", nLoops))
	sort.Strings(atoms)
	return atoms
}

func atomDiff(a, b []string) string {
	// as sets: how often an ingredient occurs depends on the arrangement
	inA, inB := map[string]bool{}, map[string]bool{}
	for _, x := range a {
		inA[x] = true
	}
	for _, x := range b {
		inB[x] = true
	}
	var ks []string
	for k := range inA {
		if !inB[k] {
			ks = append(ks, k+" (only when read back)")
		}
	}
	for k := range inB {
		if !inA[k] {
			ks = append(ks, k+" (only when written)")
		}
	}
	sort.Strings(ks)
	return strings.Join(ks, ", ")
}

// searchExhausted: in fn (a locator or its helper), the loop over the lines that matches the patterns can
// run out of lines. From that exit, every path must test the chain offset again, fail, or report failure
// to its caller (a constant false result) before the line index is used.
func (c *Ctx) searchExhausted(fn *ssa.Function) string {
	if len(fn.Blocks) == 0 {
		return ""
	}
	for _, l := range naturalLoops(fn) {
		matches := false
		for b := range l.body {
			for _, in := range b.Instrs {
				if _, _, _, _, ok := regexpCall(in); ok {
					matches = true
				}
			}
		}
		if !matches {
			continue
		}
		is8 := func(v ssa.Value) bool {
			b, ok := v.Type().Underlying().(*types.Basic)
			return ok && b.Kind() == types.Uint8
		}
		problem := ""
		for _, sc := range l.header.Succs {
			if l.body[sc] {
				continue
			}
			env := newEnvAt(l.header)
			env.enter(sc, l.header)
			c.explore(sc, 0, env, exploreCB{
				instr: func(in ssa.Instruction, e *pathEnv) bool {
					if iff, ok := in.(*ssa.If); ok {
						cond, _ := unwrapNot(iff.Cond)
						if b, ok := cond.(*ssa.BinOp); ok && (is8(b.X) || is8(b.Y)) {
							return true // the offset is looked at again
						}
					}
					if _, m, recv, _, ok := regexpCall(in); ok && problem == "" {
						if p, _ := c.Rx().Resolve(recv); p != nil && p.Name == "regex.RuleRxRegex" {
							_ = m
							problem = fmt.Sprintf("when the search in %s runs out of lines the line index is used all the same (%s): a chain offset beyond the rule's chained rules selects whatever line the search stopped at", load.FnName(fn), c.P.InstrPos(in))
							return true
						}
					}
					return false
				},
				ret: func(r *ssa.Return, e *pathEnv) {
					for _, res := range r.Results {
						rv := e.resolve(res)
						if bv, ok := constBool(rv); ok && !bv {
							return // reports "not found"
						}
						if b, ok := rv.(*ssa.BinOp); ok && (is8(b.X) || is8(b.Y)) {
							return // reports the outcome of the offset comparison
						}
					}
					if op := retErrOperand(r); op != nil && e.nilnessOf(op) == nonNil {
						return
					}
					if problem == "" && len(r.Results) > 0 {
						problem = fmt.Sprintf("when the search in %s runs out of lines it returns at %s as if the line had been found", load.FnName(fn), c.P.InstrPos(r))
					}
				},
			})
		}
		if problem != "" {
			return problem
		}
	}
	return ""
}

// RuleCompareVerdict (C12): the verdict of compare is the equality of the
// stored and the generated string; unequal => failure, equal => success.
func (c *Ctx) RuleCompareVerdict() *Result {
	res := &Result{Rule: "CMP-VERDICT", MinInst: 1}
	cm := c.Commands()
	cmd := cm.ByName["compare"]
	if cmd == nil {
		res.undecided("cmd compare", "-", "command not found")
		return res
	}
	reach := c.Graph().Reach(c.EntryRoots(cmd))
	// the function that receives the operand read back and the generated regex:
	// find string == string comparisons between two parameters
	for fn := range reach {
		if !fnHasErrResult(fn) {
			continue
		}
		allInstrs(fn, func(in ssa.Instruction) {
			b, ok := in.(*ssa.BinOp)
			if !ok || (b.Op != token.EQL && b.Op != token.NEQ) {
				return
			}
			px, ok1 := b.X.(*ssa.Parameter)
			py, ok2 := b.Y.(*ssa.Parameter)
			if !ok1 || !ok2 || px.Type().Underlying().String() != "string" || py.Type().Underlying().String() != "string" {
				return
			}
			res.Instances++
			key := load.FnName(fn) + ":verdict comparison"
			pos := c.P.InstrPos(b)
			var problems []string
			for _, eq := range []bool{true, false} {
				env := newEnvAt(b.Block())
				val := eq
				if b.Op == token.NEQ {
					val = !eq
				}
				env.bools = map[ssa.Value]bool{b: val}
				sawNil, sawNonNil, sawOther := false, false, false
				c.explore(b.Block(), instrIndex(b)+1, env, exploreCB{
					ret: func(r *ssa.Return, e *pathEnv) {
						switch e.nilnessOf(retErrOperand(r)) {
						case isNil:
							sawNil = true
						case nonNil:
							sawNonNil = true
						default:
							sawOther = true
						}
					},
				})
				if eq && (sawNonNil || sawOther || !sawNil) {
					problems = append(problems, "with identical strings the function does not always return success")
				}
				if !eq && (sawNil || sawOther || !sawNonNil) {
					problems = append(problems, "with differing strings the function can return success")
				}
			}
			// the two parameters must be the operand read back and the generated regex: checked by provenance at the call sites
			for _, e := range c.Graph().In[fn] {
				cc := callCommon(e.Site)
				if cc == nil {
					continue
				}
				// a call that hands the same value in for both sides has decided the verdict before the comparison
				if ix, iy := paramIndex(fn, px), paramIndex(fn, py); ix >= 0 && iy >= 0 && ix < len(cc.Args) && iy < len(cc.Args) && staticFn(cc) == fn && cc.Args[ix] == cc.Args[iy] {
					problems = append(problems, fmt.Sprintf("the call at %s compares a value with itself: whatever decided to make that call (a shortcut that found the expression somewhere in the file) is the verdict, not the byte equality of the addressed rule's operand and the generated regex", c.P.InstrPos(e.Site)))
				}
				for _, p := range []*ssa.Parameter{px, py} {
					idx := -1
					for i, q := range fn.Params {
						if q == p {
							idx = i
						}
					}
					if idx < 0 || idx >= len(cc.Args) {
						continue
					}
					a := cc.Args[idx]
					if ex, isEx := a.(*ssa.Extract); isEx && ex.Index == 0 {
						if tc, isCall := ex.Tuple.(*ssa.Call); isCall {
							a = tc // the first result of a (string, error) helper
						}
					}
					switch x := a.(type) {
					case *ssa.Parameter:
					case *ssa.Call:
						if sf := staticFn(&x.Call); sf == nil || !c.P.IsRepoFn(sf) {
							problems = append(problems, fmt.Sprintf("argument %d of the comparison at %s is transformed by %s before it is compared: the verdict is no longer byte equality of the stored operand and the generated regex", idx, c.P.InstrPos(e.Site), calleeLabel(&x.Call)))
						} else if why := c.returnsTransformed(sf, 0); why != "" {
							problems = append(problems, fmt.Sprintf("%s, whose result is compared, %s: the verdict is no longer byte equality of the stored operand and the generated regex", load.FnName(sf), why))
						}
					default:
						problems = append(problems, fmt.Sprintf("argument %d of the comparison at %s is transformed before it is compared (%T)", idx, c.P.InstrPos(e.Site), a))
					}
				}
			}
			if len(problems) > 0 {
				res.bad(key, pos, strings.Join(uniq(problems), "; "))
			} else {
				res.ok(key, pos, "verdict is == on the two untransformed strings; equal => nil on every path, unequal => non-nil on every path")
			}
		})
	}
	return res
}

// returnsTransformed: does fn return (as its first result) a string that went
// through a strings/bytes function instead of the value it obtained?
func (c *Ctx) returnsTransformed(fn *ssa.Function, depth int) string {
	if depth > 2 || len(fn.Blocks) == 0 {
		return ""
	}
	why := ""
	allInstrs(fn, func(in ssa.Instruction) {
		r, ok := in.(*ssa.Return)
		if !ok || len(r.Results) == 0 || why != "" {
			return
		}
		var walk func(v ssa.Value, d int)
		walk = func(v ssa.Value, d int) {
			if d > 4 || why != "" {
				return
			}
			switch x := stripConv(v).(type) {
			case *ssa.Phi:
				for _, e := range x.Edges {
					walk(e, d+1)
				}
			case *ssa.Call:
				f := staticCallee(&x.Call)
				if f != nil && (objPkgPath(f) == "strings" || objPkgPath(f) == "bytes") {
					why = "passes it through " + qualName(f)
					return
				}
				if sf := staticFn(&x.Call); sf != nil && c.P.IsRepoFn(sf) {
					if w := c.returnsTransformed(sf, depth+1); w != "" {
						why = w
					}
				}
			}
		}
		walk(r.Results[0], 0)
	})
	return why
}

func hasAtom(atoms []string, a string) bool {
	for _, x := range atoms {
		if x == a {
			return true
		}
	}
	return false
}

// sameMatchAtoms: the two locators match the same set of patterns.
func sameMatchAtoms(a, b []string) bool {
	set := func(xs []string) map[string]bool {
		m := map[string]bool{}
		for _, x := range xs {
			if strings.HasPrefix(x, "match:") {
				m[x] = true
			}
		}
		return m
	}
	ma, mb := set(a), set(b)
	if len(ma) != len(mb) {
		return false
	}
	for k := range ma {
		if !mb[k] {
			return false
		}
	}
	return true
}
