package rules

import (
	"fmt"
	"go/token"
	"go/types"
	"strings"

	"golang.org/x/tools/go/ssa"

	"crsverif/internal/load"
	"crsverif/internal/rx"
)

// ---------- TEMPLATE ----------

// RuleTemplate: text of unknown content is never used as a regexp replacement
// template ($name / ${n} in it would be expanded).
func (c *Ctx) RuleTemplate(scope map[string]bool) *Result {
	res := &Result{Rule: "TEMPLATE", MinInst: 0}
	dollar, _ := rx.SearchPattern("contains $", `\$`)
	total := 0
	for _, fn := range c.P.RepoFns {
		allInstrs(fn, func(in ssa.Instruction) {
			call, m, recv, _, ok := regexpCall(in)
			if !ok {
				return
			}
			if !(m == "ReplaceAll" || m == "ReplaceAllString" || m == "Expand" || m == "ExpandString") {
				return
			}
			total++
			if scope != nil && !scope[load.FnName(fn)] {
				return
			}
			for _, row := range expandTable(recv, call.Call.Args[2]) {
				c.templateOne(res, fn, call, m, row[0], row[1], dollar)
			}
		})
	}
	res.note("%d replacement-template calls in the repository; %d in scope", total, res.Instances)
	return res
}

// ---------- FS-ALWAYS ----------

// RuleFsAlways: once the file was read, the per-file function returns success
// only after writing, or when the contents are already equal, or in check mode.
func (c *Ctx) RuleFsAlways(commands []string) *Result {
	res := &Result{Rule: "FS-ALWAYS", MinInst: len(commands)}
	g := c.Graph()
	lm := c.Loud()
	for _, name := range commands {
		cmd := c.Commands().ByName[name]
		if cmd == nil {
			res.undecided("cmd "+name, "-", "command not found")
			continue
		}
		vals, _ := c.flagValues(cmd, "check")
		reach := g.Reach(c.CommandRoots(cmd))
		for _, ws := range c.writeSites() {
			if _, ok := reach[ws.fn]; !ok || ws.prim.pathArg < 0 || ws.prim.dataArg < 0 {
				continue
			}
			res.Instances++
			key := fmt.Sprintf("cmd %s:%s:rewrite after read", name, load.FnName(ws.fn))
			pos := c.P.InstrPos(ws.call)
			if !fnHasErrResult(ws.fn) {
				res.ok(key, pos, "the function reports failure by ending the process; every normal return follows the write")
				continue
			}
			bad := ""
			for _, w := range c.writeContexts(ws) {
				data := stripConv(w.dataV)
				read := dominatingRead(w.fn, w.pathV, w.site)
				if read == nil {
					bad = "no read of the written path dominates the write (looked in " + load.FnName(w.fn) + ")"
					break
				}
				if w.helper != nil && !c.helperWritesOrFails(w.helper, ws.call, flagValuesIn(vals, w.helper)) {
					bad = fmt.Sprintf("the helper %s can return success without writing although check mode is off", load.FnName(w.helper))
					break
				}
				skipEdge := func(cond ssa.Value, val bool) bool {
					if vals[cond] && val {
						return true // check mode
					}
					if call, ok := cond.(*ssa.Call); ok && val && isFn(staticCallee(&call.Call), "bytes", "Equal") {
						a, b := stripConv(call.Call.Args[0]), stripConv(call.Call.Args[1])
						if a == data || b == data {
							return true // nothing to change
						}
					}
					return false
				}
				seen := map[*ssa.BasicBlock]bool{}
				type item struct {
					b   *ssa.BasicBlock
					idx int
				}
				stack := []item{{read.Block(), instrIndex(read) + 1}}
				for len(stack) > 0 && bad == "" {
					it := stack[len(stack)-1]
					stack = stack[:len(stack)-1]
					if it.idx == 0 {
						if seen[it.b] {
							continue
						}
						seen[it.b] = true
					}
					stop := false
					for i := it.idx; i < len(it.b.Instrs); i++ {
						in := it.b.Instrs[i]
						if in == w.site || lm.IsLoud(in) {
							stop = true
							break
						}
						if r, ok := in.(*ssa.Return); ok {
							env := newEnvAt(it.b)
							if op := retErrOperand(r); op != nil && env.nilnessOf(op) != nonNil && !errOperandAlwaysNonNil(op) {
								bad = fmt.Sprintf("after reading the file %s can return success at %s without writing it, although the contents were not found equal and check mode is off: the file keeps its old contents and the command reports success", load.FnName(w.fn), c.P.InstrPos(r))
							}
							stop = true
							break
						}
					}
					if stop {
						continue
					}
					iff, isIf := it.b.Instrs[len(it.b.Instrs)-1].(*ssa.If)
					for si, sc := range it.b.Succs {
						if isIf && it.b.Succs[0] != it.b.Succs[1] {
							cond, neg := unwrapNot(iff.Cond)
							val := si == 0
							if neg {
								val = !val
							}
							if skipEdge(cond, val) {
								continue
							}
						}
						stack = append(stack, item{sc, 0})
					}
				}
				if bad != "" {
					break
				}
			}
			if bad != "" {
				res.bad(key, pos, bad)
			} else {
				res.ok(key, pos, "every success return after the read follows the write, an equal-contents test, or the check flag")
			}
		}
	}
	return res
}

// errOperandAlwaysNonNil: the operand is a phi/values that are all constructed errors.
func errOperandAlwaysNonNil(v ssa.Value) bool {
	switch x := v.(type) {
	case *ssa.MakeInterface:
		return true
	case *ssa.Call:
		f := staticCallee(&x.Call)
		return isFn(f, "fmt", "Errorf") || isFn(f, "errors", "New")
	case *ssa.Phi:
		for _, e := range x.Edges {
			if e == v {
				continue
			}
			if !errOperandAlwaysNonNil(e) {
				return false
			}
		}
		return true
	}
	return false
}

// ---------- WALK-SKIP ----------

// RuleWalkSkip: a per-file callback never skips the rest of a directory
// because of a file.
func (c *Ctx) RuleWalkSkip() *Result {
	res := &Result{Rule: "WALK-SKIP", MinInst: 3}
	for _, name := range []string{"update", "compare", "format"} {
		cmd := c.Commands().ByName[name]
		if cmd == nil {
			continue
		}
		for _, cb := range c.perFileCallbacks(cmd) {
			res.Instances++
			key := load.FnName(cb) + ":SkipDir/SkipAll"
			bad := ""
			allInstrs(cb, func(in ssa.Instruction) {
				r, ok := in.(*ssa.Return)
				if !ok {
					return
				}
				op := retErrOperand(r)
				vals := []ssa.Value{op}
				if p, isPhi := op.(*ssa.Phi); isPhi {
					vals = p.Edges
				}
				for _, v := range vals {
					ld, ok := v.(*ssa.UnOp)
					if !ok {
						continue
					}
					gl, ok := ld.X.(*ssa.Global)
					if !ok || !(gl.Name() == "SkipDir" || gl.Name() == "SkipAll") {
						continue
					}
					isDir := func(cond ssa.Value, val bool) bool {
						call, ok := cond.(*ssa.Call)
						return ok && val && call.Call.IsInvoke() && call.Call.Method.Name() == "IsDir"
					}
					if gl.Name() == "SkipAll" || !c.guardedByEdges(r, isDir) {
						bad = fmt.Sprintf("the callback returns %s at %s for an entry that is not known to be a directory: every remaining file of that directory is skipped in an --all run, while each of them is processed when named alone", gl.Name(), c.P.InstrPos(r))
					}
				}
			})
			if bad != "" {
				res.bad(key, c.P.FnPos(cb), bad)
			} else {
				res.ok(key, c.P.FnPos(cb), "no SkipDir/SkipAll result for a file entry")
			}
		}
	}
	return res
}

// ---------- FORMAT-ONLY ----------

// RuleFormatOnly: with the format-only switch on, the parser collects no
// definitions (they would be substituted into the text that format writes).
func (c *Ctx) RuleFormatOnly() *Result {
	res := &Result{Rule: "FORMAT-ONLY", MinInst: 1}
	fmtFns := c.cmdFns("format")
	defFns := c.defFragmentFns()
	for _, fn := range c.P.RepoFns {
		// a bool parameter that format sets to the constant true
		var sw *ssa.Parameter
		for i, p := range fn.Params {
			if bt, ok := p.Type().Underlying().(*types.Basic); !ok || bt.Kind() != types.Bool {
				continue
			}
			for _, e := range c.Graph().In[fn] {
				cc := callCommon(e.Site)
				if cc == nil || staticFn(cc) != fn || i >= len(cc.Args) || !fmtFns[load.FnName(e.Caller)] {
					continue
				}
				if bv, ok := constBool(cc.Args[i]); ok && bv {
					sw = p
				}
			}
		}
		if sw == nil {
			continue
		}
		// the map handed to a definition-expansion function
		var field *ssa.FieldAddr
		allInstrs(fn, func(in ssa.Instruction) {
			call, ok := in.(*ssa.Call)
			if !ok {
				return
			}
			sf := staticFn(&call.Call)
			if sf == nil {
				return
			}
			if _, isDef := defFns[sf]; !isDef {
				return
			}
			for _, a := range call.Call.Args {
				if ld, ok := a.(*ssa.UnOp); ok {
					if fa, ok := ld.X.(*ssa.FieldAddr); ok {
						if _, isMap := ld.Type().Underlying().(*types.Map); isMap {
							field = fa
						}
					}
				}
			}
		})
		if field == nil {
			continue
		}
		res.Instances++
		key := load.FnName(fn) + ":definitions in format-only mode"
		swFalse := func(cond ssa.Value, val bool) bool { return cond == ssa.Value(sw) && !val }
		var problems []string
		allInstrs(fn, func(in ssa.Instruction) {
			isWrite := false
			switch x := in.(type) {
			case *ssa.MapUpdate:
				if ld, ok := x.Map.(*ssa.UnOp); ok {
					if fa, ok := ld.X.(*ssa.FieldAddr); ok && fa.X == field.X && fa.Field == field.Field {
						isWrite = true
					}
				}
			case *ssa.Store:
				if fa, ok := x.Addr.(*ssa.FieldAddr); ok && fa.X == field.X && fa.Field == field.Field {
					isWrite = true
				}
			case *ssa.Call:
				for _, a := range x.Call.Args {
					if fa, ok := stripConv(a).(*ssa.FieldAddr); ok && fa.X == field.X && fa.Field == field.Field {
						isWrite = true
					}
				}
			}
			if isWrite && !c.guardedByEdges(in, swFalse) {
				problems = append(problems, fmt.Sprintf("the definition map is filled at %s also when the format-only switch is on: the text format writes back then has its {{references}} replaced by their values", c.P.InstrPos(in)))
			}
		})
		if len(problems) > 0 {
			res.bad(key, c.P.FnPos(fn), strings.Join(uniq(problems), "; "))
		} else {
			res.ok(key, c.P.FnPos(fn), "every write to the definition map is only reached when the format-only switch is off")
		}
	}
	return res
}

// ---------- C06 structural rules ----------

type natLoop struct {
	header *ssa.BasicBlock
	body   map[*ssa.BasicBlock]bool
}

// naturalLoops finds the natural loops of fn (back edges to a dominating header).
func naturalLoops(fn *ssa.Function) []*natLoop {
	byHeader := map[*ssa.BasicBlock]*natLoop{}
	var out []*natLoop
	for _, b := range fn.Blocks {
		for _, s := range b.Succs {
			if s.Dominates(b) {
				l := byHeader[s]
				if l == nil {
					l = &natLoop{header: s, body: map[*ssa.BasicBlock]bool{s: true}}
					byHeader[s] = l
					out = append(out, l)
				}
				stack := []*ssa.BasicBlock{b}
				for len(stack) > 0 {
					x := stack[len(stack)-1]
					stack = stack[:len(stack)-1]
					if l.body[x] {
						continue
					}
					l.body[x] = true
					stack = append(stack, x.Preds...)
				}
			}
		}
	}
	return out
}

// RuleSuffixOps (C06): the suffix rewrite uses suffix semantics, skips
// directives and blank lines, and every exclude file is processed.
func (c *Ctx) RuleSuffixOps() *Result {
	res := &Result{Rule: "SUFFIX-OPS", MinInst: 3}
	lm := c.Loud()
	for _, fn := range c.P.RepoFns {
		if load.ShortPkg(load.FnPkgPath(fn)) != "regex/parser" {
			continue
		}
		fnName := load.FnName(fn)
		allInstrs(fn, func(in ssa.Instruction) {
			call, ok := in.(*ssa.Call)
			if !ok {
				return
			}
			f := staticCallee(&call.Call)
			if f == nil || objPkgPath(f) != "strings" {
				return
			}
			switch f.Name() {
			case "Trim", "TrimLeft", "TrimRight":
				res.Instances++
				key := fnName + ":strings." + f.Name() + " cutset"
				if _, isC := constString(call.Call.Args[1]); isC {
					res.ok(key, c.P.InstrPos(call), "constant cutset")
				} else {
					res.bad(key, c.P.InstrPos(call), "strings."+f.Name()+" is given a computed string: it is a SET of characters, so every trailing/leading character that occurs in it is stripped — not the suffix/prefix (an entry that does not end in the pair's key is rewritten too, and more than the key is cut)")
				}
			case "CutSuffix", "TrimSuffix":
				// must be skipped for directive and blank lines
				res.Instances++
				key := fnName + ":suffix rewrite skips directives"
				entry := call.Call.Args[0]
				want1, _ := rx.SearchPattern("directive or comment line", `^##!`)
				want2, _ := rx.SearchPattern("blank line", `^\s*$`)
				why := "the suffix rewrite is not guarded by a pattern test of the line"
				mkPred := func(ent ssa.Value, covered *bool) func(cond ssa.Value, val bool) bool {
					return func(cond ssa.Value, val bool) bool {
						_, m, recv, subj, ok := regexpCall(asInstr(cond))
						if !ok || !(m == "MatchString" || m == "Match") || val {
							return false
						}
						if !sameEntry(subj, ent) {
							return false
						}
						p, _ := c.Rx().Resolve(recv)
						if p == nil {
							why = "the skip pattern is not a constant"
							return false
						}
						lang := searchLang(p)
						for _, w := range []*rx.Lang{want1, want2} {
							r, err := rx.NotIncluded(w, lang)
							if err != nil || r.Found {
								why = fmt.Sprintf("the skip pattern %s does not match every %s (e.g. %q): such lines get their endings rewritten like entries", p.Src, w.Name, r.Witness)
								return false
							}
						}
						*covered = true
						return true
					}
				}
				var guarded func(site ssa.Instruction, ent ssa.Value, depth int) bool
				guarded = func(site ssa.Instruction, ent ssa.Value, depth int) bool {
					cov := false
					if c.guardedByEdges(site, mkPred(ent, &cov)) && cov {
						return true
					}
					if depth >= 2 {
						return false
					}
					// the line is a parameter: every caller must guard the call
					f := site.Block().Parent()
					pi := -1
					cands := []ssa.Value{stripConv(ent)}
					if ph, ok := cands[0].(*ssa.Phi); ok {
						cands = append(cands, ph.Edges...)
					}
					for _, cv := range cands {
						for i, p := range f.Params {
							if stripConv(cv) == ssa.Value(p) {
								pi = i
							}
						}
					}
					if pi < 0 {
						return false
					}
					callers := 0
					for _, e := range c.Graph().In[f] {
						cc := callCommon(e.Site)
						if cc == nil || staticFn(cc) != f || pi >= len(cc.Args) {
							continue
						}
						callers++
						if !guarded(e.Site, cc.Args[pi], depth+1) {
							return false
						}
					}
					return callers > 0
				}
				if guarded(call, entry, 0) {
					res.ok(key, c.P.InstrPos(call), "only reached when the line matches neither ^##! nor ^\\s*$ (language inclusion checked on the skip pattern)")
				} else {
					res.bad(key, c.P.InstrPos(call), why)
				}
			}
		})
		// loops over a []string parameter (file names): no early exit
		for _, p := range fn.Params {
			sl, ok := p.Type().Underlying().(*types.Slice)
			if !ok || sl.Elem().Underlying().String() != "string" {
				continue
			}
			for _, l := range naturalLoops(fn) {
				uses := false
				for b := range l.body {
					for _, in := range b.Instrs {
						if ia, ok := in.(*ssa.IndexAddr); ok && ia.X == ssa.Value(p) {
							uses = true
						}
					}
				}
				if !uses {
					continue
				}
				res.Instances++
				key := fmt.Sprintf("%s:loop over %s completes", fnName, p.Name())
				bad := ""
				for b := range l.body {
					if lm.BlockDies(b) {
						continue
					}
					for _, in := range b.Instrs {
						if r, ok := in.(*ssa.Return); ok {
							bad = fmt.Sprintf("the loop over %s returns at %s: the remaining elements are never processed", p.Name(), c.P.InstrPos(r))
						}
					}
					if b != l.header {
						for _, s := range b.Succs {
							if !l.body[s] {
								bad = fmt.Sprintf("the loop over %s is left early at %s: the remaining elements are never processed", p.Name(), c.P.InstrPos(b.Instrs[len(b.Instrs)-1]))
							}
						}
					}
				}
				if bad != "" {
					res.bad(key, c.P.FnPos(fn), bad)
				} else {
					res.ok(key, c.P.FnPos(fn), "no return or break inside the loop")
				}
			}
		}
	}
	return res
}

func sameEntry(a, b ssa.Value) bool {
	a, b = stripConv(a), stripConv(b)
	if a == b {
		return true
	}
	// the entry variable is re-assigned inside the pair loop: accept a phi whose edges include the tested value
	if p, ok := b.(*ssa.Phi); ok {
		for _, e := range p.Edges {
			if stripConv(e) == a {
				return true
			}
		}
	}
	return false
}

// ---------- IDX-PARAM (C19) ----------

// RuleIdxParam: a constant index into a slice parameter is justified by a
// length guard or by the known length of every argument.
func (c *Ctx) RuleIdxParam() *Result {
	res := &Result{Rule: "IDX-PARAM", MinInst: 1}
	tab := c.Rx()
	scope := c.reachFromNamed(func(n string) bool { return n == "(*regex/operators.Operator).Run" })
	for _, fn := range c.P.RepoFns {
		if !scope[load.FnName(fn)] {
			continue
		}
		for pi, p := range fn.Params {
			if _, ok := p.Type().Underlying().(*types.Slice); !ok {
				continue
			}
			for _, r := range referrers(p) {
				ia, ok := r.(*ssa.IndexAddr)
				if !ok {
					continue
				}
				k, ok := constInt(ia.Index)
				if !ok {
					continue
				}
				res.Instances++
				key := fmt.Sprintf("%s:%s[%d]", load.FnName(fn), p.Name(), k)
				pos := c.P.InstrPos(ia)
				lenGuard := func(cond ssa.Value, val bool) bool {
					b, ok := cond.(*ssa.BinOp)
					if !ok {
						return false
					}
					lc, ok := b.X.(*ssa.Call)
					if !ok {
						return false
					}
					bi, ok := lc.Call.Value.(*ssa.Builtin)
					if !ok || bi.Name() != "len" || lc.Call.Args[0] != ssa.Value(p) {
						return false
					}
					n, ok := constInt(b.Y)
					if !ok {
						return false
					}
					switch b.Op {
					case token.GTR:
						return (val && n >= k) || false
					case token.GEQ:
						return val && n >= k+1
					case token.EQL:
						return (val && n >= k+1) || (!val && n == 0 && k == 0)
					case token.LSS:
						return !val && n >= k+1
					case token.LEQ:
						return !val && n >= k
					case token.NEQ:
						return (!val && n >= k+1) || (val && n == 0 && k == 0)
					}
					return false
				}
				if c.guardedByEdges(ia, lenGuard) {
					res.ok(key, pos, "guarded by a length test in the function")
					continue
				}
				// every caller passes a slice of known sufficient length
				var problems []string
				callers := 0
				for _, e := range c.Graph().In[fn] {
					cc := callCommon(e.Site)
					if cc == nil || staticFn(cc) != fn || pi >= len(cc.Args) {
						continue
					}
					callers++
					a := cc.Args[pi]
					minLen := int64(-1)
					if sl, ok := a.(*ssa.Slice); ok && sl.High == nil {
						lo := int64(0)
						if sl.Low != nil {
							lo, _ = constInt(sl.Low)
						}
						if sc, _, recv, _, ok := regexpCall(asInstr(sl.X)); ok {
							_ = sc
							if pat, _ := tab.Resolve(recv); pat != nil && knownNonEmpty(c.factsAt(e.Site), sl.X) {
								minLen = int64(pat.NumCap()) + 1 - lo
							}
						}
					}
					if minLen <= k {
						problems = append(problems, fmt.Sprintf("%s passes a slice whose length is not known to exceed %d", load.FnName(e.Caller), k))
					}
				}
				if callers == 0 || len(problems) > 0 {
					res.bad(key, pos, fmt.Sprintf("%s[%d] is read without a length test and %s: an input that yields a shorter slice ends in an index-out-of-range panic", p.Name(), k, strings.Join(problems, "; ")))
				} else {
					res.ok(key, pos, "every caller passes the tail of a successful submatch whose length exceeds the index")
				}
			}
		}
	}
	return res
}

// templateOne judges one (pattern, template) pair of a replacement call.
func (c *Ctx) templateOne(res *Result, fn *ssa.Function, call *ssa.Call, m string, recv ssa.Value, tmplV ssa.Value, dollar *rx.Lang) {
			res.Instances++
			pname := "computed pattern"
			if p, _ := c.Rx().Resolve(recv); p != nil {
				pname = p.Name
			}
			key := fmt.Sprintf("%s:replacement template for %s", load.FnName(fn), pname)
			pos := c.P.InstrPos(call)
			tmpl := tmplV
			var problems []string
			for _, op := range stringOperands(stripConv(tmpl), 0) {
				if _, isC := constString(op); isC {
					continue
				}
				lang, what, why := c.valueLanguage(op, fn, 0)
				if lang == nil {
					problems = append(problems, fmt.Sprintf("a value of unknown content (%s) is part of the replacement template: a '$' followed by a name, digit or '{' in it is expanded as a group reference instead of being written literally (use string concatenation of the submatches or ReplaceAllLiteral)", why))
					continue
				}
				r, err := rx.Intersects(lang, dollar)
				if err != nil {
					problems = append(problems, err.Error())
				} else if r.Found {
					problems = append(problems, fmt.Sprintf("%s may contain '$' (e.g. %q), which the template expands", what, r.Witness))
				}
			}
			if len(problems) > 0 {
				res.bad(key, pos, strings.Join(uniq(problems), "; "))
			} else {
				res.ok(key, pos, "every non-constant part of the template has a '$'-free language")
			}

}
