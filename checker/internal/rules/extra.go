package rules

import (
	"fmt"
	"go/token"
	"go/types"
	"sort"
	"strings"

	"golang.org/x/tools/go/ssa"

	"crsverif/internal/load"
	"crsverif/internal/rx"
)

// ---------- TEMPLATE ----------

// RuleTemplate: text of unknown content is never used as a regexp replacement
// template ($name / ${n} in it would be expanded).
func (c *Ctx) RuleTemplate(scope map[string]bool) *Result {
	res := &Result{Rule: "TEMPLATE", MinInst: 0}
	dollar, _ := rx.SearchPattern("contains $", `\$`)
	total := 0
	for _, fn := range c.P.RepoFns {
		allInstrs(fn, func(in ssa.Instruction) {
			call, m, recv, _, ok := regexpCall(in)
			if !ok {
				return
			}
			if !(m == "ReplaceAll" || m == "ReplaceAllString" || m == "Expand" || m == "ExpandString") {
				return
			}
			total++
			if scope != nil && !scope[load.FnName(fn)] {
				return
			}
			for _, row := range expandTable(recv, call.Call.Args[2]) {
				c.templateOne(res, fn, call, m, row[0], row[1], dollar)
			}
		})
	}
	res.note("%d replacement-template calls in the repository; %d in scope", total, res.Instances)
	return res
}

// ---------- FS-ALWAYS ----------

// RuleFsAlways: once the file was read, the per-file function returns success
// only after writing, or when the contents are already equal, or in check mode.
func (c *Ctx) RuleFsAlways(commands []string) *Result {
	res := &Result{Rule: "FS-ALWAYS", MinInst: len(commands)}
	g := c.Graph()
	lm := c.Loud()
	for _, name := range commands {
		cmd := c.Commands().ByName[name]
		if cmd == nil {
			res.undecided("cmd "+name, "-", "command not found")
			continue
		}
		vals, _ := c.flagValues(cmd, "check")
		// an opt-in dry run is a check mode by another name: with it the command is asked not to write
		for _, dry := range []string{"dry-run", "dryrun", "dry_run", "no-write", "simulate"} {
			more, _ := c.flagValues(cmd, dry)
			for v := range more {
				vals[v] = true
			}
		}
		reach := g.Reach(c.CommandRoots(cmd))
		for _, ws := range c.writeSites() {
			if _, ok := reach[ws.fn]; !ok || ws.prim.pathArg < 0 || ws.prim.dataArg < 0 {
				continue
			}
			res.Instances++
			key := fmt.Sprintf("cmd %s:%s:rewrite after read", name, load.FnName(ws.fn))
			pos := c.P.InstrPos(ws.call)
			if !fnHasErrResult(ws.fn) {
				res.ok(key, pos, "the function reports failure by ending the process; every normal return follows the write")
				continue
			}
			bad := ""
			for _, w := range c.writeContexts(ws) {
				fromEntry := false
				data := stripConv(w.dataV)
				read := dominatingRead(w.fn, w.pathV, w.site)
				if read == nil && c.callersReadFirst(w.fn, w.pathV) {
					// the file was read by the caller, which hands the path on: this function is the
					// whole "after the read" region; judge it from its entry
					if first, ok := firstCall(w.fn); ok {
						read = first
						fromEntry = true
					}
				}
				if read == nil {
					bad = "no read of the written path dominates the write (looked in " + load.FnName(w.fn) + ")"
					break
				}
				if w.helper != nil && !c.helperWritesOrFails(w.helper, ws.call, flagValuesIn(vals, w.helper)) {
					bad = fmt.Sprintf("the helper %s can return success without writing although check mode is off", load.FnName(w.helper))
					break
				}
				skipEdge := func(cond ssa.Value, val bool) bool {
					if vals[cond] && val {
						return true // check mode
					}
					if call, ok := cond.(*ssa.Call); ok && val && isFn(staticCallee(&call.Call), "bytes", "Equal") {
						a, b := stripConv(call.Call.Args[0]), stripConv(call.Call.Args[1])
						onDisk := func(v ssa.Value) bool {
							if ex, ok := v.(*ssa.Extract); ok && ex.Index == 0 && ex.Tuple == ssa.Value(read) {
								return true
							}
							return v == ssa.Value(read)
						}
						if (a == data && onDisk(b)) || (b == data && onDisk(a)) {
							return true // nothing to change: what would be written is what the file holds
						}
					}
					// the same test in a predicate of the repository that is handed the path and the data
					if call, ok := cond.(*ssa.Call); ok && val && equalContentsHelper(c, call, w.pathV, data) {
						return true
					}
					return false
				}
				seen := map[*ssa.BasicBlock]bool{}
				type item struct {
					b   *ssa.BasicBlock
					idx int
				}
				stack := []item{{read.Block(), instrIndex(read) + 1}}
				if fromEntry {
					stack = []item{{w.fn.Blocks[0], 0}}
				}
				for len(stack) > 0 && bad == "" {
					it := stack[len(stack)-1]
					stack = stack[:len(stack)-1]
					if it.idx == 0 {
						if seen[it.b] {
							continue
						}
						seen[it.b] = true
					}
					stop := false
					for i := it.idx; i < len(it.b.Instrs); i++ {
						in := it.b.Instrs[i]
						if in == w.site || lm.IsLoud(in) {
							stop = true
							break
						}
						if r, ok := in.(*ssa.Return); ok {
							env := newEnvAt(it.b)
							if op := retErrOperand(r); op != nil && env.nilnessOf(op) != nonNil && !errOperandAlwaysNonNil(op) {
								bad = fmt.Sprintf("after reading the file %s can return success at %s without writing it, although the contents were not found equal and check mode is off: the file keeps its old contents and the command reports success", load.FnName(w.fn), c.P.InstrPos(r))
							}
							stop = true
							break
						}
					}
					if stop {
						continue
					}
					iff, isIf := it.b.Instrs[len(it.b.Instrs)-1].(*ssa.If)
					for si, sc := range it.b.Succs {
						if isIf && it.b.Succs[0] != it.b.Succs[1] {
							cond, neg := unwrapNot(iff.Cond)
							val := si == 0
							if neg {
								val = !val
							}
							if skipEdge(cond, val) {
								continue
							}
						}
						stack = append(stack, item{sc, 0})
					}
				}
				if bad != "" {
					break
				}
			}
			if bad != "" {
				res.bad(key, pos, bad)
			} else {
				res.ok(key, pos, "every success return after the read follows the write, an equal-contents test, or the check flag")
			}
		}
	}
	return res
}

// equalContentsHelper: call invokes a bool function of the repository with the path and the data, and
// that function answers true only with the value of bytes.Equal(ReadFile(path), data).
func equalContentsHelper(c *Ctx, call *ssa.Call, pathV, data ssa.Value) bool {
	H := staticFn(&call.Call)
	if H == nil || !c.P.IsRepoFn(H) || len(H.Blocks) == 0 || H.Signature.Results().Len() != 1 {
		return false
	}
	pi, di := -1, -1
	for i, a := range call.Call.Args {
		if a == pathV {
			pi = i
		}
		if stripConv(a) == data {
			di = i
		}
	}
	if pi < 0 || di < 0 || pi >= len(H.Params) || di >= len(H.Params) {
		return false
	}
	good, n := true, 0
	allInstrs(H, func(in ssa.Instruction) {
		r, ok := in.(*ssa.Return)
		if !ok {
			return
		}
		var leaves []ssa.Value
		if ph, isPhi := r.Results[0].(*ssa.Phi); isPhi {
			leaves = ph.Edges
		} else {
			leaves = []ssa.Value{r.Results[0]}
		}
		for _, lv := range leaves {
			if bv, isC := constBool(lv); isC && !bv {
				continue
			}
			eq, isCall := lv.(*ssa.Call)
			if !isCall || !isFn(staticCallee(&eq.Call), "bytes", "Equal") {
				good = false
				continue
			}
			a, b := stripConv(eq.Call.Args[0]), stripConv(eq.Call.Args[1])
			fromDisk := func(v ssa.Value) bool {
				ex, ok := v.(*ssa.Extract)
				if !ok || ex.Index != 0 {
					return false
				}
				rc, ok := ex.Tuple.(*ssa.Call)
				return ok && isFn(staticCallee(&rc.Call), "os", "ReadFile") && rc.Call.Args[0] == ssa.Value(H.Params[pi])
			}
			if (a == ssa.Value(H.Params[di]) && fromDisk(b)) || (b == ssa.Value(H.Params[di]) && fromDisk(a)) {
				n++
			} else {
				good = false
			}
		}
	})
	return good && n > 0
}

// errOperandAlwaysNonNil: the operand is a phi/values that are all constructed errors.
func errOperandAlwaysNonNil(v ssa.Value) bool {
	switch x := v.(type) {
	case *ssa.MakeInterface:
		return true
	case *ssa.Call:
		f := staticCallee(&x.Call)
		return isFn(f, "fmt", "Errorf") || isFn(f, "errors", "New")
	case *ssa.Phi:
		for _, e := range x.Edges {
			if e == v {
				continue
			}
			if !errOperandAlwaysNonNil(e) {
				return false
			}
		}
		return true
	}
	return false
}

// ---------- WALK-SKIP ----------

// RuleWalkSkip: a per-file callback never skips the rest of a directory
// because of a file.
func (c *Ctx) RuleWalkSkip(names ...string) *Result {
	if len(names) == 0 {
		names = []string{"update", "compare", "format"}
	}
	res := &Result{Rule: "WALK-SKIP", MinInst: len(names)}
	for _, name := range names {
		cmd := c.Commands().ByName[name]
		if cmd == nil {
			continue
		}
		for _, cb := range c.perFileCallbacks(cmd) {
			cb = unwrapBound(cb)
			res.Instances++
			key := load.FnName(cb) + ":SkipDir/SkipAll"
			bad := ""
			allInstrs(cb, func(in ssa.Instruction) {
				r, ok := in.(*ssa.Return)
				if !ok {
					return
				}
				op := retErrOperand(r)
				vals := []ssa.Value{op}
				if p, isPhi := op.(*ssa.Phi); isPhi {
					vals = p.Edges
				}
				for _, v := range vals {
					ld, ok := v.(*ssa.UnOp)
					if !ok {
						continue
					}
					gl, ok := ld.X.(*ssa.Global)
					if !ok || !(gl.Name() == "SkipDir" || gl.Name() == "SkipAll") {
						continue
					}
					isDir := func(cond ssa.Value, val bool) bool {
						call, ok := cond.(*ssa.Call)
						return ok && val && call.Call.IsInvoke() && call.Call.Method.Name() == "IsDir"
					}
					if gl.Name() == "SkipAll" || !c.guardedByEdges(r, isDir) {
						bad = fmt.Sprintf("the callback returns %s at %s for an entry that is not known to be a directory: every remaining file of that directory is skipped in an --all run, while each of them is processed when named alone", gl.Name(), c.P.InstrPos(r))
					}
				}
			})
			if bad != "" {
				res.bad(key, c.P.FnPos(cb), bad)
			} else {
				res.ok(key, c.P.FnPos(cb), "no SkipDir/SkipAll result for a file entry")
			}
		}
	}
	return res
}

// ---------- FORMAT-ONLY ----------

// RuleFormatOnly: with the format-only switch on, the parser collects no
// definitions (they would be substituted into the text that format writes).
func (c *Ctx) RuleFormatOnly() *Result {
	res := &Result{Rule: "FORMAT-ONLY", MinInst: 1}
	fmtFns := c.cmdFns("format")
	defFns := c.defFragmentFns()
	for _, fn := range c.P.RepoFns {
		// a bool parameter that format sets to the constant true
		var sw *ssa.Parameter
		for i, p := range fn.Params {
			if bt, ok := p.Type().Underlying().(*types.Basic); !ok || bt.Kind() != types.Bool {
				continue
			}
			for _, e := range c.Graph().In[fn] {
				cc := callCommon(e.Site)
				if cc == nil || staticFn(cc) != fn || i >= len(cc.Args) || !fmtFns[load.FnName(e.Caller)] {
					continue
				}
				if bv, ok := constBool(cc.Args[i]); ok && bv {
					sw = p
				}
			}
		}
		if sw == nil {
			continue
		}
		// the map handed to a definition-expansion function
		type structField struct {
			X     ssa.Value
			Field int
		}
		var field *structField
		allInstrs(fn, func(in ssa.Instruction) {
			call, ok := in.(*ssa.Call)
			if !ok {
				return
			}
			sf := staticFn(&call.Call)
			if sf == nil {
				return
			}
			if _, isDef := defFns[sf]; !isDef {
				return
			}
			for i, a := range call.Call.Args {
				if ld, ok := a.(*ssa.UnOp); ok {
					if fa, ok := ld.X.(*ssa.FieldAddr); ok {
						if _, isMap := ld.Type().Underlying().(*types.Map); isMap {
							field = &structField{fa.X, fa.Field}
						}
					}
				}
				// the expansion is a method of the struct that holds the map: the field its loops range over
				if i < len(sf.Params) {
					for _, l := range mapLoops(sf) {
						if ld, ok := l.rng.X.(*ssa.UnOp); ok {
							if fa, ok := ld.X.(*ssa.FieldAddr); ok && fa.X == ssa.Value(sf.Params[i]) {
								field = &structField{a, fa.Field}
							}
						}
					}
				}
			}
		})
		if field == nil {
			continue
		}
		res.Instances++
		key := load.FnName(fn) + ":definitions in format-only mode"
		swFalse := func(cond ssa.Value, val bool) bool { return cond == ssa.Value(sw) && !val }
		var problems []string
		allInstrs(fn, func(in ssa.Instruction) {
			isWrite := false
			switch x := in.(type) {
			case *ssa.MapUpdate:
				if ld, ok := x.Map.(*ssa.UnOp); ok {
					if fa, ok := ld.X.(*ssa.FieldAddr); ok && fa.X == field.X && fa.Field == field.Field {
						isWrite = true
					}
				}
			case *ssa.Store:
				if fa, ok := x.Addr.(*ssa.FieldAddr); ok && fa.X == field.X && fa.Field == field.Field {
					isWrite = true
				}
			case *ssa.Call:
				for _, a := range x.Call.Args {
					if fa, ok := stripConv(a).(*ssa.FieldAddr); ok && fa.X == field.X && fa.Field == field.Field {
						isWrite = true
					}
				}
			}
			if isWrite && !c.guardedByEdges(in, swFalse) {
				problems = append(problems, fmt.Sprintf("the definition map is filled at %s also when the format-only switch is on: the text format writes back then has its {{references}} replaced by their values", c.P.InstrPos(in)))
			}
		})
		if len(problems) > 0 {
			res.bad(key, c.P.FnPos(fn), strings.Join(uniq(problems), "; "))
		} else {
			res.ok(key, c.P.FnPos(fn), "every write to the definition map is only reached when the format-only switch is off")
		}
	}
	return res
}

// ---------- C06 structural rules ----------

type natLoop struct {
	header *ssa.BasicBlock
	body   map[*ssa.BasicBlock]bool
}

// naturalLoops finds the natural loops of fn (back edges to a dominating header).
func naturalLoops(fn *ssa.Function) []*natLoop {
	byHeader := map[*ssa.BasicBlock]*natLoop{}
	var out []*natLoop
	for _, b := range fn.Blocks {
		for _, s := range b.Succs {
			if s.Dominates(b) {
				l := byHeader[s]
				if l == nil {
					l = &natLoop{header: s, body: map[*ssa.BasicBlock]bool{s: true}}
					byHeader[s] = l
					out = append(out, l)
				}
				stack := []*ssa.BasicBlock{b}
				for len(stack) > 0 {
					x := stack[len(stack)-1]
					stack = stack[:len(stack)-1]
					if l.body[x] {
						continue
					}
					l.body[x] = true
					stack = append(stack, x.Preds...)
				}
			}
		}
	}
	return out
}

// RuleSuffixOps (C06): the suffix rewrite uses suffix semantics, skips
// directives and blank lines, and every exclude file is processed.
func (c *Ctx) RuleSuffixOps() *Result {
	res := &Result{Rule: "SUFFIX-OPS", MinInst: 1}
	lm := c.Loud()
	for _, fn := range c.P.RepoFns {
		if load.ShortPkg(load.FnPkgPath(fn)) != "regex/parser" {
			continue
		}
		fnName := load.FnName(fn)
		allInstrs(fn, func(in ssa.Instruction) {
			call, ok := in.(*ssa.Call)
			if !ok {
				return
			}
			f := staticCallee(&call.Call)
			if f == nil || (objPkgPath(f) != "strings" && objPkgPath(f) != "bytes") {
				return
			}
			switch f.Name() {
			case "Cut", "CutPrefix", "Index", "Contains", "SplitN", "Split", "Replace", "ReplaceAll", "TrimPrefix":
				// a pair key (an element of the sorted key list or a map key) matched anywhere but at the end of the entry
				if len(call.Call.Args) < 2 || fn.Name() != "replaceSuffixes" && !inLoopOverStrings(call) {
					return
				}
				if _, isC := constString(call.Call.Args[1]); isC {
					return
				}
				if !inLoopOverStrings(call) {
					return
				}
				res.Instances++
				res.bad(fnName+":strings."+f.Name()+" with a pair key", c.P.InstrPos(call), "the key of a suffix pair is looked for with strings."+f.Name()+", which finds it anywhere in the entry (or at its start): an entry that merely contains the key is cut short or rewritten, although only entries that END in the key may change")
			case "Trim", "TrimLeft", "TrimRight":
				res.Instances++
				key := fnName + ":strings." + f.Name() + " cutset"
				if _, isC := constString(call.Call.Args[1]); isC {
					res.ok(key, c.P.InstrPos(call), "constant cutset")
				} else {
					res.bad(key, c.P.InstrPos(call), "strings."+f.Name()+" is given a computed string: it is a SET of characters, so every trailing/leading character that occurs in it is stripped — not the suffix/prefix (an entry that does not end in the pair's key is rewritten too, and more than the key is cut)")
				}
			case "HasSuffix":
				// HasSuffix(entry, key) followed by slicing is CutSuffix written out: the same obligations apply
				if len(call.Call.Args) < 2 || !inLoopOverStrings(call) {
					return
				}
				fallthrough
			case "CutSuffix", "TrimSuffix":
				// a constant ending ("\n", "\r", ".ra") is not a pair key: line terminators and extensions are other rules' business
				if len(call.Call.Args) >= 2 {
					if _, isC := constString(call.Call.Args[1]); isC {
						return
					}
				}
				// must be skipped for directive and blank lines
				res.Instances++
				key := fnName + ":suffix rewrite skips directives"
				entry := call.Call.Args[0]
				want1, _ := rx.SearchPattern("directive or comment line", `^##!`)
				want2, _ := rx.SearchPattern("blank line", `^\s*$`)
				why := "the suffix rewrite is not guarded by a pattern test of the line"
				handWritten := ""
				mkPred := func(ent ssa.Value, covered *bool) func(cond ssa.Value, val bool) bool {
					return func(cond ssa.Value, val bool) bool {
						// the skip test written by hand: a helper func(line) bool that is a combination of regular tests
						if hc, isCall := cond.(*ssa.Call); isCall && !val && len(hc.Call.Args) == 1 && sameEntry(hc.Call.Args[0], ent) {
							if hf := staticFn(&hc.Call); hf != nil && c.P.IsRepoFn(hf) {
								tp, whyNot := c.textPredicateOf(hf)
								if tp == nil {
									handWritten = "the lines the suffix rewrite leaves alone are chosen by " + load.FnName(hf) + ", which the rule cannot turn into a language: " + whyNot
									return false
								}
								n := len(tp.atoms)
								for _, w := range []*rx.Lang{want1, want2} {
									q := &rx.Query{Langs: append([]*rx.Lang{w}, tp.atoms...), Accept: func(m []bool) bool { return m[0] && !tp.eval(m[1:]) }}
									if r, err := q.Run(); err != nil || r.Found {
										why = fmt.Sprintf("%s does not answer true for every %s (e.g. %q): such lines get their endings rewritten like entries", load.FnName(hf), w.Name, r.Witness)
										return false
									}
								}
								q := &rx.Query{Langs: append(append([]*rx.Lang{}, tp.atoms...), want1, want2), Excluded: func(r rune) bool { return r == '\n' }, Accept: func(m []bool) bool { return tp.eval(m[:n]) && !m[n] && !m[n+1] }}
								if r, err := q.Run(); err != nil || r.Found {
									why = fmt.Sprintf("%s also answers true for lines that are entries (e.g. %q): their endings are never rewritten", load.FnName(hf), r.Witness)
									return false
								}
								*covered = true
								return true
							}
						}
						_, m, recv, subj, ok := regexpCall(asInstr(cond))
						if !ok || !(m == "MatchString" || m == "Match") || val {
							return false
						}
						if !sameEntry(subj, ent) {
							return false
						}
						p, _ := c.Rx().Resolve(recv)
						if p == nil {
							why = "the skip pattern is not a constant"
							return false
						}
						lang := searchLang(p)
						for _, w := range []*rx.Lang{want1, want2} {
							r, err := rx.NotIncluded(w, lang)
							if err != nil || r.Found {
								why = fmt.Sprintf("the skip pattern %s does not match every %s (e.g. %q): such lines get their endings rewritten like entries", p.Src, w.Name, r.Witness)
								return false
							}
						}
						// and nothing else: a line that is neither a directive nor blank is an entry and must reach the rewrite
						q := &rx.Query{Langs: []*rx.Lang{lang, want1, want2}, Excluded: func(r rune) bool { return r == '\n' }, Accept: func(m []bool) bool { return m[0] && !m[1] && !m[2] }}
						if r, err := q.Run(); err != nil || r.Found {
							why = fmt.Sprintf("the skip pattern %s also matches lines that are entries (e.g. %q): their endings are never rewritten", p.Src, r.Witness)
							return false
						}
						*covered = true
						return true
					}
				}
				var guarded func(site ssa.Instruction, ent ssa.Value, depth int) bool
				guarded = func(site ssa.Instruction, ent ssa.Value, depth int) bool {
					cov := false
					if c.guardedByEdges(site, mkPred(ent, &cov)) && cov {
						return true
					}
					if depth >= 2 {
						return false
					}
					// the line is a parameter: every caller must guard the call
					f := site.Block().Parent()
					pi := -1
					cands := []ssa.Value{stripConv(ent)}
					if ph, ok := cands[0].(*ssa.Phi); ok {
						cands = append(cands, ph.Edges...)
					}
					for _, cv := range cands {
						for i, p := range f.Params {
							if stripConv(cv) == ssa.Value(p) {
								pi = i
							}
						}
					}
					if pi < 0 {
						return false
					}
					callers := 0
					for _, e := range c.Graph().In[f] {
						cc := callCommon(e.Site)
						if cc == nil || staticFn(cc) != f || pi >= len(cc.Args) {
							continue
						}
						callers++
						if !guarded(e.Site, cc.Args[pi], depth+1) {
							return false
						}
					}
					return callers > 0
				}
				if guarded(call, entry, 0) {
					res.ok(key, c.P.InstrPos(call), "only reached when the line matches neither ^##! nor ^\\s*$ (language inclusion checked on the skip pattern)")
				} else if handWritten != "" {
					res.undecided(key, c.P.InstrPos(call), handWritten)
				} else {
					res.bad(key, c.P.InstrPos(call), why)
				}
				// inside a loop over the pairs the result must feed the next application: the
				// subject of the cut is the loop-carried value its own result flows into
				if rv := resultValue(call, 0); rv != nil || f.Name() == "TrimSuffix" {
					var resV ssa.Value = call
					if rv != nil {
						resV = rv
					}
					// innermost loop first: the pair loop, not the line loop around it
					loopsIn := naturalLoops(fn)
					sort.Slice(loopsIn, func(i, j int) bool { return len(loopsIn[i].body) < len(loopsIn[j].body) })
					for _, l := range loopsIn {
						if !l.body[call.Block()] {
							continue
						}
						var carried *ssa.Phi
						for _, in2 := range l.header.Instrs {
							ph, ok := in2.(*ssa.Phi)
							if !ok {
								continue
							}
							if flowsIntoPhi(resV, ph, 0) || flowsIntoPhiThroughAppend(resV, ph, 0) {
								carried = ph
							}
						}
						if carried == nil {
							continue
						}
						res.Instances++
						k2 := fnName + ":pairs applied to the running result"
						if stripConv(entry) == ssa.Value(carried) {
							res.ok(k2, c.P.InstrPos(call), "the suffix is cut from the value the previous pair produced")
						} else {
							res.bad(k2, c.P.InstrPos(call), "each pair is matched against the original line instead of the result of the pairs applied so far: a replacement that ends in a later pair's key is not rewritten further (the pairs no longer compose)")
						}
						break
					}
				}
			}
		})
		// loops over a []string parameter (file names): no early exit
		for _, p := range fn.Params {
			sl, ok := p.Type().Underlying().(*types.Slice)
			if !ok || sl.Elem().Underlying().String() != "string" {
				continue
			}
			for _, l := range naturalLoops(fn) {
				uses := false
				for b := range l.body {
					for _, in := range b.Instrs {
						if ia, ok := in.(*ssa.IndexAddr); ok && ia.X == ssa.Value(p) {
							uses = true
						}
					}
				}
				if !uses || !loopDeletes(l) {
					continue // only the loop that applies the exclusion files: every one of them must be applied
				}
				res.Instances++
				key := fmt.Sprintf("%s:loop over %s completes", fnName, p.Name())
				bad := ""
				for b := range l.body {
					if lm.BlockDies(b) {
						continue
					}
					for _, in := range b.Instrs {
						if r, ok := in.(*ssa.Return); ok {
							bad = fmt.Sprintf("the loop over %s returns at %s: the remaining elements are never processed", p.Name(), c.P.InstrPos(r))
						}
					}
					if b != l.header {
						for _, s := range b.Succs {
							if !l.body[s] {
								// leaving the loop to report a failure (a return whose error is known to be non-nil, a loud
								// exit) is not "the remaining files are skipped": the command fails
								if r, ok := s.Instrs[len(s.Instrs)-1].(*ssa.Return); ok {
									if op := retErrOperand(r); op != nil && (errOperandAlwaysNonNil(op) || domFacts(s)[op] == nonNil || c.factsNonNil(s, op)) {
										continue
									}
								}
								if lm.BlockDies(s) {
									continue
								}
								bad = fmt.Sprintf("the loop over %s is left early at %s: the remaining elements are never processed", p.Name(), c.P.InstrPos(b.Instrs[len(b.Instrs)-1]))
							}
						}
					}
				}
				if bad != "" {
					res.bad(key, c.P.FnPos(fn), bad)
				} else {
					res.ok(key, c.P.FnPos(fn), "no return or break inside the loop")
				}
			}
		}
	}
	return res
}

// inLoopOverStrings: the call sits in a loop that walks a []string (the sorted keys) or a map with string keys,
// and its second argument is the element of that walk.
func inLoopOverStrings(call *ssa.Call) bool {
	if len(call.Call.Args) < 2 {
		return false
	}
	key := stripConv(call.Call.Args[1])
	switch x := key.(type) {
	case *ssa.UnOp: // element of a slice: *(&keys[i])
		if ia, ok := x.X.(*ssa.IndexAddr); ok {
			if sl, ok := ia.X.Type().Underlying().(*types.Slice); ok {
				return sl.Elem().Underlying().String() == "string"
			}
		}
	case *ssa.Extract: // key of a map range
		if nx, ok := x.Tuple.(*ssa.Next); ok && x.Index == 1 {
			_ = nx
			return true
		}
	}
	return false
}

// loopDeletes: the loop body deletes map entries (itself, in a closure it creates, or in a function it calls).
func loopDeletes(l *natLoop) bool {
	hasDelete := func(fn *ssa.Function) bool {
		found := false
		allInstrs(fn, func(in ssa.Instruction) {
			if cc := callCommon(in); cc != nil {
				if bi, ok := cc.Value.(*ssa.Builtin); ok && bi.Name() == "delete" {
					found = true
				}
			}
		})
		return found
	}
	for b := range l.body {
		for _, in := range b.Instrs {
			if cc := callCommon(in); cc != nil {
				if bi, ok := cc.Value.(*ssa.Builtin); ok && bi.Name() == "delete" {
					return true
				}
				if sf := staticFn(cc); sf != nil && len(sf.Blocks) > 0 && hasDelete(sf) {
					return true
				}
			}
			if mc, ok := in.(*ssa.MakeClosure); ok {
				if f, ok := mc.Fn.(*ssa.Function); ok && hasDelete(f) {
					return true
				}
			}
		}
	}
	return false
}

func sameEntry(a, b ssa.Value) bool {
	return sameEntryDepth(a, b, 0, map[ssa.Value]bool{})
}

func sameEntryDepth(a, b ssa.Value, depth int, seen map[ssa.Value]bool) bool {
	a, b = stripConv(a), stripConv(b)
	if a == b {
		return true
	}
	if depth > 5 || seen[b] {
		return false
	}
	seen[b] = true
	switch x := b.(type) {
	case *ssa.Phi:
		// the entry variable is re-assigned inside the pair loop: accept a phi whose edges include the tested value
		for _, e := range x.Edges {
			if sameEntryDepth(a, e, depth+1, seen) {
				return true
			}
		}
	case *ssa.Call:
		// a copy of the tested line into a buffer of its own: append(buf[:0], line...) / append([]byte(nil), line...)
		if bi, ok := x.Call.Value.(*ssa.Builtin); ok && bi.Name() == "append" && len(x.Call.Args) == 2 {
			if isResetValue(stripConv(x.Call.Args[0]), nil) {
				return sameEntryDepth(a, x.Call.Args[1], depth+1, seen)
			}
		}
		if f := staticCallee(&x.Call); isFn(f, "bytes", "Clone") || isFn(f, "strings", "Clone") {
			return sameEntryDepth(a, x.Call.Args[0], depth+1, seen)
		}
	}
	return false
}

// ---------- IDX-PARAM (C19) ----------

// RuleIdxParam: a constant index into a slice parameter is justified by a
// length guard or by the known length of every argument.
func (c *Ctx) RuleIdxParam() *Result {
	res := &Result{Rule: "IDX-PARAM", MinInst: 1}
	scope := c.inputScope()
	for _, fn := range c.P.RepoFns {
		if !scope[load.FnName(fn)] {
			continue
		}
		if strings.Contains(fn.Synthetic, "range-over-func") {
			continue // the body of `for x := range seq`: its parameter is what the iterator yields, not an argument of the program
		}
		for pi, p := range fn.Params {
			if _, ok := p.Type().Underlying().(*types.Slice); !ok {
				continue
			}
			for _, r := range referrers(p) {
				ia, ok := r.(*ssa.IndexAddr)
				if !ok {
					continue
				}
				k, ok := constInt(ia.Index)
				if !ok {
					continue
				}
				res.Instances++
				key := fmt.Sprintf("%s:%s[%d]", load.FnName(fn), p.Name(), k)
				pos := c.P.InstrPos(ia)
				lenGuard := func(cond ssa.Value, val bool) bool {
					b, ok := cond.(*ssa.BinOp)
					if !ok {
						return false
					}
					lc, ok := b.X.(*ssa.Call)
					if !ok {
						return false
					}
					bi, ok := lc.Call.Value.(*ssa.Builtin)
					if !ok || bi.Name() != "len" || lc.Call.Args[0] != ssa.Value(p) {
						return false
					}
					n, ok := constInt(b.Y)
					if !ok {
						return false
					}
					switch b.Op {
					case token.GTR:
						return (val && n >= k) || false
					case token.GEQ:
						return val && n >= k+1
					case token.EQL:
						return (val && n >= k+1) || (!val && n == 0 && k == 0)
					case token.LSS:
						return !val && n >= k+1
					case token.LEQ:
						return !val && n >= k
					case token.NEQ:
						return (!val && n >= k+1) || (val && n == 0 && k == 0)
					}
					return false
				}
				if c.guardedByEdges(ia, lenGuard) {
					res.ok(key, pos, "guarded by a length test in the function")
					continue
				}
				// every caller passes a slice of known sufficient length
				var problems []string
				var unresolved []string
				callers := 0
				for _, e := range c.Graph().In[fn] {
					cc := callCommon(e.Site)
					// a call through a function value (a table of constructors) passes its arguments in the same positions
					dyn := cc != nil && e.Kind == "dynamic" && !cc.IsInvoke() && staticFn(cc) == nil && fn.Signature.Recv() == nil
					if cc == nil || (staticFn(cc) != fn && !dyn) || pi >= len(cc.Args) {
						continue
					}
					callers++
					minLen := c.sliceMinLen(cc.Args[pi], e.Site, e.Caller, 0)
					if minLen < 0 && dyn {
						// handler and pattern name sit in the same row of a table that is a package-level literal
						if l, ok := c.tablePairedMinLen(cc, pi, fn, e.Site); ok {
							minLen = l
						}
					}
					if minLen < 0 && dyn && c.submatchOfUnresolvedPattern(cc.Args[pi]) {
						unresolved = append(unresolved, load.FnName(e.Caller))
						continue
					}
					if minLen <= k {
						problems = append(problems, fmt.Sprintf("%s passes a slice whose length is not known to exceed %d", load.FnName(e.Caller), k))
					}
				}
				if callers > 0 && len(problems) == 0 && len(unresolved) > 0 {
					res.undecided(key, pos, fmt.Sprintf("%s[%d] is read in a function that is called through a table (%s) with the submatches of a pattern that is itself picked from a table: which pattern goes with which function is decided by matching keys at run time, which the rule does not model", p.Name(), k, strings.Join(uniq(unresolved), ", ")))
					continue
				}
				if callers == 0 || len(problems) > 0 {
					res.bad(key, pos, fmt.Sprintf("%s[%d] is read without a length test and %s: an input that yields a shorter slice ends in an index-out-of-range panic", p.Name(), k, strings.Join(problems, "; ")))
				} else {
					res.ok(key, pos, "every caller passes the tail of a successful submatch whose length exceeds the index")
				}
			}
		}
	}
	return res
}

// templateOne judges one (pattern, template) pair of a replacement call.
func (c *Ctx) templateOne(res *Result, fn *ssa.Function, call *ssa.Call, m string, recv ssa.Value, tmplV ssa.Value, dollar *rx.Lang) {
	res.Instances++
	pname := "computed pattern"
	if p, _ := c.Rx().Resolve(recv); p != nil {
		pname = p.Name
	}
	key := fmt.Sprintf("%s:replacement template for %s", load.FnName(fn), pname)
	pos := c.P.InstrPos(call)
	tmpl := tmplV
	var problems []string
	ops := stringOperands(stripConv(tmpl), 0)
	if _, args, argFn, twhy := c.templateShape(tmpl, fn, 0); twhy == "" {
		ops, fn = args, argFn
	}
	for _, op := range ops {
		if _, isC := constString(op); isC {
			continue
		}
		lang, what, why := c.valueLanguage(op, fn, 0)
		if lang == nil {
			problems = append(problems, fmt.Sprintf("a value of unknown content (%s) is part of the replacement template: a '$' followed by a name, digit or '{' in it is expanded as a group reference instead of being written literally (use string concatenation of the submatches or ReplaceAllLiteral)", why))
			continue
		}
		r, err := rx.Intersects(lang, dollar)
		if err != nil {
			problems = append(problems, err.Error())
		} else if r.Found {
			problems = append(problems, fmt.Sprintf("%s may contain '$' (e.g. %q), which the template expands", what, r.Witness))
		}
	}
	if len(problems) > 0 {
		res.bad(key, pos, strings.Join(uniq(problems), "; "))
	} else {
		res.ok(key, pos, "every non-constant part of the template has a '$'-free language")
	}

}

// ---------- FS-TRUNC / FS-NOERR ----------

// RuleFsWriteDiscipline: (1) a file opened for writing is truncated (or the
// whole-file primitive os.WriteFile is used): otherwise the tail of a longer old
// version survives a shorter rewrite; (2) no write is reachable from the failing
// side of an earlier error test in the same function (C16: a failed command
// leaves its target untouched).
func (c *Ctx) RuleFsWriteDiscipline() *Result {
	res := &Result{Rule: "FS-WRITE-DISCIPLINE", MinInst: 4}
	for _, ws := range c.writeSites() {
		if ws.isExt {
			continue
		}
		fnName := load.FnName(ws.fn)
		// (1)
		if ws.name == "os.OpenFile" {
			res.Instances++
			key := fnName + ":os.OpenFile flags"
			if n, ok := constInt(ws.cc.Args[1]); ok {
				const oTrunc, oAppend, oCreate, oExcl = 0x200, 0x400, 0x40, 0x80
				if n&oTrunc == 0 && n&oAppend == 0 && !(n&oCreate != 0 && n&oExcl != 0) {
					res.bad(key, c.P.InstrPos(ws.call), "the file is opened for writing without O_TRUNC: when the new contents are shorter than the old ones the old tail stays in the file (stale markers, duplicated or cut-off lines)")
				} else {
					res.ok(key, c.P.InstrPos(ws.call), "opened with O_TRUNC / O_APPEND / O_CREATE|O_EXCL")
				}
			} else {
				res.undecided(key, c.P.InstrPos(ws.call), "open flags are not constant")
			}
		}
		// (2)
		if ws.prim.dataArg < 0 && ws.name != "os.OpenFile" {
			continue
		}
		res.Instances++
		key := fnName + ":" + ws.name + " after a failed step"
		bad := ""
		allInstrs(ws.fn, func(in ssa.Instruction) {
			call, ok := in.(*ssa.Call)
			if !ok || in == ws.call || bad != "" {
				return
			}
			idx := errResultIndex(call.Call.Signature())
			if idx < 0 {
				return
			}
			if _, noFailure := reasonedDrop(call); noFailure {
				return // cannot fail (an in-memory read only ever reports io.EOF)
			}
			ev := resultValue(call, idx)
			if ev == nil {
				return
			}
			for _, a := range errAliases(ev) {
				for _, r := range referrers(a) {
					bin, ok := r.(*ssa.BinOp)
					if !ok {
						continue
					}
					_, trueMeansNil, isTest := nilTest(bin)
					if !isTest {
						continue
					}
					for _, br := range condBranches(bin) {
						succ := 1
						if !trueMeansNil != br.neg {
							succ = 0
						}
						blk := br.iff.Block()
						target := blk.Succs[succ]
						env := newEnvAt(blk)
						env.facts[a] = nonNil
						env.enter(target, blk)
						c.explore(target, 0, env, exploreCB{
							instr: func(i2 ssa.Instruction, e *pathEnv) bool {
								if i2 == ws.call && bad == "" {
									bad = fmt.Sprintf("the write is reachable after %s failed (error tested at %s): the command fails but has already modified its target", calleeLabel(&call.Call), c.P.InstrPos(bin))
								}
								return i2 == ws.call
							},
						})
					}
				}
			}
		})
		if bad != "" {
			res.bad(key, c.P.InstrPos(ws.call), bad)
		} else {
			res.ok(key, c.P.InstrPos(ws.call), "not reachable from the failing side of any earlier error test in the function")
		}
	}
	// writes through a file handle (Write/WriteAt/WriteString on *os.File that is not a standard stream)
	for _, fn := range c.P.RepoFns {
		allInstrs(fn, func(in ssa.Instruction) {
			call, ok := in.(*ssa.Call)
			if !ok {
				return
			}
			f := staticCallee(&call.Call)
			if !(isMeth(f, "os", "File", "WriteAt") || isMeth(f, "os", "File", "Write") || isMeth(f, "os", "File", "WriteString")) {
				return
			}
			if _, std := reasonedDrop(call); std {
				return
			}
			res.Instances++
			key := load.FnName(fn) + ":" + qualName(f)
			// the handle must come from os.Create or a truncating OpenFile
			okOpen := false
			if ex, ok := call.Call.Args[0].(*ssa.Extract); ok {
				if oc, ok := ex.Tuple.(*ssa.Call); ok {
					of := staticCallee(&oc.Call)
					if isFn(of, "os", "Create") {
						okOpen = true
					}
					if isFn(of, "os", "OpenFile") {
						if n, ok := constInt(oc.Call.Args[1]); ok && (n&0x200 != 0 || n&0x400 != 0) {
							okOpen = true
						}
					}
				}
			}
			if okOpen && f.Name() != "WriteAt" {
				res.ok(key, c.P.InstrPos(call), "handle opened with truncation")
			} else {
				res.bad(key, c.P.InstrPos(call), "the file is rewritten through a handle that was not opened with truncation (or with WriteAt): when the new contents are shorter than the old ones the old tail stays in the file")
			}
		})
	}
	return res
}

// ---------- PRINTF ----------

// RulePrintfConst: format strings are constants (file text must never be a format string).
func (c *Ctx) RulePrintfConst() *Result {
	res := &Result{Rule: "PRINTF-CONST", MinInst: 30}
	bad := 0
	for _, fn := range c.P.RepoFns {
		allInstrs(fn, func(in ssa.Instruction) {
			call, ok := in.(*ssa.Call)
			if !ok {
				return
			}
			f := staticCallee(&call.Call)
			if f == nil {
				return
			}
			fi := -1
			switch {
			case isFn(f, "fmt", "Sprintf") || isFn(f, "fmt", "Errorf") || isFn(f, "fmt", "Printf"):
				fi = 0
			case isFn(f, "fmt", "Fprintf"):
				fi = 1
			case objPkgPath(f) == zerologPkg && recvNamed(f) == "Event" && f.Name() == "Msgf":
				fi = 1
			}
			if fi < 0 || fi >= len(call.Call.Args) {
				return
			}
			res.Instances++
			if _, isC := constString(call.Call.Args[fi]); isC {
				return
			}
			// a format taken from a parameter of a thin wrapper is the wrapper's callers' business
			if _, isParam := call.Call.Args[fi].(*ssa.Parameter); isParam {
				return
			}
			bad++
			res.bad(load.FnName(fn)+":"+qualName(f)+" format", c.P.InstrPos(call), "the format string is computed: a '%' in the text it is built from (file contents, arguments) is read as a verb — '%20|' becomes '%!|(MISSING)'")
		})
	}
	if bad == 0 {
		res.ok("repo:format strings", "-", fmt.Sprintf("%d formatting calls, every format string is a constant", res.Instances))
	}
	return res
}

// ---------- FLAG-PATTERN / LOG-STDERR (C02) ----------

// RuleFlagPattern: the patterns that strip engine-inserted flag groups match
// every spelling regexp/syntax can print: (?flags) and (?flags: with flags
// drawn from imsU, optionally followed by -flags (Go prints set and cleared
// flags in one group, e.g. (?i-s: ).
func (c *Ctx) RuleFlagPattern() *Result {
	res := &Result{Rule: "FLAG-PATTERN", MinInst: 2}
	none := func(r rune) bool { return false }
	for _, fn := range c.P.RepoFns {
		if load.ShortPkg(load.FnPkgPath(fn)) != "regex/operators" {
			continue
		}
		allInstrs(fn, func(in ssa.Instruction) {
			call, _, recv, _, ok := regexpCall(in)
			if !ok {
				return
			}
			for _, p := range c.ResolveAll(recv, fn, 0) {
				if !strings.HasPrefix(p.Src, `\(\?`) || strings.HasPrefix(p.Src, `\(\?:`) {
					continue
				}
				res.Instances++
				key := load.FnName(fn) + ":flag group pattern " + p.Src
				closer := `:`
				if strings.HasSuffix(p.Src, `\)`) {
					closer = `\)`
				}
				want, _ := rx.FullPattern("flag groups the printer emits", `\(\?(?:[imsU]+(?:-[imsU]+)?|-[imsU]+)`+closer)
				have, err := rx.Full(p.Src, p.Re)
				if err != nil {
					res.undecided(key, c.P.InstrPos(call), err.Error())
					continue
				}
				q := &rx.Query{Langs: []*rx.Lang{want, have}, Excluded: none, Accept: func(m []bool) bool { return m[0] && !m[1] }}
				r, err := q.Run()
				switch {
				case err != nil:
					res.undecided(key, c.P.InstrPos(call), err.Error())
				case r.Found:
					res.bad(key, c.P.InstrPos(call), fmt.Sprintf("regexp/syntax can print the flag group %q, which this pattern does not match: the inline flag group survives in the generated regex", r.Witness))
				default:
					res.ok(key, c.P.InstrPos(call), "matches every (?flags"+strings.TrimPrefix(closer, `\`)+" spelling the printer can emit (language inclusion)")
				}
			}
		})
	}
	return res
}

// RuleLogStderr: log output goes to stderr, never into the generated regex on stdout.
func (c *Ctx) RuleLogStderr() *Result {
	res := &Result{Rule: "LOG-STDERR", MinInst: 1}
	for _, fn := range c.P.RepoFns {
		allInstrs(fn, func(in ssa.Instruction) {
			al, ok := in.(*ssa.Alloc)
			if !ok || !isNamed(derefType(al.Type()), zerologPkg, "ConsoleWriter") {
				return
			}
			res.Instances++
			key := load.FnName(fn) + ":zerolog.ConsoleWriter.Out"
			fields := map[string]ssa.Value{}
			st := derefType(al.Type()).Underlying().(*types.Struct)
			for _, r := range referrers(al) {
				if fa, ok := r.(*ssa.FieldAddr); ok {
					for _, rr := range referrers(fa) {
						if s2, ok := rr.(*ssa.Store); ok && s2.Addr == ssa.Value(fa) {
							fields[st.Field(fa.Field).Name()] = s2.Val
						}
					}
				}
			}
			out := stripConv(fields["Out"])
			if ld, ok := out.(*ssa.UnOp); ok {
				if g, ok := ld.X.(*ssa.Global); ok && g.Pkg.Pkg.Path() == "os" && g.Name() == "Stderr" {
					res.ok(key, c.P.InstrPos(al), "os.Stderr")
					return
				}
			}
			res.bad(key, c.P.InstrPos(al), "log records are not written to os.Stderr: any warning or info record becomes part of generate's stdout, in front of the regex, with terminal escape bytes and a newline")
		})
	}
	return res
}

// ---------- LAST-INDEX (C19) ----------

// RuleLastIndex: s[len(s)-k] needs a test that s has at least k elements.
func (c *Ctx) RuleLastIndex() *Result {
	res := &Result{Rule: "LAST-INDEX", MinInst: 2}
	scope := c.reachFromNamed(func(n string) bool { return n == "(*regex/operators.Operator).Run" })
	for _, fn := range c.P.RepoFns {
		if !scope[load.FnName(fn)] {
			continue
		}
		allInstrs(fn, func(in ssa.Instruction) {
			var base, idx ssa.Value
			switch x := in.(type) {
			case *ssa.Index:
				base, idx = x.X, x.Index
			case *ssa.IndexAddr:
				base, idx = x.X, x.Index
			case *ssa.Lookup:
				if _, isMap := x.X.Type().Underlying().(*types.Map); isMap {
					return
				}
				base, idx = x.X, x.Index
			default:
				return
			}
			sub, ok := idx.(*ssa.BinOp)
			if !ok || sub.Op != token.SUB {
				return
			}
			k, ok := constInt(sub.Y)
			if !ok || k <= 0 {
				return
			}
			// len(base) directly, or a variable holding it
			lenOf := func(v ssa.Value) bool {
				lc, ok := v.(*ssa.Call)
				if !ok {
					return false
				}
				bi, ok := lc.Call.Value.(*ssa.Builtin)
				return ok && bi.Name() == "len" && stripConv(lc.Call.Args[0]) == stripConv(base)
			}
			if !lenOf(sub.X) {
				// len of another value: the two must be the same text
				if lc, ok := sub.X.(*ssa.Call); ok {
					if bi, ok := lc.Call.Value.(*ssa.Builtin); ok && bi.Name() == "len" {
						other := stripConv(lc.Call.Args[0])
						_, baseStr := base.Type().Underlying().(*types.Basic)
						_, otherStr := other.Type().Underlying().(*types.Basic)
						if baseStr && otherStr {
							res.Instances++
							res.bad(fmt.Sprintf("%s:%s[len(%s)-%d]", load.FnName(fn), valueLabel(base), valueLabel(other), k), c.P.InstrPos(in),
								fmt.Sprintf("%s is indexed with the length of %s, a different value (one of them was trimmed, cut or replaced in between): when %s is the shorter one the access is out of range and the command dies with a runtime fault", valueLabel(base), valueLabel(other), valueLabel(base)))
						}
					}
				}
				return
			}
			res.Instances++
			key := fmt.Sprintf("%s:%s[len-%d]", load.FnName(fn), valueLabel(base), k)
			guard := func(cond ssa.Value, val bool) bool {
				b, ok := cond.(*ssa.BinOp)
				if ok && k == 1 && notEmptyString(b, base, val) {
					return true
				}
				if !ok || !lenOf(b.X) {
					return false
				}
				n, ok := constInt(b.Y)
				if !ok {
					return false
				}
				switch b.Op {
				case token.GTR:
					return val && n >= k-1
				case token.GEQ:
					return val && n >= k
				case token.NEQ:
					return val && n == 0 && k == 1
				case token.EQL:
					return (!val && n == 0 && k == 1) || (val && n >= k)
				case token.LSS:
					return !val && n >= k
				case token.LEQ:
					return !val && n >= k-1
				}
				return false
			}
			if c.guardedByEdges(in, guard) {
				res.ok(key, c.P.InstrPos(in), "guarded by a length test")
			} else {
				res.bad(key, c.P.InstrPos(in), fmt.Sprintf("%s[len(%s)-%d] is read without a test that it has %d element(s): an empty value ends in an index-out-of-range panic", valueLabel(base), valueLabel(base), k, k))
			}
		})
	}
	return res
}

// flowsIntoPhi: does v reach phi (an edge of it) through phis and string concatenation?
func flowsIntoPhi(v ssa.Value, target *ssa.Phi, depth int) bool {
	if depth > 6 {
		return false
	}
	for _, r := range referrers(v) {
		switch x := r.(type) {
		case *ssa.Phi:
			if x == target || flowsIntoPhi(x, target, depth+1) {
				return true
			}
		case *ssa.BinOp:
			if x.Op == token.ADD && flowsIntoPhi(x, target, depth+1) {
				return true
			}
		}
	}
	return false
}

// RuleExclKey (C06): lines are put into and deleted from the inclusion map by
// the same key derivation (the scanner's line, untransformed).
func (c *Ctx) RuleExclKey() *Result {
	res := &Result{Rule: "EXCL-KEY", MinInst: 2}
	var isText func(v ssa.Value) bool
	isText = func(v ssa.Value) bool {
		v = stripConv(v)
		if c.isLineText(v, 0) {
			return true
		}
		if _, ok := v.(*ssa.Call); ok {
			return false
		}
		// the parameter of a visit callback that a line-scanning helper calls with scanner.Text()
		par, ok := v.(*ssa.Parameter)
		if !ok {
			return false
		}
		F := par.Parent()
		pi := paramIndex(F, par)
		okAll, n := true, 0
		for _, e := range c.Graph().In[F] {
			// a helper that is handed the line (a method that hides the map)
			if cc := callCommon(e.Site); cc != nil && staticFn(cc) == F && pi >= 0 && pi < len(cc.Args) {
				n++
				if !isText(cc.Args[pi]) {
					okAll = false
				}
				continue
			}
			mc, isMC := e.Site.(*ssa.MakeClosure)
			if !isMC {
				continue
			}
			for _, r := range referrers(mc) {
				hc := callCommon(r)
				if hc == nil {
					continue
				}
				H := staticFn(hc)
				if H == nil || !c.P.IsRepoFn(H) {
					continue
				}
				for j, a := range hc.Args {
					if a != ssa.Value(mc) || j >= len(H.Params) {
						continue
					}
					for _, rr := range referrers(H.Params[j]) {
						vc := callCommon(rr)
						if vc == nil || vc.Value != ssa.Value(H.Params[j]) || pi >= len(vc.Args) {
							continue
						}
						n++
						if !isText(vc.Args[pi]) {
							okAll = false
						}
					}
				}
			}
		}
		return okAll && n > 0
	}
	for _, fn := range c.P.RepoFns {
		if load.ShortPkg(load.FnPkgPath(fn)) != "regex/parser" {
			continue
		}
		allInstrs(fn, func(in ssa.Instruction) {
			var key ssa.Value
			what := ""
			switch x := in.(type) {
			case *ssa.MapUpdate:
				if mt, ok := x.Map.Type().Underlying().(*types.Map); ok {
					if _, isStruct := mt.Elem().Underlying().(*types.Struct); isStruct && mt.Key().Underlying().String() == "string" {
						key, what = x.Key, "insertion"
					}
				}
			case *ssa.Call:
				if bi, ok := x.Call.Value.(*ssa.Builtin); ok && bi.Name() == "delete" && len(x.Call.Args) == 2 {
					if mt, ok := x.Call.Args[0].Type().Underlying().(*types.Map); ok {
						if _, isStruct := mt.Elem().Underlying().(*types.Struct); isStruct {
							key, what = x.Call.Args[1], "deletion"
						}
					}
				}
			}
			if key == nil {
				return
			}
			res.Instances++
			k := load.FnName(fn) + ":" + what + " key of the inclusion map"
			if isText(key) {
				res.ok(k, c.P.InstrPos(in), "the scanner's line, untransformed")
			} else {
				res.bad(k, c.P.InstrPos(in), "the key used for "+what+" is not the untransformed line: entries are inserted and excluded under different spellings (an excluded entry with trailing white space survives, a look-alike is dropped)")
			}
		})
	}
	return res
}

// RuleProcStart (C16): the assembler hands every line that starts like a
// processor start marker to the dispatcher that rejects unknown names. The
// pattern that selects those lines must therefore match every line
// "##!>" blanks name - a pattern that enumerates the known names turns an
// unknown processor into ordinary text.
func (c *Ctx) RuleProcStart() *Result {
	res := &Result{Rule: "PROC-START", MinInst: 1}
	none := func(r rune) bool { return false }
	for _, s := range c.submatchSites() {
		if load.ShortPkg(load.FnPkgPath(s.fn)) != "regex/operators" || s.all || s.index {
			continue
		}
		// a group of the match is an argument of a repository call in the same package
		dispatch := ""
		var follow func(v ssa.Value, d int)
		follow = func(v ssa.Value, d int) {
			if d > 3 || dispatch != "" {
				return
			}
			for _, r := range referrers(v) {
				switch x := r.(type) {
				case *ssa.IndexAddr:
					follow(x, d+1)
				case *ssa.Slice:
					follow(x, d+1)
				case *ssa.Phi:
					// the match is only tried behind a cheap test and is nil otherwise
					follow(x, d+1)
				case *ssa.UnOp:
					if x.Op == token.MUL {
						follow(x, d+1)
					}
				case *ssa.Call:
					if sf := staticFn(&x.Call); sf != nil && c.P.IsRepoFn(sf) && load.FnPkgPath(sf) == load.FnPkgPath(s.fn) {
						dispatch = load.FnName(sf)
					}
				}
			}
		}
		follow(s.call, 0)
		if dispatch == "" || s.pattern == nil || !strings.HasPrefix(s.pattern.Src, "^##!>") {
			continue
		}
		res.Instances++
		key := load.FnName(s.fn) + ":processor start lines handed to " + dispatch
		want, _ := rx.SearchPattern("processor start marker with a name", `^##!>\s*[a-z]+`)
		have := searchLang(s.pattern)
		q := &rx.Query{Langs: []*rx.Lang{want, have}, Excluded: none, Accept: func(m []bool) bool { return m[0] && !m[1] }}
		r, err := q.Run()
		switch {
		case err != nil:
			res.undecided(key, c.P.InstrPos(s.call), err.Error())
		case r.Found:
			res.bad(key, c.P.InstrPos(s.call), fmt.Sprintf("the line %q starts a processor but is not matched by %s (%s): it never reaches %s, so an unknown processor name is compiled as ordinary text instead of being rejected", r.Witness, s.pattern.Name, s.pattern.Src, dispatch))
		default:
			res.ok(key, c.P.InstrPos(s.call), fmt.Sprintf("%s matches every line \"##!>\" blanks name (language inclusion), unknown names reach the dispatcher's error", s.pattern.Name))
		}
	}
	return res
}

// lenGuardFor: an edge predicate "len(v) > k is known".
// notEmptyString: the edge (b, val) says that the string v is not "".
func notEmptyString(b *ssa.BinOp, v ssa.Value, val bool) bool {
	var other ssa.Value
	switch {
	case b.X == v:
		other = b.Y
	case b.Y == v:
		other = b.X
	default:
		return false
	}
	if s, ok := constString(other); !ok || s != "" {
		return false
	}
	return (b.Op == token.NEQ && val) || (b.Op == token.EQL && !val)
}

func lenGuardFor(v ssa.Value, k int64) func(cond ssa.Value, val bool) bool {
	return func(cond ssa.Value, val bool) bool {
		b, ok := cond.(*ssa.BinOp)
		if !ok {
			return false
		}
		// v != "" (or the false side of v == "") is len(v) >= 1
		if notEmptyString(b, v, val) && k == 0 {
			return true
		}
		lc, ok := b.X.(*ssa.Call)
		if !ok {
			return false
		}
		bi, ok := lc.Call.Value.(*ssa.Builtin)
		if !ok || bi.Name() != "len" || lc.Call.Args[0] != v {
			return false
		}
		n, ok := constInt(b.Y)
		if !ok {
			return false
		}
		switch b.Op {
		case token.GTR:
			return val && n >= k
		case token.GEQ:
			return val && n >= k+1
		case token.EQL:
			return (val && n >= k+1) || (!val && n == 0 && k == 0)
		case token.LSS:
			return !val && n >= k+1
		case token.LEQ:
			return !val && n >= k
		case token.NEQ:
			return (!val && n >= k+1) || (val && n == 0 && k == 0)
		}
		return false
	}
}

// stringIndexGuarded: the string v is known to be longer than k at instruction at (a length test
// in the function, or, for a parameter, at every static call site, followed up to two callers up).
func (c *Ctx) stringIndexGuarded(v ssa.Value, k int64, at ssa.Instruction, depth int) bool {
	if c.guardedByEdges(at, lenGuardFor(v, k)) {
		return true
	}
	par, ok := v.(*ssa.Parameter)
	if !ok || depth >= 2 {
		return false
	}
	fn := par.Parent()
	pi := paramIndex(fn, par)
	n := 0
	for _, e := range c.Graph().In[fn] {
		cc := callCommon(e.Site)
		if cc == nil || staticFn(cc) != fn || pi < 0 || pi >= len(cc.Args) {
			return false // a caller that cannot be inspected (interface dispatch, function value)
		}
		n++
		if !c.stringIndexGuarded(cc.Args[pi], k, e.Site, depth+1) {
			return false
		}
	}
	return n > 0
}

// RuleStrIndex (C19): s[k] with a constant k on a string parameter, in code
// reachable from Operator.Run, needs a length test in the function or at every caller.
func (c *Ctx) RuleStrIndex() *Result {
	res := &Result{Rule: "STR-INDEX", MinInst: 0}
	scope := c.inputScope()
	n := 0
	for _, fn := range c.P.RepoFns {
		if !scope[load.FnName(fn)] {
			continue
		}
		n++
		allInstrs(fn, func(in ssa.Instruction) {
			var X, I ssa.Value
			switch x := in.(type) {
			case *ssa.Lookup:
				X, I = x.X, x.Index
			case *ssa.Index:
				X, I = x.X, x.Index
			default:
				return
			}
			lk := in
			par, ok := X.(*ssa.Parameter)
			if !ok {
				return
			}
			if b, ok := par.Type().Underlying().(*types.Basic); !ok || b.Kind() != types.String {
				return
			}
			k, ok := constInt(I)
			if !ok {
				return
			}
			res.Instances++
			key := fmt.Sprintf("%s:%s[%d]", load.FnName(fn), par.Name(), k)
			if c.stringIndexGuarded(par, k, lk, 0) {
				res.ok(key, c.P.InstrPos(lk), "guarded by a length test in the function or at every call site")
			} else {
				res.bad(key, c.P.InstrPos(lk), fmt.Sprintf("%s[%d] is read without a length test here or at the call sites: an empty line (an empty block, an entry that is only a suffix marker) ends in an index-out-of-range panic", par.Name(), k))
			}
		})
	}
	res.Instances++
	res.ok("scope:constant index into a string parameter", "-", fmt.Sprintf("%d functions reachable from Operator.Run scanned", n))
	return res
}

// RuleRangeIndex (C19): inside `for i := range A`, the index i is used on A
// (or on a slice made with len(A)); using it on another slice is the
// copy-and-paste slip that panics or overwrites the wrong list.
func (c *Ctx) RuleRangeIndex() *Result {
	res := &Result{Rule: "RANGE-INDEX", MinInst: 0}
	scope := c.reachFromNamed(func(n string) bool { return n == "(*regex/operators.Operator).Run" })
	n := 0
	for _, fn := range c.P.RepoFns {
		if !scope[load.FnName(fn)] || len(fn.Blocks) == 0 {
			continue
		}
		n++
		// range-over-slice loops: phi i with a condition i < len(A) in the header
		for _, l := range naturalLoops(fn) {
			iff, ok := l.header.Instrs[len(l.header.Instrs)-1].(*ssa.If)
			if !ok {
				continue
			}
			cmp, ok := iff.Cond.(*ssa.BinOp)
			if !ok || cmp.Op != token.LSS {
				continue
			}
			lc, ok := cmp.Y.(*ssa.Call)
			if !ok {
				continue
			}
			bi, ok := lc.Call.Value.(*ssa.Builtin)
			if !ok || bi.Name() != "len" {
				continue
			}
			A := lc.Call.Args[0]
			if _, isSlice := A.Type().Underlying().(*types.Slice); !isSlice {
				continue
			}
			idx := cmp.X
			// rotated range loops: the compared value is i+1 of the phi
			var idxs []ssa.Value
			idxs = append(idxs, idx)
			if b, ok := idx.(*ssa.BinOp); ok && b.Op == token.ADD {
				idxs = append(idxs, b.X)
			}
			for _, iv := range idxs {
				for _, r := range referrers(iv) {
					ia, ok := r.(*ssa.IndexAddr)
					if !ok || ia.Index != iv || !l.body[ia.Block()] {
						continue
					}
					if _, isSlice := ia.X.Type().Underlying().(*types.Slice); !isSlice {
						continue
					}
					res.Instances++
					key := fmt.Sprintf("%s:index of a range loop used on another slice", load.FnName(fn))
					if ia.X == A || sameLoad(ia.X, A) || madeWithLenOf(ia.X, A) {
						res.ok(key, c.P.InstrPos(ia), "the index is used on the slice that is ranged over (or one made with its length)")
					} else {
						res.bad(key, c.P.InstrPos(ia), "the index of a loop over one slice is used on a different slice whose length is unrelated: the wrong list is overwritten, or the access runs past its end and panics")
					}
				}
			}
		}
	}
	res.Instances++
	res.ok("scope:range index discipline", "-", fmt.Sprintf("%d functions reachable from Operator.Run scanned", n))
	return res
}

func madeWithLenOf(v, A ssa.Value) bool {
	mk, ok := v.(*ssa.MakeSlice)
	if !ok {
		return false
	}
	for _, x := range []ssa.Value{mk.Len, mk.Cap} {
		if lc, ok := x.(*ssa.Call); ok {
			if bi, ok := lc.Call.Value.(*ssa.Builtin); ok && bi.Name() == "len" && (lc.Call.Args[0] == A || sameLoad(lc.Call.Args[0], A)) {
				return true
			}
		}
	}
	return false
}

// sliceMinLen: a lower bound for the length of the slice a at instruction at of
// function in: the tail of a successful submatch of a resolved pattern, or a
// parameter whose every caller passes such a slice. -1 when unknown.
func (c *Ctx) sliceMinLen(a ssa.Value, at ssa.Instruction, in *ssa.Function, depth int) int64 {
	if depth > 3 {
		return -1
	}
	switch x := a.(type) {
	case *ssa.Slice:
		if x.High != nil {
			return -1
		}
		lo := int64(0)
		if x.Low != nil {
			lo, _ = constInt(x.Low)
		}
		if _, _, recv, _, ok := regexpCall(asInstr(x.X)); ok {
			if pat, _ := c.Rx().Resolve(recv); pat != nil && knownNonEmpty(c.factsAt(at), x.X) {
				return int64(pat.NumCap()) + 1 - lo
			}
		}
		// the match is only tried behind a cheap test: nil or the submatches, known to be non-empty here
		if ph, ok := x.X.(*ssa.Phi); ok && knownNonEmpty(c.factsAt(at), ph) {
			min := int64(-1)
			for _, e := range ph.Edges {
				if isNilConst(e) {
					continue
				}
				_, _, recv, _, ok := regexpCall(asInstr(e))
				if !ok {
					return -1
				}
				pat, _ := c.Rx().Resolve(recv)
				if pat == nil {
					return -1
				}
				if l := int64(pat.NumCap()) + 1 - lo; min < 0 || l < min {
					min = l
				}
			}
			return min
		}
	case *ssa.Parameter:
		pi := paramIndex(in, x)
		if pi < 0 {
			return -1
		}
		min := int64(-1)
		n := 0
		for _, e := range c.Graph().In[in] {
			cc := callCommon(e.Site)
			if cc == nil || staticFn(cc) != in || pi >= len(cc.Args) {
				continue
			}
			n++
			l := c.sliceMinLen(cc.Args[pi], e.Site, e.Caller, depth+1)
			if l < 0 {
				return -1
			}
			if min < 0 || l < min {
				min = l
			}
		}
		if n == 0 {
			return -1
		}
		return min
	}
	return -1
}

// ---------- REC-BOUND (C19: "never loops") ----------

// sccs of the repository call graph restricted to set (Tarjan).
func (c *Ctx) sccs(set map[*ssa.Function]bool) [][]*ssa.Function {
	g := c.Graph()
	index := map[*ssa.Function]int{}
	low := map[*ssa.Function]int{}
	on := map[*ssa.Function]bool{}
	var stack []*ssa.Function
	var out [][]*ssa.Function
	n := 0
	var fns []*ssa.Function
	for fn := range set {
		fns = append(fns, fn)
	}
	sort.Slice(fns, func(i, j int) bool { return load.FnName(fns[i]) < load.FnName(fns[j]) })
	var visit func(v *ssa.Function)
	visit = func(v *ssa.Function) {
		index[v], low[v] = n, n
		n++
		stack = append(stack, v)
		on[v] = true
		for _, e := range g.Out[v] {
			w := e.Callee
			if !set[w] || e.Kind == "methodset" {
				continue
			}
			if _, seen := index[w]; !seen {
				visit(w)
				if low[w] < low[v] {
					low[v] = low[w]
				}
			} else if on[w] && index[w] < low[v] {
				low[v] = index[w]
			}
		}
		if low[v] == index[v] {
			var comp []*ssa.Function
			for {
				w := stack[len(stack)-1]
				stack = stack[:len(stack)-1]
				on[w] = false
				comp = append(comp, w)
				if w == v {
					break
				}
			}
			self := false
			for _, e := range g.Out[v] {
				if e.Callee == v && e.Kind != "methodset" {
					self = true
				}
			}
			if len(comp) > 1 || self {
				sort.Slice(comp, func(i, j int) bool { return load.FnName(comp[i]) < load.FnName(comp[j]) })
				out = append(out, comp)
			}
		}
	}
	for _, fn := range fns {
		if _, seen := index[fn]; !seen {
			visit(fn)
		}
	}
	return out
}

// RuleRecBound: every recursion reachable from Operator.Run has a bound that
// is visible in the code: a base case selected by the constant arguments of
// the recursive call, an explicit depth / visited guard, or a file descriptor
// held across the recursive call (the depth is then bounded by the process's
// descriptor limit and the run ends in the deliberate "cannot open file"
// diagnostic).
func (c *Ctx) RuleRecBound() *Result {
	res := &Result{Rule: "REC-BOUND", MinInst: 1}
	g := c.Graph()
	var roots []*ssa.Function
	for _, fn := range c.P.RepoFns {
		if load.FnName(fn) == "(*regex/operators.Operator).Run" {
			roots = append(roots, fn)
		}
	}
	set := map[*ssa.Function]bool{}
	for fn := range g.Reach(roots) {
		set[fn] = true
	}
	for _, comp := range c.sccs(set) {
		in := map[*ssa.Function]bool{}
		for _, fn := range comp {
			in[fn] = true
		}
		res.Instances++
		key := load.FnName(comp[0]) + ":recursion"
		pos := c.P.FnPos(comp[0])
		// recursive call sites
		type site struct {
			fn   *ssa.Function
			call ssa.Instruction
			to   *ssa.Function
		}
		var sites []site
		for _, fn := range comp {
			for _, e := range g.Out[fn] {
				if in[e.Callee] {
					sites = append(sites, site{fn, e.Site, e.Callee})
				}
			}
		}
		// (a) the cycles are cut by recursive calls whose constant arguments select a base case
		// of the callee (under them no path of the callee calls into the cycle again)
		{
			cut := map[ssa.Instruction]bool{}
			for _, s := range sites {
				if cc := callCommon(s.call); cc != nil && c.constArgsSelectBase(s.to, cc, in) {
					cut[s.call] = true
				}
			}
			if len(cut) > 0 && c.acyclicWithoutSites(in, cut) {
				res.ok(key, pos, fmt.Sprintf("%d of %d recursive call(s) pass constant arguments under which no path of the callee calls into the cycle again, and without them the functions do not form a cycle (depth bounded by 2)", len(cut), len(sites)))
				continue
			}
		}
		// (b) every cycle passes through one function that holds an open file across the call
		how := ""
		for _, F := range comp {
			if !c.acyclicWithout(in, F) {
				continue
			}
			if w := c.holdsDescriptorAcross(F, in); w != "" {
				how = w
				break
			}
		}
		if how != "" {
			res.ok(key, pos, how)
			continue
		}
		// (c) an explicit guard: the recursive calls are dominated by a test of a map lookup or an integer bound
		guarded := true
		for _, s := range sites {
			if !explicitRecursionGuard(s.call) {
				guarded = false
			}
		}
		if guarded && len(sites) > 0 {
			res.ok(key, pos, "every recursive call is dominated by a test of a visited-set lookup or an integer depth bound")
			continue
		}
		var names []string
		for _, fn := range comp {
			names = append(names, load.FnName(fn))
		}
		res.bad(key, pos, "nothing bounds the recursion "+strings.Join(names, " -> ")+": no base case is selected by the arguments, no depth or visited test guards the recursive call, and no file descriptor is held across it; an input that closes the cycle (a file that includes itself) ends in a stack overflow of the runtime instead of a diagnostic")
	}
	return res
}

// constArgsSelectBase: with the constant arguments of cc, no path from the
// entry of fn reaches a call of fn.
func (c *Ctx) constArgsSelectBase(fn *ssa.Function, cc *ssa.CallCommon, in map[*ssa.Function]bool) bool {
	if len(fn.Blocks) == 0 {
		return false
	}
	args := cc.Args
	bools := map[ssa.Value]bool{}
	known := false
	allInstrs(fn, func(in ssa.Instruction) {
		bo, ok := in.(*ssa.BinOp)
		if !ok {
			return
		}
		eval := func(x ssa.Value) (int64, bool) {
			if k, ok := constInt(x); ok {
				return k, true
			}
			if call, ok := x.(*ssa.Call); ok {
				if bi, ok := call.Call.Value.(*ssa.Builtin); ok && bi.Name() == "len" {
					if pi := paramIndex(fn, call.Call.Args[0]); pi >= 0 && pi < len(args) {
						if sv, ok := constString(args[pi]); ok {
							return int64(len(sv)), true
						}
					}
				}
			}
			return 0, false
		}
		// string comparison of a parameter with a constant
		if pi := paramIndex(fn, bo.X); pi >= 0 && pi < len(args) {
			if a, ok := constString(args[pi]); ok {
				if b, ok := constString(bo.Y); ok {
					switch bo.Op {
					case token.EQL:
						bools[bo], known = a == b, true
					case token.NEQ:
						bools[bo], known = a != b, true
					}
					return
				}
			}
		}
		x, ok1 := eval(bo.X)
		y, ok2 := eval(bo.Y)
		if !ok1 || !ok2 {
			return
		}
		switch bo.Op {
		case token.EQL:
			bools[bo], known = x == y, true
		case token.NEQ:
			bools[bo], known = x != y, true
		case token.LSS:
			bools[bo], known = x < y, true
		case token.LEQ:
			bools[bo], known = x <= y, true
		case token.GTR:
			bools[bo], known = x > y, true
		case token.GEQ:
			bools[bo], known = x >= y, true
		}
	})
	if !known {
		return false
	}
	env := newEnvAt(fn.Blocks[0])
	env.bools = bools
	reached := false
	c.explore(fn.Blocks[0], 0, env, exploreCB{
		instr: func(inr ssa.Instruction, pe *pathEnv) bool {
			if cc2 := callCommon(inr); cc2 != nil {
				if sf := staticFn(cc2); sf != nil && in[sf] {
					reached = true
					return true
				}
			}
			return false
		},
	})
	return !reached
}

// acyclicWithoutSites: the functions of in do not form a cycle once the given call sites are removed.
func (c *Ctx) acyclicWithoutSites(in map[*ssa.Function]bool, cut map[ssa.Instruction]bool) bool {
	g := c.Graph()
	state := map[*ssa.Function]int{}
	var dfs func(v *ssa.Function) bool
	dfs = func(v *ssa.Function) bool {
		state[v] = 1
		for _, e := range g.Out[v] {
			w := e.Callee
			if !in[w] || cut[e.Site] {
				continue
			}
			if state[w] == 1 {
				return false
			}
			if state[w] == 0 && !dfs(w) {
				return false
			}
		}
		state[v] = 2
		return true
	}
	for fn := range in {
		if state[fn] == 0 && !dfs(fn) {
			return false
		}
	}
	return true
}

func (c *Ctx) acyclicWithout(in map[*ssa.Function]bool, F *ssa.Function) bool {
	g := c.Graph()
	state := map[*ssa.Function]int{}
	var dfs func(v *ssa.Function) bool
	dfs = func(v *ssa.Function) bool {
		state[v] = 1
		for _, e := range g.Out[v] {
			w := e.Callee
			if !in[w] || w == F {
				continue
			}
			if state[w] == 1 {
				return false
			}
			if state[w] == 0 && !dfs(w) {
				return false
			}
		}
		state[v] = 2
		return true
	}
	for fn := range in {
		if fn != F && state[fn] == 0 && !dfs(fn) {
			return false
		}
	}
	return true
}

// holdsDescriptorAcross: F opens a file on every path to its calls into the
// cycle and does not close it before them.
func (c *Ctx) holdsDescriptorAcross(F *ssa.Function, in map[*ssa.Function]bool) string {
	if len(F.Blocks) == 0 {
		return ""
	}
	g := c.Graph()
	cycleSite := map[ssa.Instruction]bool{}
	for _, e := range g.Out[F] {
		if in[e.Callee] {
			cycleSite[e.Site] = true
		}
	}
	isOpen := func(inr ssa.Instruction) bool {
		cc := callCommon(inr)
		if cc == nil {
			return false
		}
		f := staticCallee(cc)
		if isFn(f, "os", "Open") || isFn(f, "os", "OpenFile") {
			return true
		}
		// a repository helper that hands out the file it opened
		// (as *os.File, or behind an interface such as io.Reader)
		if sf := staticFn(cc); sf != nil && c.P.IsRepoFn(sf) && sf.Signature.Results().Len() > 0 && (isNamed(derefType(sf.Signature.Results().At(0).Type()), "os", "File") || types.IsInterface(sf.Signature.Results().At(0).Type())) {
			opened, closed := false, false
			allInstrs(sf, func(in2 ssa.Instruction) {
				if c2 := callCommon(in2); c2 != nil {
					f2 := staticCallee(c2)
					if isFn(f2, "os", "Open") || isFn(f2, "os", "OpenFile") {
						opened = true
					}
					if isMeth(f2, "os", "File", "Close") {
						closed = true
					}
				}
			})
			return opened && !closed
		}
		return false
	}
	opens := 0
	closedEarly := false
	allInstrs(F, func(inr ssa.Instruction) {
		if isOpen(inr) {
			opens++
		}
		if call, ok := inr.(*ssa.Call); ok { // a deferred Close runs after the recursion returned
			if isMeth(staticCallee(&call.Call), "os", "File", "Close") {
				closedEarly = true
			}
		}
	})
	if opens == 0 || closedEarly {
		return ""
	}
	// the value that recurses (receiver or argument of the call into the cycle) is built from the opened file
	tainted := map[ssa.Value]bool{}
	var work []ssa.Value
	add := func(v ssa.Value) {
		if v != nil && !tainted[v] {
			tainted[v] = true
			work = append(work, v)
		}
	}
	allInstrs(F, func(inr ssa.Instruction) {
		if isOpen(inr) {
			if v, ok := inr.(ssa.Value); ok {
				if rv := resultValue(v.(*ssa.Call), 0); rv != nil {
					add(rv)
				}
			}
		}
	})
	for len(work) > 0 {
		v := work[0]
		work = work[1:]
		for _, r := range referrers(v) {
			switch x := r.(type) {
			case *ssa.Phi, *ssa.MakeInterface, *ssa.ChangeInterface, *ssa.ChangeType:
				add(x.(ssa.Value))
			case *ssa.Call:
				add(x)
			case *ssa.Store:
				if x.Val == v {
					// a variable that holds the file: its loads carry it
					for _, rr := range referrers(x.Addr) {
						if ld, ok := rr.(*ssa.UnOp); ok && ld.Op == token.MUL {
							add(ld)
						}
					}
				}
			}
		}
	}
	missed := len(cycleSite) == 0
	for site := range cycleSite {
		cc := callCommon(site)
		if cc == nil {
			missed = true
			continue
		}
		has := false
		for _, a := range cc.Args {
			if tainted[a] {
				has = true
			}
		}
		if !has {
			missed = true
		}
	}
	if missed {
		return ""
	}
	return fmt.Sprintf("every cycle passes through %s, where what recurses reads from a file opened with os.Open that is not closed before the call returns: the depth is bounded by the descriptor limit and the run ends in the open-failure diagnostic", load.FnName(F))
}

// explicitRecursionGuard: the call is dominated by a branch on a map lookup (visited set) or an integer comparison.
func explicitRecursionGuard(site ssa.Instruction) bool {
	b := site.Block()
	for d := b.Idom(); d != nil; d = d.Idom() {
		iff, ok := d.Instrs[len(d.Instrs)-1].(*ssa.If)
		if !ok {
			continue
		}
		cond, _ := unwrapNot(iff.Cond)
		switch x := cond.(type) {
		case *ssa.Extract:
			if lk, ok := x.Tuple.(*ssa.Lookup); ok && lk.CommaOk {
				return true
			}
		case *ssa.Lookup:
			return true
		case *ssa.BinOp:
			if bt, ok := x.X.Type().Underlying().(*types.Basic); ok && bt.Info()&types.IsInteger != 0 {
				switch x.Op {
				case token.LSS, token.LEQ, token.GTR, token.GEQ:
					// a depth counter: a parameter or a field, compared with a bound
					for _, side := range []ssa.Value{x.X, x.Y} {
						switch y := side.(type) {
						case *ssa.Parameter:
							return true
						case *ssa.UnOp:
							if _, isField := y.X.(*ssa.FieldAddr); isField && y.Op == token.MUL {
								return true
							}
						}
					}
				}
			}
		}
	}
	return false
}

// ---------- WALK-FILTER ----------

// walkFilterPolicy: the only name tests that may make a directory-walk
// callback skip a file entry, per command (taken from the statements: .ra
// assembly files; every file below the regression-test directory, selected
// later by the test-file pattern; *.conf and *.example).
var walkFilterPolicy = map[string][]string{
	"update":           {".ra"},
	"compare":          {".ra"},
	"format":           {".ra"},
	"renumber-tests":   {},
	"update-copyright": {".conf", ".example"},
}

// RuleWalkFilter: a file entry is skipped by the walk callback only when it is
// a directory, when the walk reported an error, when a repository pattern did
// not match its name, or when its name failed every extension test of the
// command's policy. A narrower filter silently leaves files unprocessed that
// the single-file form of the command processes.
func (c *Ctx) RuleWalkFilter(commands ...string) *Result {
	res := &Result{Rule: "WALK-FILTER", MinInst: len(commands)}
	for _, name := range commands {
		cmd := c.Commands().ByName[name]
		if cmd == nil {
			continue
		}
		policy := walkFilterPolicy[name]
		for _, cb := range c.perFileCallbacks(cmd) {
			cb = unwrapBound(cb)
			if len(cb.Blocks) == 0 {
				continue
			}
			res.Instances++
			key := load.FnName(cb) + ":entries skipped by the walk callback"
			// classify a branch edge: justification (-1), failed policy item (index), or nothing (-2)
			classify := func(cond ssa.Value, val bool) int {
				switch x := cond.(type) {
				case *ssa.Call:
					if x.Call.IsInvoke() && x.Call.Method.Name() == "IsDir" && val {
						return -1
					}
					f := staticCallee(&x.Call)
					if isFn(f, "errors", "Is") && val {
						return -1
					}
					if isFn(f, "strings", "HasSuffix") && !val {
						if s, ok := constString(x.Call.Args[1]); ok {
							for i, p := range policy {
								if p == s {
									return i
								}
							}
						}
					}
					if _, m, _, _, ok := regexpCall(x); ok && regexpMatchMethods[m] && !val {
						return -1
					}
				case *ssa.BinOp:
					if v, trueMeansNil, isTest := nilTest(x); isTest {
						if _, isParam := v.(*ssa.Parameter); isParam && val != trueMeansNil {
							return -1 // the walk's own error
						}
						if _, _, _, _, ok := regexpCall(asInstr(v)); ok && val == trueMeansNil {
							return -1 // no match
						}
					}
					for i, p := range policy {
						if extPred(p)(cond, !val) {
							return i
						}
					}
				}
				return -2
			}
			isProcessing := func(b *ssa.BasicBlock) bool {
				for _, in := range b.Instrs {
					cc := callCommon(in)
					if cc == nil {
						continue
					}
					if sf := staticFn(cc); sf != nil && c.P.IsRepoFn(sf) && load.ShortPkg(load.FnPkgPath(sf)) != "logger" {
						return true
					}
					if _, isClosure := cc.Value.(*ssa.MakeClosure); isClosure {
						return true
					}
				}
				return false
			}
			type st struct {
				b    *ssa.BasicBlock
				mask int
				just bool
			}
			seen := map[st]bool{}
			stack := []st{{cb.Blocks[0], 0, false}}
			full := (1 << len(policy)) - 1
			bad := ""
			lm := c.Loud()
			for len(stack) > 0 && bad == "" {
				s := stack[len(stack)-1]
				stack = stack[:len(stack)-1]
				if seen[s] {
					continue
				}
				seen[s] = true
				if isProcessing(s.b) || lm.BlockDies(s.b) {
					continue
				}
				last := s.b.Instrs[len(s.b.Instrs)-1]
				if r, ok := last.(*ssa.Return); ok {
					op := retErrOperand(r)
					if _, isNil := op.(*ssa.Const); isNil && !s.just && !(len(policy) > 0 && s.mask == full) {
						bad = fmt.Sprintf("the callback returns without processing the entry at %s on a path where the entry is not known to be a directory, no pattern failed to match and not every name test of the command (%s) failed: files the single-file form processes are silently left out of the --all run", c.P.InstrPos(r), strings.Join(policy, ", "))
					}
					continue
				}
				iff, isIf := last.(*ssa.If)
				for si, sc := range s.b.Succs {
					n := st{sc, s.mask, s.just}
					if isIf && s.b.Succs[0] != s.b.Succs[1] {
						cond, neg := unwrapNot(iff.Cond)
						val := si == 0
						if neg {
							val = !val
						}
						switch k := classify(cond, val); {
						case k == -1:
							n.just = true
						case k >= 0:
							n.mask |= 1 << k
						}
					}
					stack = append(stack, n)
				}
			}
			// and the other way round: with a name policy, an entry is processed only after one of its name tests passed
			if bad == "" && len(policy) > 0 {
				passed := func(cond ssa.Value, val bool) bool {
					for _, p := range policy {
						if extPred(p)(cond, val) {
							return true
						}
					}
					return suffixPred(policy)(cond, val)
				}
				for _, b := range cb.Blocks {
					if !isProcessing(b) {
						continue
					}
					var first ssa.Instruction
					for _, in := range b.Instrs {
						if cc := callCommon(in); cc != nil {
							if sf := staticFn(cc); sf != nil && c.P.IsRepoFn(sf) && load.ShortPkg(load.FnPkgPath(sf)) != "logger" {
								// a call that is handed the walked path or entry
								for _, a := range cc.Args {
									if _, isParam := a.(*ssa.Parameter); isParam {
										first = in
									}
								}
							}
						}
					}
					if first != nil && !c.guardedByEdges(first, passed) {
						bad = fmt.Sprintf("the entry is processed at %s without having passed a name test of the command (%s): files of other kinds below the directory are read as if they were targets", c.P.InstrPos(first), strings.Join(policy, ", "))
					}
				}
			}
			// a callback that tells directories from files must do so on every path to the per-file work: a
			// condition regrouped so that one alternative escapes the IsDir test (`!d.IsDir() && a || b`) hands
			// directories to the code that reads files
			if bad == "" {
				testsDir := false
				allInstrs(cb, func(in ssa.Instruction) {
					if call, ok := in.(*ssa.Call); ok && call.Call.IsInvoke() && call.Call.Method.Name() == "IsDir" {
						testsDir = true
					}
				})
				notDir := func(cond ssa.Value, val bool) bool {
					call, ok := cond.(*ssa.Call)
					return ok && call.Call.IsInvoke() && call.Call.Method.Name() == "IsDir" && !val
				}
				if testsDir {
					for _, b := range cb.Blocks {
						if !isProcessing(b) || bad != "" {
							continue
						}
						for _, in := range b.Instrs {
							cc := callCommon(in)
							if cc == nil {
								continue
							}
							sf := staticFn(cc)
							if sf == nil || !c.P.IsRepoFn(sf) || load.ShortPkg(load.FnPkgPath(sf)) == "logger" {
								continue
							}
							handed := false
							for _, a := range cc.Args {
								if _, isParam := a.(*ssa.Parameter); isParam {
									handed = true
								}
							}
							if handed && !c.guardedByEdges(in, notDir) {
								bad = fmt.Sprintf("the callback tests IsDir() but the entry reaches %s at %s on a path that did not find it to be a file: a directory whose name passes the name test is read as if it were a file and the walk ends there", load.FnName(sf), c.P.InstrPos(in))
								break
							}
						}
					}
				}
			}
			if bad != "" {
				res.bad(key, c.P.FnPos(cb), bad)
			} else {
				res.ok(key, c.P.FnPos(cb), "an entry is skipped only when it is a directory, the walk failed, a pattern did not match or every name test of the policy failed; it is processed only after a name test passed")
			}
		}
	}
	return res
}

// ---------- WALK-ERR ----------

// RuleWalkErr (C16): the error a directory walk hands to its callback is a
// failure like any other: on the side of a test that found it non-nil (or of
// a specific kind) every path fails - returns a non-nil error, exits loudly or
// records a failure. Returning nil there makes the walk continue and the
// command succeed although part of the tree could not be read.
func (c *Ctx) RuleWalkErr() *Result {
	res := &Result{Rule: "WALK-ERR", MinInst: 4}
	seen := map[*ssa.Function]bool{}
	for _, cmd := range c.Commands().Commands {
		for _, cb := range c.perFileCallbacks(cmd) {
			cb = unwrapBound(cb)
			if seen[cb] || len(cb.Blocks) == 0 {
				continue
			}
			seen[cb] = true
			var errParam *ssa.Parameter
			for _, p := range cb.Params {
				if isErrorType(p.Type()) {
					errParam = p
				}
			}
			if errParam == nil {
				continue
			}
			key := load.FnName(cb) + ":error handed in by the walk"
			tests, bad := 0, ""
			for _, r := range referrers(errParam) {
				var cond ssa.Value
				nonNilWhenTrue := true
				switch x := r.(type) {
				case *ssa.BinOp:
					_, trueMeansNil, isTest := nilTest(x)
					if !isTest {
						continue
					}
					cond, nonNilWhenTrue = x, !trueMeansNil
				case *ssa.Call:
					if !isFn(staticCallee(&x.Call), "errors", "Is") {
						continue
					}
					cond = x
				default:
					continue
				}
				for _, br := range condBranches(cond) {
					tests++
					succ := 0
					if nonNilWhenTrue == br.neg {
						succ = 1
					}
					blk := br.iff.Block()
					env := newEnvAt(blk)
					env.facts[errParam] = nonNil
					target := blk.Succs[succ]
					env.enter(target, blk)
					if ok, _, off := c.loudFrom(target, env, map[ssa.Value]bool{errParam: true}); !ok && bad == "" {
						bad = fmt.Sprintf("the walk reported an error (test at %s) and the callback goes on as if nothing happened: %s", c.P.InstrPos(br.iff), off)
					}
				}
			}
			if tests == 0 {
				continue
			}
			res.Instances++
			if bad != "" {
				res.bad(key, c.P.FnPos(cb), bad)
			} else {
				res.ok(key, c.P.FnPos(cb), fmt.Sprintf("%d test(s) of the walk's error; the failing side returns it, exits loudly or records a failure on every path", tests))
			}
		}
	}
	return res
}

// isLineText: v is a line of the text being read, as delivered: Scanner.Text /
// Bytes, or what ReadString / ReadBytes returned with nothing but the line
// terminator removed (TrimSuffix / TrimRight with a constant made of \r and
// \n), also through a helper of the repository that returns such a value.
func (c *Ctx) isLineText(v ssa.Value, depth int) bool {
	if depth > 5 {
		return false
	}
	v = stripConv(v)
	readCall := func(call *ssa.Call) bool {
		f := staticCallee(&call.Call)
		if f == nil || !(f.Name() == "ReadString" || f.Name() == "ReadBytes") {
			return false
		}
		return (objPkgPath(f) == "bufio" && recvNamed(f) == "Reader") || (objPkgPath(f) == "bytes" && recvNamed(f) == "Buffer")
	}
	helperReturns := func(sf *ssa.Function) bool {
		if sf == nil || !c.P.IsRepoFn(sf) || len(sf.Blocks) == 0 {
			return false
		}
		n, all := 0, true
		allInstrs(sf, func(in ssa.Instruction) {
			r, ok := in.(*ssa.Return)
			if !ok || len(r.Results) == 0 {
				return
			}
			if cs, ok := constString(stripConv(r.Results[0])); ok && cs == "" {
				return // the "no more lines" return
			}
			n++
			if !c.isLineText(r.Results[0], depth+1) {
				all = false
			}
		})
		return n > 0 && all
	}
	switch x := v.(type) {
	case *ssa.Call:
		f := staticCallee(&x.Call)
		if isMeth(f, "bufio", "Scanner", "Text") || isMeth(f, "bufio", "Scanner", "Bytes") {
			return true
		}
		if f != nil && (objPkgPath(f) == "strings" || objPkgPath(f) == "bytes") && (f.Name() == "TrimSuffix" || f.Name() == "TrimRight") && len(x.Call.Args) == 2 {
			if cut, ok := constString(stripConv(x.Call.Args[1])); ok && cut != "" && strings.Trim(cut, "\r\n") == "" {
				return c.isLineText(x.Call.Args[0], depth+1)
			}
		}
		if x.Call.Signature().Results().Len() == 1 {
			return helperReturns(staticFn(&x.Call))
		}
	case *ssa.Extract:
		if x.Index != 0 {
			return false
		}
		if call, ok := x.Tuple.(*ssa.Call); ok {
			if readCall(call) {
				return true
			}
			return helperReturns(staticFn(&call.Call))
		}
	case *ssa.Phi:
		if len(x.Edges) == 0 {
			return false
		}
		for _, e := range x.Edges {
			if e == ssa.Value(x) {
				continue
			}
			if !c.isLineText(e, depth+1) {
				return false
			}
		}
		return true
	}
	return false
}

// flowsIntoPhiThroughAppend: like flowsIntoPhi, also through append(v, more...) (the byte-slice form of v + more).
func flowsIntoPhiThroughAppend(v ssa.Value, target *ssa.Phi, depth int) bool {
	if depth > 6 {
		return false
	}
	for _, r := range referrers(v) {
		switch x := r.(type) {
		case *ssa.Phi:
			if x == target || flowsIntoPhiThroughAppend(x, target, depth+1) {
				return true
			}
		case *ssa.Call:
			if bi, ok := x.Call.Value.(*ssa.Builtin); ok && bi.Name() == "append" && len(x.Call.Args) > 0 && x.Call.Args[0] == v {
				if flowsIntoPhiThroughAppend(x, target, depth+1) {
					return true
				}
			}
		}
	}
	return false
}

// inputScope: the functions through which the text of an assembly file (or
// standard input) travels: everything reachable from Operator.Run and from the
// entry points of generate, update and compare.
func (c *Ctx) inputScope() map[string]bool {
	scope := c.reachFromNamed(func(n string) bool { return n == "(*regex/operators.Operator).Run" })
	for _, name := range []string{"generate", "update", "compare"} {
		if cmd := c.Commands().ByName[name]; cmd != nil {
			for fn := range c.Graph().Reach(c.EntryRoots(cmd)) {
				if c.P.IsRepoFn(fn) {
					scope[load.FnName(fn)] = true
				}
			}
		}
	}
	return scope
}

// tablePairedMinLen: the call is row.handler(..., pattern.FindStringSubmatch(...)) with pattern = patterns[row.name],
// row an element of a package-level table literal that nothing modifies. The rows whose handler is fn name the
// patterns fn can be called with; the shortest match any of them yields is the answer.
func (c *Ctx) tablePairedMinLen(cc *ssa.CallCommon, pi int, fn *ssa.Function, site ssa.Instruction) (int64, bool) {
	arg := stripConv(cc.Args[pi])
	_, m, recv, _, ok := regexpCall(asInstr(arg))
	if !ok || !(m == "FindStringSubmatch" || m == "FindSubmatch") || !knownNonEmpty(c.factsAt(site), arg) {
		return -1, false
	}
	// the pattern: looked up by name, or the value of a range over the pattern map (the name is the key then)
	var patKey, patMap ssa.Value
	commaOk := true
	switch x := recv.(type) {
	case *ssa.Lookup:
		patKey, patMap, commaOk = x.Index, x.X, false
	case *ssa.Extract:
		switch t := x.Tuple.(type) {
		case *ssa.Lookup:
			patKey, patMap = t.Index, t.X
		case *ssa.Next:
			if rg, ok := t.Iter.(*ssa.Range); ok && x.Index == 2 {
				patMap = rg.X
				for _, r := range referrers(t) {
					if kx, ok := r.(*ssa.Extract); ok && kx.Index == 1 {
						patKey = kx
					}
				}
			}
		}
	}
	if patKey == nil || patMap == nil {
		return -1, false
	}
	var entries map[string]*Pattern
	if ld, ok := patMap.(*ssa.UnOp); ok {
		if fa, ok := ld.X.(*ssa.FieldAddr); ok {
			if st, ok := derefType(fa.X.Type()).Underlying().(*types.Struct); ok {
				for _, pm := range c.patternMaps() {
					if pm.field == st.Field(fa.Field) && len(pm.unres) == 0 {
						if entries != nil {
							return -1, false // filled in two places
						}
						entries = pm.entries
					}
				}
			}
		}
	}
	if entries == nil {
		return -1, false
	}
	// the handlers by name
	type pair struct {
		name    ssa.Value
		handler ssa.Value
	}
	var pairs []pair
	if row, handlerField, ok := rowField(cc.Value); ok {
		// a table of rows {name, ..., handler}
		krow, keyField, ok := rowField(patKey)
		if !ok || krow != row {
			return -1, false
		}
		ia := rowSource(row)
		if ia == nil {
			return -1, false
		}
		var g *ssa.Global
		switch t := ia.X.(type) {
		case *ssa.Global:
			g = t
		case *ssa.UnOp:
			g, _ = t.X.(*ssa.Global)
		}
		if g == nil {
			return -1, false
		}
		rows, ok := c.globalTableRows(g)
		if !ok {
			return -1, false
		}
		for _, r := range rows {
			if hv, has := r[handlerField]; has { // a nil handler is never called
				pairs = append(pairs, pair{r[keyField], hv})
			}
		}
	} else {
		// a map from name to handler, looked up with the pattern's name
		var lk *ssa.Lookup
		switch x := stripConv(cc.Value).(type) {
		case *ssa.Lookup:
			lk = x
		case *ssa.Extract:
			lk, _ = x.Tuple.(*ssa.Lookup)
		}
		if lk == nil || lk.Index != patKey {
			return -1, false
		}
		ents, ok := c.globalMapLiteral(lk.X)
		if !ok {
			return -1, false
		}
		for _, e := range ents {
			pairs = append(pairs, pair{e[0], e[1]})
		}
	}
	min := int64(-1)
	for _, pr := range pairs {
		mine := false
		for _, f := range fnValuesIn(pr.handler, 3) {
			if f == fn {
				mine = true
			}
		}
		if !mine {
			continue
		}
		if pr.name == nil {
			return -1, false
		}
		name, ok := constString(pr.name)
		if !ok {
			return -1, false
		}
		p := entries[name]
		if p == nil {
			if commaOk {
				continue // no pattern of that name: never matched, the handler is not reached through this row
			}
			return -1, false
		}
		if l := int64(p.NumCap()) + 1; min < 0 || l < min {
			min = l
		}
	}
	return min, min >= 0
}

// globalMapLiteral: the entries of a package-level map written as one literal in the package initialiser and
// never updated (keys constant; values whatever they are).
func (c *Ctx) globalMapLiteral(v ssa.Value) (entries [][2]ssa.Value, ok bool) {
	ld, isLd := v.(*ssa.UnOp)
	if !isLd || ld.Op != token.MUL {
		return nil, false
	}
	gl, isG := ld.X.(*ssa.Global)
	if !isG {
		return nil, false
	}
	okAll := true
	stores := 0
	for _, fn := range c.P.RepoFns {
		allInstrs(fn, func(in ssa.Instruction) {
			switch x := in.(type) {
			case *ssa.Store:
				if x.Addr != ssa.Value(gl) {
					return
				}
				stores++
				mk, isMk := x.Val.(*ssa.MakeMap)
				if fn.Name() != "init" || !isMk {
					okAll = false
					return
				}
				for _, r := range referrers(mk) {
					if mu, isMu := r.(*ssa.MapUpdate); isMu {
						k := stripConv(mu.Key)
						if _, kc := k.(*ssa.Const); !kc {
							okAll = false
						}
						entries = append(entries, [2]ssa.Value{k, mu.Value})
					}
				}
			case *ssa.MapUpdate:
				if l2, isL := x.Map.(*ssa.UnOp); isL && l2.X == ssa.Value(gl) {
					okAll = false
				}
			}
		})
	}
	return entries, okAll && stores == 1
}

// rowField: v is field f of a struct value or variable; returns that struct (value, local variable or element address).
func rowField(v ssa.Value) (ssa.Value, int, bool) {
	switch x := stripConv(v).(type) {
	case *ssa.Field:
		return x.X, x.Field, true
	case *ssa.UnOp:
		if fa, ok := x.X.(*ssa.FieldAddr); ok && x.Op == token.MUL {
			return fa.X, fa.Field, true
		}
	}
	return nil, 0, false
}

// rowSource: the element address a row was taken from: the row is the element itself, its value, or a local
// variable assigned that value once (the variable of a range statement).
func rowSource(row ssa.Value) *ssa.IndexAddr {
	switch x := row.(type) {
	case *ssa.IndexAddr:
		return x
	case *ssa.UnOp:
		if ia, ok := x.X.(*ssa.IndexAddr); ok && x.Op == token.MUL {
			return ia
		}
	case *ssa.Alloc:
		var src *ssa.IndexAddr
		n := 0
		for _, r := range referrers(x) {
			if st, ok := r.(*ssa.Store); ok && st.Addr == ssa.Value(x) {
				n++
				if ld, ok := st.Val.(*ssa.UnOp); ok && ld.Op == token.MUL {
					src, _ = ld.X.(*ssa.IndexAddr)
				}
			}
		}
		if n == 1 {
			return src
		}
	}
	return nil
}

// globalTableRows: the rows of a package-level slice or array of structs written as one literal
// (field index -> value); ok only when the variable is assigned once, in the package initialiser, and no
// element is stored to anywhere else.
func (c *Ctx) globalTableRows(g *ssa.Global) ([]map[int]ssa.Value, bool) {
	var arr ssa.Value
	stores := 0
	clean := true
	for _, fn := range c.P.RepoFns {
		allInstrs(fn, func(in ssa.Instruction) {
			st, ok := in.(*ssa.Store)
			if !ok {
				return
			}
			if st.Addr == ssa.Value(g) {
				stores++
				if fn.Name() != "init" {
					clean = false
				}
				if sl, ok := st.Val.(*ssa.Slice); ok && sl.Low == nil && sl.High == nil {
					arr = sl.X
				}
				return
			}
			// an element assigned through the variable
			a := st.Addr
			for i := 0; i < 6; i++ {
				switch x := a.(type) {
				case *ssa.FieldAddr:
					a = x.X
					continue
				case *ssa.IndexAddr:
					a = x.X
					continue
				case *ssa.UnOp:
					if x.X == ssa.Value(g) {
						clean = false
					}
				case *ssa.Global:
					if x == g && a != st.Addr {
						clean = false
					}
				}
				break
			}
		})
	}
	if g.Pkg != nil {
		if initFn := g.Pkg.Func("init"); initFn != nil && arr == nil {
			// an array variable is filled in place: rows are addressed through the global itself
			if _, isArr := derefType(g.Type()).Underlying().(*types.Array); isArr && stores == 0 {
				clean = false // not modelled
			}
		}
	}
	al, ok := arr.(*ssa.Alloc)
	if !ok || !clean || stores != 1 {
		return nil, false
	}
	byIdx := map[int64]map[int]ssa.Value{}
	max := int64(-1)
	for _, r := range referrers(al) {
		ia, ok := r.(*ssa.IndexAddr)
		if !ok {
			continue
		}
		i, ok := constInt(ia.Index)
		if !ok {
			return nil, false
		}
		if i > max {
			max = i
		}
		row := byIdx[i]
		if row == nil {
			row = map[int]ssa.Value{}
			byIdx[i] = row
		}
		for _, rr := range referrers(ia) {
			switch x := rr.(type) {
			case *ssa.FieldAddr:
				for _, r3 := range referrers(x) {
					if st, ok := r3.(*ssa.Store); ok && st.Addr == ssa.Value(x) {
						row[x.Field] = st.Val
					}
				}
			case *ssa.Store:
				// a whole struct value stored: not a literal the rule reads
				if x.Addr == ssa.Value(ia) {
					return nil, false
				}
			}
		}
	}
	var rows []map[int]ssa.Value
	for i := int64(0); i <= max; i++ {
		if byIdx[i] == nil {
			byIdx[i] = map[int]ssa.Value{}
		}
		rows = append(rows, byIdx[i])
	}
	return rows, len(rows) > 0
}

// submatchOfUnresolvedPattern: v is the result of a Find*Submatch call whose pattern is not a known constant
// (looked up in a table by name).
func (c *Ctx) submatchOfUnresolvedPattern(v ssa.Value) bool {
	v = stripConv(v)
	if ph, ok := v.(*ssa.Phi); ok {
		for _, e := range ph.Edges {
			if c.submatchOfUnresolvedPattern(e) {
				return true
			}
		}
		return false
	}
	_, m, recv, _, ok := regexpCall(asInstr(v))
	if !ok || !strings.Contains(m, "Submatch") {
		return false
	}
	p, _ := c.Rx().Resolve(recv)
	return p == nil
}

// firstCall: some call instruction of fn (only used as a typed placeholder for "the entry of fn").
func firstCall(fn *ssa.Function) (*ssa.Call, bool) {
	var out *ssa.Call
	allInstrs(fn, func(in ssa.Instruction) {
		if c, ok := in.(*ssa.Call); ok && out == nil {
			out = c
		}
	})
	return out, out != nil
}

// factsNonNil: the branch facts that hold on entry to block b say that v is not nil.
func (c *Ctx) factsNonNil(b *ssa.BasicBlock, v ssa.Value) bool {
	if len(b.Instrs) == 0 {
		return false
	}
	return knownNonEmpty(c.factsAt(b.Instrs[0]), v)
}
