package rules

import (
	"fmt"
	"go/token"
	"go/types"
	"sort"
	"strings"

	"golang.org/x/tools/go/ssa"

	"crsverif/internal/load"
)

// walkEdgeIndex: the index of the last edge of the chain that enters a
// callback handed to filepath.WalkDir (-1 if none). Frames above that index
// (index+1 ..) are executed once per file.
func walkEdgeIndex(ch *chain) int {
	last := -1
	for i, e := range ch.edges {
		mc, ok := e.Site.(*ssa.MakeClosure)
		if !ok {
			continue
		}
		users := append([]ssa.Instruction(nil), referrers(mc)...)
		for _, r := range referrers(mc) {
			if ct, ok := r.(*ssa.ChangeType); ok {
				users = append(users, referrers(ct)...)
			}
		}
		for _, r := range users {
			if call, ok := r.(*ssa.Call); ok {
				f := staticCallee(&call.Call)
				if isFn(f, "path/filepath", "WalkDir") || isFn(f, "path/filepath", "Walk") {
					last = i
				}
			}
		}
	}
	return last
}

// allocFrame resolves, along a chain, the constructor call that created the
// object v (living in frame k). Returns the constructor name and the frame it
// was called in, or ok=false.
func (s *slicer) allocFrame(v ssa.Value, k int, depth int) (ctor *ssa.Call, frame int, why string) {
	if depth > 20 {
		return nil, 0, "followed too deep"
	}
	switch x := v.(type) {
	case *ssa.Call:
		return x, k, ""
	case *ssa.Parameter:
		fn := s.fnAt(k)
		idx := -1
		for i, q := range fn.Params {
			if q == x {
				idx = i
			}
		}
		if k == 0 || idx < 0 {
			return nil, 0, "comes from outside the command (parameter " + x.Name() + ")"
		}
		e := s.ch.edges[k-1]
		cc := callCommon(e.Site)
		if cc != nil && staticFn(cc) == fn && idx < len(cc.Args) {
			return s.allocFrame(cc.Args[idx], k-1, depth+1)
		}
		return nil, 0, "is a parameter of a callback"
	case *ssa.FreeVar:
		fn := s.fnAt(k)
		if k == 0 {
			return nil, 0, "captured from outside"
		}
		idx := -1
		for i, f := range fn.FreeVars {
			if f == x {
				idx = i
			}
		}
		parent := s.fnAt(k - 1)
		var bind ssa.Value
		allInstrs(parent, func(in ssa.Instruction) {
			if mc, ok := in.(*ssa.MakeClosure); ok && mc.Fn == fn && idx >= 0 && idx < len(mc.Bindings) {
				bind = mc.Bindings[idx]
			}
		})
		if bind == nil {
			return nil, 0, "captured variable without binding"
		}
		return s.allocFrame(bind, k-1, depth+1)
	case *ssa.UnOp:
		if x.Op != token.MUL {
			break
		}
		switch a := x.X.(type) {
		case *ssa.Alloc:
			var stored []ssa.Value
			for _, r := range referrers(a) {
				if st, ok := r.(*ssa.Store); ok && st.Addr == ssa.Value(a) {
					stored = append(stored, st.Val)
				}
			}
			if len(stored) == 1 {
				return s.allocFrame(stored[0], k, depth+1)
			}
			return nil, 0, "variable assigned more than once"
		case *ssa.FreeVar:
			ctor, fr, why := s.allocFrame(a, k, depth+1)
			if ctor != nil {
				return ctor, fr, why
			}
			// binding is an Alloc in the parent
			fn := s.fnAt(k)
			if al := allocOf(a, fn); al != nil && k > 0 {
				var stored []ssa.Value
				for _, r := range referrers(al) {
					if st, ok := r.(*ssa.Store); ok && st.Addr == ssa.Value(al) {
						stored = append(stored, st.Val)
					}
				}
				if len(stored) == 1 {
					return s.allocFrame(stored[0], k-1, depth+1)
				}
			}
			return nil, 0, why
		case *ssa.Global:
			return nil, -1, "is the package-level variable " + a.Name()
		case *ssa.FieldAddr:
			return nil, -1, "is loaded from a field"
		}
	case *ssa.Phi:
		return nil, 0, "comes from several places"
	case *ssa.Alloc:
		return nil, k, ""
	}
	return nil, 0, fmt.Sprintf("has an unrecognised origin (%T)", v)
}

// returnsFreshFrom: every result H returns is the result of a call of the constructor named
// ctor made in H itself (possibly configured through method calls before it is returned).
func returnsFreshFrom(c *Ctx, H *ssa.Function, ctor string) bool {
	if H == nil || !c.P.IsRepoFn(H) || len(H.Blocks) == 0 {
		return false
	}
	n, good := 0, true
	allInstrs(H, func(in ssa.Instruction) {
		r, ok := in.(*ssa.Return)
		if !ok || len(r.Results) == 0 || c.Loud().BlockDies(r.Block()) {
			return
		}
		n++
		v := stripConv(r.Results[0])
		if ld, isLd := v.(*ssa.UnOp); isLd && ld.Op == token.MUL {
			if al, isAl := ld.X.(*ssa.Alloc); isAl {
				var stored []ssa.Value
				for _, rr := range referrers(al) {
					if st, isSt := rr.(*ssa.Store); isSt && st.Addr == ssa.Value(al) {
						stored = append(stored, st.Val)
					}
				}
				if len(stored) == 1 {
					v = stripConv(stored[0])
				}
			}
		}
		call, isCall := v.(*ssa.Call)
		if !isCall {
			good = false
			return
		}
		if f := staticCallee(&call.Call); f == nil || f.Name() != ctor {
			good = false
		}
	})
	return good && n > 0
}

// isTallyField: the store st increments a numeric field by a constant (f = f + k), and everywhere in
// the repository the field is otherwise only read to be logged: a tally of files written, which
// cannot influence how the next file is processed.
func (c *Ctx) isTallyField(fa *ssa.FieldAddr, st *ssa.Store) bool {
	b, ok := st.Val.(*ssa.BinOp)
	if !ok || b.Op != token.ADD {
		return false
	}
	own, ok := b.X.(*ssa.UnOp)
	if !ok || own.Op != token.MUL {
		return false
	}
	ofa, ok := own.X.(*ssa.FieldAddr)
	if !ok || ofa.X != fa.X || ofa.Field != fa.Field {
		return false
	}
	if _, isConst := b.Y.(*ssa.Const); !isConst {
		return false
	}
	f := fieldVarOf(fa)
	if f == nil {
		return false
	}
	stores, loads := c.fieldAccesses(f)
	for _, s2 := range stores {
		if _, isConst := s2.Val.(*ssa.Const); isConst {
			continue
		}
		b2, ok := s2.Val.(*ssa.BinOp)
		if !ok || b2.Op != token.ADD {
			return false
		}
		if _, isConst := b2.Y.(*ssa.Const); !isConst {
			return false
		}
	}
	for _, ld := range loads {
		for _, r := range referrers(ld) {
			switch x := r.(type) {
			case *ssa.BinOp:
				// the increment itself
				isInc := false
				for _, rr := range referrers(x) {
					if s3, ok := rr.(*ssa.Store); ok {
						if a3, ok := s3.Addr.(*ssa.FieldAddr); ok && fieldVarOf(a3) == f {
							isInc = true
						}
					}
				}
				if !isInc {
					return false
				}
			case *ssa.MakeInterface:
				// handed to a log call
				for _, rr := range referrers(x) {
					okUse := false
					switch y := rr.(type) {
					case *ssa.Store:
						okUse = true // into the argument array of a variadic call
						_ = y
					case *ssa.Call:
						okUse = isLogCall(y)
					}
					if !okUse {
						return false
					}
				}
			case *ssa.Call:
				if !isLogCall(x) {
					return false
				}
			case *ssa.DebugRef:
			default:
				return false
			}
		}
	}
	return true
}

// RuleIsoFresh: per-file objects are allocated per file.
func (c *Ctx) RuleIsoFresh() *Result {
	res := &Result{Rule: "ISO-FRESH", MinInst: 4}
	cm := c.Commands()
	type want struct {
		pkg, recv, method string
		ctorName          string
		ctxArgCtor        string // constructor the first argument of ctor must come from ("" = none)
	}
	wants := []want{
		{load.ModulePath + "/regex/operators", "Operator", "Run", "NewAssembler", "NewContext"},
		{load.ModulePath + "/regex/parser", "Parser", "Parse", "NewParser", ""},
	}
	for _, name := range []string{"generate", "update", "compare", "format"} {
		cmd := cm.ByName[name]
		if cmd == nil {
			continue
		}
		reach := c.Graph().Reach(c.EntryRoots(cmd))
		var fns []*ssa.Function
		for fn := range reach {
			fns = append(fns, fn)
		}
		sort.Slice(fns, func(i, j int) bool { return load.FnName(fns[i]) < load.FnName(fns[j]) })
		for _, fn := range fns {
			allInstrs(fn, func(in ssa.Instruction) {
				call, ok := in.(*ssa.Call)
				if !ok {
					return
				}
				f := staticCallee(&call.Call)
				for _, w := range wants {
					if !isMeth(f, w.pkg, w.recv, w.method) {
						continue
					}
					res.Instances++
					key := fmt.Sprintf("cmd %s:%s:%s.%s receiver", name, load.FnName(fn), w.recv, w.method)
					pos := c.P.InstrPos(call)
					chains, complete := c.chainsTo(cmd, fn, 64)
					if !complete || len(chains) == 0 {
						res.undecided(key, pos, "call chains could not be enumerated")
						continue
					}
					var problems []string
					for _, ch := range chains {
						sl := &slicer{c: c, ch: ch}
						k := len(ch.edges)
						wi := walkEdgeIndex(ch)
						ctor, fr, why := sl.allocFrame(call.Call.Args[0], k, 0)
						if ctor == nil {
							problems = append(problems, fmt.Sprintf("via %s: the %s %s", ch.String(), w.recv, why))
							continue
						}
						cf := staticCallee(&ctor.Call)
						if cf == nil || cf.Name() != w.ctorName {
							problems = append(problems, fmt.Sprintf("via %s: the %s is not the result of %s", ch.String(), w.recv, w.ctorName))
							continue
						}
						if fr <= wi {
							problems = append(problems, fmt.Sprintf("via %s: the %s is created in %s, outside the per-file callback: one %s serves every file of the --all run", ch.String(), w.recv, load.FnName(sl.fnAt(fr)), w.recv))
							continue
						}
						if w.ctxArgCtor != "" {
							c2, fr2, why2 := sl.allocFrame(ctor.Call.Args[0], fr, 0)
							if c2 == nil {
								problems = append(problems, fmt.Sprintf("via %s: the context given to %s %s", ch.String(), w.ctorName, why2))
								continue
							}
							cf2 := staticCallee(&c2.Call)
							if cf2 != nil && cf2.Name() != w.ctxArgCtor && returnsFreshFrom(c, staticFn(&c2.Call), w.ctxArgCtor) {
								// a helper that makes the context, configures it and hands it back: as fresh as its call
								if fr2 <= wi {
									problems = append(problems, fmt.Sprintf("via %s: the processors context (stash of stored expressions) is created in %s, outside the per-file callback, and shared by every file of the --all run", ch.String(), load.FnName(sl.fnAt(fr2))))
								}
								continue
							}
							if cf2 == nil || cf2.Name() != w.ctxArgCtor {
								problems = append(problems, fmt.Sprintf("via %s: the context given to %s is not the result of %s", ch.String(), w.ctorName, w.ctxArgCtor))
								continue
							}
							if fr2 <= wi {
								problems = append(problems, fmt.Sprintf("via %s: the processors context (stash of stored expressions) is created in %s, outside the per-file callback, and shared by every file of the --all run", ch.String(), load.FnName(sl.fnAt(fr2))))
							}
						}
					}
					if len(problems) > 0 {
						res.bad(key, pos, strings.Join(uniq(problems), "; "))
					} else {
						res.ok(key, pos, fmt.Sprintf("%d chain(s): receiver from %s (and its context from %s) created inside the per-file unit", len(chains), w.ctorName, w.ctxArgCtor))
					}
				}
			})
		}
	}
	return res
}

// perFileCallbacks: the WalkDir callbacks reachable from the entries of a command.
func (c *Ctx) perFileCallbacks(cmd *Command) []*ssa.Function {
	reach := c.Graph().Reach(c.EntryRoots(cmd))
	var out []*ssa.Function
	for fn := range reach {
		allInstrs(fn, func(in ssa.Instruction) {
			call, ok := in.(*ssa.Call)
			if !ok {
				return
			}
			f := staticCallee(&call.Call)
			if !(isFn(f, "path/filepath", "WalkDir") || isFn(f, "path/filepath", "Walk")) {
				return
			}
			for _, cb := range fnValuesIn(call.Call.Args[1], 2) {
				out = append(out, cb)
			}
		})
	}
	sort.Slice(out, func(i, j int) bool { return load.FnName(out[i]) < load.FnName(out[j]) })
	return out
}

// unwrapBound: the method behind a bound-method wrapper (walker.visit handed to WalkDir).
func unwrapBound(fn *ssa.Function) *ssa.Function {
	if fn == nil {
		return fn
	}
	// a callback that only delegates: func(p, d, err) error { return visit(p, d, err, more...) }
	if !strings.Contains(fn.Synthetic, "bound method wrapper") && len(fn.Blocks) == 1 {
		if r, ok := fn.Blocks[0].Instrs[len(fn.Blocks[0].Instrs)-1].(*ssa.Return); ok && len(r.Results) == 1 {
			if call, ok := r.Results[0].(*ssa.Call); ok {
				if sf := staticFn(&call.Call); sf != nil && len(sf.Blocks) > 0 && sf != fn {
					passed := 0
					for _, p := range fn.Params {
						for _, a := range call.Call.Args {
							if a == ssa.Value(p) {
								passed++
								break
							}
						}
					}
					onlyCall := true
					for _, in := range fn.Blocks[0].Instrs {
						switch in.(type) {
						case *ssa.Call, *ssa.Return, *ssa.UnOp, *ssa.DebugRef, *ssa.FieldAddr, *ssa.MakeInterface:
						default:
							onlyCall = false
						}
						if c2, ok := in.(*ssa.Call); ok && c2 != call {
							onlyCall = false
						}
					}
					if passed == len(fn.Params) && onlyCall {
						return unwrapBound(sf)
					}
				}
			}
		}
		return fn
	}
	if !strings.Contains(fn.Synthetic, "bound method wrapper") {
		return fn
	}
	var target *ssa.Function
	allInstrs(fn, func(in ssa.Instruction) {
		if cc := callCommon(in); cc != nil {
			if sf := staticFn(cc); sf != nil {
				target = sf
			}
		}
	})
	if target == nil {
		return fn
	}
	return target
}

// RuleIsoGlobal: nothing else survives from file to file.
func (c *Ctx) RuleIsoGlobal(commands ...string) *Result {
	res := &Result{Rule: "ISO-GLOBAL", MinInst: len(commands)}
	cm := c.Commands()
	g := c.Graph()
	doneGlobal := map[*ssa.Global]bool{}
	for _, name := range commands {
		var cbs []*ssa.Function
		if strings.HasPrefix(name, "unit:") {
			// the unit of isolation is one call of the named function (one compiled source)
			for _, fn := range c.P.RepoFns {
				if load.FnName(fn) == name[len("unit:"):] {
					cbs = append(cbs, fn)
				}
			}
		} else if cmd := cm.ByName[name]; cmd != nil {
			cbs = c.perFileCallbacks(cmd)
		} else {
			continue
		}
		if len(cbs) == 0 {
			res.Instances++
			res.undecided("cmd "+name+":per-file callback", "", "the command has no directory-walk callback: the per-file unit cannot be identified")
			continue
		}
		reach := g.Reach(cbs)
		res.Instances++
		res.ok("cmd "+name+":per-file unit", c.P.FnPos(cbs[0]), fmt.Sprintf("%d functions reachable from the walk callback(s) %s", len(reach), fnNames(cbs)))
		// (1) stores to package-level variables, one obligation per variable
		var fns []*ssa.Function
		for fn := range reach {
			fns = append(fns, fn)
		}
		sort.Slice(fns, func(i, j int) bool { return load.FnName(fns[i]) < load.FnName(fns[j]) })
		byGlobal := map[*ssa.Global][]ssa.Instruction{}
		var globals []*ssa.Global
		stateful := map[*ssa.Global]bool{} // buffered readers / writers / buffers kept in a package variable
		for _, fn := range fns {
			allInstrs(fn, func(in ssa.Instruction) {
				var addr ssa.Value
				switch x := in.(type) {
				case *ssa.Store:
					addr = x.Addr
				case *ssa.MapUpdate:
					if ld, ok := x.Map.(*ssa.UnOp); ok {
						addr = ld.X
					}
				case *ssa.Call:
					// the address of a package variable handed to a function that writes through it
					// a stateful object of the standard library kept in a package variable and used in per-file code
					if f := staticCallee(&x.Call); f != nil && statefulStdlibMethod(f) && len(x.Call.Args) > 0 {
						recv := x.Call.Args[0]
						if ld, ok := recv.(*ssa.UnOp); ok && ld.Op == token.MUL {
							recv = ld.X
						}
						if gl := rootGlobal(recv); gl != nil && load.InModule(gl.Pkg.Pkg.Path()) {
							if _, ok := byGlobal[gl]; !ok {
								globals = append(globals, gl)
							}
							byGlobal[gl] = append(byGlobal[gl], in)
							stateful[gl] = true
						}
						return
					}
					sf := staticFn(&x.Call)
					if sf == nil || !c.P.IsRepoFn(sf) {
						return
					}
					for i, a := range x.Call.Args {
						if gl := rootGlobal(a); gl != nil && i < len(sf.Params) && writesThroughParam(sf, sf.Params[i]) {
							if _, ok := byGlobal[gl]; !ok {
								globals = append(globals, gl)
							}
							byGlobal[gl] = append(byGlobal[gl], in)
						}
					}
					return
				default:
					return
				}
				gl := rootGlobal(addr)
				if gl == nil {
					return
				}
				if _, ok := byGlobal[gl]; !ok {
					globals = append(globals, gl)
				}
				byGlobal[gl] = append(byGlobal[gl], in)
			})
		}
		for _, gl := range globals {
			if doneGlobal[gl] {
				continue
			}
			doneGlobal[gl] = true
			res.Instances++
			gname := load.ShortPkg(gl.Pkg.Pkg.Path()) + "." + gl.Name()
			key := "pkg " + load.ShortPkg(gl.Pkg.Pkg.Path()) + ":package variable " + gl.Name()
			pos := c.P.InstrPos(byGlobal[gl][0])
			if stateful[gl] {
				if why := c.statefulGlobalUse(gl, byGlobal[gl], reach); why != "" {
					res.bad(key, pos, fmt.Sprintf("%s holds a buffered reader/writer or buffer that per-file code uses (reachable from %s): %s", gname, fnNames(cbs), why))
				} else {
					res.ok(key, pos, fmt.Sprintf("%d use site(s); the object is reset before every use and the code using it is not re-entered", len(byGlobal[gl])))
				}
				continue
			}
			if how := c.selfCleaning(gl, cbs, reach); how != "" {
				res.ok(key, pos, fmt.Sprintf("%d store site(s) in per-file code; %s", len(byGlobal[gl]), how))
				continue
			}
			var sites []string
			for _, in := range byGlobal[gl] {
				sites = append(sites, c.P.InstrPos(in))
			}
			res.bad(key, pos, fmt.Sprintf("%s is written while a file is processed (%s; reachable from %s) and is neither reset before its first use nor known to be empty after a successful run: what one file leaves there is seen by the next file of an --all run", gname, strings.Join(sites, ", "), fnNames(cbs)))
		}
		// (2) stores to variables captured by the callback: only constant stores
		for _, cb := range cbs {
			for _, fv := range cb.FreeVars {
				for _, r := range referrers(fv) {
					st, ok := r.(*ssa.Store)
					if !ok || st.Addr != ssa.Value(fv) {
						continue
					}
					res.Instances++
					key := fmt.Sprintf("%s:store to captured %s", load.FnName(cb), fv.Name())
					if _, isConst := st.Val.(*ssa.Const); isConst {
						res.ok(key, c.P.InstrPos(st), "constant store (failure flag): carries no per-file data")
					} else {
						res.bad(key, c.P.InstrPos(st), fmt.Sprintf("the callback stores a computed value into %s, which outlives the file being processed", fv.Name()))
					}
				}
			}
		}
		// (3) writes through objects that were created outside the per-file unit
		for _, o := range c.sharedWrites(cbs, reach) {
			res.Instances++
			res.bad(o.Key[len("ISO-GLOBAL:"):], o.Pos, o.Detail)
		}
	}
	return res
}

func fnNames(fns []*ssa.Function) string {
	var ns []string
	for _, f := range fns {
		ns = append(ns, load.FnName(f))
	}
	return strings.Join(ns, ", ")
}

// statefulGlobalUse judges a buffered object kept in a package variable: every
// function that touches it resets it first, and no function of a recursive
// cycle can reach a touching function (a nested use — an include inside an
// include — would re-target the object under its first user).
func (c *Ctx) statefulGlobalUse(gl *ssa.Global, sites []ssa.Instruction, reach map[*ssa.Function]*Edge) string {
	byFn := map[*ssa.Function][]ssa.Instruction{}
	for _, s := range sites {
		byFn[s.Parent()] = append(byFn[s.Parent()], s)
	}
	isReset := func(in ssa.Instruction) bool {
		cc := callCommon(in)
		if cc == nil {
			return false
		}
		f := staticCallee(cc)
		return f != nil && (f.Name() == "Reset" || f.Name() == "Truncate")
	}
	for fn, ss := range byFn {
		var reset ssa.Instruction
		for _, s := range ss {
			if isReset(s) {
				dom := true
				for _, o := range ss {
					if o != s && !instrDominates(s, o) {
						dom = false
					}
				}
				if dom {
					reset = s
				}
			}
		}
		if reset == nil {
			return fmt.Sprintf("%s uses it without resetting it first (%s): what the previous file left in it is read or appended to", load.FnName(fn), c.P.InstrPos(ss[0]))
		}
	}
	set := map[*ssa.Function]bool{}
	for fn := range reach {
		set[fn] = true
	}
	g := c.Graph()
	for _, comp := range c.sccs(set) {
		sub := g.Reach(comp)
		for fn := range byFn {
			if _, ok := sub[fn]; ok {
				return fmt.Sprintf("%s is reachable from the recursive cycle through %s: a nested use (an include inside an include) re-targets the object while the outer user still reads from it, and the outer file is cut off at the buffer boundary", load.FnName(fn), load.FnName(comp[0]))
			}
		}
	}
	return ""
}

// statefulStdlibMethod: a method of a buffered reader / writer / buffer / builder
// that changes (or depends on) the position or contents the object keeps.
func statefulStdlibMethod(f *types.Func) bool {
	switch objPkgPath(f) + "." + recvNamed(f) {
	case "bufio.Reader", "bufio.Writer", "bufio.Scanner", "bufio.ReadWriter", "bytes.Buffer", "bytes.Reader", "strings.Builder", "strings.Reader":
		switch f.Name() {
		case "Size", "Cap", "Available":
			return false
		}
		return true
	}
	return false
}

func rootGlobal(addr ssa.Value) *ssa.Global {
	for i := 0; i < 8; i++ {
		switch x := addr.(type) {
		case *ssa.Global:
			return x
		case *ssa.FieldAddr:
			addr = x.X
		case *ssa.IndexAddr:
			addr = x.X
		default:
			return nil
		}
	}
	return nil
}

// sharedWrites: field-based taint. Sources: pointer/map values captured by the
// walk callbacks (created outside the per-file unit). A store or map update
// through a tainted base is reported.
func (c *Ctx) sharedWrites(cbs []*ssa.Function, reach map[*ssa.Function]*Edge) []Obligation {
	tainted := map[ssa.Value]bool{}
	taintedField := map[*types.Var]bool{}
	refLike := func(t types.Type) bool {
		switch t.Underlying().(type) {
		case *types.Pointer, *types.Map, *types.Slice, *types.Interface:
			return true
		}
		return false
	}
	var work []ssa.Value
	add := func(v ssa.Value) {
		if v != nil && !tainted[v] {
			tainted[v] = true
			work = append(work, v)
		}
	}
	for _, cb := range cbs {
		for _, fv := range cb.FreeVars {
			// the free variable is the address of the captured variable; its loads are the values
			for _, r := range referrers(fv) {
				if ld, ok := r.(*ssa.UnOp); ok && ld.Op == token.MUL && refLike(ld.Type()) {
					add(ld)
				}
			}
		}
	}
	fieldOf := func(fa *ssa.FieldAddr) *types.Var {
		st, ok := derefType(fa.X.Type()).Underlying().(*types.Struct)
		if !ok {
			return nil
		}
		return st.Field(fa.Field)
	}
	inReach := func(fn *ssa.Function) bool { _, ok := reach[fn]; return ok }
	for iter := 0; iter < 50; iter++ {
		for len(work) > 0 {
			v := work[0]
			work = work[1:]
			for _, r := range referrers(v) {
				switch x := r.(type) {
				case *ssa.FieldAddr:
					// fields of a shared object are shared
					for _, rr := range referrers(x) {
						if ld, ok := rr.(*ssa.UnOp); ok && ld.Op == token.MUL && refLike(ld.Type()) {
							add(ld)
						}
					}
				case *ssa.Field:
					if refLike(x.Type()) {
						add(x)
					}
				case *ssa.Phi, *ssa.ChangeType, *ssa.ChangeInterface, *ssa.MakeInterface:
					add(x.(ssa.Value))
				case *ssa.Store:
					if x.Val == v {
						if fa, ok := x.Addr.(*ssa.FieldAddr); ok {
							if f := fieldOf(fa); f != nil && !taintedField[f] {
								taintedField[f] = true
							}
						}
					}
				case *ssa.Call:
					sf := staticFn(&x.Call)
					if sf != nil && c.P.IsRepoFn(sf) {
						for i, a := range x.Call.Args {
							if a == v && i < len(sf.Params) {
								add(sf.Params[i])
							}
						}
						// getters returning a field of a tainted receiver
						// (a method of the object; a constructor that is handed the shared object makes a new one)
						if len(x.Call.Args) > 0 && x.Call.Args[0] == v && refLike(x.Type()) && len(sf.Blocks) > 0 && len(sf.Blocks[0].Instrs) < 12 && sf.Signature.Recv() != nil {
							add(x)
						}
					}
				}
			}
		}
		// loads of tainted fields anywhere in the reachable code
		grew := false
		for fn := range reach {
			allInstrs(fn, func(in ssa.Instruction) {
				fa, ok := in.(*ssa.FieldAddr)
				if !ok {
					return
				}
				f := fieldOf(fa)
				if f == nil || !taintedField[f] {
					return
				}
				for _, rr := range referrers(fa) {
					if ld, ok := rr.(*ssa.UnOp); ok && ld.Op == token.MUL && !tainted[ld] {
						add(ld)
						grew = true
					}
				}
			})
		}
		if !grew && len(work) == 0 {
			break
		}
	}
	var out []Obligation
	seen := map[ssa.Instruction]bool{}
	for fn := range reach {
		if !inReach(fn) {
			continue
		}
		allInstrs(fn, func(in ssa.Instruction) {
			var base ssa.Value
			what := ""
			switch x := in.(type) {
			case *ssa.Store:
				if _, isConst := x.Val.(*ssa.Const); isConst {
					return // a constant (failure flag) carries no per-file data
				}
				switch a := x.Addr.(type) {
				case *ssa.FieldAddr:
					if c.isTallyField(a, x) {
						return // a counter that is only ever incremented and only read for a log line
					}
					base = a.X
					if f := fieldOf(a); f != nil {
						what = "field " + f.Name()
					}
				case *ssa.IndexAddr:
					base = a.X
					what = "element"
				}
			case *ssa.MapUpdate:
				base = x.Map
				what = "map entry"
			}
			if base == nil || !tainted[base] || seen[in] {
				return
			}
			seen[in] = true
			out = append(out, Obligation{
				Key:     fmt.Sprintf("ISO-GLOBAL:%s:write to shared %s", load.FnName(fn), what),
				Pos:     c.P.InstrPos(in),
				Verdict: Violated,
				Detail:  fmt.Sprintf("%s of an object created outside the per-file callback is written while a file is processed: the next file of the --all run sees it", what),
			})
		})
	}
	sort.Slice(out, func(i, j int) bool { return out[i].Key < out[j].Key })
	return out
}

// RuleIsoOwner: a parser's state is written only by that parser.
func (c *Ctx) RuleIsoOwner() *Result {
	res := &Result{Rule: "ISO-OWNER", MinInst: 5}
	parserPkg := load.ModulePath + "/regex/parser"
	for _, fn := range c.P.RepoFns {
		allInstrs(fn, func(in ssa.Instruction) {
			var fa *ssa.FieldAddr
			var stored ssa.Value
			kind := ""
			switch x := in.(type) {
			case *ssa.Store:
				a, ok := x.Addr.(*ssa.FieldAddr)
				if !ok {
					return
				}
				fa, stored, kind = a, x.Val, "assignment"
			case *ssa.MapUpdate:
				ld, ok := x.Map.(*ssa.UnOp)
				if !ok {
					return
				}
				a, ok := ld.X.(*ssa.FieldAddr)
				if !ok {
					return
				}
				fa, kind = a, "map update"
			case *ssa.Call:
				// &p.field handed to a callee (mergo.Merge(&p.variables, ...))
				for _, a := range x.Call.Args {
					if f, ok := stripConv(a).(*ssa.FieldAddr); ok && isNamed(f.X.Type(), parserPkg, "Parser") {
						fa, kind = f, "address handed to "+calleeLabel(&x.Call)
					}
				}
				if fa == nil {
					return
				}
			default:
				return
			}
			if !isNamed(fa.X.Type(), parserPkg, "Parser") {
				return
			}
			st := derefType(fa.X.Type()).Underlying().(*types.Struct)
			fname := st.Field(fa.Field).Name()
			res.Instances++
			key := fmt.Sprintf("%s:%s of Parser.%s", load.FnName(fn), strings.Split(kind, " ")[0], fname)
			pos := c.P.InstrPos(in)
			owner := false
			how := ""
			switch b := fa.X.(type) {
			case *ssa.Parameter:
				if fn.Signature.Recv() != nil && len(fn.Params) > 0 && fn.Params[0] == b {
					owner, how = true, "method on its own receiver"
				}
			case *ssa.Call:
				owner, how = true, "parser created in this function by "+calleeLabel(&b.Call)
			case *ssa.Alloc:
				owner, how = true, "parser allocated in this function"
			}
			if !owner {
				res.bad(key, pos, fmt.Sprintf("%s writes field %s of a parser it neither is nor created: state of an included file's parser leaks into another parser (or the other way round)", load.FnName(fn), fname))
				return
			}
			// maps are references: a map stored into a fresh parser must not be the including parser's
			if stored != nil {
				if _, isMap := stored.Type().Underlying().(*types.Map); isMap {
					if why := c.mapFromOtherParser(stored, fn, 0); why != "" {
						res.bad(key, pos, "the map stored into the new parser "+why+": both parsers then share one map, and definitions made in the included file appear in the including file")
						return
					}
				}
			}
			res.ok(key, pos, how)
		})
	}
	return res
}

// mapFromOtherParser: does the map value originate from a field of a Parser
// that is a parameter (the including parser)? Follows parameters to callers.
func (c *Ctx) mapFromOtherParser(v ssa.Value, fn *ssa.Function, depth int) string {
	parserPkg := load.ModulePath + "/regex/parser"
	if depth > 4 {
		return ""
	}
	switch x := v.(type) {
	case *ssa.UnOp:
		if fa, ok := x.X.(*ssa.FieldAddr); ok && isNamed(fa.X.Type(), parserPkg, "Parser") {
			if _, isParam := fa.X.(*ssa.Parameter); isParam {
				st := derefType(fa.X.Type()).Underlying().(*types.Struct)
				return "is field " + st.Field(fa.Field).Name() + " of the parser passed in as " + fa.X.Name()
			}
		}
	case *ssa.Phi:
		for _, e := range x.Edges {
			if why := c.mapFromOtherParser(e, fn, depth+1); why != "" {
				return why
			}
		}
	case *ssa.Parameter:
		idx := -1
		for i, p := range fn.Params {
			if p == x {
				idx = i
			}
		}
		for _, e := range c.Graph().In[fn] {
			cc := callCommon(e.Site)
			if cc == nil || staticFn(cc) != fn || idx < 0 || idx >= len(cc.Args) {
				continue
			}
			if why := c.mapFromOtherParser(cc.Args[idx], e.Caller, depth+1); why != "" {
				return why + " (passed by " + load.FnName(e.Caller) + ")"
			}
		}
	}
	return ""
}

// RuleFlagsReject (C05): a flags line in an included file is rejected.
func (c *Ctx) RuleFlagsReject() *Result {
	res := &Result{Rule: "FLAGS-REJECT", MinInst: 1}
	parserPkg := load.ModulePath + "/regex/parser"
	// functions that parse a child parser and hand its output on
	for _, fn := range c.P.RepoFns {
		var child *ssa.Call
		var parseCall *ssa.Call
		allInstrs(fn, func(in ssa.Instruction) {
			call, ok := in.(*ssa.Call)
			if !ok {
				return
			}
			f := staticCallee(&call.Call)
			if isMeth(f, parserPkg, "Parser", "Parse") {
				if cc, ok := call.Call.Args[0].(*ssa.Call); ok && staticCallee(&cc.Call) != nil && staticCallee(&cc.Call).Name() == "NewParser" {
					child, parseCall = cc, call
				}
			}
		})
		if child == nil || load.ShortPkg(load.FnPkgPath(fn)) != "regex/parser" {
			continue
		}
		res.Instances++
		key := load.FnName(fn) + ":flags of the included parser"
		pos := c.P.InstrPos(parseCall)
		// a test of len(child.Flags) > 0 with a failing true side, in this function or in
		// a callee that receives the child, must dominate every return
		checker := func(f *ssa.Function, pv ssa.Value) (ssa.Instruction, bool) {
			var found ssa.Instruction
			allInstrs(f, func(in ssa.Instruction) {
				b, ok := in.(*ssa.BinOp)
				if !ok {
					return
				}
				lc, ok := b.X.(*ssa.Call)
				if !ok {
					return
				}
				bi, ok := lc.Call.Value.(*ssa.Builtin)
				if !ok || bi.Name() != "len" {
					return
				}
				ld, ok := lc.Call.Args[0].(*ssa.UnOp)
				if !ok {
					return
				}
				fa, ok := ld.X.(*ssa.FieldAddr)
				if !ok || fa.X != pv {
					return
				}
				st := derefType(fa.X.Type()).Underlying().(*types.Struct)
				if _, isMap := st.Field(fa.Field).Type().Underlying().(*types.Map); !isMap {
					return
				}
				if kb, ok := st.Field(fa.Field).Type().Underlying().(*types.Map).Key().Underlying().(*types.Basic); !ok || kb.Kind() != types.Int32 {
					return
				}
				n, ok := constInt(b.Y)
				if !ok || n != 0 || b.Op != token.GTR {
					return
				}
				// the true side fails on every path
				for _, br := range condBranches(b) {
					succ := 0
					if br.neg {
						succ = 1
					}
					blk := br.iff.Block()
					env := newEnvAt(blk)
					target := blk.Succs[succ]
					env.enter(target, blk)
					if ok2, _, _ := c.loudFrom(target, env, nil); ok2 {
						found = b
					}
				}
				// and every successful return of f is only reached when the flags are empty
				if found != nil && fnHasErrResult(f) {
					noFlags := func(cond ssa.Value, val bool) bool { return cond == ssa.Value(b) && !val }
					allInstrs(f, func(in2 ssa.Instruction) {
						r, ok := in2.(*ssa.Return)
						if !ok {
							return
						}
						env := newEnvAt(r.Block())
						if op := retErrOperand(r); op != nil && env.nilnessOf(op) == nonNil {
							return
						}
						if !c.guardedByEdges(r, noFlags) {
							found = nil
						}
					})
				}
			})
			return found, found != nil
		}
		// the test one level further down: f hands the child to a helper that tests it, and
		// every return of f that is not a failure comes after that call, whose error is handled
		checkedBelow := func(f *ssa.Function, pv ssa.Value) bool {
			var inner *ssa.Call
			for _, r := range referrers(pv) {
				call, ok := r.(*ssa.Call)
				if !ok || call.Parent() != f {
					continue
				}
				g := staticFn(&call.Call)
				if g == nil || !c.P.IsRepoFn(g) {
					continue
				}
				for i, a := range call.Call.Args {
					if a == pv && i < len(g.Params) {
						if _, ok := checker(g, g.Params[i]); ok {
							if v, have := c.ErrVerdicts()[call]; have && v.Verdict == Violated {
								continue
							}
							inner = call
						}
					}
				}
			}
			if inner == nil {
				return false
			}
			good := true
			allInstrs(f, func(in ssa.Instruction) {
				if r, ok := in.(*ssa.Return); ok && !instrDominates(inner, r) && !c.Loud().BlockDies(r.Block()) {
					if e := retErrOperand(r); e != nil && (errOperandAlwaysNonNil(e) || domFacts(r.Block())[e] == nonNil) {
						return
					}
					good = false
				}
			})
			return good
		}
		okHere := false
		if _, ok := checker(fn, child); ok {
			okHere = true
		}
		var viaCall *ssa.Call
		if !okHere {
			for _, r := range referrers(child) {
				call, ok := r.(*ssa.Call)
				if !ok {
					continue
				}
				sf := staticFn(&call.Call)
				if sf == nil || !c.P.IsRepoFn(sf) {
					continue
				}
				for i, a := range call.Call.Args {
					if a == ssa.Value(child) && i < len(sf.Params) {
						if _, ok := checker(sf, sf.Params[i]); ok || checkedBelow(sf, sf.Params[i]) {
							if v, have := c.ErrVerdicts()[call]; have && (v.Verdict == Violated) {
								continue
							}
							viaCall = call
						}
					}
				}
			}
		}
		if !okHere && viaCall == nil {
			res.bad(key, pos, "the output of the included file is used although nothing rejects a flags line in it: the flags are silently dropped (or merged)")
			continue
		}
		// every return of the parsed output must be dominated by the check
		bad := ""
		if viaCall != nil {
			allInstrs(fn, func(in ssa.Instruction) {
				if r, ok := in.(*ssa.Return); ok && !instrDominates(viaCall, r) && !c.Loud().BlockDies(r.Block()) {
					if e := retErrOperand(r); e != nil && (errOperandAlwaysNonNil(e) || domFacts(r.Block())[e] == nonNil) {
						return // a failing return hands out no included text
					}
					bad = fmt.Sprintf("the return at %s is not dominated by the flags check", c.P.InstrPos(r))
				}
			})
		}
		if bad != "" {
			res.bad(key, pos, bad)
		} else {
			res.ok(key, pos, "len(included.Flags) > 0 is tested with a failing side before the included output is returned, and that failure is loud")
		}
	}
	return res
}

// touchesGlobal: functions of the repository that load or store gl, directly
// or through calls (transitive closure over the repository graph).
func (c *Ctx) touchesGlobal(gl *ssa.Global) map[*ssa.Function]bool {
	direct := map[*ssa.Function]bool{}
	for _, fn := range c.P.RepoFns {
		allInstrs(fn, func(in ssa.Instruction) {
			for _, op := range in.Operands(nil) {
				if op != nil && *op == ssa.Value(gl) {
					direct[fn] = true
				}
			}
		})
	}
	out := map[*ssa.Function]bool{}
	var work []*ssa.Function
	for f := range direct {
		out[f] = true
		work = append(work, f)
	}
	g := c.Graph()
	for len(work) > 0 {
		f := work[0]
		work = work[1:]
		for _, e := range g.In[f] {
			if !out[e.Caller] {
				out[e.Caller] = true
				work = append(work, e.Caller)
			}
		}
	}
	return out
}

// selfCleaning justifies a package variable written in per-file code. It
// accepts either of two shapes and returns a description, or "":
// (a) reset before use: in the function F0 through which every per-file access
//
//	passes, the first access on every path is a store of a value that does not
//	depend on the variable;
//
// (b) empty after success: F0 returns a possibly-nil error only on paths on
//
//	which a lookup on the variable returned nil (the stack is empty).
func (c *Ctx) selfCleaning(gl *ssa.Global, cbs []*ssa.Function, reach map[*ssa.Function]*Edge) string {
	touch := c.touchesGlobal(gl)
	// candidates for F0: functions in reach that touch gl and dominate, in the call graph,
	// every direct accessor reachable from the callbacks
	direct := map[*ssa.Function]bool{}
	for fn := range reach {
		allInstrs(fn, func(in ssa.Instruction) {
			for _, op := range in.Operands(nil) {
				if op != nil && *op == ssa.Value(gl) {
					direct[fn] = true
				}
			}
		})
	}
	g := c.Graph()
	var cands []*ssa.Function
	for fn := range reach {
		if !touch[fn] {
			continue
		}
		// removing fn from the graph must make every direct accessor unreachable from cbs
		seen := map[*ssa.Function]bool{}
		var stack []*ssa.Function
		for _, cb := range cbs {
			if cb != fn {
				stack = append(stack, cb)
			}
		}
		for len(stack) > 0 {
			f := stack[len(stack)-1]
			stack = stack[:len(stack)-1]
			if seen[f] || f == fn {
				continue
			}
			seen[f] = true
			for _, e := range g.Out[f] {
				stack = append(stack, e.Callee)
			}
		}
		dominates := true
		for d := range direct {
			if seen[d] {
				dominates = false
			}
		}
		if dominates {
			cands = append(cands, fn)
		}
	}
	sort.Slice(cands, func(i, j int) bool { return load.FnName(cands[i]) < load.FnName(cands[j]) })
	for _, f0 := range cands {
		// (a) first access on every path is a reset store (directly, or inside a helper
		// whose own first access on every path is one)
		okA, sawAny := c.resetsFirst(f0, gl, touch, 0)
		if okA && sawAny {
			return fmt.Sprintf("reset before use: every per-file access passes through %s, where the first access on every path stores a fresh value", load.FnName(f0))
		}
		// (b) success only when a lookup on the variable returned nil
		if !fnHasErrResult(f0) {
			continue
		}
		pred := func(cond ssa.Value, val bool) bool {
			b, ok := cond.(*ssa.BinOp)
			if !ok {
				return false
			}
			x, trueMeansNil, isTest := nilTest(b)
			if !isTest || val != trueMeansNil {
				return false
			}
			ex, ok := x.(*ssa.Extract)
			if !ok || ex.Index != 0 || isErrorType(ex.Type()) {
				return false
			}
			call, ok := ex.Tuple.(*ssa.Call)
			return ok && len(call.Call.Args) > 0 && call.Call.Args[0] == ssa.Value(gl)
		}
		okB, n := true, 0
		allInstrs(f0, func(in ssa.Instruction) {
			r, ok := in.(*ssa.Return)
			if !ok {
				return
			}
			env := newEnvAt(r.Block())
			if env.nilnessOf(retErrOperand(r)) == nonNil {
				return
			}
			n++
			if !c.guardedByEdges(r, pred) {
				okB = false
			}
		})
		if okB && n > 0 {
			return fmt.Sprintf("empty after success: %s returns success only on paths where the lookup on the variable returned nil, and a failed run ends the process", load.FnName(f0))
		}
	}
	return ""
}

func dependsOnGlobal(v ssa.Value, gl *ssa.Global, depth int) bool {
	if depth > 6 {
		return true
	}
	if v == ssa.Value(gl) {
		return true
	}
	in, ok := v.(ssa.Instruction)
	if !ok {
		return false
	}
	for _, op := range in.Operands(nil) {
		if op != nil && *op != nil && dependsOnGlobal(*op, gl, depth+1) {
			return true
		}
	}
	return false
}

// writesThroughParam: does fn store into memory reachable from pointer parameter p?
func writesThroughParam(fn *ssa.Function, p *ssa.Parameter) bool {
	found := false
	allInstrs(fn, func(in ssa.Instruction) {
		var addr ssa.Value
		switch x := in.(type) {
		case *ssa.Store:
			addr = x.Addr
		case *ssa.MapUpdate:
			if ld, ok := x.Map.(*ssa.UnOp); ok {
				addr = ld.X
			}
		default:
			return
		}
		for i := 0; i < 8 && addr != nil; i++ {
			switch a := addr.(type) {
			case *ssa.Parameter:
				if a == p {
					found = true
				}
				addr = nil
			case *ssa.FieldAddr:
				addr = a.X
			case *ssa.IndexAddr:
				addr = a.X
			default:
				addr = nil
			}
		}
	})
	return found
}

// resetsFirst: on every path from fn's entry, is the first access to gl a store
// of a value that does not depend on gl? A call to a repository function that
// touches gl counts if that function has the same property.
func (c *Ctx) resetsFirst(fn *ssa.Function, gl *ssa.Global, touch map[*ssa.Function]bool, depth int) (ok, sawAny bool) {
	if depth > 3 || len(fn.Blocks) == 0 {
		return false, true
	}
	ok = true
	env := newEnvAt(fn.Blocks[0])
	c.explore(fn.Blocks[0], 0, env, exploreCB{
		instr: func(in ssa.Instruction, e *pathEnv) bool {
			if st, isSt := in.(*ssa.Store); isSt && st.Addr == ssa.Value(gl) {
				sawAny = true
				if dependsOnGlobal(st.Val, gl, 0) {
					ok = false
				}
				return true
			}
			if cc := callCommon(in); cc != nil {
				if sf := staticFn(cc); sf != nil && touch[sf] {
					sawAny = true
					// the address of the variable handed over does not count as a reset
					for _, a := range cc.Args {
						if a == ssa.Value(gl) {
							ok = false
							return true
						}
					}
					if subOK, subSaw := c.resetsFirst(sf, gl, touch, depth+1); !(subOK && subSaw) {
						ok = false
					}
					return true
				}
			}
			for _, op := range in.Operands(nil) {
				if op != nil && *op == ssa.Value(gl) {
					sawAny = true
					ok = false
					return true
				}
			}
			return false
		},
	})
	return ok, sawAny
}
