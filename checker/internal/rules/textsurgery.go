package rules

import (
	"fmt"
	"go/token"
	"go/types"
	"regexp/syntax"
	"sort"
	"strings"
	"unicode"

	"golang.org/x/tools/go/ssa"

	"crsverif/internal/load"
)

const rassemblePkg = "github.com/itchyny/rassemble-go"

func isByteConst(v ssa.Value, b int64) bool {
	n, ok := constInt(v)
	return ok && n == b
}

// elemLoad decodes a load of s[idx] (string Index, or slice IndexAddr+load).
func elemLoad(v ssa.Value) (base, idx ssa.Value, ok bool) {
	switch x := v.(type) {
	case *ssa.Index:
		return x.X, x.Index, true
	case *ssa.Lookup:
		if _, isMap := x.X.Type().Underlying().(*types.Map); !isMap {
			return x.X, x.Index, true
		}
	case *ssa.UnOp:
		if x.Op == token.MUL {
			if ia, isIA := x.X.(*ssa.IndexAddr); isIA {
				return ia.X, ia.Index, true
			}
		}
	}
	return nil, nil, false
}

// RuleEscParity: escape tests are parity-aware.
func (c *Ctx) RuleEscParity() *Result {
	res := &Result{Rule: "ESC-PARITY", MinInst: 2}
	for _, fn := range c.P.RepoFns {
		allInstrs(fn, func(in ssa.Instruction) {
			b, ok := in.(*ssa.BinOp)
			if !ok || (b.Op != token.EQL && b.Op != token.NEQ) {
				return
			}
			var ld ssa.Value
			switch {
			case isByteConst(b.Y, '\\'):
				ld = b.X
			case isByteConst(b.X, '\\'):
				ld = b.Y
			default:
				return
			}
			ld = stripConv(ld)
			_, idx, ok := elemLoad(ld)
			if !ok {
				return
			}
			res.Instances++
			key := load.FnName(fn) + ":backslash test on a neighbouring byte"
			pos := c.P.InstrPos(b)
			// parity-counting form: the index is a loop-carried variable that walks backwards
			if p, isPhi := idx.(*ssa.Phi); isPhi && phiSteps(p, -1) {
				if fnCountsParity(fn) {
					res.ok(key, pos, "the test is the step of a backwards walk that counts backslashes and returns the parity")
					return
				}
			}
			// single neighbour: idx = v - 1
			if sub, isSub := idx.(*ssa.BinOp); isSub && sub.Op == token.SUB && isByteConst(sub.Y, 1) {
				// inside the parity helper itself a look at the one byte before the position is a fast path when all
				// it decides is "not a backslash there, so not escaped" (zero backslashes is an even number) and the
				// other side goes on to count
				if _, isPar := sub.X.(*ssa.Parameter); isPar && isEscapedLike(fn) && fnCountsParity(fn) {
					fast := true
					branches := condBranches(b)
					for _, br := range branches {
						notBackslash := 0
						if (b.Op == token.EQL) != br.neg {
							notBackslash = 1
						}
						blk := br.iff.Block().Succs[notBackslash]
						ret, isRet := blk.Instrs[len(blk.Instrs)-1].(*ssa.Return)
						if !isRet || len(ret.Results) != 1 {
							fast = false
							continue
						}
						if t, ok := constBool(ret.Results[0]); !ok || t {
							fast = false
						}
					}
					if fast && len(branches) > 0 {
						res.ok(key, pos, "fast path of the parity helper: no backslash directly before the position means an even count (zero); the other side counts")
						return
					}
				}
				res.bad(key, pos, "\"is escaped\" is decided by looking at the one byte before the character: a character after a literal backslash (written \\\\) is taken for escaped although the backslash before it is itself escaped; the repository's parity-counting IsEscaped must be used on this text")
				return
			}
			res.ok(key, pos, "comparison with a backslash that is not a single-neighbour escape test")
		})
	}
	// the parity helper answers "escaped" only from the count of backslashes
	for _, fn := range c.P.RepoFns {
		if !isEscapedLike(fn) {
			continue
		}
		res.Instances++
		key := load.FnName(fn) + ":escaped only by parity"
		bad := ""
		allInstrs(fn, func(in ssa.Instruction) {
			r, ok := in.(*ssa.Return)
			if !ok || len(r.Results) != 1 {
				return
			}
			seen := map[ssa.Value]bool{}
			var walk func(v ssa.Value, d int)
			walk = func(v ssa.Value, d int) {
				if d > 5 || seen[v] {
					return
				}
				seen[v] = true
				switch x := v.(type) {
				case *ssa.Phi:
					for _, e := range x.Edges {
						walk(e, d+1)
					}
				case *ssa.Const:
					if t, ok := constBool(x); ok && t {
						bad = c.P.InstrPos(r)
					}
				case *ssa.BinOp:
					if !derivesFromRem2(x, 0) {
						bad = c.P.InstrPos(r)
					}
				default:
					bad = c.P.InstrPos(r)
				}
			}
			walk(r.Results[0], 0)
		})
		if bad != "" {
			res.bad(key, c.P.FnPos(fn), fmt.Sprintf("%s also answers \"escaped\" (return at %s) for a reason other than an odd number of backslashes before the position: every pass that cuts or rewrites the expression at unescaped metacharacters (flag groups, parentheses, quotes) now skips characters that are not escaped at all", load.FnName(fn), bad))
		} else {
			res.ok(key, c.P.FnPos(fn), "every result is the parity of the backslash count (or false)")
		}
	}
	return res
}

// derivesFromRem2: a comparison (possibly negated or combined) of a count modulo two.
func derivesFromRem2(v ssa.Value, d int) bool {
	if d > 4 {
		return false
	}
	switch x := v.(type) {
	case *ssa.BinOp:
		if x.Op == token.REM && isByteConst(x.Y, 2) {
			return true
		}
		return derivesFromRem2(x.X, d+1) || derivesFromRem2(x.Y, d+1)
	case *ssa.UnOp:
		return derivesFromRem2(x.X, d+1)
	}
	return false
}

// phiSteps: phi(init, phi+step) with the given sign.
func phiSteps(p *ssa.Phi, sign int) bool {
	for _, e := range p.Edges {
		b, ok := e.(*ssa.BinOp)
		if !ok {
			continue
		}
		if b.X != ssa.Value(p) {
			continue
		}
		n, ok := constInt(b.Y)
		if !ok {
			continue
		}
		if (b.Op == token.SUB && n > 0 && sign < 0) || (b.Op == token.ADD && n > 0 && sign > 0) || (b.Op == token.ADD && n < 0 && sign < 0) {
			return true
		}
	}
	return false
}

func fnCountsParity(fn *ssa.Function) bool {
	found := false
	allInstrs(fn, func(in ssa.Instruction) {
		if b, ok := in.(*ssa.BinOp); ok && b.Op == token.REM && isByteConst(b.Y, 2) {
			found = true
		}
	})
	return found
}

// isEscapedLike recognises the parity-counting helper: func(string, int) bool
// that walks backwards over backslashes and returns the parity.
func isEscapedLike(fn *ssa.Function) bool {
	if fn == nil || len(fn.Params) != 2 || fn.Signature.Results().Len() != 1 {
		return false
	}
	if fn.Params[0].Type().Underlying().String() != "string" || fn.Params[1].Type().Underlying().String() != "int" {
		return false
	}
	if !fnCountsParity(fn) {
		return false
	}
	cmp := false
	allInstrs(fn, func(in ssa.Instruction) {
		if b, ok := in.(*ssa.BinOp); ok && (b.Op == token.EQL || b.Op == token.NEQ) && (isByteConst(b.Y, '\\') || isByteConst(b.X, '\\')) {
			cmp = true
		}
		// the run of backslashes measured with strings.TrimRight(prefix, `\`) and friends
		if cc := callCommon(in); cc != nil {
			if f := staticCallee(cc); f != nil && objPkgPath(f) == "strings" && strings.HasPrefix(f.Name(), "TrimRight") {
				for _, a := range cc.Args {
					if s, ok := constString(a); ok && s == `\` {
						cmp = true
					}
				}
			}
		}
	})
	return cmp
}

// startsWithMetaLiteral: the pattern begins with an escaped metacharacter.
func startsWithMetaLiteral(re *syntax.Regexp) (rune, bool) {
	els := flattenConcat(re)
	for _, e := range els {
		switch e.Op {
		case syntax.OpEmptyMatch:
			continue
		case syntax.OpLiteral:
			if len(e.Rune) > 0 && strings.ContainsRune(`()[]{}|*+?.^$`, e.Rune[0]) {
				return e.Rune[0], true
			}
			return 0, false
		case syntax.OpBeginText, syntax.OpBeginLine:
			return 0, false // anchored at the start: position 0 cannot be escaped
		default:
			return 0, false
		}
	}
	return 0, false
}

// RuleEscMatch: positions found by a metacharacter pattern are escape-checked
// before the text is cut there.
func (c *Ctx) RuleEscMatch() *Result {
	res := &Result{Rule: "ESC-MATCH", MinInst: 2}
	for _, fn := range c.P.RepoFns {
		if load.ShortPkg(load.FnPkgPath(fn)) != "regex/operators" {
			continue
		}
		allInstrs(fn, func(in ssa.Instruction) {
			call, m, recv, _, ok := regexpCall(in)
			if !ok {
				return
			}
			for _, p := range c.ResolveAll(recv, fn, 0) {
				c.escMatchOne(res, fn, call, m, p)
			}
		})
	}
	return res
}

func (c *Ctx) escMatchOne(res *Result, fn *ssa.Function, call *ssa.Call, m string, p *Pattern) {
	func() {
		{
			meta, isMeta := startsWithMetaLiteral(p.Re)
			if !isMeta {
				return
			}
			res.Instances++
			key := fmt.Sprintf("%s:%s with pattern %s", load.FnName(fn), m, p.Src)
			pos := c.P.InstrPos(call)
			if strings.HasPrefix(m, "ReplaceAll") {
				res.bad(key, pos, fmt.Sprintf("every occurrence of %s is replaced, including those whose leading %q is an escaped literal (text that merely looks like a flag group is changed)", p.Src, string(meta)))
				return
			}
			if !strings.HasSuffix(m, "Index") {
				res.ok(key, pos, "the match is only tested, the text is not cut at its position")
				return
			}
			// values derived from the location
			derived := map[ssa.Value]bool{}
			locIdx := map[ssa.Value]int64{} // which element of the location a position comes from (0 start, 1 end)
			var work []ssa.Value
			for _, r := range referrers(call) {
				if ia, ok := r.(*ssa.IndexAddr); ok {
					k, _ := constInt(ia.Index)
					for _, rr := range referrers(ia) {
						if ld, ok := rr.(*ssa.UnOp); ok && ld.Op == token.MUL {
							derived[ld] = true
							locIdx[ld] = k
							work = append(work, ld)
						}
					}
				}
			}
			for len(work) > 0 {
				v := work[0]
				work = work[1:]
				for _, r := range referrers(v) {
					if b, ok := r.(*ssa.BinOp); ok && (b.Op == token.ADD || b.Op == token.SUB) && !derived[b] {
						derived[b] = true
						if k, ok := locIdx[v]; ok {
							locIdx[b] = k
						}
						work = append(work, b)
					}
				}
			}
			// the searched text: Find*Index(text) or Find*Index(text[offset:])
			subject := stripConv(call.Call.Args[1])
			var baseText, offsetV ssa.Value = subject, nil
			if sl, ok := subject.(*ssa.Slice); ok && sl.High == nil && sl.Low != nil {
				baseText, offsetV = sl.X, sl.Low
			}
			// positions relative to the searched slice vs. absolute positions in the base text
			absolute := map[ssa.Value]bool{}
			if offsetV == nil {
				for v := range derived {
					absolute[v] = true
				}
			} else {
				changed := true
				for changed {
					changed = false
					for v := range derived {
						b, ok := v.(*ssa.BinOp)
						if !ok || absolute[v] {
							continue
						}
						if b.Op == token.ADD && ((b.X == offsetV && derived[b.Y]) || (b.Y == offsetV && derived[b.X])) {
							absolute[v], changed = true, true
						}
						if (b.Op == token.ADD || b.Op == token.SUB) && absolute[b.X] && isConst(b.Y) {
							absolute[v], changed = true, true
						}
					}
				}
			}
			var problems []string
			pred := func(text ssa.Value) func(cond ssa.Value, val bool) bool {
				return func(cond ssa.Value, val bool) bool {
					cc, ok := cond.(*ssa.Call)
					if !ok || val {
						return false
					}
					sf := staticFn(&cc.Call)
					if !isEscapedLike(sf) || len(cc.Call.Args) != 2 || !derived[cc.Call.Args[1]] {
						return false
					}
					return text == nil || stripConv(cc.Call.Args[0]) == stripConv(text)
				}
			}
			cuts := 0
			for v := range derived {
				for _, r := range referrers(v) {
					var text ssa.Value
					isCut := false
					switch x := r.(type) {
					case *ssa.Slice:
						isCut, text = true, x.X
					case *ssa.Call:
						sf := staticFn(&x.Call)
						if _, isFnParam := x.Call.Value.(*ssa.Parameter); isFnParam && sf == nil && !x.Call.IsInvoke() {
							// a rewrite callback handed to a shared scan loop: it cuts the text at the position
							isCut = true
							for _, a := range x.Call.Args {
								if bt, ok := a.Type().Underlying().(*types.Basic); ok && bt.Kind() == types.String {
									text = a
									break
								}
							}
						}
						if sf != nil && c.P.IsRepoFn(sf) {
							if isEscapedLike(sf) {
								// the escape test itself: position must be absolute in the text it is asked about
								if !absolute[v] && stripConv(x.Call.Args[0]) == stripConv(baseText) {
									problems = append(problems, fmt.Sprintf("IsEscaped at %s is asked about a position relative to the searched slice, not a position in the text", c.P.InstrPos(x)))
								}
								continue
							}
							isCut = true
							for _, a := range x.Call.Args {
								if bt, ok := a.Type().Underlying().(*types.Basic); ok && bt.Kind() == types.String {
									text = a
									break
								}
							}
						}
					case *ssa.Phi:
						// stored as the next search offset: at most one past the start of the match, or its end
						if offsetV != nil && ssa.Value(x) == offsetV && absolute[v] {
							if b, ok := v.(*ssa.BinOp); ok && b.Op == token.ADD {
								if k, isC := constInt(b.Y); isC && absolute[b.X] {
									limit := int64(1)
									if locIdx[b.X] == 1 {
										limit = 0
									}
									if k > limit {
										problems = append(problems, fmt.Sprintf("the next search offset is set %d past the %s of the match (%s): when the match ends the text the offset lies beyond it and the next text[offset:] panics", k, map[int64]string{0: "start", 1: "end"}[locIdx[b.X]], c.P.InstrPos(b)))
									}
								}
							}
						}
						if offsetV != nil && ssa.Value(x) == offsetV && !absolute[v] {
							problems = append(problems, fmt.Sprintf("a position relative to the searched slice is stored as the next absolute search offset (%s): with two or more escaped look-alikes the search position stops advancing and generate never terminates", c.P.InstrPos(call)))
						}
					}
					if !isCut {
						continue
					}
					cuts++
					if text != nil && stripConv(text) == stripConv(baseText) && !absolute[v] {
						problems = append(problems, fmt.Sprintf("the text is cut at %s with a position that is relative to the searched slice", c.P.InstrPos(r)))
					}
					if !c.guardedByEdges(r, pred(text)) {
						if c.guardedByEdges(r, pred(nil)) {
							problems = append(problems, fmt.Sprintf("the escape test that guards the cut at %s looks at a different text than the one that is cut (positions in the two texts differ once something was removed)", c.P.InstrPos(r)))
						} else {
							problems = append(problems, fmt.Sprintf("the text is cut at the match position at %s without first asking whether the %q found there is escaped", c.P.InstrPos(r), string(meta)))
						}
					}
				}
			}
			// after an escaped look-alike the search goes on: from the "is escaped" side the next event is
			// another search, not the end of the loop (a group further right would survive)
			for _, l := range naturalLoops(fn) {
				if !l.body[call.Block()] {
					continue
				}
				allInstrs(fn, func(in2 ssa.Instruction) {
					iff, ok := in2.(*ssa.If)
					if !ok || !l.body[iff.Block()] {
						return
					}
					cond, neg := unwrapNot(iff.Cond)
					ec, ok := cond.(*ssa.Call)
					if !ok || !isEscapedLike(staticFn(&ec.Call)) || len(ec.Call.Args) != 2 || !derived[ec.Call.Args[1]] {
						return
					}
					side := 0
					if neg {
						side = 1
					}
					// breadth-first from the escaped side: leaving the loop before reaching the search again is a violation
					seenB := map[*ssa.BasicBlock]bool{}
					stack := []*ssa.BasicBlock{iff.Block().Succs[side]}
					for len(stack) > 0 {
						b := stack[len(stack)-1]
						stack = stack[:len(stack)-1]
						if seenB[b] {
							continue
						}
						seenB[b] = true
						if !l.body[b] {
							problems = append(problems, fmt.Sprintf("when the match at the found position is an escaped literal the loop is left (%s) instead of searching on: every real flag group to its right stays in the generated regex", c.P.InstrPos(iff)))
							return
						}
						if b == call.Block() {
							continue
						}
						stack = append(stack, b.Succs...)
					}
				})
				break
			}
			sort.Strings(problems)
			if len(problems) > 0 {
				res.bad(key, pos, strings.Join(uniq(problems), "; "))
			} else {
				res.ok(key, pos, fmt.Sprintf("%d cut(s), each only reached when IsEscaped(text, position) is false", cuts))
			}
		}
	}()
}

// RuleScanBound: a character scan is bounded by the text.
func (c *Ctx) RuleScanBound() *Result {
	res := &Result{Rule: "SCAN-BOUND", MinInst: 5}
	for _, fn := range c.P.RepoFns {
		allInstrs(fn, func(in ssa.Instruction) {
			v, isVal := in.(ssa.Value)
			if !isVal {
				return
			}
			var base, idx ssa.Value
			switch x := in.(type) {
			case *ssa.Index:
				base, idx = x.X, x.Index
			case *ssa.Lookup:
				if _, isMap := x.X.Type().Underlying().(*types.Map); isMap {
					return
				}
				base, idx = x.X, x.Index
			case *ssa.IndexAddr:
				base, idx = x.X, x.Index
			default:
				return
			}
			_ = v
			p, isPhi := idx.(*ssa.Phi)
			if !isPhi {
				return
			}
			asc, desc := phiSteps(p, +1), phiSteps(p, -1)
			if !asc && !desc {
				return
			}
			// only explicit loops: the phi must sit in a loop header (a block in a cycle)
			if !inCycle(p.Block()) {
				return
			}
			res.Instances++
			key := fmt.Sprintf("%s:scan of %s", load.FnName(fn), valueLabel(base))
			pos := c.P.InstrPos(in)
			pred := func(cond ssa.Value, val bool) bool {
				b, ok := cond.(*ssa.BinOp)
				if !ok {
					return false
				}
				isLen := func(x ssa.Value) bool {
					if call, ok := x.(*ssa.Call); ok {
						if bi, ok := call.Call.Value.(*ssa.Builtin); ok && bi.Name() == "len" {
							return sameBase(call.Call.Args[0], base)
						}
					}
					return false
				}
				if asc {
					switch {
					case b.X == idx && isLen(b.Y):
						return (b.Op == token.LSS && val) || (b.Op == token.GEQ && !val) || (b.Op == token.NEQ && val) || (b.Op == token.EQL && !val)
					case b.Y == idx && isLen(b.X):
						return (b.Op == token.GTR && val) || (b.Op == token.LEQ && !val)
					}
				}
				if desc {
					if b.X == idx {
						if n, ok := constInt(b.Y); ok {
							return (b.Op == token.GEQ && n >= 0 && val) || (b.Op == token.GTR && n >= -1 && val) || (b.Op == token.LSS && n <= 0 && !val)
						}
					}
				}
				return false
			}
			if c.guardedByEdges(in, pred) || (asc && rotatedBound(p, base)) {
				res.ok(key, pos, "the element access is only reached when the induction variable is within the text")
			} else {
				dir := "reaches the end of the text"
				if desc && !asc {
					dir = "passes the start of the text"
				}
				res.bad(key, pos, fmt.Sprintf("the loop reads %s[%s] and nothing stops it when the index %s: a text on which the loop's own exit condition never becomes true ends in a runtime panic", valueLabel(base), phiLabel(p), dir))
			}
		})
	}
	return res
}

// rotatedBound: the loop is in rotated form (for i := range len(s)): the header phi receives, on every
// incoming edge, a value that the predecessor has just compared with len(base) (v < len(base), true edge).
func rotatedBound(p *ssa.Phi, base ssa.Value) bool {
	blk := p.Block()
	isLen := func(x ssa.Value) bool {
		if call, ok := x.(*ssa.Call); ok {
			if bi, ok := call.Call.Value.(*ssa.Builtin); ok && bi.Name() == "len" {
				return sameBase(call.Call.Args[0], base)
			}
		}
		return false
	}
	for i, pred := range blk.Preds {
		iff, ok := pred.Instrs[len(pred.Instrs)-1].(*ssa.If)
		if !ok || pred.Succs[0] != blk {
			return false
		}
		b, ok := iff.Cond.(*ssa.BinOp)
		if !ok || b.Op != token.LSS || !isLen(b.Y) {
			return false
		}
		e := p.Edges[i]
		if b.X != e {
			ce, ok1 := constInt(e)
			cx, ok2 := constInt(b.X)
			if !ok1 || !ok2 || ce != cx {
				return false
			}
		}
	}
	return len(blk.Preds) > 0
}

func sameBase(a, b ssa.Value) bool {
	return stripConv(a) == stripConv(b)
}

func valueLabel(v ssa.Value) string {
	switch x := v.(type) {
	case *ssa.Parameter:
		return x.Name()
	case *ssa.Phi:
		return phiLabel(x)
	}
	if v.Name() != "" {
		return v.Name()
	}
	return v.String()
}

// evalBoolFn evaluates a func(rune) bool symbolically for the argument value
// k (other=true: a value different from every constant in the function).
func (c *Ctx) evalBoolFn(fn *ssa.Function, k int64, other bool) (result bool, ok bool) {
	if len(fn.Params) != 1 || len(fn.Blocks) == 0 {
		return false, false
	}
	param := fn.Params[0]
	bools := map[ssa.Value]bool{}
	undecidable := false
	// the letter itself, or the letter after unicode.ToLower / ToUpper
	derived := map[ssa.Value]int64{ssa.Value(param): k}
	allInstrs(fn, func(in ssa.Instruction) {
		if call, ok := in.(*ssa.Call); ok && len(call.Call.Args) == 1 && call.Call.Args[0] == ssa.Value(param) {
			f := staticCallee(&call.Call)
			switch {
			case isFn(f, "unicode", "ToLower"):
				derived[call] = int64(unicode.ToLower(rune(k)))
			case isFn(f, "unicode", "ToUpper"):
				derived[call] = int64(unicode.ToUpper(rune(k)))
			}
		}
	})
	allInstrs(fn, func(in ssa.Instruction) {
		switch x := in.(type) {
		case *ssa.BinOp:
			var cv ssa.Value
			kk := k
			if dv, ok := derived[x.X]; ok {
				cv, kk = x.Y, dv
			} else if dv, ok := derived[x.Y]; ok {
				cv, kk = x.X, dv
			} else {
				return
			}
			n, isC := constInt(cv)
			if !isC {
				undecidable = true
				return
			}
			switch x.Op {
			case token.EQL:
				bools[x] = !other && n == kk
			case token.NEQ:
				bools[x] = other || n != kk
			default:
				undecidable = true
			}
		case *ssa.Lookup:
			// membership in a package-level set literal: supported[flag]
			kk, isDerived := derived[x.Index]
			if !isDerived {
				return
			}
			entries, okTable := c.globalMapEntries(x.X)
			if !okTable || x.CommaOk {
				undecidable = true
				return
			}
			val := false
			if !other {
				for _, e := range entries {
					if n, isC := constInt(e[0]); isC && n == kk {
						if bv, isB := constBool(e[1]); isB {
							val = bv
						}
					}
				}
			}
			bools[x] = val
		case *ssa.Call:
			f := staticCallee(&x.Call)
			if (isFn(f, "strings", "ContainsRune") || isFn(f, "strings", "IndexRune")) && len(x.Call.Args) == 2 && x.Call.Args[1] == ssa.Value(param) {
				if s, isC := constString(x.Call.Args[0]); isC && isFn(f, "strings", "ContainsRune") {
					bools[x] = !other && strings.ContainsRune(s, rune(k))
					return
				}
			}
			if isLogCall(x) {
				return
			}
			if _, isDerived := derived[x]; isDerived {
				return
			}
			undecidable = true
		}
	})
	if undecidable {
		return false, false
	}
	env := newEnvAt(fn.Blocks[0])
	env.bools = bools
	var results []bool
	bad := false
	c.explore(fn.Blocks[0], 0, env, exploreCB{
		ret: func(r *ssa.Return, e *pathEnv) {
			v := e.resolve(r.Results[0])
			if bv, isC := constBool(v); isC {
				results = append(results, bv)
				return
			}
			if bv, known := bools[v]; known {
				results = append(results, bv)
				return
			}
			bad = true
		},
	})
	if bad || len(results) == 0 {
		return false, false
	}
	for _, r := range results[1:] {
		if r != results[0] {
			return false, false
		}
	}
	return results[0], true
}

// RuleFlagSet: the flag alphabet is exactly {i, s}.
func (c *Ctx) RuleFlagSet() *Result {
	res := &Result{Rule: "FLAG-SET", MinInst: 1}
	want := map[int64]bool{'i': true, 's': true}
	// find updates of a map[rune]bool field and the predicate guarding them
	for _, fn := range c.P.RepoFns {
		allInstrs(fn, func(in ssa.Instruction) {
			mu, ok := in.(*ssa.MapUpdate)
			if !ok {
				return
			}
			mt, ok := mu.Map.Type().Underlying().(*types.Map)
			if !ok {
				return
			}
			if kb, isB := mt.Key().Underlying().(*types.Basic); !isB || kb.Kind() != types.Int32 {
				return
			}
			if eb, isB := mt.Elem().Underlying().(*types.Basic); !isB || eb.Kind() != types.Bool {
				return
			}
			ld, ok := mu.Map.(*ssa.UnOp)
			if !ok {
				return
			}
			if _, ok := ld.X.(*ssa.FieldAddr); !ok {
				return
			}
			res.Instances++
			key := load.FnName(fn) + ":flag admission"
			pos := c.P.InstrPos(mu)
			// the guarding predicate
			var pred *ssa.Function
			for cond, val := range c.factsAt(mu) {
				if call, ok := cond.(*ssa.Call); ok && val {
					if sf := staticFn(&call.Call); sf != nil && c.P.IsRepoFn(sf) && len(call.Call.Args) == 1 && call.Call.Args[0] == mu.Key {
						pred = sf
					}
				}
			}
			if pred == nil {
				res.bad(key, pos, "a flag is recorded without passing the flag predicate: any letter becomes a global regex flag")
				return
			}
			// candidate constants
			cands := map[int64]bool{'i': true, 's': true, 'm': true, 'U': true, 'x': true, 'g': true, 'I': true, 'S': true, 'M': true, 'u': true}
			allInstrs(pred, func(in ssa.Instruction) {
				if b, ok := in.(*ssa.BinOp); ok {
					if n, ok := constInt(b.Y); ok {
						cands[n] = true
					}
					if n, ok := constInt(b.X); ok {
						cands[n] = true
					}
				}
				if call, ok := in.(*ssa.Call); ok && len(call.Call.Args) > 0 {
					if s, ok := constString(call.Call.Args[0]); ok {
						for _, r := range s {
							cands[int64(r)] = true
						}
					}
				}
			})
			var allowed []string
			got := map[int64]bool{}
			for k := range cands {
				r, ok := c.evalBoolFn(pred, k, false)
				if !ok {
					res.undecided(key, pos, "the flag predicate "+load.FnName(pred)+" is not a comparison/switch over constants: its value set cannot be computed")
					return
				}
				if r {
					got[k] = true
					allowed = append(allowed, string(rune(k)))
				}
			}
			if r, ok := c.evalBoolFn(pred, 0, true); !ok || r {
				res.bad(key, pos, "the flag predicate accepts letters other than the listed ones")
				return
			}
			sort.Strings(allowed)
			same := len(got) == len(want)
			for k := range want {
				if !got[k] {
					same = false
				}
			}
			if same {
				res.ok(key, pos, fmt.Sprintf("%s returns true exactly for {%s}; the failing side is loud", load.FnName(pred), strings.Join(allowed, ", ")))
			} else {
				res.bad(key, pos, fmt.Sprintf("the flag alphabet is {%s}, not {i, s}: other flags end up in the leading flag group of the generated regex", strings.Join(allowed, ", ")))
			}
		})
	}
	return res
}

// passKind classifies a string->string clean-up pass by the constants it uses.
func (c *Ctx) passKind(fn *ssa.Function) string {
	kinds := map[string]bool{}
	c.passKindInto(fn, kinds, 0, map[*ssa.Function]bool{})
	var ks []string
	for k := range kinds {
		ks = append(ks, k)
	}
	sort.Strings(ks)
	return strings.Join(ks, "+")
}

// passKindInto collects what fn does to its text; a pass split into string-to-string helpers of
// the same package is the sum of its helpers (two levels).
func (c *Ctx) passKindInto(fn *ssa.Function, kinds map[string]bool, depth int, seen map[*ssa.Function]bool) {
	if fn == nil || seen[fn] || len(fn.Blocks) == 0 {
		return
	}
	seen[fn] = true
	tab := c.Rx()
	cmp32, cmp126 := false, false
	allInstrs(fn, func(in ssa.Instruction) {
		for _, op := range in.Operands(nil) {
			if op == nil || *op == nil {
				continue
			}
			if s, ok := constString(*op); ok {
				switch {
				case s == `\x5c`:
					kinds["backslash"] = true
				case s == `\"`:
					kinds["quote"] = true
				case strings.Contains(s, `\s\x0b`):
					kinds["vt"] = true
				case strings.Contains(s, `\x%x`) || strings.Contains(s, `\x{%x}`) || s == `\x` || s == `\x{`:
					kinds["hex"] = true
				}
			}
		}
		// the hex pass however it prints: it is the pass that tells control characters (< 32) and
		// non-ASCII characters (> 126) from the printable rest
		if b, ok := in.(*ssa.BinOp); ok {
			if k, ok := constInt(b.Y); ok {
				if b.Op == token.LSS && k == 32 {
					cmp32 = true
				}
				if b.Op == token.GTR && k == 126 {
					cmp126 = true
				}
			}
		}
		if call, _, recv, _, ok := regexpCall(in); ok {
			_ = call
			if p, _ := tab.Resolve(recv); p != nil && strings.Contains(p.Src, `\(\?[`) {
				kinds["flags"] = true
			}
		}
		// a pattern handed to a shared scan helper
		if cc := callCommon(in); cc != nil {
			for _, arg := range cc.Args {
				if isRegexpPtr(arg) {
					if p, _ := tab.Resolve(arg); p != nil && strings.Contains(p.Src, `\(\?[`) {
						kinds["flags"] = true
					}
				}
			}
		}
		if call, ok := in.(*ssa.Call); ok {
			f := staticCallee(&call.Call)
			if isFn(f, rassemblePkg, "Join") {
				kinds["print"] = true
			}
			if sf := staticFn(&call.Call); depth < 2 && sf != nil && sf.Pkg != nil && sf.Pkg == fn.Pkg && isStringPass(sf) {
				c.passKindInto(sf, kinds, depth+1, seen)
			}
		}
	})
	if cmp32 && cmp126 {
		kinds["hex"] = true
	}
}

// isStringPass: takes a string (after the receiver) and returns exactly one string.
func isStringPass(f *ssa.Function) bool {
	sig := f.Signature
	if sig.Results().Len() != 1 || !isStringType(sig.Results().At(0).Type()) {
		return false
	}
	for i := 0; i < sig.Params().Len(); i++ {
		if isStringType(sig.Params().At(i).Type()) {
			return true
		}
	}
	return false
}

// RuleSanitize: the clean-up passes dominate the exit.
func (c *Ctx) RuleSanitize() *Result {
	res := &Result{Rule: "SANITIZE", MinInst: 1}
	for _, fn := range c.P.RepoFns {
		if load.ShortPkg(load.FnPkgPath(fn)) != "regex/operators" {
			continue
		}
		// a function that hands a string through a chain of string->string passes
		type step struct {
			call *ssa.Call
			kind string
		}
		var chainStart *ssa.Call
		allInstrs(fn, func(in ssa.Instruction) {
			call, ok := in.(*ssa.Call)
			if !ok {
				return
			}
			sf := staticFn(&call.Call)
			if sf == nil || !c.P.IsRepoFn(sf) {
				return
			}
			if strings.Contains(c.passKind(sf), "print") && passValue(call) != nil {
				// the first printer in dominance order: the chain is followed forward from it
				if chainStart == nil || instrDominates(call, chainStart) {
					chainStart = call
				}
			}
		})
		if chainStart == nil {
			continue
		}
		// follow the value forward through single-use string passes
		var steps []step
		cur := passValue(chainStart)
		for i := 0; i < 20; i++ {
			var next *ssa.Call
			for _, r := range referrers(cur) {
				call, ok := r.(*ssa.Call)
				if !ok {
					continue
				}
				sf := staticFn(&call.Call)
				if sf == nil || !c.P.IsRepoFn(sf) || passValue(call) == nil {
					continue
				}
				uses := false
				for _, a := range call.Call.Args {
					if a == cur {
						uses = true
					}
				}
				if uses {
					next = call
				}
			}
			if next == nil {
				break
			}
			steps = append(steps, step{next, c.passKind(staticFn(&next.Call))})
			cur = passValue(next)
		}
		if len(steps) < 3 {
			continue
		}
		res.Instances++
		key := load.FnName(fn) + ":clean-up chain"
		pos := c.P.InstrPos(chainStart)
		have := map[string]bool{}
		var order []string
		flagsAt, printAfter := -1, false
		lastPrint := -1
		for i, s := range steps {
			if strings.Contains(s.kind, "print") {
				lastPrint = i
			}
		}
		for i, s := range steps {
			order = append(order, load.FnName(staticFn(&s.call.Call))+"["+s.kind+"]")
			if i <= lastPrint {
				continue // whatever ran before the regex was printed for the last time is undone by the printer
			}
			for _, k := range strings.Split(s.kind, "+") {
				if k != "" {
					have[k] = true
				}
			}
			if strings.Contains(s.kind, "flags") {
				flagsAt = i
			}
		}
		if lastPrint >= 0 {
			printAfter = false
			for i, s := range steps[:lastPrint+1] {
				if strings.Contains(s.kind, "flags") && i < lastPrint {
					printAfter = true
				}
			}
		}
		_ = flagsAt
		var problems []string
		for _, k := range []string{"hex", "quote", "backslash", "vt", "flags"} {
			if !have[k] {
				problems = append(problems, "the "+passName(k)+" pass is not applied to the final regex")
			}
		}
		if printAfter {
			problems = append(problems, "the regex is printed again after the flag groups were removed: the printer re-inserts them")
		}
		// a pass rewrites every occurrence: no strings.Replace / bytes.Replace with a count
		for _, st := range steps {
			sf := staticFn(&st.call.Call)
			if sf == nil {
				continue
			}
			allInstrs(sf, func(in ssa.Instruction) {
				call, ok := in.(*ssa.Call)
				if !ok {
					return
				}
				f := staticCallee(&call.Call)
				if (isFn(f, "strings", "Replace") || isFn(f, "bytes", "Replace")) && len(call.Call.Args) == 4 {
					if n, isC := constInt(call.Call.Args[3]); !isC || n >= 0 {
						problems = append(problems, fmt.Sprintf("%s replaces only a limited number of occurrences (%s): the second \\s class, quote or backslash of an expression is left as it was", load.FnName(sf), c.P.InstrPos(call)))
					}
				}
			})
		}
		// a printing pass hands back what the printer printed, on every path
		for _, st := range steps {
			if !strings.Contains(st.kind, "print") {
				continue
			}
			if why := c.printerReturnsPrinted(staticFn(&st.call.Call), 0); why != "" {
				problems = append(problems, why)
			}
		}
		if why := c.printerReturnsPrinted(staticFn(&chainStart.Call), 0); why != "" {
			problems = append(problems, why)
		}
		// the chain is skipped only when the text it would clean is empty
		{
			S := chainStart.Block()
			reachS := blocksReaching(S)
			var input []ssa.Value
			for _, a := range chainStart.Call.Args {
				if a.Type().Underlying().String() == "string" {
					input = append(input, a)
				}
			}
			for d := S.Idom(); d != nil; d = d.Idom() {
				iff, ok := d.Instrs[len(d.Instrs)-1].(*ssa.If)
				if !ok || len(d.Succs) != 2 {
					continue
				}
				for _, o := range d.Succs {
					if reachS[o] || o == S || !c.reachesSuccessReturn(o) {
						continue
					}
					cond, _ := unwrapNot(iff.Cond)
					if !isLenTestOfArg(cond, input, -1) {
						problems = append(problems, fmt.Sprintf("the clean-up passes are skipped under a condition (%s) that is not 'the text to clean is empty': text that reaches the output on that path (prefix and suffix lines around an empty body) is neither escaped nor stripped of flag groups", c.P.InstrPos(iff)))
					}
				}
			}
		}
		// the value after the last pass must be what is returned (possibly with the flag prefix)
		if !flowsToReturn(cur, 0) {
			problems = append(problems, "the result of the last pass is not what the function returns")
		}
		if len(problems) > 0 {
			res.bad(key, pos, strings.Join(problems, "; "))
		} else {
			res.ok(key, pos, "after the last printing call: "+strings.Join(order, " -> ")+"; the result flows to the return value")
		}
	}
	return res
}

// printerReturnsPrinted: every value the printing pass returns comes out of the printer
// (rassemble.Join) or out of another printing pass; it never hands back its input.
func (c *Ctx) printerReturnsPrinted(fn *ssa.Function, depth int) string {
	if fn == nil || len(fn.Blocks) == 0 || depth > 2 {
		return ""
	}
	why := ""
	allInstrs(fn, func(in ssa.Instruction) {
		r, ok := in.(*ssa.Return)
		if !ok || len(r.Results) == 0 || why != "" {
			return
		}
		var walk func(v ssa.Value, d int)
		walk = func(v ssa.Value, d int) {
			if d > 4 || why != "" {
				return
			}
			switch x := stripConv(v).(type) {
			case *ssa.Phi:
				for _, e := range x.Edges {
					walk(e, d+1)
				}
			case *ssa.Parameter:
				if x.Type().Underlying().String() == "string" {
					why = fmt.Sprintf("%s can return its input as it came in (%s): on that path the regex is not re-printed by the engine, and the passes that follow rely on the printed form (no \\s outside the engine's spelling, flags as groups)", load.FnName(fn), c.P.InstrPos(r))
				}
			case *ssa.Call:
				if sf := staticFn(&x.Call); sf != nil && c.P.IsRepoFn(sf) && sf != fn {
					if w := c.printerReturnsPrinted(sf, depth+1); w != "" {
						why = w
					}
				}
			}
		}
		walk(r.Results[0], 0)
	})
	return why
}

func passName(k string) string {
	switch k {
	case "hex":
		return "hex-escape (control and non-ASCII characters)"
	case "quote":
		return "double-quote escaping"
	case "backslash":
		return "literal-backslash -> \\x5c"
	case "vt":
		return "vertical-tab widening of the white-space class"
	case "flags":
		return "inline flag-group removal"
	}
	return k
}

func flowsToReturn(v ssa.Value, depth int) bool {
	if depth > 6 {
		return false
	}
	for _, r := range referrers(v) {
		switch x := r.(type) {
		case *ssa.Return:
			return true
		case *ssa.Phi:
			if flowsToReturn(x, depth+1) {
				return true
			}
		case *ssa.BinOp:
			if x.Op == token.ADD && flowsToReturn(x, depth+1) {
				return true
			}
		case *ssa.Call:
			// a further pass
			if x.Type().Underlying().String() == "string" && flowsToReturn(x, depth+1) {
				return true
			}
		}
	}
	return false
}

// passValue: the text a pass hands on: the call itself when it returns a string, its first result when
// it returns (string, error).
func passValue(call *ssa.Call) ssa.Value {
	if call.Type().Underlying().String() == "string" {
		return call
	}
	if tup, ok := call.Type().(*types.Tuple); ok && tup.Len() == 2 && tup.At(0).Type().Underlying().String() == "string" && isErrorType(tup.At(1).Type()) {
		return resultValue(call, 0)
	}
	return nil
}

func isStringType(t types.Type) bool {
	b, ok := t.Underlying().(*types.Basic)
	return ok && b.Info()&types.IsString != 0
}

// reachesSuccessReturn: from b a Return can be reached, without passing a loud exit, that does not
// report a failure (its error result, if the function has one, is not known to be non-nil).
func (c *Ctx) reachesSuccessReturn(b *ssa.BasicBlock) bool {
	lm := c.Loud()
	seen := map[*ssa.BasicBlock]bool{}
	stack := []*ssa.BasicBlock{b}
	for len(stack) > 0 {
		x := stack[len(stack)-1]
		stack = stack[:len(stack)-1]
		if seen[x] {
			continue
		}
		seen[x] = true
		if lm.BlockDies(x) {
			continue
		}
		if r, ok := x.Instrs[len(x.Instrs)-1].(*ssa.Return); ok {
			if op := retErrOperand(r); op != nil && (errOperandAlwaysNonNil(op) || domFacts(x)[op] == nonNil || c.factsNonNil(x, op)) {
				continue
			}
			return true
		}
		stack = append(stack, x.Succs...)
	}
	return false
}
