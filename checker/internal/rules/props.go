package rules

import (
	"encoding/json"
	"fmt"
	"io"
	"sort"

	"golang.org/x/tools/go/ssa"

	"crsverif/internal/load"
)

// Property binds a property id to the rules that decide (a clause of) it.
type Property struct {
	ID            string
	Level         string // manifest category
	Technique     string
	Explanation   string
	DoesNotDecide string
	Assumptions   []string
	TrustedBase   []string
	Run           func(c *Ctx, tier string) []*Result
}

// Properties is filled by the init functions of the prop_*.go files.
var Properties = map[string]*Property{}

var commonAssumptions = []string{
	"the repository contains no reflection-based or unsafe calls into its own functions (asserted at load time: no package imports reflect or unsafe)",
	"external functions invoke only the callbacks handed to them at that call (call graph of DESIGN.md 3.1)",
	"go/packages + go/types + go/ssa (x/tools v0.29.0) represent the program faithfully; the analysed configuration is the default build (the repository has no build-tagged files, asserted at load time)",
	"zerolog: an event started with Logger.Fatal() ends the process with status 1 when terminated by Msg/Msgf/Send; Logger.Panic() panics; an unterminated event does nothing",
}

var commonTrusted = []string{"go/types", "golang.org/x/tools/go/ssa v0.29.0", "golang.org/x/tools/go/packages", "the rule implementations under /verif/checker/internal/rules", "the rewriting of pass-through methods behind repository interfaces into the call they forward to (/verif/checker/internal/load/forward.go; the rewritten call sites are listed under forwarders_inlined)"}

// Dump prints a shared model for debugging and for DESIGN-time validation.
func Dump(c *Ctx, what string, w io.Writer) {
	switch what {
	case "commands":
		cm := c.Commands()
		for _, cmd := range cm.Commands {
			fmt.Fprintf(w, "command %-18s in %s\n", cmd.Name, load.FnName(cmd.In))
			for _, k := range sortedKeys(cmd.Entries) {
				fmt.Fprintf(w, "    %-8s %s\n", k, load.FnName(cmd.Entries[k]))
			}
			for _, f := range cmd.ArgsInner {
				fmt.Fprintf(w, "    args-inner %s\n", load.FnName(f))
			}
		}
		for _, r := range cm.Roots {
			fmt.Fprintf(w, "root %s\n", load.FnName(r))
		}
	case "graph":
		g := c.Graph()
		var lines []string
		for f, es := range g.Out {
			for _, e := range es {
				lines = append(lines, fmt.Sprintf("%s -> %s [%s]", load.FnName(f), load.FnName(e.Callee), e.Kind))
			}
		}
		sort.Strings(lines)
		for _, l := range lines {
			fmt.Fprintln(w, l)
		}
		fmt.Fprintf(w, "%d edges\n", g.Edges)
	case "loud":
		m := c.Loud()
		for _, fn := range c.P.RepoFns {
			allInstrs(fn, func(in ssa.Instruction) {
				if k := m.LoudKind(in); k != "" {
					fmt.Fprintf(w, "loud %-10s %s %s\n", k, load.FnName(fn), c.P.InstrPos(in))
				}
			})
			for _, em := range m.emissions[fn] {
				if em.Level == "error" || em.Level == "" {
					fmt.Fprintf(w, "emit %-10s %s %s\n", em.Level, load.FnName(fn), c.P.InstrPos(em.Term))
				}
			}
			for _, d := range m.dangling[fn] {
				fmt.Fprintf(w, "dangling event %s %s\n", load.FnName(fn), c.P.InstrPos(d))
			}
			if m.noReturn[fn] {
				fmt.Fprintf(w, "noreturn %s\n", load.FnName(fn))
			}
		}
	case "props":
		type pj struct {
			ID, Level, Technique, Explanation, DoesNotDecide string
			Assumptions                                      []string
		}
		var out []pj
		for _, id := range sortedKeys(Properties) {
			p := Properties[id]
			out = append(out, pj{p.ID, p.Level, p.Technique, p.Explanation, p.DoesNotDecide, p.Assumptions})
		}
		b, _ := json.MarshalIndent(out, "", " ")
		fmt.Fprintln(w, string(b))
	case "funcs":
		for _, fn := range c.P.RepoFns {
			fmt.Fprintf(w, "%s  %s\n", load.FnName(fn), c.P.FnPos(fn))
		}
	default:
		fmt.Fprintf(w, "unknown dump %q\n", what)
	}
}
