package rules

import (
	"crsverif/internal/load"
	"fmt"
	"sort"
	"strings"

	"golang.org/x/tools/go/ssa"
)

// nilness of a value on a path
type nilness int

const (
	nilUnknown nilness = iota
	isNil
	nonNil
)

// pathEnv is the path-sensitive state carried by explore.
type pathEnv struct {
	phis  map[*ssa.Phi]ssa.Value // phi -> incoming value chosen on this path
	facts map[ssa.Value]nilness  // branch facts collected on this path
	flag  bool                   // rule-specific: "failure recorded" on this path
	bools map[ssa.Value]bool     // assumed outcomes of boolean values (rule-specific)
	depth int
}

func (e *pathEnv) clone() *pathEnv {
	n := &pathEnv{phis: make(map[*ssa.Phi]ssa.Value, len(e.phis)), facts: make(map[ssa.Value]nilness, len(e.facts)), flag: e.flag}
	for k, v := range e.phis {
		n.phis[k] = v
	}
	for k, v := range e.facts {
		n.facts[k] = v
	}
	if e.bools != nil {
		n.bools = e.bools // never modified after creation
	}
	return n
}

// resolve follows the phi choices of this path.
func (e *pathEnv) resolve(v ssa.Value) ssa.Value {
	for i := 0; i < 32; i++ {
		p, ok := v.(*ssa.Phi)
		if !ok {
			return v
		}
		r, ok := e.phis[p]
		if !ok {
			return v
		}
		v = r
	}
	return v
}

// nilnessOf decides what is known about v on this path.
func (e *pathEnv) nilnessOf(v ssa.Value) nilness {
	v = e.resolve(v)
	if isNilConst(v) {
		return isNil
	}
	if n, ok := e.facts[v]; ok {
		return n
	}
	switch x := v.(type) {
	case *ssa.MakeInterface:
		return nonNil
	case *ssa.Alloc, *ssa.MakeClosure, *ssa.MakeMap, *ssa.MakeSlice, *ssa.MakeChan, *ssa.Function, *ssa.Global, *ssa.FieldAddr, *ssa.IndexAddr:
		return nonNil
	case *ssa.Call:
		f := staticCallee(&x.Call)
		if isFn(f, "fmt", "Errorf") || isFn(f, "errors", "New") {
			return nonNil
		}
		// a log-and-return helper of the repository hands back the error it was given
		if sf := staticFn(&x.Call); sf != nil && len(sf.Blocks) > 0 && sf.Pkg != nil && strings.HasPrefix(sf.Pkg.Pkg.Path(), load.ModulePath) && e.depth < 4 {
			for i, a := range x.Call.Args {
				if i < len(sf.Params) && isErrorType(sf.Params[i].Type()) && returnsParamOrNonNil(sf, sf.Params[i]) {
					e.depth++
					n := e.nilnessOf(a)
					e.depth--
					if n == nonNil {
						return nonNil
					}
				}
			}
		}
	case *ssa.ChangeInterface:
		return e.nilnessOf(x.X)
	case *ssa.UnOp:
		if g, ok := x.X.(*ssa.Global); ok && nonNilErrGlobals[g] {
			return nonNil
		}
	case *ssa.Phi:
		// unresolved phi: known only if every edge agrees
		if e.depth > 6 {
			return nilUnknown
		}
		e.depth++
		defer func() { e.depth-- }()
		res := nilUnknown
		for i, ed := range x.Edges {
			if ed == ssa.Value(x) {
				continue
			}
			n := e.nilnessOf(ed)
			if n == nilUnknown {
				return nilUnknown
			}
			if i == 0 || res == nilUnknown {
				res = n
			} else if res != n {
				return nilUnknown
			}
		}
		return res
	}
	return nilUnknown
}

func (e *pathEnv) key(b *ssa.BasicBlock, pred *ssa.BasicBlock) string {
	var sb strings.Builder
	pi := -1
	if pred != nil {
		pi = pred.Index
	}
	fmt.Fprintf(&sb, "%d<%d|%v|", b.Index, pi, e.flag)
	var parts []string
	for p, v := range e.phis {
		if isErrorType(p.Type()) || isBoolType(p) {
			parts = append(parts, fmt.Sprintf("%s=%s", p.Name(), v.Name()))
		}
	}
	for v, n := range e.facts {
		parts = append(parts, fmt.Sprintf("%s:%d", v.Name(), n))
	}
	sort.Strings(parts)
	sb.WriteString(strings.Join(parts, ","))
	return sb.String()
}

func isBoolType(v ssa.Value) bool {
	return v.Type().Underlying().String() == "bool"
}

// enter records the phi choices of entering b from pred.
func (e *pathEnv) enter(b, pred *ssa.BasicBlock) {
	if pred == nil {
		return
	}
	idx := -1
	for i, p := range b.Preds {
		if p == pred {
			idx = i
			break
		}
	}
	if idx < 0 {
		return
	}
	// parallel assignment semantics: compute all, then bind
	type bind struct {
		p *ssa.Phi
		v ssa.Value
	}
	var bs []bind
	for _, in := range b.Instrs {
		p, ok := in.(*ssa.Phi)
		if !ok {
			break
		}
		bs = append(bs, bind{p, e.resolve(p.Edges[idx])})
	}
	for _, x := range bs {
		e.phis[x.p] = x.v
	}
}

// branch records the fact established by leaving b through successor si.
func (e *pathEnv) branch(b *ssa.BasicBlock, si int) (feasible bool) {
	iff, ok := b.Instrs[len(b.Instrs)-1].(*ssa.If)
	if !ok {
		return true
	}
	cond, neg := unwrapNot(iff.Cond)
	taken := si == 0 // true successor
	if neg {
		taken = !taken
	}
	if v, trueMeansNil, ok := nilTest(cond); ok {
		rv := e.resolve(v)
		want := nonNil
		if taken == trueMeansNil {
			want = isNil
		}
		if have := e.nilnessOf(rv); have != nilUnknown && have != want {
			return false // infeasible on this path
		}
		e.facts[rv] = want
		if rv != v {
			e.facts[v] = want
		}
		return true
	}
	if bv, ok := e.bools[cond]; ok {
		return bv == taken
	}
	// constant-propagated booleans through phis (flags)
	rc := e.resolve(cond)
	if bv, ok := e.bools[rc]; ok {
		return bv == taken
	}
	if bv, ok := constBool(rc); ok {
		return bv == taken
	}
	return true
}

// domFacts collects nil facts that hold on entry to block b because of
// dominating branches (nilness-style).
func domFacts(b *ssa.BasicBlock) map[ssa.Value]nilness {
	facts := map[ssa.Value]nilness{}
	for cur := b; cur != nil; {
		d := cur.Idom()
		if d == nil {
			break
		}
		if iff, ok := d.Instrs[len(d.Instrs)-1].(*ssa.If); ok {
			cond, neg := unwrapNot(iff.Cond)
			if v, trueMeansNil, ok := nilTest(cond); ok {
				for si, s := range d.Succs {
					// the edge d->s establishes the fact for everything s dominates,
					// provided s can only be entered from d
					if len(s.Preds) == 1 && s.Dominates(b) && d.Succs[0] != d.Succs[1] {
						taken := si == 0
						if neg {
							taken = !taken
						}
						want := nonNil
						if taken == trueMeansNil {
							want = isNil
						}
						if _, have := facts[v]; !have {
							facts[v] = want
						}
					}
				}
			}
		}
		cur = d
	}
	return facts
}

// exploreCB are the callbacks of explore.
type exploreCB struct {
	// instr is called for every instruction on the path, in order. Returning
	// stop=true ends this path (it is accepted).
	instr func(in ssa.Instruction, env *pathEnv) (stop bool)
	// ret is called when a Return is reached.
	ret func(r *ssa.Return, env *pathEnv)
	// end is called when the path dies in a loud exit.
	loud func(in ssa.Instruction, env *pathEnv)
}

// explore walks every path from instruction index idx of block b onwards,
// cutting at loud exits. The number of states is bounded by the key of pathEnv.
func (c *Ctx) explore(b *ssa.BasicBlock, idx int, env *pathEnv, cb exploreCB) {
	lm := c.Loud()
	seen := map[string]bool{}
	type item struct {
		b    *ssa.BasicBlock
		idx  int
		pred *ssa.BasicBlock
		env  *pathEnv
	}
	stack := []item{{b, idx, nil, env}}
	steps := 0
	for len(stack) > 0 {
		it := stack[len(stack)-1]
		stack = stack[:len(stack)-1]
		steps++
		if steps > 200000 {
			panic("explore: state explosion in " + it.b.Parent().String())
		}
		if it.pred != nil {
			k := it.env.key(it.b, it.pred)
			if seen[k] {
				continue
			}
			seen[k] = true
		}
		dead := false
		for i := it.idx; i < len(it.b.Instrs); i++ {
			in := it.b.Instrs[i]
			if lm.IsLoud(in) {
				if cb.loud != nil {
					cb.loud(in, it.env)
				}
				dead = true
				break
			}
			if r, ok := in.(*ssa.Return); ok {
				if cb.ret != nil {
					cb.ret(r, it.env)
				}
				dead = true
				break
			}
			if cb.instr != nil && cb.instr(in, it.env) {
				dead = true
				break
			}
		}
		if dead {
			continue
		}
		for si, s := range it.b.Succs {
			ne := it.env.clone()
			if !ne.branch(it.b, si) {
				continue
			}
			ne.enter(s, it.b)
			stack = append(stack, item{s, 0, it.b, ne})
		}
	}
}

func newEnvAt(b *ssa.BasicBlock) *pathEnv {
	return &pathEnv{phis: map[*ssa.Phi]ssa.Value{}, facts: domFacts(b)}
}

// nonNilErrGlobals: package-level error variables that are initialised once
// with a constructed error (errors.New, fmt.Errorf, &T{}) and never reassigned
// (sentinel errors). Filled by Ctx.initSentinels.
var nonNilErrGlobals = map[*ssa.Global]bool{}
