package rules

import (
	"fmt"
	"regexp/syntax"
	"sort"
	"strings"

	"golang.org/x/tools/go/ssa"

	"crsverif/internal/load"
	"crsverif/internal/rx"
)

// Pattern is a regexp constant of the source.
type Pattern struct {
	Name   string // global variable name (pkg.Var) or fn:local
	Src    string // the pattern text
	Re     *syntax.Regexp
	Global *ssa.Global
	Pos    string
}

// RxTable resolves *regexp.Regexp values to source constants.
type RxTable struct {
	byGlobal map[*ssa.Global]*Pattern
	ambig    map[*ssa.Global]string
	all      []*Pattern
	// patterns kept in a struct field that is assigned exactly once in the repository
	// (compiled in a constructor): keyed by "pkg.Type.field"
	byField    map[string]*Pattern
	fieldAmbig map[string]string
}

func isRegexpPtr(v ssa.Value) bool {
	return isNamed(v.Type(), "regexp", "Regexp")
}

// mustCompileConst recognises regexp.MustCompile/Compile(<constant>).
func mustCompileConst(v ssa.Value) (string, bool) {
	call, ok := v.(*ssa.Call)
	if !ok {
		if ex, isEx := v.(*ssa.Extract); isEx && ex.Index == 0 {
			call, ok = ex.Tuple.(*ssa.Call)
		}
		if !ok {
			return "", false
		}
	}
	f := staticCallee(&call.Call)
	if !(isFn(f, "regexp", "MustCompile") || isFn(f, "regexp", "Compile")) {
		return "", false
	}
	return constString(call.Call.Args[0])
}

// Rx builds the table of pattern globals of the whole program (repository and
// dependencies, so that semver's pattern can be read).
func (c *Ctx) Rx() *RxTable {
	if c.rxTable != nil {
		return c.rxTable
	}
	t := &RxTable{byGlobal: map[*ssa.Global]*Pattern{}, ambig: map[*ssa.Global]string{}}
	type alias struct{ dst, src *ssa.Global }
	var aliases []alias
	for _, pkg := range c.P.SSA.AllPackages() {
		inRepo := load.InModule(pkg.Pkg.Path())
		if !inRepo && pkg.Pkg.Path() != "github.com/Masterminds/semver/v3" {
			continue
		}
		var inits []*ssa.Function
		for name, mem := range pkg.Members {
			if f, ok := mem.(*ssa.Function); ok && (name == "init" || strings.HasPrefix(name, "init#")) {
				inits = append(inits, f)
			}
		}
		sort.Slice(inits, func(i, j int) bool { return inits[i].Name() < inits[j].Name() })
		for _, initFn := range inits {
			allInstrs(initFn, func(in ssa.Instruction) {
				st, ok := in.(*ssa.Store)
				if !ok {
					return
				}
				g, ok := st.Addr.(*ssa.Global)
				if !ok || !isNamed(derefType(g.Type()), "regexp", "Regexp") {
					return
				}
				if src, ok := mustCompileConst(st.Val); ok {
					if _, dup := t.byGlobal[g]; dup {
						t.ambig[g] = "assigned more than once"
						return
					}
					re, err := rx.Parse(src)
					if err != nil {
						t.ambig[g] = "does not parse: " + err.Error()
						return
					}
					p := &Pattern{Name: load.ShortPkg(g.Pkg.Pkg.Path()) + "." + g.Name(), Src: src, Re: re, Global: g, Pos: c.P.InstrPos(st)}
					t.byGlobal[g] = p
					t.all = append(t.all, p)
					return
				}
				if u, ok := st.Val.(*ssa.UnOp); ok {
					if sg, ok := u.X.(*ssa.Global); ok {
						aliases = append(aliases, alias{g, sg})
						return
					}
				}
				t.ambig[g] = "initialised from a non-constant expression"
			})
		}
	}
	for i := 0; i < 3; i++ {
		for _, a := range aliases {
			if p, ok := t.byGlobal[a.src]; ok {
				if _, have := t.byGlobal[a.dst]; !have {
					t.byGlobal[a.dst] = p
				}
			}
		}
	}
	// stores to pattern globals outside init make them unresolvable
	for _, fn := range c.P.RepoFns {
		if (fn.Name() == "init" || strings.HasPrefix(fn.Name(), "init#")) && fn.Parent() == nil {
			continue
		}
		allInstrs(fn, func(in ssa.Instruction) {
			if st, ok := in.(*ssa.Store); ok {
				if g, ok := st.Addr.(*ssa.Global); ok && isNamed(derefType(g.Type()), "regexp", "Regexp") {
					t.ambig[g] = "reassigned in " + load.FnName(fn)
					delete(t.byGlobal, g)
				}
			}
		})
	}
	// pattern fields
	t.byField = map[string]*Pattern{}
	t.fieldAmbig = map[string]string{}
	for _, fn := range c.P.RepoFns {
		allInstrs(fn, func(in ssa.Instruction) {
			st, ok := in.(*ssa.Store)
			if !ok {
				return
			}
			fa, ok := st.Addr.(*ssa.FieldAddr)
			if !ok || !isNamed(derefType(fa.Type()), "regexp", "Regexp") {
				return
			}
			key := fieldKey(fa)
			if key == "" {
				return
			}
			src, isConst := mustCompileConst(st.Val)
			if !isConst {
				t.fieldAmbig[key] = "assigned a value that is not a compiled constant in " + load.FnName(fn)
				return
			}
			if old, dup := t.byField[key]; dup && old.Src != src {
				t.fieldAmbig[key] = "assigned different patterns"
				return
			}
			re, err := rx.Parse(src)
			if err != nil {
				t.fieldAmbig[key] = "does not parse: " + err.Error()
				return
			}
			t.byField[key] = &Pattern{Name: key, Src: src, Re: re, Pos: c.P.InstrPos(st)}
		})
	}
	for k := range t.fieldAmbig {
		delete(t.byField, k)
	}
	c.rxTable = t
	return t
}

// patternCell: the memory cell behind a local variable: the Alloc itself, or for a variable captured
// by a closure the Alloc that the enclosing function bound to it.
func patternCell(addr ssa.Value) *ssa.Alloc {
	switch a := addr.(type) {
	case *ssa.Alloc:
		return a
	case *ssa.FreeVar:
		fn := a.Parent()
		parent := fn.Parent()
		if parent == nil {
			return nil
		}
		idx := -1
		for i, fv := range fn.FreeVars {
			if fv == a {
				idx = i
			}
		}
		var out *ssa.Alloc
		allInstrs(parent, func(in ssa.Instruction) {
			if mc, ok := in.(*ssa.MakeClosure); ok && mc.Fn == ssa.Value(fn) && idx >= 0 && idx < len(mc.Bindings) {
				out = patternCell(mc.Bindings[idx])
			}
		})
		return out
	}
	return nil
}

// fieldKey names a struct field: "pkg.Type.field" ("" for anonymous structs).
func fieldKey(fa *ssa.FieldAddr) string {
	pk, name := namedOf(derefType(fa.X.Type()))
	if name == "" {
		return ""
	}
	return load.ShortPkg(pk) + "." + name + "." + fieldName(fa)
}

// Resolve maps a *regexp.Regexp SSA value to its source pattern.
func (t *RxTable) Resolve(v ssa.Value) (*Pattern, string) {
	switch x := v.(type) {
	case *ssa.UnOp:
		if g, ok := x.X.(*ssa.Global); ok {
			if p, ok := t.byGlobal[g]; ok {
				return p, ""
			}
			if why, ok := t.ambig[g]; ok {
				return nil, "pattern variable " + g.Name() + " " + why
			}
			return nil, "pattern variable " + g.Name() + " has no constant initialiser"
		}
		// a local pattern kept in memory because a closure captures it: one store, a compiled constant
		if cell := patternCell(x.X); cell != nil {
			var stored []ssa.Value
			for _, r := range referrers(cell) {
				if st, ok := r.(*ssa.Store); ok && st.Addr == ssa.Value(cell) {
					stored = append(stored, st.Val)
				}
			}
			if len(stored) == 1 {
				if _, isLoad := stored[0].(*ssa.UnOp); !isLoad {
					return t.Resolve(stored[0])
				}
			}
			return nil, "pattern variable is assigned more than once"
		}
		if fa, ok := x.X.(*ssa.FieldAddr); ok {
			key := fieldKey(fa)
			if p, ok := t.byField[key]; ok {
				return p, ""
			}
			if why, ok := t.fieldAmbig[key]; ok {
				return nil, "pattern field " + key + " is " + why
			}
			return nil, "pattern field " + key + " is never assigned a compiled constant"
		}
	case *ssa.Call, *ssa.Extract:
		if src, ok := mustCompileConst(v); ok {
			re, err := rx.Parse(src)
			if err != nil {
				return nil, "pattern does not parse: " + err.Error()
			}
			return &Pattern{Name: "local", Src: src, Re: re}, ""
		}
		return nil, "pattern is computed at run time"
	case *ssa.Phi:
		return nil, "pattern comes from several places"
	}
	return nil, fmt.Sprintf("pattern value %T is not a constant", v)
}

// ResolveAll resolves a pattern value to the set of source patterns it can be:
// one for a constant, the union over all static call sites for a parameter of
// a repository helper (a scan loop shared by several patterns). nil when any
// origin is not a constant.
func (c *Ctx) ResolveAll(v ssa.Value, fn *ssa.Function, depth int) []*Pattern {
	if p, _ := c.Rx().Resolve(v); p != nil {
		return []*Pattern{p}
	}
	par, ok := v.(*ssa.Parameter)
	if !ok || depth > 2 {
		return nil
	}
	idx := paramIndex(fn, par)
	if idx < 0 {
		return nil
	}
	var out []*Pattern
	seen := map[string]bool{}
	for _, e := range c.Graph().In[fn] {
		cc := callCommon(e.Site)
		if cc == nil || staticFn(cc) != fn || idx >= len(cc.Args) {
			continue
		}
		ps := c.ResolveAll(cc.Args[idx], e.Caller, depth+1)
		if ps == nil {
			return nil
		}
		for _, p := range ps {
			if !seen[p.Name+p.Src] {
				seen[p.Name+p.Src] = true
				out = append(out, p)
			}
		}
	}
	return out
}

// ByName finds a repository pattern global by "pkg.Var".
func (t *RxTable) ByName(name string) *Pattern {
	for _, p := range t.all {
		if p.Name == name {
			return p
		}
	}
	return nil
}

// NumCap is the number of capture groups of the pattern.
func (p *Pattern) NumCap() int { return p.Re.MaxCap() }
