package rules

import (
	"fmt"
	"go/token"
	"go/types"
	"sort"
	"strings"

	"golang.org/x/tools/go/ssa"

	"crsverif/internal/load"
)

// Rules added after the fifth round of independently seeded changes
// (pull-request sized improvements that break a property as a side effect).
// The common theme of that round was replacing bufio.Scanner by
// bufio.Reader.ReadLine or Scanner.Bytes: both hand out memory that belongs to
// the reader and is overwritten by the next read.

// ---------- BORROW ----------

// borrowSource: a call that returns a slice of a reader's internal buffer.
type borrowSource struct {
	call   *ssa.Call
	val    ssa.Value // the borrowed value (the call, or its first result)
	reader ssa.Value // the reader / scanner the memory belongs to (nil: unknown)
	what   string
}

func isByteSlice(t types.Type) bool {
	s, ok := t.Underlying().(*types.Slice)
	if !ok {
		return false
	}
	b, ok := s.Elem().Underlying().(*types.Basic)
	return ok && b.Kind() == types.Uint8
}

func isSliceOfByteSlices(t types.Type) bool {
	s, ok := t.Underlying().(*types.Slice)
	if !ok {
		return false
	}
	return isByteSlice(s.Elem()) || isSliceOfByteSlices(s.Elem())
}

// borrowedResult: f returns memory of its receiver that the next read overwrites.
func borrowedResult(f *types.Func) (what string, ok bool) {
	switch {
	case isMeth(f, "bufio", "Scanner", "Bytes"):
		return "bufio.Scanner.Bytes", true
	case isMeth(f, "bufio", "Reader", "ReadLine"):
		return "bufio.Reader.ReadLine", true
	case isMeth(f, "bufio", "Reader", "ReadSlice"):
		return "bufio.Reader.ReadSlice", true
	case isMeth(f, "bufio", "Reader", "Peek"):
		return "bufio.Reader.Peek", true
	}
	return "", false
}

// advancesReader: the call makes the reader overwrite what it handed out before.
func advancesReader(cc *ssa.CallCommon, reader ssa.Value) bool {
	if reader == nil {
		return false
	}
	uses := false
	for _, a := range cc.Args {
		if a == reader || sameLoad(a, reader) {
			uses = true
		}
	}
	if !uses {
		return false
	}
	f := staticCallee(cc)
	if f != nil && objPkgPath(f) == "bufio" {
		switch f.Name() {
		case "Bytes", "Text", "Err", "Buffer", "Split", "Buffered", "Size", "UnreadByte", "UnreadRune":
			return false
		}
	}
	return true
}

// subsliceResult: the stdlib function returns a part of its first []byte argument.
func subsliceResult(f *types.Func) bool {
	if f == nil {
		return false
	}
	switch objPkgPath(f) {
	case "bytes":
		switch f.Name() {
		case "Trim", "TrimLeft", "TrimRight", "TrimSpace", "TrimPrefix", "TrimSuffix", "TrimFunc", "TrimLeftFunc", "TrimRightFunc",
			"Split", "SplitN", "SplitAfter", "SplitAfterN", "Fields", "FieldsFunc", "Cut", "CutPrefix", "CutSuffix":
			return true
		}
	case "regexp":
		if recvNamed(f) == "Regexp" {
			switch f.Name() {
			case "Find", "FindSubmatch", "FindAll", "FindAllSubmatch":
				return true
			}
		}
	}
	return false
}

// borrowState is the taint of one function: values that are (or hold) slices
// of a reader's buffer, with the source they come from.
type borrowState struct {
	fn      *ssa.Function
	tainted map[ssa.Value]*borrowSource
	order   []ssa.Value
}

func (b *borrowState) mark(v ssa.Value, s *borrowSource) bool {
	if v == nil || b.tainted[v] != nil {
		return false
	}
	b.tainted[v] = s
	b.order = append(b.order, v)
	return true
}

// returnsBorrowed: repository functions that return a borrowed slice of a
// reader they got as a parameter (the result is a source at their call sites).
func (c *Ctx) returnsBorrowed() map[*ssa.Function]int {
	if c.borrowFns != nil {
		return c.borrowFns
	}
	c.borrowFns = map[*ssa.Function]int{}
	for round := 0; round < 3; round++ {
		changed := false
		for _, fn := range c.P.RepoFns {
			if _, done := c.borrowFns[fn]; done || len(fn.Blocks) == 0 {
				continue
			}
			st := c.borrowTaint(fn)
			allInstrs(fn, func(in ssa.Instruction) {
				r, ok := in.(*ssa.Return)
				if !ok {
					return
				}
				for _, rv := range r.Results {
					if s := st.tainted[rv]; s != nil {
						if p, ok := s.reader.(*ssa.Parameter); ok {
							if _, done := c.borrowFns[fn]; !done {
								c.borrowFns[fn] = paramIndex(fn, p)
								changed = true
							}
						}
					}
				}
			})
		}
		if !changed {
			break
		}
	}
	return c.borrowFns
}

// borrowTaint computes the borrowed values of fn.
func (c *Ctx) borrowTaint(fn *ssa.Function) *borrowState {
	c.paramAliasFns()
	st := &borrowState{fn: fn, tainted: map[ssa.Value]*borrowSource{}}
	allInstrs(fn, func(in ssa.Instruction) {
		call, ok := in.(*ssa.Call)
		if !ok {
			return
		}
		f := staticCallee(&call.Call)
		if what, ok := borrowedResult(f); ok && len(call.Call.Args) > 0 {
			src := &borrowSource{call: call, reader: call.Call.Args[0], what: what}
			src.val = resultValue(call, 0)
			if src.val != nil {
				st.mark(src.val, src)
			}
			return
		}
		if sf := staticFn(&call.Call); sf != nil && c.borrowFns != nil {
			if pi, ok := c.borrowFns[sf]; ok && pi >= 0 && pi < len(call.Call.Args) {
				src := &borrowSource{call: call, reader: call.Call.Args[pi], what: load.FnName(sf) + " (returns a slice of the reader's buffer)"}
				src.val = resultValue(call, 0)
				if src.val != nil {
					st.mark(src.val, src)
				}
			}
		}
	})
	c.propagateBorrow(st)
	return st
}

// paramAliasFns: functions of the repository whose result can be (part of) the memory of one of their
// []byte parameters - a trimming or classifying helper that hands its argument back. Borrowed memory that
// goes in comes out borrowed.
func (c *Ctx) paramAliasFns() map[*ssa.Function]map[int]bool {
	if c.aliasFns != nil {
		return c.aliasFns
	}
	c.aliasFns = map[*ssa.Function]map[int]bool{}
	for round := 0; round < 3; round++ {
		changed := false
		for _, fn := range c.P.RepoFns {
			if len(fn.Blocks) == 0 {
				continue
			}
			for pi, p := range fn.Params {
				if !isByteSlice(p.Type()) || c.aliasFns[fn][pi] {
					continue
				}
				st := &borrowState{fn: fn, tainted: map[ssa.Value]*borrowSource{}}
				st.mark(p, &borrowSource{reader: p, val: p, what: "parameter"})
				c.propagateBorrow(st)
				hit := false
				allInstrs(fn, func(in ssa.Instruction) {
					if r, ok := in.(*ssa.Return); ok {
						for _, rv := range r.Results {
							if st.tainted[rv] != nil {
								hit = true
							}
						}
					}
				})
				if hit {
					if c.aliasFns[fn] == nil {
						c.aliasFns[fn] = map[int]bool{}
					}
					c.aliasFns[fn][pi] = true
					changed = true
				}
			}
		}
		if !changed {
			break
		}
	}
	return c.aliasFns
}

// propagateBorrow closes the borrowed set of st under the operations that keep pointing into the same memory.
func (c *Ctx) propagateBorrow(st *borrowState) {
	for i := 0; i < len(st.order); i++ {
		v := st.order[i]
		s := st.tainted[v]
		for _, r := range referrers(v) {
			switch x := r.(type) {
			case *ssa.Slice:
				if x.X == v {
					st.mark(x, s)
				}
			case *ssa.Phi:
				st.mark(x, s)
			case *ssa.ChangeType:
				st.mark(x, s)
			case *ssa.Convert:
				if isByteSlice(x.Type()) {
					st.mark(x, s)
				}
			case *ssa.Extract:
				if isByteSlice(x.Type()) || isSliceOfByteSlices(x.Type()) {
					st.mark(x, s)
				}
			case *ssa.IndexAddr:
				// element of a container of borrowed slices
				if x.X == v && isSliceOfByteSlices(v.Type()) {
					for _, rr := range referrers(x) {
						if ld, ok := rr.(*ssa.UnOp); ok && ld.Op == token.MUL {
							st.mark(ld, s)
						}
					}
				}
			case *ssa.Store:
				if x.Val != v {
					continue
				}
				switch a := x.Addr.(type) {
				case *ssa.IndexAddr:
					// the container now holds borrowed memory
					base := a.X
					st.mark(base, s)
					if al, ok := base.(*ssa.Alloc); ok {
						for _, rr := range referrers(al) {
							if sl, ok := rr.(*ssa.Slice); ok {
								st.mark(sl, s)
							}
						}
					}
				case *ssa.Alloc:
					// a local variable kept in a cell (captured by a closure): its loads are borrowed
					for _, rr := range referrers(a) {
						if ld, ok := rr.(*ssa.UnOp); ok && ld.Op == token.MUL {
							st.mark(ld, s)
						}
					}
				}
			case *ssa.Call:
				cc := &x.Call
				if bi, ok := cc.Value.(*ssa.Builtin); ok && bi.Name() == "append" && len(cc.Args) == 2 {
					// append(dst, src...): the result holds borrowed memory when dst does, or when
					// the elements copied are themselves borrowed slices
					if cc.Args[0] == v || (cc.Args[1] == v && isSliceOfByteSlices(v.Type())) {
						st.mark(x, s)
					}
					continue
				}
				f := staticCallee(cc)
				if subsliceResult(f) {
					subj := 0
					if recvNamed(f) == "Regexp" {
						subj = 1
					}
					if subj < len(cc.Args) && cc.Args[subj] == v {
						if rv := resultValue(x, 0); rv != nil {
							st.mark(rv, s)
						} else {
							st.mark(x, s)
						}
						// Cut and friends return tuples
						for _, rr := range referrers(x) {
							if ex, ok := rr.(*ssa.Extract); ok && isByteSlice(ex.Type()) {
								st.mark(ex, s)
							}
						}
					}
				}
				// a helper of the repository that hands (part of) its argument back
				if sf := staticFn(cc); sf != nil && c.aliasFns != nil {
					for ai, a := range cc.Args {
						if a == v && c.aliasFns[sf][ai] {
							if rv := resultValue(x, 0); rv != nil && isByteSlice(rv.Type()) {
								st.mark(rv, s)
							}
							for _, rr := range referrers(x) {
								if ex, ok := rr.(*ssa.Extract); ok && isByteSlice(ex.Type()) {
									st.mark(ex, s)
								}
							}
						}
					}
				}
			}
		}
	}
}

// reachesAvoiding: is there a path from just after `from` to `to` that does not execute `avoid`?
func reachesAvoiding(from, to, avoid ssa.Instruction) bool {
	type pos struct {
		b *ssa.BasicBlock
		i int
	}
	seen := map[*ssa.BasicBlock]bool{}
	stack := []pos{{from.Block(), instrIndex(from) + 1}}
	for len(stack) > 0 {
		p := stack[len(stack)-1]
		stack = stack[:len(stack)-1]
		stopped := false
		for i := p.i; i < len(p.b.Instrs); i++ {
			in := p.b.Instrs[i]
			if in == to {
				return true
			}
			if in == avoid {
				stopped = true
				break
			}
		}
		if stopped {
			continue
		}
		for _, s := range p.b.Succs {
			if !seen[s] {
				seen[s] = true
				stack = append(stack, pos{s, 0})
			}
		}
	}
	return false
}

// storesParam: the repository function keeps its parameter (stores it into a
// field, an element, a map or a package variable), or returns it.
func (c *Ctx) keepsParam(fn *ssa.Function, pi int, depth int) string {
	if depth > 2 || pi >= len(fn.Params) || len(fn.Blocks) == 0 {
		return ""
	}
	p := fn.Params[pi]
	seen := map[ssa.Value]bool{}
	why := ""
	var walk func(v ssa.Value, d int)
	walk = func(v ssa.Value, d int) {
		if d > 6 || seen[v] || why != "" {
			return
		}
		seen[v] = true
		for _, r := range referrers(v) {
			switch x := r.(type) {
			case *ssa.Slice, *ssa.Phi, *ssa.ChangeType:
				walk(x.(ssa.Value), d+1)
			case *ssa.Store:
				if x.Val == v {
					switch x.Addr.(type) {
					case *ssa.FieldAddr, *ssa.Global:
						why = "stores it at " + c.P.InstrPos(x)
					case *ssa.IndexAddr:
						why = "stores it into an element at " + c.P.InstrPos(x)
					}
				}
			case *ssa.MapUpdate:
				if x.Value == v || x.Key == v {
					why = "stores it into a map at " + c.P.InstrPos(x)
				}
			case *ssa.Call:
				if sf := staticFn(&x.Call); sf != nil && c.P.IsRepoFn(sf) {
					for i, a := range x.Call.Args {
						if a == v {
							if w := c.keepsParam(sf, i, depth+1); w != "" {
								why = w
							}
						}
					}
				}
			}
		}
	}
	walk(p, 0)
	return why
}

// RuleBorrow (C09-C14, C17): a slice handed out by Scanner.Bytes, Reader.ReadLine,
// ReadSlice or Peek is memory of the reader and is overwritten by the next
// read. It must be copied (string(b), bytes.Clone, append(own, b...), Write)
// before the reader advances: it is not kept in a data structure, not carried
// into the next iteration of the read loop, not appended to, and not used
// after another read of the same reader.
func (c *Ctx) RuleBorrow() *Result {
	res := &Result{Rule: "BORROW", MinInst: 100}
	c.returnsBorrowed()
	nSrc := 0
	for _, fn := range c.P.RepoFns {
		if len(fn.Blocks) == 0 {
			continue
		}
		res.Instances++
		st := c.borrowTaint(fn)
		if len(st.order) == 0 {
			continue
		}
		loops := naturalLoops(fn)
		reported := map[string]bool{}
		report := func(s *borrowSource, at ssa.Instruction, what string) {
			key := fmt.Sprintf("%s:%s %s", load.FnName(fn), s.what, what)
			if reported[key] {
				return
			}
			reported[key] = true
			nSrc++
			res.Instances++
			res.bad(key, c.P.InstrPos(at), fmt.Sprintf("the slice returned by %s (%s) is memory of the reader that the next read overwrites; here it %s without being copied: once the input is larger than the reader's buffer (4096 bytes for a bufio.Reader, the line length for a Scanner) earlier lines change under the program's hands", s.what, c.P.InstrPos(s.call), what))
		}
		srcSeen := map[*borrowSource]bool{}
		for _, v := range st.order {
			s := st.tainted[v]
			if !srcSeen[s] {
				srcSeen[s] = true
				res.Instances++
			}
			// (1) carried into the next iteration of a loop that reads again
			if phi, ok := v.(*ssa.Phi); ok {
				for _, l := range loops {
					if l.header != phi.Block() || !l.body[s.call.Block()] {
						continue
					}
					for i, e := range phi.Edges {
						if st.tainted[e] != nil && l.body[phi.Block().Preds[i]] {
							report(s, phi, "is carried into the next iteration of the read loop ("+phiLabel(phi)+")")
						}
					}
				}
			}
			for _, r := range referrers(v) {
				switch x := r.(type) {
				case *ssa.Store:
					if x.Val != v {
						continue
					}
					switch a := x.Addr.(type) {
					case *ssa.FieldAddr:
						report(s, x, "is stored in a field")
					case *ssa.Global:
						report(s, x, "is stored in a package variable")
					case *ssa.IndexAddr:
						// an element of a slice that lives across iterations
						if _, isAlloc := a.X.(*ssa.Alloc); !isAlloc {
							for _, l := range loops {
								if l.body[s.call.Block()] && !l.body[blockOfValueOr(a.X, fn)] {
									report(s, x, "is stored in an element of a slice that outlives the iteration")
								}
							}
						}
					}
				case *ssa.MapUpdate:
					if x.Value == v || x.Key == v {
						report(s, x, "is stored in a map")
					}
				case *ssa.Call:
					cc := &x.Call
					if bi, ok := cc.Value.(*ssa.Builtin); ok && bi.Name() == "append" && len(cc.Args) == 2 && cc.Args[0] == v && isByteSlice(v.Type()) {
						report(s, x, "is the destination of append (which writes behind it into the reader's buffer, over input that has not been read yet, or keeps the first piece while the next one is read)")
						continue
					}
					if sf := staticFn(cc); sf != nil && c.P.IsRepoFn(sf) {
						for i, a := range cc.Args {
							if a == v {
								if w := c.keepsParam(sf, i, 0); w != "" {
									report(s, x, "is handed to "+load.FnName(sf)+", which "+w)
								}
							}
						}
					}
				}
				// (2) used after another read of the same reader in the same iteration
				if s.reader != nil {
					if _, isPhi := r.(*ssa.Phi); isPhi {
						continue
					}
					allInstrs(fn, func(a ssa.Instruction) {
						ac := callCommon(a)
						if ac == nil || a == ssa.Instruction(s.call) || !advancesReader(ac, s.reader) {
							return
						}
						if reachesAvoiding(s.call, a, s.call) && reachesAvoiding(a, r, s.call) {
							report(s, r, fmt.Sprintf("is used after the reader was advanced again at %s", c.P.InstrPos(a)))
						}
					})
				}
			}
		}
	}
	if nSrc == 0 {
		res.ok("repository:borrowed reader memory is copied before the next read", "-", fmt.Sprintf("%d functions scanned", res.Instances))
	}
	return res
}

func blockOfValueOr(v ssa.Value, fn *ssa.Function) *ssa.BasicBlock {
	if b := blockOfValue(v); b != nil {
		return b
	}
	return fn.Blocks[0]
}

// ---------- READLINE ----------

// derivedFrom: v depends on root through conversions, slices, phis, binary operations and calls.
func derivedFrom(v, root ssa.Value, depth int, seen map[ssa.Value]bool) bool {
	if v == root {
		return true
	}
	if depth > 8 || seen[v] {
		return false
	}
	seen[v] = true
	in, ok := v.(ssa.Instruction)
	if !ok {
		return false
	}
	for _, op := range in.Operands(nil) {
		if op != nil && *op != nil && derivedFrom(*op, root, depth+1, seen) {
			return true
		}
	}
	return false
}

// RuleReadLine (C17 and the line-oriented commands): bufio.Reader.ReadLine
// hands out a line that is longer than the reader's buffer in pieces. Every
// call must (i) look at isPrefix, (ii) run nothing but accumulation on a piece
// before a test of isPrefix, and (iii) empty the accumulator once a line is
// complete. (What it returns is borrowed memory: BORROW.)
func (c *Ctx) RuleReadLine() *Result {
	res := &Result{Rule: "READLINE", MinInst: 100}
	n := 0
	for _, fn := range c.P.RepoFns {
		if len(fn.Blocks) == 0 {
			continue
		}
		res.Instances++
		var calls []*ssa.Call
		allInstrs(fn, func(in ssa.Instruction) {
			if call, ok := in.(*ssa.Call); ok && isMeth(staticCallee(&call.Call), "bufio", "Reader", "ReadLine") {
				calls = append(calls, call)
			}
		})
		if len(calls) == 0 {
			continue
		}
		loops := naturalLoops(fn)
		for ci, call := range calls {
			n++
			res.Instances++
			key := fmt.Sprintf("%s:ReadLine#%d", load.FnName(fn), ci+1)
			pos := c.P.InstrPos(call)
			chunk, isPrefix := resultValue(call, 0), resultValue(call, 1)
			if isPrefix == nil || len(usesOf(isPrefix)) == 0 {
				res.bad(key+" isPrefix", pos, "bufio.Reader.ReadLine returns a line in pieces when it is longer than the reader's buffer (4096 bytes by default) and says so in isPrefix; that result is ignored here, so every piece of a long line is treated as a line of its own")
				continue
			}
			if chunk == nil {
				res.ok(key, pos, "the line is not used")
				continue
			}
			// tests of isPrefix: If instructions whose condition depends on it
			var tests []*ssa.If
			allInstrs(fn, func(in ssa.Instruction) {
				if iff, ok := in.(*ssa.If); ok && derivedFrom(iff.Cond, isPrefix, 0, map[ssa.Value]bool{}) {
					tests = append(tests, iff)
				}
			})
			testBlocks := map[*ssa.BasicBlock]bool{}
			for _, t := range tests {
				testBlocks[t.Block()] = true
			}
			errV := resultValue(call, 2)
			// dominatedByTest: no path from the call to `at` that neither passes a test of isPrefix
			// nor runs under a non-nil error of the same call (where the piece does not matter)
			dominatedByTest := func(at ssa.Instruction) bool {
				seen := map[*ssa.BasicBlock]bool{}
				type pos struct {
					b *ssa.BasicBlock
					i int
				}
				stack := []pos{{call.Block(), instrIndex(call) + 1}}
				for len(stack) > 0 {
					p := stack[len(stack)-1]
					stack = stack[:len(stack)-1]
					for i := p.i; i < len(p.b.Instrs); i++ {
						if p.b.Instrs[i] == at {
							return false
						}
					}
					if testBlocks[p.b] {
						continue
					}
					succs := p.b.Succs
					if iff, ok := p.b.Instrs[len(p.b.Instrs)-1].(*ssa.If); ok && errV != nil {
						if v, trueMeansNil, ok := nilTest(iff.Cond); ok && (v == errV || derivedFrom(v, errV, 0, map[ssa.Value]bool{})) {
							if trueMeansNil {
								succs = succs[:1]
							} else {
								succs = succs[1:]
							}
						}
					}
					for _, sb := range succs {
						if !seen[sb] {
							seen[sb] = true
							stack = append(stack, pos{sb, 0})
						}
					}
				}
				return true
			}
			// (ii) what is done with a piece: follow copies of the chunk
			problems := []string{}
			pieces := map[ssa.Value]bool{chunk: true}
			order := []ssa.Value{chunk}
			var accumulators []*ssa.Call
			for i := 0; i < len(order); i++ {
				v := order[i]
				add := func(x ssa.Value) {
					if !pieces[x] {
						pieces[x] = true
						order = append(order, x)
					}
				}
				for _, r := range usesOf(v) {
					switch x := r.(type) {
					case *ssa.Slice, *ssa.ChangeType, *ssa.Convert, *ssa.Phi, *ssa.MakeInterface:
						add(x.(ssa.Value))
					case *ssa.Call:
						cc := &x.Call
						if bi, ok := cc.Value.(*ssa.Builtin); ok {
							switch bi.Name() {
							case "append":
								if len(cc.Args) == 2 && cc.Args[1] == v {
									accumulators = append(accumulators, x)
									continue // accumulation
								}
								if len(cc.Args) == 2 && cc.Args[0] == v {
									add(x)
									continue // BORROW reports it
								}
							case "len", "cap", "copy":
								continue
							}
						}
						f := staticCallee(cc)
						if f != nil {
							switch {
							case isFn(f, "bytes", "Clone"), isFn(f, "strings", "Clone"), isFn(f, "slices", "Clone"):
								add(x)
								continue
							case f.Name() == "Write" || f.Name() == "WriteString":
								// written to a buffer / builder / writer: accumulation
								continue
							}
						}
						if !dominatedByTest(x) {
							problems = append(problems, fmt.Sprintf("%s at %s works on what ReadLine returned before isPrefix is looked at", calleeLabel(cc), c.P.InstrPos(x)))
						}
					case *ssa.Return:
						if !dominatedByTest(x) {
							problems = append(problems, fmt.Sprintf("the piece is returned at %s before isPrefix is looked at", c.P.InstrPos(x)))
						}
					case *ssa.BinOp:
						if !dominatedByTest(x) {
							problems = append(problems, fmt.Sprintf("the piece is compared or concatenated at %s before isPrefix is looked at", c.P.InstrPos(x)))
						}
					}
				}
			}
			// (iii) an accumulator that is carried around the read loop is emptied when a line is complete
			for _, acc := range accumulators {
				dst := acc.Call.Args[0]
				for _, l := range loops {
					if !l.body[call.Block()] {
						continue
					}
					var phi *ssa.Phi
					if p, ok := dst.(*ssa.Phi); ok && p.Block() == l.header {
						phi = p
					}
					if phi == nil {
						continue
					}
					// an inner loop that only collects the pieces of one line is not the read loop of lines
					for i, e := range phi.Edges {
						pred := phi.Block().Preds[i]
						if !l.body[pred] {
							continue
						}
						if e == ssa.Value(acc) {
							continue // the accumulating edge
						}
						if isResetValue(e, phi) {
							continue
						}
						if e == ssa.Value(phi) || flowsIntoPhi(acc, phi, 0) && derivedFrom(e, phi, 0, map[ssa.Value]bool{}) {
							// the accumulator survives an iteration unchanged: only fine when that edge is the accumulating side
							if edgeUnderPrefix(pred, tests, isPrefix) {
								continue
							}
							problems = append(problems, fmt.Sprintf("the accumulator %s still holds the pieces of the previous long line when the next line is read (it is not emptied on the edge from block %d)", phiLabel(phi), pred.Index))
						}
					}
				}
			}
			problems = uniq(problems)
			if len(problems) > 0 {
				sort.Strings(problems)
				res.bad(key, pos, "a line longer than the reader's buffer arrives in pieces (isPrefix): "+strings.Join(problems, "; "))
			} else {
				res.ok(key, pos, fmt.Sprintf("isPrefix is tested (%d tests) before anything but accumulation is done with a piece; accumulators are emptied per line", len(tests)))
			}
		}
	}
	if n == 0 {
		res.ok("repository:no bufio.Reader.ReadLine", "-", fmt.Sprintf("%d functions scanned", res.Instances))
	}
	return res
}

// isResetValue: nil, x[:0], a fresh slice.
func isResetValue(v ssa.Value, of ssa.Value) bool {
	switch x := v.(type) {
	case *ssa.Const:
		return x.Value == nil
	case *ssa.MakeSlice:
		return true
	case *ssa.Slice:
		if x.High != nil {
			if k, ok := constInt(x.High); ok && k == 0 {
				return true
			}
		}
	}
	return false
}

// edgeUnderPrefix: the block lies on the side of a test where isPrefix is true
// (the accumulating side: more of the line follows).
func edgeUnderPrefix(b *ssa.BasicBlock, tests []*ssa.If, isPrefix ssa.Value) bool {
	for _, t := range tests {
		cond, neg := unwrapNot(t.Cond)
		if cond != isPrefix {
			continue
		}
		side := t.Block().Succs[0]
		if neg {
			side = t.Block().Succs[1]
		}
		if side == b || side.Dominates(b) {
			return true
		}
	}
	return false
}

// ---------- BUFW-FLUSH ----------

// flushesParam: the repository function calls Flush on its parameter pi (or hands it to one that does).
func (c *Ctx) flushesParam(fn *ssa.Function, pi int, depth int) bool {
	if depth > 2 || pi >= len(fn.Params) || len(fn.Blocks) == 0 {
		return false
	}
	found := false
	for _, r := range referrers(fn.Params[pi]) {
		call, ok := r.(ssa.CallInstruction)
		if !ok {
			continue
		}
		cc := call.Common()
		if isMeth(staticCallee(cc), "bufio", "Writer", "Flush") && len(cc.Args) > 0 && cc.Args[0] == ssa.Value(fn.Params[pi]) {
			found = true
		}
		if sf := staticFn(cc); sf != nil && c.P.IsRepoFn(sf) {
			for i, a := range cc.Args {
				if a == ssa.Value(fn.Params[pi]) && c.flushesParam(sf, i, depth+1) {
					found = true
				}
			}
		}
	}
	return found
}

// reachesAvoidingSet: a path from just after `from` to `to` that executes none of `avoid`.
func reachesAvoidingSet(from, to ssa.Instruction, avoid map[ssa.Instruction]bool) bool {
	type pos struct {
		b *ssa.BasicBlock
		i int
	}
	seen := map[*ssa.BasicBlock]bool{}
	stack := []pos{{from.Block(), instrIndex(from) + 1}}
	for len(stack) > 0 {
		p := stack[len(stack)-1]
		stack = stack[:len(stack)-1]
		stopped := false
		for i := p.i; i < len(p.b.Instrs); i++ {
			in := p.b.Instrs[i]
			if in == to {
				return true
			}
			if avoid[in] {
				stopped = true
				break
			}
		}
		if stopped {
			continue
		}
		for _, s := range p.b.Succs {
			if !seen[s] {
				seen[s] = true
				stack = append(stack, pos{s, 0})
			}
		}
	}
	return false
}

// RuleBufwFlush (C13, C14, C17): what is written through a bufio.Writer
// reaches the underlying buffer or file only with Flush. Every writer created
// in the repository is flushed on every path to a successful return, and
// before the underlying sink is read or closed; otherwise the tail of the
// output (up to 4095 bytes) is lost without an error.
func (c *Ctx) RuleBufwFlush() *Result {
	res := &Result{Rule: "BUFW-FLUSH", MinInst: 100}
	total := 0
	defer func() {
		if total == 0 {
			res.ok("repository:no bufio.Writer", "-", fmt.Sprintf("%d functions scanned", res.Instances))
		}
	}()
	for _, fn := range c.P.RepoFns {
		if len(fn.Blocks) == 0 {
			continue
		}
		res.Instances++
		n := 0
		allInstrs(fn, func(in ssa.Instruction) {
			mk, ok := in.(*ssa.Call)
			if !ok {
				return
			}
			f := staticCallee(&mk.Call)
			if !(isFn(f, "bufio", "NewWriter") || isFn(f, "bufio", "NewWriterSize")) {
				return
			}
			n++
			total++
			res.Instances++
			key := fmt.Sprintf("%s:bufio.Writer#%d", load.FnName(fn), n)
			pos := c.P.InstrPos(mk)
			flushes := map[ssa.Instruction]bool{}
			escape := ""
			var walk func(v ssa.Value, d int)
			seen := map[ssa.Value]bool{}
			walk = func(v ssa.Value, d int) {
				if d > 4 || seen[v] {
					return
				}
				seen[v] = true
				for _, r := range referrers(v) {
					switch x := r.(type) {
					case *ssa.DebugRef:
					case *ssa.Phi:
						walk(x, d+1)
					case *ssa.MakeInterface:
						walk(x, d+1)
					case *ssa.ChangeInterface:
						walk(x, d+1)
					case ssa.CallInstruction:
						cc := x.Common()
						if isMeth(staticCallee(cc), "bufio", "Writer", "Flush") {
							flushes[x] = true
							continue
						}
						if sf := staticFn(cc); sf != nil && c.P.IsRepoFn(sf) {
							for i, a := range cc.Args {
								if a == v && c.flushesParam(sf, i, 0) {
									flushes[x] = true
								}
							}
						}
					case *ssa.Store:
						if x.Val == v {
							if _, local := x.Addr.(*ssa.Alloc); !local {
								escape = "is stored at " + c.P.InstrPos(x)
							} else {
								for _, rr := range referrers(x.Addr) {
									if ld, ok := rr.(*ssa.UnOp); ok && ld.Op == token.MUL {
										walk(ld, d+1)
									}
								}
							}
						}
					case *ssa.Return:
						escape = "is returned at " + c.P.InstrPos(x)
					case *ssa.MakeClosure:
						escape = "is captured by a closure at " + c.P.InstrPos(x)
					}
				}
			}
			walk(mk, 0)
			if escape != "" {
				res.undecided(key, pos, "the writer "+escape+": where it is flushed cannot be followed")
				return
			}
			var problems []string
			// (1) every successful return after the creation has passed a Flush
			c.explore(mk.Block(), instrIndex(mk)+1, newEnvAt(mk.Block()), exploreCB{
				instr: func(in2 ssa.Instruction, e *pathEnv) bool { return flushes[in2] },
				ret: func(r *ssa.Return, e *pathEnv) {
					if op := retErrOperand(r); op != nil {
						if errOperandAlwaysNonNil(op) || e.nilnessOf(op) == nonNil || domFacts(r.Block())[op] == nonNil {
							return // a failing return: the output is discarded
						}
					}
					problems = append(problems, "the function can return successfully at "+c.P.InstrPos(r)+" without having flushed the writer")
				},
			})
			// (2) the sink is not read or closed before the flush
			sink := mk.Call.Args[0]
			sinks := []ssa.Value{sink}
			if mi, ok := sink.(*ssa.MakeInterface); ok {
				sinks = append(sinks, mi.X)
			}
			for _, sv := range sinks {
				for _, r := range referrers(sv) {
					call, ok := r.(ssa.CallInstruction)
					if !ok || call == ssa.CallInstruction(mk) {
						continue
					}
					if _, isDefer := r.(*ssa.Defer); isDefer {
						continue
					}
					cf := staticCallee(call.Common())
					if cf == nil {
						continue
					}
					switch cf.Name() {
					case "Bytes", "String", "Close", "WriteTo", "Len", "Sync":
					default:
						continue
					}
					if len(call.Common().Args) == 0 || stripConv(call.Common().Args[0]) != stripConv(sv) {
						continue
					}
					if reachesAvoidingSet(mk, call, flushes) {
						// closing the sink without a flush is what a failed write is followed by: when every return
						// behind such a Close reports an error, the truncated output is not passed off as success
						if cf.Name() == "Close" {
							if ci, isInstr := call.(ssa.Instruction); isInstr {
								silent := false
								c.explore(mk.Block(), instrIndex(mk)+1, newEnvAt(mk.Block()), exploreCB{
									instr: func(in2 ssa.Instruction, e *pathEnv) bool {
										if flushes[in2] {
											return true
										}
										if in2 != ci {
											return false
										}
										c.explore(in2.Block(), instrIndex(in2)+1, e.clone(), exploreCB{
											ret: func(r *ssa.Return, e2 *pathEnv) {
												op := retErrOperand(r)
												if op == nil || !(errOperandAlwaysNonNil(op) || e2.nilnessOf(op) == nonNil || domFacts(r.Block())[op] == nonNil) {
													silent = true
												}
											},
										})
										return true
									},
								})
								if !silent {
									continue
								}
							}
						}
						problems = append(problems, fmt.Sprintf("%s of the underlying sink at %s can run before the writer is flushed", cf.Name(), c.P.InstrPos(call)))
					}
				}
			}
			problems = uniq(problems)
			if len(problems) > 0 {
				sort.Strings(problems)
				res.bad(key, pos, "text written through the bufio.Writer stays in its 4096-byte buffer until Flush: "+strings.Join(problems, "; ")+": the end of the rewritten file is cut off without an error")
			} else {
				res.ok(key, pos, fmt.Sprintf("%d flush site(s); every successful return and every read of the sink comes after one", len(flushes)))
			}
		})
	}
	return res
}

// ---------- SEARCH-RESUME ----------

// indexSearch: a call that returns the position of a match, or -1.
func indexSearch(cc *ssa.CallCommon) (subject int, ok bool) {
	f := staticCallee(cc)
	if f == nil {
		return 0, false
	}
	switch objPkgPath(f) {
	case "strings", "bytes":
		switch f.Name() {
		case "Index", "IndexByte", "IndexRune", "IndexAny", "IndexFunc", "LastIndex", "LastIndexByte", "LastIndexAny", "LastIndexFunc":
			return 0, true
		}
	case "slices":
		switch f.Name() {
		case "Index", "IndexFunc":
			return 0, true
		}
	}
	return 0, false
}

// comparesValue: cond is a relational test that has v as an operand.
func comparesValue(cond ssa.Value, v ssa.Value) bool {
	cond, _ = unwrapNot(cond)
	b, ok := cond.(*ssa.BinOp)
	if !ok {
		return false
	}
	switch b.Op {
	case token.LSS, token.LEQ, token.GTR, token.GEQ, token.EQL, token.NEQ:
		return b.X == v || b.Y == v
	}
	return false
}

// RuleSearchResume (C11, C12, C16, C18, C19): the position returned by an
// index search (strings.Index, bytes.Index, slices.IndexFunc, ...) is -1 when
// nothing was found and is relative to the slice searched. (a) it is compared
// before it is used in arithmetic, as a bound or as an index; (b) a search
// that is resumed in a loop from the previous hit starts behind that hit.
func (c *Ctx) RuleSearchResume() *Result {
	res := &Result{Rule: "SEARCH-RESUME", MinInst: 100}
	n := 0
	for _, fn := range c.P.RepoFns {
		if len(fn.Blocks) == 0 {
			continue
		}
		res.Instances++
		loops := naturalLoops(fn)
		k := 0
		allInstrs(fn, func(in ssa.Instruction) {
			call, ok := in.(*ssa.Call)
			if !ok {
				return
			}
			subj, ok := indexSearch(&call.Call)
			if !ok {
				return
			}
			k++
			n++
			res.Instances++
			f := staticCallee(&call.Call)
			key := fmt.Sprintf("%s:%s#%d", load.FnName(fn), qualName(f), k)
			pos := c.P.InstrPos(call)
			var problems []string
			// (a) every arithmetic / bound / index use is guarded by a comparison of the result
			guarded := func(at ssa.Instruction, v ssa.Value) bool {
				return c.guardedByEdges(at, func(cond ssa.Value, val bool) bool { return comparesValue(cond, v) || comparesValue(cond, call) })
			}
			seen := map[ssa.Value]bool{}
			var uses func(v ssa.Value, d int)
			uses = func(v ssa.Value, d int) {
				if d > 3 || seen[v] {
					return
				}
				seen[v] = true
				for _, r := range usesOf(v) {
					switch x := r.(type) {
					case *ssa.Phi:
						uses(x, d+1)
					case *ssa.BinOp:
						switch x.Op {
						case token.ADD, token.SUB, token.MUL:
							// LastIndex(...) + 1: "after the previous separator, or at the very beginning" - the idiom relies
							// on -1 + 1 being 0 and needs no test
							if x.Op == token.ADD && v == ssa.Value(call) && strings.HasPrefix(f.Name(), "LastIndex") {
								if k, ok := constInt(x.Y); ok && k == 1 && x.X == v {
									break
								}
								if k, ok := constInt(x.X); ok && k == 1 && x.Y == v {
									break
								}
							}
							if !guarded(x, v) {
								problems = append(problems, fmt.Sprintf("the result is used in arithmetic at %s without a test for -1 (nothing found)", c.P.InstrPos(x)))
							}
						}
					case *ssa.Slice:
						if (x.Low == v || x.High == v) && !guarded(x, v) {
							problems = append(problems, fmt.Sprintf("the result is used as a slice bound at %s without a test for -1", c.P.InstrPos(x)))
						}
					case *ssa.IndexAddr:
						if x.Index == v && !guarded(x, v) {
							problems = append(problems, fmt.Sprintf("the result is used as an index at %s without a test for -1", c.P.InstrPos(x)))
						}
					case *ssa.Index:
						if x.Index == v && !guarded(x, v) {
							problems = append(problems, fmt.Sprintf("the result is used as an index at %s without a test for -1", c.P.InstrPos(x)))
						}
					case *ssa.Lookup:
						if x.Index == v && !guarded(x, v) {
							problems = append(problems, fmt.Sprintf("the result is used as an index at %s without a test for -1", c.P.InstrPos(x)))
						}
					}
				}
			}
			uses(call, 0)
			// (b) resumed search: subject is X[c:] with c carried around a loop that contains the call
			if subj < len(call.Call.Args) {
				if sl, ok := call.Call.Args[subj].(*ssa.Slice); ok && sl.Low != nil {
					if phi, ok := sl.Low.(*ssa.Phi); ok {
						for _, l := range loops {
							if l.header != phi.Block() || !l.body[call.Block()] {
								continue
							}
							for i, e := range phi.Edges {
								if !l.body[phi.Block().Preds[i]] {
									continue
								}
								if b, ok := e.(*ssa.BinOp); ok && b.Op == token.ADD {
									if (b.X == ssa.Value(phi) && b.Y == ssa.Value(call)) || (b.Y == ssa.Value(phi) && b.X == ssa.Value(call)) {
										problems = append(problems, fmt.Sprintf("the search is resumed at %s from the position of the previous hit itself (%s + result): the next search finds the same element again, so the cursor never moves past the first hit", c.P.InstrPos(b), phiLabel(phi)))
									}
								}
							}
						}
					}
				}
			}
			problems = uniq(problems)
			if len(problems) > 0 {
				sort.Strings(problems)
				res.bad(key, pos, strings.Join(problems, "; "))
			} else {
				res.ok(key, pos, "the position is compared before it is used; a resumed search starts behind the previous hit")
			}
		})
	}
	if n == 0 {
		res.ok("repository:no index search", "-", fmt.Sprintf("%d functions scanned", res.Instances))
	}
	return res
}

// ---------- IDX-ARRAY ----------

// RuleIdxArray (C19): a fixed-size array is indexed with a computed value only
// under a visible bound (a mask, a remainder, or a comparison of the index that
// guards the access). A scratch buffer sized for the common case and filled by
// a counting loop is the classic index-out-of-range on rare input.
func (c *Ctx) RuleIdxArray() *Result {
	res := &Result{Rule: "IDX-ARRAY", MinInst: 100}
	n := 0
	for _, fn := range c.P.RepoFns {
		if len(fn.Blocks) == 0 {
			continue
		}
		res.Instances++
		k := 0
		allInstrs(fn, func(in ssa.Instruction) {
			var X, I ssa.Value
			switch x := in.(type) {
			case *ssa.IndexAddr:
				X, I = x.X, x.Index
			case *ssa.Index:
				X, I = x.X, x.Index
			default:
				return
			}
			t := X.Type().Underlying()
			if p, ok := t.(*types.Pointer); ok {
				t = p.Elem().Underlying()
			}
			arr, ok := t.(*types.Array)
			if !ok {
				return
			}
			if _, isConst := I.(*ssa.Const); isConst {
				return
			}
			k++
			n++
			res.Instances++
			key := fmt.Sprintf("%s:computed index into [%d]%s#%d", load.FnName(fn), arr.Len(), arr.Elem().String(), k)
			bounded := false
			switch b := I.(type) {
			case *ssa.BinOp:
				if m, ok := constInt(b.Y); ok {
					if b.Op == token.AND && m >= 0 && m < arr.Len() {
						bounded = true
					}
					if b.Op == token.REM && m > 0 && m <= arr.Len() {
						bounded = true
					}
				}
			}
			if !bounded {
				bounded = c.guardedByEdges(in, func(cond ssa.Value, val bool) bool {
					if comparesValue(cond, I) {
						return true
					}
					// the loop counter the index is derived from
					if b, ok := I.(*ssa.BinOp); ok {
						return comparesValue(cond, b.X) || comparesValue(cond, b.Y)
					}
					return false
				})
			}
			if bounded {
				res.ok(key, c.P.InstrPos(in), "the index is masked, reduced or compared before the access")
				return
			}
			if lo, hi, ok := indexRange(I, fn, 0); ok && lo >= 0 && hi < arr.Len() {
				res.ok(key, c.P.InstrPos(in), fmt.Sprintf("the index stays within [%d, %d]: constant steps from a constant start, loops bounded by the width of the value they shift or divide down to zero", lo, hi))
				return
			}
			lo, hi, ok := indexRange(I, fn, 0)
			why := "its range cannot be computed from constant steps and width-bounded loops"
			if ok {
				why = fmt.Sprintf("constant steps and width-bounded loops only give the range [%d, %d]", lo, hi)
			}
			res.undecided(key, c.P.InstrPos(in), fmt.Sprintf("an array of %d elements is indexed with a computed value that no comparison, mask or remainder bounds, and %s: input that needs more room than the common case (a code point above U+FFFF, a longer number) would end in an index-out-of-range panic", arr.Len(), why))
		})
	}
	if n == 0 {
		res.ok("repository:no computed index into a fixed-size array", "-", fmt.Sprintf("%d functions scanned", res.Instances))
	}
	return res
}

// ---------- INCLUDE-FRAME / INCLUDE-PASS (C05) ----------

// RuleIncludeFrame (C05): the function that makes the prefixes and suffixes of
// an include file local wraps the *whole* output of that file into a block of
// its own. What it takes from the child's buffer is written as it is: no part
// of it is cut off or chosen by a test on its content.
func (c *Ctx) RuleIncludeFrame() *Result {
	res := &Result{Rule: "INCLUDE-FRAME", MinInst: 1}
	for _, fn := range c.P.RepoFns {
		if load.ShortPkg(load.FnPkgPath(fn)) != "regex/parser" || len(fn.Blocks) == 0 {
			continue
		}
		// the framing function: has a *bytes.Buffer parameter and writes the block-start marker
		var buf *ssa.Parameter
		for _, p := range fn.Params {
			if pt, ok := p.Type().(*types.Pointer); ok && isNamed(pt.Elem(), "bytes", "Buffer") {
				buf = p
			}
		}
		if buf == nil {
			continue
		}
		marker := false
		allInstrs(fn, func(in ssa.Instruction) {
			for _, op := range in.Operands(nil) {
				if op != nil && *op != nil {
					if s, ok := constString(*op); ok && strings.HasPrefix(s, "##!> assemble") {
						marker = true
					}
				}
			}
		})
		if !marker {
			continue
		}
		res.Instances++
		key := load.FnName(fn) + ":framed content"
		var problems []string
		taken := 0
		for _, r := range usesOf(buf) {
			call, ok := r.(*ssa.Call)
			if !ok {
				continue
			}
			f := staticCallee(&call.Call)
			if f == nil || recvNamed(f) != "Buffer" || len(call.Call.Args) == 0 || call.Call.Args[0] != ssa.Value(buf) {
				continue
			}
			switch f.Name() {
			case "WriteTo":
				taken++
			case "Bytes", "String":
				seen := map[ssa.Value]bool{}
				var follow func(v ssa.Value, d int)
				follow = func(v ssa.Value, d int) {
					if d > 4 || seen[v] {
						return
					}
					seen[v] = true
					for _, u := range usesOf(v) {
						switch x := u.(type) {
						case *ssa.Convert, *ssa.ChangeType:
							follow(x.(ssa.Value), d+1)
						case *ssa.Slice:
							problems = append(problems, "a part of the included text is cut out at "+c.P.InstrPos(x))
						case *ssa.Phi:
							problems = append(problems, "what is framed is chosen between the included text and something else at "+c.P.InstrPos(x))
						case *ssa.Call:
							uf := staticCallee(&x.Call)
							if uf != nil && (uf.Name() == "Write" || uf.Name() == "WriteString") {
								taken++
							}
						}
					}
				}
				follow(call, 0)
			}
		}
		if taken == 0 && len(problems) == 0 {
			problems = append(problems, "the child's output is not copied into the frame (no WriteTo, Write(out.Bytes()) or WriteString(out.String()))")
		}
		if len(problems) > 0 {
			res.bad(key, c.P.FnPos(fn), "the include file's own prefixes and suffixes must bind all of its entries and nothing else: "+strings.Join(uniq(problems), "; "))
		} else {
			res.ok(key, c.P.FnPos(fn), fmt.Sprintf("the whole buffer of the included file is copied between the block markers (%d copy site(s))", taken))
		}
	}
	return res
}

// RuleIncludePass (C05, C06): the text an include directive yields goes from
// the builder to the parser's output unchanged. Walks back from every write to
// the parser's output buffer: what is written is a line of the file, or what a
// builder function returned; nothing stands between a builder and the write.
func (c *Ctx) RuleIncludePass() *Result {
	res := &Result{Rule: "INCLUDE-PASS", MinInst: 2}
	isStringy := func(t types.Type) bool {
		b, ok := t.Underlying().(*types.Basic)
		return ok && b.Kind() == types.String
	}
	var parseFileFn *ssa.Function
	for _, fn := range c.P.RepoFns {
		if isParseFileFn(fn) {
			parseFileFn = fn
		}
	}
	// producedByRepoCall: v comes (through phis and tuple extraction) from a call of a repository function
	var producedByRepoCall func(v ssa.Value, d int, seen map[ssa.Value]bool) *ssa.Call
	producedByRepoCall = func(v ssa.Value, d int, seen map[ssa.Value]bool) *ssa.Call {
		if d > 6 || seen[v] {
			return nil
		}
		seen[v] = true
		switch x := v.(type) {
		case *ssa.Phi:
			for _, e := range x.Edges {
				if r := producedByRepoCall(e, d+1, seen); r != nil {
					return r
				}
			}
		case *ssa.Extract:
			return producedByRepoCall(x.Tuple, d+1, seen)
		case *ssa.Call:
			if sf := staticFn(&x.Call); sf != nil && c.P.IsRepoFn(sf) {
				// a producer of included text: reaches the function that parses an include file, or
				// works on something such a function produced
				if parseFileFn != nil {
					if _, ok := c.Graph().Reach([]*ssa.Function{sf})[parseFileFn]; ok || sf == parseFileFn {
						return x
					}
				}
				for _, a := range x.Call.Args {
					if r := producedByRepoCall(a, d+1, seen); r != nil {
						return x
					}
				}
				return nil
			}
			// a library transformation of produced text
			for _, a := range x.Call.Args {
				if isStringy(a.Type()) {
					if r := producedByRepoCall(a, d+1, seen); r != nil {
						return r
					}
				}
			}
		}
		return nil
	}
	builders := map[string]bool{}
	var problems []string
	var back func(v ssa.Value, fn *ssa.Function, d int, seen map[ssa.Value]bool)
	back = func(v ssa.Value, fn *ssa.Function, d int, seen map[ssa.Value]bool) {
		if d > 8 || seen[v] {
			return
		}
		seen[v] = true
		switch x := v.(type) {
		case *ssa.Parameter:
			// the text arrives in a parameter (the write was moved into a helper): every caller's argument
			pi := paramIndex(fn, x)
			for _, e := range c.Graph().In[fn] {
				cc := callCommon(e.Site)
				if cc != nil && staticFn(cc) == fn && pi >= 0 && pi < len(cc.Args) {
					back(stripConv(cc.Args[pi]), e.Caller, d+1, seen)
				}
			}
		case *ssa.Phi:
			for _, e := range x.Edges {
				back(e, fn, d+1, seen)
			}
		case *ssa.Extract:
			back(x.Tuple, fn, d+1, seen)
		case *ssa.Slice:
			if pc := producedByRepoCall(x.X, 0, map[ssa.Value]bool{}); pc != nil {
				problems = append(problems, fmt.Sprintf("a part of what %s returned is cut out at %s", calleeLabel(&pc.Call), c.P.InstrPos(x)))
			}
		case *ssa.BinOp:
			if x.Op == token.ADD {
				for _, o := range []ssa.Value{x.X, x.Y} {
					if pc := producedByRepoCall(o, 0, map[ssa.Value]bool{}); pc != nil {
						problems = append(problems, fmt.Sprintf("text is attached to what %s returned at %s", calleeLabel(&pc.Call), c.P.InstrPos(x)))
					}
				}
			}
		case *ssa.Call:
			sf := staticFn(&x.Call)
			// a transformation: a string argument that was itself produced by a repository call
			for _, a := range x.Call.Args {
				if !isStringy(a.Type()) {
					continue
				}
				if pc := producedByRepoCall(a, 0, map[ssa.Value]bool{}); pc != nil {
					problems = append(problems, fmt.Sprintf("what %s returned is passed through %s at %s", calleeLabel(&pc.Call), calleeLabel(&x.Call), c.P.InstrPos(x)))
					return
				}
			}
			if sf == nil {
				// the builder is handed in as a function value (one helper for include and
				// include-except, the builder being the strategy): the builders are what the callers pass
				if par, isPar := x.Call.Value.(*ssa.Parameter); isPar {
					pi := paramIndex(fn, par)
					for _, e := range c.Graph().In[fn] {
						cc := callCommon(e.Site)
						if cc == nil || staticFn(cc) != fn || pi < 0 || pi >= len(cc.Args) {
							continue
						}
						a := cc.Args[pi]
						if ct, isCT := a.(*ssa.ChangeType); isCT {
							a = ct.X
						}
						if bf, isFn := a.(*ssa.Function); isFn && c.P.IsRepoFn(bf) {
							builders[load.FnName(bf)+"@"+load.FnName(fn)] = true
							res.Instances++
							res.ok(load.FnName(fn)+":text of "+load.FnName(bf), c.P.InstrPos(x), "reaches the parser's output as returned (the builder is passed as a function value by "+load.FnName(e.Caller)+")")
						}
					}
				}
				return
			}
			if !c.P.IsRepoFn(sf) {
				return
			}
			if sf.Signature.Recv() != nil && sf.Object() != nil && recvNamed(sf.Object().(*types.Func)) == "Parser" {
				// a wrapper method of the parser: look at what it returns
				allInstrs(sf, func(in ssa.Instruction) {
					if r, ok := in.(*ssa.Return); ok && len(r.Results) > 0 {
						back(r.Results[0], sf, d+1, seen)
					}
				})
				return
			}
			builders[load.FnName(sf)+"@"+load.FnName(fn)] = true
			res.Instances++
			res.ok(load.FnName(fn)+":text of "+load.FnName(sf), c.P.InstrPos(x), "reaches the parser's output as returned")
		}
	}
	sinks := 0
	for _, fn := range c.P.RepoFns {
		if load.ShortPkg(load.FnPkgPath(fn)) != "regex/parser" || fn.Signature.Recv() == nil || len(fn.Blocks) == 0 {
			continue
		}
		if recvNamed(fn.Object().(*types.Func)) != "Parser" {
			continue
		}
		allInstrs(fn, func(in ssa.Instruction) {
			call, ok := in.(*ssa.Call)
			if !ok {
				return
			}
			f := staticCallee(&call.Call)
			if f == nil || recvNamed(f) != "Buffer" || !(f.Name() == "WriteString" || f.Name() == "Write") || len(call.Call.Args) < 2 {
				return
			}
			// the buffer is a field of the receiver
			ld, ok := call.Call.Args[0].(*ssa.UnOp)
			if !ok {
				return
			}
			fa, ok := ld.X.(*ssa.FieldAddr)
			if !ok || fa.X != ssa.Value(fn.Params[0]) {
				return
			}
			sinks++
			back(stripConv(call.Call.Args[1]), fn, 0, map[ssa.Value]bool{})
		})
	}
	if sinks == 0 {
		res.undecided("regex/parser:write to the parser's output", "-", "no write of text to the output buffer of a Parser was found")
	}
	if len(problems) > 0 {
		res.Instances++
		res.bad("regex/parser:included text reaches the output unchanged", "-", "`include F` must yield exactly the entries of F, but between the builder and the parser's output "+strings.Join(uniq(problems), "; ")+" (trailing blanks of an entry are significant; so is every line)")
	}
	res.Dedup()
	return res
}

// ---------- ENUM-PIN (C16) ----------

// RuleCmdTypeEnum (C04 wording, C16): the cmdline types a block may name are
// unix and windows. The conversion function accepts exactly those strings;
// everything else — the empty string included, which is what the block-start
// pattern yields for a type it cannot read — is an error.
func (c *Ctx) RuleCmdTypeEnum() *Result {
	res := &Result{Rule: "ENUM-PIN", MinInst: 1}
	want := map[string]bool{"unix": true, "windows": true}
	for _, fn := range c.P.RepoFns {
		sig := fn.Signature
		if load.ShortPkg(load.FnPkgPath(fn)) != "regex/processors" || sig.Params().Len() != 1 || sig.Results().Len() != 2 || len(fn.Blocks) == 0 {
			continue
		}
		if _, tn := namedOf(sig.Results().At(0).Type()); tn != "CmdLineType" {
			continue
		}
		if !isErrorType(sig.Results().At(1).Type()) {
			continue
		}
		res.Instances++
		key := load.FnName(fn) + ":accepted type names"
		accepted := map[string]bool{}
		unknown := ""
		allInstrs(fn, func(in ssa.Instruction) {
			r, ok := in.(*ssa.Return)
			if !ok || len(r.Results) != 2 || !isNilConst(r.Results[1]) {
				return
			}
			// the comparisons of the parameter whose true edge leads here
			found := false
			for b := r.Block(); b != nil; b = b.Idom() {
				d := b.Idom()
				if d == nil {
					break
				}
				iff, ok := d.Instrs[len(d.Instrs)-1].(*ssa.If)
				if !ok || d.Succs[0] != b || len(b.Preds) != 1 {
					continue
				}
				if cmp, ok := iff.Cond.(*ssa.BinOp); ok && cmp.Op == token.EQL {
					for _, pair := range [][2]ssa.Value{{cmp.X, cmp.Y}, {cmp.Y, cmp.X}} {
						if pair[0] == ssa.Value(fn.Params[0]) {
							if s, ok := constString(pair[1]); ok {
								accepted[s] = true
								found = true
							}
						}
					}
				}
				if found {
					break
				}
			}
			if !found {
				// table form: the return is reached on the ok edge of a lookup in a package-level map with constant keys
				for b := r.Block(); b != nil && !found; b = b.Idom() {
					d := b.Idom()
					if d == nil {
						break
					}
					iff, ok := d.Instrs[len(d.Instrs)-1].(*ssa.If)
					if !ok || len(b.Preds) != 1 {
						continue
					}
					cond, neg := unwrapNot(iff.Cond)
					ex, ok := cond.(*ssa.Extract)
					if !ok || ex.Index != 1 {
						continue
					}
					lk, ok := ex.Tuple.(*ssa.Lookup)
					if !ok || !lk.CommaOk || stripConv(lk.Index) != ssa.Value(fn.Params[0]) {
						continue
					}
					okSide := d.Succs[0]
					if neg {
						okSide = d.Succs[1]
					}
					if okSide != b {
						continue
					}
					if keys, ok := c.globalMapKeys(lk.X); ok {
						for _, k := range keys {
							accepted[k] = true
						}
						found = true
					}
				}
			}
			if !found {
				// several cases sharing one body: every predecessor is the true edge of a comparison
				all := len(r.Block().Preds) > 0
				for _, p := range r.Block().Preds {
					iff, ok := p.Instrs[len(p.Instrs)-1].(*ssa.If)
					okp := false
					if ok && p.Succs[0] == r.Block() {
						if cmp, ok := iff.Cond.(*ssa.BinOp); ok && cmp.Op == token.EQL {
							for _, pair := range [][2]ssa.Value{{cmp.X, cmp.Y}, {cmp.Y, cmp.X}} {
								if pair[0] == ssa.Value(fn.Params[0]) {
									if s, ok := constString(pair[1]); ok {
										accepted[s] = true
										okp = true
									}
								}
							}
						}
					}
					if !okp {
						all = false
					}
				}
				if !all {
					unknown = c.P.InstrPos(r)
				}
			}
		})
		var extra, missing []string
		for s := range accepted {
			if !want[s] {
				extra = append(extra, fmt.Sprintf("%q", s))
			}
		}
		for s := range want {
			if !accepted[s] {
				missing = append(missing, fmt.Sprintf("%q", s))
			}
		}
		sort.Strings(extra)
		sort.Strings(missing)
		switch {
		case unknown != "":
			res.bad(key, c.P.FnPos(fn), "a type is accepted at "+unknown+" without being compared with a name: an unknown cmdline type is no longer an error")
		case len(extra) > 0:
			res.bad(key, c.P.FnPos(fn), "accepted besides unix and windows: "+strings.Join(extra, ", ")+"; the block-start pattern captures only lower-case letters, so a type it cannot read (Windows, UNIX, a typo with a digit) arrives as the empty string, and a block with an unknown type is assembled as if it were valid")
		case len(missing) > 0:
			res.bad(key, c.P.FnPos(fn), "no longer accepted: "+strings.Join(missing, ", "))
		default:
			res.ok(key, c.P.FnPos(fn), "accepts exactly \"unix\" and \"windows\"; every other string returns an error")
		}
	}
	return res
}

// ---------- EXCL-ORDER (C06) ----------

// RuleExclOrder (C06): exclusions are compared with the entries of the include
// file as they are written there; the `-- old new` pairs rewrite the survivors.
// In a function that does both, the suffix rewrite never runs before the
// exclude files are read and applied.
func (c *Ctx) RuleExclOrder() *Result {
	res := &Result{Rule: "EXCL-ORDER", MinInst: 1}
	res.Instances++
	res.ok("regex/parser:functions that both exclude and rewrite suffixes", "-", "scanned")
	var parseFileFn *ssa.Function
	for _, fn := range c.P.RepoFns {
		if isParseFileFn(fn) {
			parseFileFn = fn
		}
	}
	var suffixOps func(fn *ssa.Function, d int) bool
	suffixOps = func(fn *ssa.Function, d int) bool {
		found := false
		allInstrs(fn, func(in ssa.Instruction) {
			if cc := callCommon(in); cc != nil {
				f := staticCallee(cc)
				if f != nil && (objPkgPath(f) == "strings" || objPkgPath(f) == "bytes") && (f.Name() == "CutSuffix" || f.Name() == "HasSuffix" || f.Name() == "TrimSuffix") {
					found = true
				}
				if sf := staticFn(cc); sf != nil && c.P.IsRepoFn(sf) && d < 2 && suffixOps(sf, d+1) {
					found = true
				}
			}
		})
		return found
	}
	isReplace := func(fn *ssa.Function) bool {
		// has a map[string]string parameter and tests / cuts suffixes
		hasMap := false
		for _, p := range fn.Params {
			if mt, ok := p.Type().Underlying().(*types.Map); ok && mt.Key().Underlying().String() == "string" && mt.Elem().Underlying().String() == "string" {
				hasMap = true
			}
		}
		if !hasMap {
			return false
		}
		return suffixOps(fn, 0)
	}
	isExclude := func(fn *ssa.Function) bool {
		// ranges over a []string parameter and parses each named file
		hasList := false
		for _, p := range fn.Params {
			if st, ok := p.Type().Underlying().(*types.Slice); ok && st.Elem().Underlying().String() == "string" {
				hasList = true
			}
		}
		if !hasList || parseFileFn == nil {
			return false
		}
		for _, l := range naturalLoops(fn) {
			for b := range l.body {
				for _, in := range b.Instrs {
					if cc := callCommon(in); cc != nil {
						if sf := staticFn(cc); sf != nil && (sf == parseFileFn || callsDirectly(sf, parseFileFn)) {
							return true
						}
						// a closure started or called in the loop that parses the file
						if mc, ok := cc.Value.(*ssa.MakeClosure); ok {
							if cf, ok := mc.Fn.(*ssa.Function); ok {
								found := false
								allInstrs(cf, func(in2 ssa.Instruction) {
									if c2 := callCommon(in2); c2 != nil && staticFn(c2) == parseFileFn {
										found = true
									}
								})
								if found {
									return true
								}
							}
						}
					}
				}
			}
		}
		return false
	}
	for _, fn := range c.P.RepoFns {
		if load.ShortPkg(load.FnPkgPath(fn)) != "regex/parser" || len(fn.Blocks) == 0 {
			continue
		}
		var reps, excls []ssa.Instruction
		allInstrs(fn, func(in ssa.Instruction) {
			cc := callCommon(in)
			if cc == nil {
				return
			}
			sf := staticFn(cc)
			if sf == nil || !c.P.IsRepoFn(sf) {
				return
			}
			if isReplace(sf) {
				reps = append(reps, in)
			}
			if isExclude(sf) {
				excls = append(excls, in)
			}
		})
		if len(reps) == 0 || len(excls) == 0 {
			continue
		}
		res.Instances++
		key := load.FnName(fn) + ":exclusion before suffix replacement"
		bad := ""
		for _, r := range reps {
			for _, x := range excls {
				if reachesAvoiding(r, x, nil) {
					bad = fmt.Sprintf("the suffix pairs are applied at %s and the exclude files are read and applied after that, at %s", c.P.InstrPos(r), c.P.InstrPos(x))
				}
			}
		}
		if bad != "" {
			res.bad(key, c.P.FnPos(fn), bad+": an excluded entry that ends in a pair key is rewritten first and no longer equals its exclusion, so it survives; an entry that only equals an exclusion after the rewrite is dropped")
		} else {
			res.ok(key, c.P.FnPos(fn), "every suffix replacement comes after the exclusions were applied")
		}
	}
	return res
}

// ---------- SCAN-SPLIT ----------

// RuleScanSplit (C07, C10, C17): the line-oriented arguments (one directive per
// physical line, the scanner's length limit, format and generate seeing the
// same lines) hold for scanners that cut at line ends. Every Split call of the
// repository installs bufio.ScanLines; one scanner is not given different
// split functions on different paths.
func (c *Ctx) RuleScanSplit() *Result {
	res := &Result{Rule: "SCAN-SPLIT", MinInst: 1}
	for _, fn := range c.P.RepoFns {
		if len(fn.Blocks) == 0 {
			continue
		}
		perScanner := map[ssa.Value][]string{}
		k := 0
		allInstrs(fn, func(in ssa.Instruction) {
			call, ok := in.(*ssa.Call)
			if !ok || !isMeth(staticCallee(&call.Call), "bufio", "Scanner", "Split") || len(call.Call.Args) < 2 {
				return
			}
			k++
			res.Instances++
			key := fmt.Sprintf("%s:Scanner.Split#%d", load.FnName(fn), k)
			name := ""
			for _, sf := range fnValuesIn(call.Call.Args[1], 2) {
				name = load.FnName(sf)
			}
			if f, ok := stripConv(call.Call.Args[1]).(*ssa.Function); ok {
				name = f.String()
				if f.Pkg != nil && f.Pkg.Pkg.Path() == "bufio" {
					name = "bufio." + f.Name()
				}
			}
			perScanner[call.Call.Args[0]] = append(perScanner[call.Call.Args[0]], name)
			switch {
			case name == "bufio.ScanLines":
				res.ok(key, c.P.InstrPos(call), "cuts at line ends (bufio.ScanLines)")
			case strings.HasPrefix(name, "bufio."):
				res.bad(key, c.P.InstrPos(call), "the scanner cuts its input with "+name+" instead of at line ends: entries, directives and rule lines are no longer the units that are processed")
			case name == "":
				res.undecided(key, c.P.InstrPos(call), "the split function is a computed value")
			default:
				res.undecided(key, c.P.InstrPos(call), "the scanner cuts its input with "+name+", a function of the repository: what a line is (continuations, joined lines, other terminators) is no longer the physical line the line-oriented rules are about; the generated expression and the formatter's view of the same file can differ")
			}
		})
		// scanners that keep the default split function (bufio.ScanLines)
		allInstrs(fn, func(in ssa.Instruction) {
			call, ok := in.(*ssa.Call)
			if !ok || !isFn(staticCallee(&call.Call), "bufio", "NewScanner") {
				return
			}
			if _, has := perScanner[ssa.Value(call)]; has {
				return
			}
			k++
			res.Instances++
			res.ok(fmt.Sprintf("%s:Scanner.Split#%d", load.FnName(fn), k), c.P.InstrPos(call), "no Split call on this scanner in this function: the default, bufio.ScanLines")
		})
		for sc, names := range perScanner {
			u := uniq(names)
			if len(u) > 1 {
				res.Instances++
				sort.Strings(u)
				pos := c.P.FnPos(fn)
				if in, ok := sc.(ssa.Instruction); ok {
					pos = c.P.InstrPos(in)
				}
				res.bad(load.FnName(fn)+":one scanner, one split function", pos, "the same scanner is given different split functions on different paths ("+strings.Join(u, ", ")+"): the compiler and the formatter (or two modes of one command) no longer agree on what a line of the file is")
			}
		}
	}
	return res
}

// ---------- DOUBLE-WRAP ----------

type srcKey struct {
	base  ssa.Value
	field int
}

// sourceKey names the io.Reader that is wrapped: a value, or a field of a value.
func sourceKey(v ssa.Value) srcKey {
	v = stripConv(v)
	if ld, ok := v.(*ssa.UnOp); ok && ld.Op == token.MUL {
		if fa, ok := ld.X.(*ssa.FieldAddr); ok {
			return srcKey{stripConv(fa.X), fa.Field}
		}
	}
	return srcKey{v, -1}
}

// RuleDoubleWrap (C17): a buffered reader or scanner reads ahead; what it has
// buffered is lost to whoever reads the source next. A source is therefore
// wrapped by bufio.NewScanner / bufio.NewReader once; a second wrap of the same
// source on the same path (a retry with a bigger buffer) continues in the
// middle of the input unless the source is rewound on every path in between.
func (c *Ctx) RuleDoubleWrap() *Result {
	res := &Result{Rule: "DOUBLE-WRAP", MinInst: 100}
	// summaries: function -> parameter-relative sources it wraps
	type rel struct {
		param int // index into Params
		field int
	}
	wraps := map[*ssa.Function][]rel{}
	isWrap := func(cc *ssa.CallCommon) bool {
		f := staticCallee(cc)
		return isFn(f, "bufio", "NewScanner") || isFn(f, "bufio", "NewReader") || isFn(f, "bufio", "NewReaderSize")
	}
	relOf := func(fn *ssa.Function, k srcKey) (rel, bool) {
		if p, ok := k.base.(*ssa.Parameter); ok {
			return rel{paramIndex(fn, p), k.field}, true
		}
		return rel{}, false
	}
	type event struct {
		at  ssa.Instruction
		key srcKey
	}
	eventsOf := func(fn *ssa.Function) []event {
		var evs []event
		allInstrs(fn, func(in ssa.Instruction) {
			cc := callCommon(in)
			if cc == nil {
				return
			}
			if _, isDefer := in.(*ssa.Defer); isDefer {
				return
			}
			if isWrap(cc) && len(cc.Args) > 0 {
				evs = append(evs, event{in, sourceKey(cc.Args[0])})
				return
			}
			if sf := staticFn(cc); sf != nil {
				for _, r := range wraps[sf] {
					if r.param < len(cc.Args) {
						a := stripConv(cc.Args[r.param])
						if r.field >= 0 {
							evs = append(evs, event{in, srcKey{a, r.field}})
						} else {
							evs = append(evs, event{in, sourceKey(a)})
						}
					}
				}
			}
		})
		return evs
	}
	for round := 0; round < 3; round++ {
		for _, fn := range c.P.RepoFns {
			if len(fn.Blocks) == 0 {
				continue
			}
			var rs []rel
			have := map[rel]bool{}
			for _, e := range eventsOf(fn) {
				if r, ok := relOf(fn, e.key); ok && !have[r] {
					have[r] = true
					rs = append(rs, r)
				}
			}
			wraps[fn] = rs
		}
	}
	// rewinds: a Seek on (a type assertion of) the source that every normal path of the helper passes
	seeksSource := func(in ssa.Instruction, k srcKey) bool {
		cc := callCommon(in)
		if cc == nil {
			return false
		}
		f := staticCallee(cc)
		isSeek := f != nil && f.Name() == "Seek"
		if !isSeek && cc.IsInvoke() && cc.Method.Name() == "Seek" {
			isSeek = true
		}
		if !isSeek {
			return false
		}
		recv := cc.Value
		if !cc.IsInvoke() && len(cc.Args) > 0 {
			recv = cc.Args[0]
		}
		for i := 0; i < 4; i++ {
			switch x := recv.(type) {
			case *ssa.TypeAssert:
				recv = x.X
				continue
			case *ssa.Extract:
				recv = x.Tuple
				continue
			}
			break
		}
		return sourceKey(recv) == k
	}
	n := 0
	for _, fn := range c.P.RepoFns {
		if len(fn.Blocks) == 0 {
			continue
		}
		res.Instances++
		evs := eventsOf(fn)
		loops := naturalLoops(fn)
		for i, e1 := range evs {
			for j, e2 := range evs {
				if e1.key != e2.key {
					continue
				}
				if i == j {
					// the same site in a loop, on a source that does not change with the iteration
					inLoop := false
					for _, l := range loops {
						if l.body[e1.at.Block()] {
							if b := blockOfValue(e1.key.base); b == nil || !l.body[b] {
								inLoop = true
							}
						}
					}
					if !inLoop {
						continue
					}
				} else if !reachesAvoiding(e1.at, e2.at, nil) {
					continue
				}
				// rewound on every path in between?
				rewound := map[ssa.Instruction]bool{}
				allInstrs(fn, func(in ssa.Instruction) {
					if seeksSource(in, e1.key) {
						rewound[in] = true
						return
					}
					cc := callCommon(in)
					if cc == nil {
						return
					}
					if sf := staticFn(cc); sf != nil && c.P.IsRepoFn(sf) && len(sf.Blocks) > 0 && len(sf.Params) > 0 && len(cc.Args) > 0 {
						// helper on the same receiver whose every normal return has passed a Seek of the field
						hk := srcKey{ssa.Value(sf.Params[0]), e1.key.field}
						if stripConv(cc.Args[0]) != e1.key.base || e1.key.field < 0 {
							return
						}
						seeks := map[ssa.Instruction]bool{}
						allInstrs(sf, func(h ssa.Instruction) {
							if seeksSource(h, hk) {
								seeks[h] = true
							}
						})
						if len(seeks) == 0 {
							return
						}
						all := true
						allInstrs(sf, func(h ssa.Instruction) {
							if r, ok := h.(*ssa.Return); ok && !c.Loud().BlockDies(r.Block()) {
								if reachesAvoidingSet(sf.Blocks[0].Instrs[0], r, seeks) || sf.Blocks[0].Instrs[0] == h {
									all = false
								}
							}
						})
						if all {
							rewound[in] = true
						}
					}
				})
				if len(rewound) > 0 && !reachesAvoidingSet(e1.at, e2.at, rewound) {
					continue
				}
				n++
				res.Instances++
				res.bad(fmt.Sprintf("%s:second buffered reader on one source", load.FnName(fn)), c.P.InstrPos(e2.at),
					fmt.Sprintf("the source wrapped at %s is wrapped again at %s and is not rewound on every path in between: the first reader has already taken up to a buffer-full beyond what it delivered, so the second one continues in the middle of the input and everything before that point is silently missing from the result", c.P.InstrPos(e1.at), c.P.InstrPos(e2.at)))
			}
		}
	}
	if n == 0 {
		res.ok("repository:each source is wrapped by one buffered reader", "-", fmt.Sprintf("%d functions scanned", res.Instances))
	}
	res.Dedup()
	return res
}

// ---------- GO-SHARED ----------

// mutatesMapParam: the function (or one it hands the parameter to, or a method
// that later updates the field it stores the parameter in) writes to the map.
func (c *Ctx) mutatesMapParam(fn *ssa.Function, pi int, depth int) string {
	if depth > 3 || pi >= len(fn.Params) || len(fn.Blocks) == 0 {
		return ""
	}
	why := ""
	seen := map[ssa.Value]bool{}
	var walk func(v ssa.Value, d int)
	walk = func(v ssa.Value, d int) {
		if d > 5 || seen[v] || why != "" {
			return
		}
		seen[v] = true
		for _, r := range referrers(v) {
			switch x := r.(type) {
			case *ssa.Phi:
				walk(x, d+1)
			case *ssa.MapUpdate:
				if x.Map == v {
					why = "updates it at " + c.P.InstrPos(x)
				}
			case *ssa.Store:
				if x.Val != v {
					continue
				}
				if fa, ok := x.Addr.(*ssa.FieldAddr); ok {
					fv := fieldVarOf(fa)
					_, loads := c.fieldAccesses(fv)
					for _, ld := range loads {
						for _, rr := range referrers(ld) {
							if mu, ok := rr.(*ssa.MapUpdate); ok && mu.Map == ssa.Value(ld) {
								why = fmt.Sprintf("stores it in the field %s (%s), which is updated at %s", fv.Name(), c.P.InstrPos(x), c.P.InstrPos(mu))
							}
							if cc := callCommon(rr); cc != nil {
								if bi, ok := cc.Value.(*ssa.Builtin); ok && bi.Name() == "delete" {
									why = fmt.Sprintf("stores it in the field %s (%s), from which entries are deleted at %s", fv.Name(), c.P.InstrPos(x), c.P.InstrPos(rr))
								}
								if sf := staticFn(cc); sf != nil && c.P.IsRepoFn(sf) && why == "" {
									for i, a := range cc.Args {
										if a == ssa.Value(ld) {
											if w := c.mutatesMapParam(sf, i, depth+1); w != "" {
												why = fmt.Sprintf("stores it in the field %s (%s), which is handed to %s, which %s", fv.Name(), c.P.InstrPos(x), load.FnName(sf), w)
											}
										}
									}
								}
							}
						}
					}
					// the address of the field handed to a library function (mergo.Merge(&p.variables, ...))
					for _, fn2 := range c.P.RepoFns {
						allInstrs(fn2, func(in2 ssa.Instruction) {
							fa2, ok := in2.(*ssa.FieldAddr)
							if !ok || fieldVarOf(fa2) != fv || why != "" {
								return
							}
							for _, rr := range referrers(fa2) {
								if cc := callCommon(rr); cc != nil {
									if f := staticCallee(cc); f != nil && !load.InModule(objPkgPath(f)) {
										why = fmt.Sprintf("stores it in the field %s (%s), whose address is handed to %s at %s", fv.Name(), c.P.InstrPos(x), qualName(f), c.P.InstrPos(rr))
									}
								}
								// through an interface conversion
								if mi, ok := rr.(*ssa.MakeInterface); ok {
									for _, r3 := range referrers(mi) {
										if cc := callCommon(r3); cc != nil {
											if f := staticCallee(cc); f != nil && !load.InModule(objPkgPath(f)) {
												why = fmt.Sprintf("stores it in the field %s (%s), whose address is handed to %s at %s", fv.Name(), c.P.InstrPos(x), qualName(f), c.P.InstrPos(r3))
											}
										}
									}
								}
							}
						})
					}
				}
			case ssa.CallInstruction:
				cc := x.Common()
				if bi, ok := cc.Value.(*ssa.Builtin); ok && bi.Name() == "delete" && len(cc.Args) > 0 && cc.Args[0] == v {
					why = "deletes from it at " + c.P.InstrPos(x)
					continue
				}
				if sf := staticFn(cc); sf != nil && c.P.IsRepoFn(sf) {
					for i, a := range cc.Args {
						if a == v {
							if w := c.mutatesMapParam(sf, i, depth+1); w != "" {
								why = "hands it to " + load.FnName(sf) + ", which " + w
							}
						}
					}
				}
			}
		}
	}
	walk(fn.Params[pi], 0)
	return why
}

// RuleGoShared (C03, C05, C06, C19): the commands are sequential programs and
// every other rule reads them that way. Where a goroutine is started, (1) the
// maps and objects it shares with its siblings (captured variables that are
// the same for every goroutine of the loop) are only written under a lock, and
// (2) in a command that writes files no goroutine can end the process while
// its siblings are in the middle of a write.
func (c *Ctx) RuleGoShared() *Result {
	res := &Result{Rule: "GO-SHARED", MinInst: 100}
	g := c.Graph()
	lm := c.Loud()
	n := 0
	underLock := func(at ssa.Instruction) bool {
		fn := at.Parent()
		locked := false
		allInstrs(fn, func(in ssa.Instruction) {
			if cc := callCommon(in); cc != nil {
				f := staticCallee(cc)
				if f != nil && objPkgPath(f) == "sync" && (f.Name() == "Lock") {
					if _, isDefer := in.(*ssa.Defer); !isDefer && instrDominates(in, at) {
						// and not unlocked again before
						unl := false
						allInstrs(fn, func(u ssa.Instruction) {
							if uc := callCommon(u); uc != nil {
								uf := staticCallee(uc)
								if _, isDefer := u.(*ssa.Defer); !isDefer && uf != nil && objPkgPath(uf) == "sync" && uf.Name() == "Unlock" && instrDominates(in, u) && instrDominates(u, at) {
									unl = true
								}
							}
						})
						if !unl {
							locked = true
						}
					}
				}
			}
		})
		return locked
	}
	for _, fn := range c.P.RepoFns {
		if len(fn.Blocks) == 0 {
			continue
		}
		res.Instances++
		k := 0
		allInstrs(fn, func(in ssa.Instruction) {
			gs, ok := in.(*ssa.Go)
			if !ok {
				return
			}
			k++
			n++
			res.Instances++
			key := fmt.Sprintf("%s:go statement#%d", load.FnName(fn), k)
			pos := c.P.InstrPos(gs)
			var body *ssa.Function
			var bindings []ssa.Value
			switch v := gs.Call.Value.(type) {
			case *ssa.MakeClosure:
				body, _ = v.Fn.(*ssa.Function)
				bindings = v.Bindings
			case *ssa.Function:
				body = v
			}
			if body == nil {
				res.undecided(key, pos, "the goroutine's function is a computed value")
				return
			}
			var problems []string
			// (1) shared captured maps / objects
			for i, b := range bindings {
				if i >= len(body.FreeVars) {
					break
				}
				fv := body.FreeVars[i]
				// a captured variable is a pointer to the variable's cell; the value is loaded in the body
				var vals []ssa.Value
				for _, r := range referrers(fv) {
					if ld, ok := r.(*ssa.UnOp); ok && ld.Op == token.MUL {
						vals = append(vals, ld)
					}
				}
				if _, isPtrToCell := b.(*ssa.Alloc); !isPtrToCell {
					vals = append(vals, fv)
				}
				for _, v := range vals {
					switch v.Type().Underlying().(type) {
					case *types.Map:
						for _, r := range referrers(v) {
							switch x := r.(type) {
							case *ssa.MapUpdate:
								if x.Map == v && !underLock(x) {
									problems = append(problems, fmt.Sprintf("the captured map %s is updated at %s without a lock", fv.Name(), c.P.InstrPos(x)))
								}
							case ssa.CallInstruction:
								cc := x.Common()
								if bi, ok := cc.Value.(*ssa.Builtin); ok && bi.Name() == "delete" && cc.Args[0] == v {
									if !underLock(x) {
										problems = append(problems, fmt.Sprintf("entries of the captured map %s are deleted at %s without a lock", fv.Name(), c.P.InstrPos(x)))
									}
									continue
								}
								if sf := staticFn(cc); sf != nil && c.P.IsRepoFn(sf) {
									for ai, a := range cc.Args {
										if a == v && !underLock(x) {
											if w := c.mutatesMapParam(sf, ai, 0); w != "" {
												problems = append(problems, fmt.Sprintf("the captured map %s is handed to %s at %s, which %s, while the sibling goroutines do the same: the Go runtime ends the process with \"fatal error: concurrent map writes\"", fv.Name(), load.FnName(sf), c.P.InstrPos(x), w))
											}
										}
									}
								}
							}
						}
					case *types.Pointer:
						for _, r := range referrers(v) {
							if x, ok := r.(ssa.CallInstruction); ok {
								cc := x.Common()
								if sf := staticFn(cc); sf != nil && c.P.IsRepoFn(sf) {
									for ai, a := range cc.Args {
										if a == v && ai < len(sf.Params) && writesThroughParam(sf, sf.Params[ai]) && !underLock(x) {
											problems = append(problems, fmt.Sprintf("the captured object %s is handed to %s at %s, which writes through it, without a lock", fv.Name(), load.FnName(sf), c.P.InstrPos(x)))
										}
									}
								}
							}
						}
					}
				}
			}
			// (2) a loud exit and a file write both reachable from goroutine code
			reach := g.Reach([]*ssa.Function{body})
			loudAt, writeAt := "", ""
			var rfns []*ssa.Function
			for f := range reach {
				rfns = append(rfns, f)
			}
			sort.Slice(rfns, func(i, j int) bool { return load.FnName(rfns[i]) < load.FnName(rfns[j]) })
			for _, f := range rfns {
				if !c.P.IsRepoFn(f) {
					continue
				}
				allInstrs(f, func(in2 ssa.Instruction) {
					if loudAt == "" && lm.IsLoud(in2) {
						loudAt = c.P.InstrPos(in2)
					}
				})
			}
			for _, ws := range c.writeSites() {
				if _, ok := reach[ws.fn]; ok && writeAt == "" {
					writeAt = c.P.InstrPos(ws.call)
				}
			}
			if loudAt != "" && writeAt != "" {
				problems = append(problems, fmt.Sprintf("goroutine code both writes files (%s) and ends the process on a fault (%s): the exit of one goroutine cuts its siblings off in the middle of their writes, so what is left on disk (which files were updated, whether one is truncated) depends on scheduling", writeAt, loudAt))
			}
			problems = uniq(problems)
			if len(problems) > 0 {
				sort.Strings(problems)
				res.bad(key, pos, strings.Join(problems, "; "))
			} else {
				res.ok(key, pos, "what the goroutine shares with its siblings is written under a lock; it cannot end the process while files are written")
			}
		})
	}
	if n == 0 {
		res.ok("repository:no goroutines", "-", fmt.Sprintf("%d functions scanned: the commands are sequential", res.Instances))
	}
	return res
}

// indexRange bounds an integer value that is built from constants by constant
// steps: x±k, phis, and loop counters of loops whose trip count is bounded by
// the width of a value they shift right or divide until it is zero.
func indexRange(v ssa.Value, fn *ssa.Function, depth int) (lo, hi int64, ok bool) {
	if depth > 12 {
		return 0, 0, false
	}
	switch x := v.(type) {
	case *ssa.Const:
		k, ok := constInt(x)
		return k, k, ok
	case *ssa.Convert:
		return indexRange(x.X, fn, depth+1)
	case *ssa.BinOp:
		k, isK := constInt(x.Y)
		if !isK {
			return 0, 0, false
		}
		l, h, ok := indexRange(x.X, fn, depth+1)
		if !ok {
			return 0, 0, false
		}
		switch x.Op {
		case token.ADD:
			return l + k, h + k, true
		case token.SUB:
			return l - k, h - k, true
		}
		return 0, 0, false
	case *ssa.Phi:
		// loop-carried?
		for _, l := range naturalLoops(fn) {
			if l.header != x.Block() {
				continue
			}
			var initLo, initHi int64
			haveInit := false
			var dLo, dHi int64
			haveStep := false
			for i, e := range x.Edges {
				pred := x.Block().Preds[i]
				if !l.body[pred] {
					a, b, ok := indexRange(e, fn, depth+1)
					if !ok {
						return 0, 0, false
					}
					if !haveInit || a < initLo {
						initLo = a
					}
					if !haveInit || b > initHi {
						initHi = b
					}
					haveInit = true
					continue
				}
				d, ok := offsetFrom(e, x, 0)
				if !ok {
					return 0, 0, false
				}
				if !haveStep || d < dLo {
					dLo = d
				}
				if !haveStep || d > dHi {
					dHi = d
				}
				haveStep = true
			}
			if !haveInit {
				return 0, 0, false
			}
			trips, ok := widthBoundedTrips(l)
			if !ok {
				return 0, 0, false
			}
			lo, hi = initLo, initHi
			if dLo < 0 {
				lo += dLo * trips
			}
			if dHi > 0 {
				hi += dHi * trips
			}
			return lo, hi, true
		}
		first := true
		for _, e := range x.Edges {
			a, b, ok := indexRange(e, fn, depth+1)
			if !ok {
				return 0, 0, false
			}
			if first || a < lo {
				lo = a
			}
			if first || b > hi {
				hi = b
			}
			first = false
		}
		return lo, hi, !first
	}
	return 0, 0, false
}

// offsetFrom: v == base + d for a constant d (through phis inside the loop: the extreme is not needed, any single chain).
func offsetFrom(v ssa.Value, base *ssa.Phi, depth int) (int64, bool) {
	if v == ssa.Value(base) {
		return 0, true
	}
	if depth > 8 {
		return 0, false
	}
	switch x := v.(type) {
	case *ssa.BinOp:
		k, isK := constInt(x.Y)
		if !isK {
			return 0, false
		}
		d, ok := offsetFrom(x.X, base, depth+1)
		if !ok {
			return 0, false
		}
		switch x.Op {
		case token.ADD:
			return d + k, true
		case token.SUB:
			return d - k, true
		}
	case *ssa.Phi:
		// a conditional step inside the body: take the edge that moves furthest from the base
		var best int64
		have := false
		for _, e := range x.Edges {
			d, ok := offsetFrom(e, base, depth+1)
			if !ok {
				return 0, false
			}
			if !have || abs64(d) > abs64(best) {
				best = d
			}
			have = true
		}
		return best, have
	}
	return 0, false
}

func abs64(x int64) int64 {
	if x < 0 {
		return -x
	}
	return x
}

// widthBoundedTrips: the loop is left when a value that is shifted right (or
// divided) by a constant on every iteration becomes zero; the trip count is at
// most the number of such steps the width of its type allows.
func widthBoundedTrips(l *natLoop) (int64, bool) {
	for b := range l.body {
		iff, ok := b.Instrs[len(b.Instrs)-1].(*ssa.If)
		if !ok {
			continue
		}
		exits := !l.body[b.Succs[0]] || !l.body[b.Succs[1]]
		if !exits {
			continue
		}
		cmp, ok := iff.Cond.(*ssa.BinOp)
		if !ok || (cmp.Op != token.EQL && cmp.Op != token.NEQ && cmp.Op != token.GTR) {
			continue
		}
		if z, ok := constInt(cmp.Y); !ok || z != 0 {
			continue
		}
		// the tested value: phi at the header stepped by >> k or / c, or that step itself
		var step *ssa.BinOp
		switch t := cmp.X.(type) {
		case *ssa.BinOp:
			step = t
		case *ssa.Phi:
			for _, e := range t.Edges {
				if sb, ok := e.(*ssa.BinOp); ok {
					step = sb
				}
			}
		}
		if step == nil {
			continue
		}
		k, ok := constInt(step.Y)
		if !ok {
			continue
		}
		bits, _, ok := intInfo(step.Type())
		if !ok {
			continue
		}
		switch step.Op {
		case token.SHR:
			if k >= 1 {
				return int64((bits + int(k) - 1) / int(k)), true
			}
		case token.QUO:
			if k >= 2 {
				lg := 0
				for c := k; c > 1; c >>= 1 {
					lg++
				}
				return int64((bits + lg - 1) / lg), true
			}
		}
	}
	return 0, false
}

// globalMapKeys: the constant string keys of a package-level map that is only
// filled by its initialiser.
func (c *Ctx) globalMapKeys(v ssa.Value) ([]string, bool) {
	ld, ok := v.(*ssa.UnOp)
	if !ok || ld.Op != token.MUL {
		return nil, false
	}
	gl, ok := ld.X.(*ssa.Global)
	if !ok {
		return nil, false
	}
	var keys []string
	okAll := true
	stores := 0
	for _, fn := range c.P.RepoFns {
		allInstrs(fn, func(in ssa.Instruction) {
			switch x := in.(type) {
			case *ssa.Store:
				if x.Addr != ssa.Value(gl) {
					return
				}
				stores++
				if fn.Name() != "init" {
					okAll = false
					return
				}
				mk, ok := x.Val.(*ssa.MakeMap)
				if !ok {
					okAll = false
					return
				}
				for _, r := range referrers(mk) {
					if mu, ok := r.(*ssa.MapUpdate); ok {
						if k, ok := constString(stripConv(mu.Key)); ok {
							keys = append(keys, k)
						} else {
							okAll = false
						}
					}
				}
			case *ssa.MapUpdate:
				if l2, ok := x.Map.(*ssa.UnOp); ok && l2.X == ssa.Value(gl) {
					okAll = false
				}
			}
		})
	}
	return keys, okAll && stores == 1
}

// ---------- READ-EOF ----------

// RuleReadEOF (C17): bufio.Reader.ReadString / ReadBytes return the text read
// so far *together with* io.EOF when the input does not end in the delimiter.
// No path from the call to a successful return of the function may skip every
// use of that text (a loop that leaves on the error and carries on drops the
// last line of every file that has no final newline).
func (c *Ctx) RuleReadEOF() *Result {
	res := &Result{Rule: "READ-EOF", MinInst: 100}
	lm := c.Loud()
	n := 0
	for _, fn := range c.P.RepoFns {
		if len(fn.Blocks) == 0 {
			continue
		}
		res.Instances++
		k := 0
		allInstrs(fn, func(in ssa.Instruction) {
			call, ok := in.(*ssa.Call)
			if !ok {
				return
			}
			f := staticCallee(&call.Call)
			if !(isMeth(f, "bufio", "Reader", "ReadString") || isMeth(f, "bufio", "Reader", "ReadBytes")) {
				return
			}
			k++
			n++
			res.Instances++
			key := fmt.Sprintf("%s:%s#%d", load.FnName(fn), qualName(f), k)
			data := resultValue(call, 0)
			if data == nil || len(usesOf(data)) == 0 {
				res.bad(key, c.P.InstrPos(call), "the text that was read is not used")
				return
			}
			uses := map[ssa.Instruction]bool{}
			for _, u := range usesOf(data) {
				uses[u] = true
			}
			// the smallest loop around the call
			bad := ""
			type pos struct {
				b *ssa.BasicBlock
				i int
			}
			seen := map[*ssa.BasicBlock]bool{}
			stack := []pos{{call.Block(), instrIndex(call) + 1}}
			for len(stack) > 0 && bad == "" {
				p := stack[len(stack)-1]
				stack = stack[:len(stack)-1]
				stopped := false
				for i := p.i; i < len(p.b.Instrs); i++ {
					x := p.b.Instrs[i]
					if uses[x] || lm.IsLoud(x) {
						stopped = true
						break
					}
					if r, ok := x.(*ssa.Return); ok {
						stopped = true
						if e := retErrOperand(r); e != nil && (errOperandAlwaysNonNil(e) || domFacts(r.Block())[e] == nonNil) {
							break
						}
						bad = "the function returns successfully at " + c.P.InstrPos(r)
						break
					}
					if x == ssa.Instruction(call) {
						stopped = true // next iteration
						break
					}
				}
				if stopped {
					continue
				}
				for _, s := range p.b.Succs {
					if !seen[s] {
						seen[s] = true
						stack = append(stack, pos{s, 0})
					}
				}
			}
			if bad != "" {
				res.bad(key, c.P.InstrPos(call), qualName(f)+" hands back the last line together with io.EOF when the input does not end in the delimiter; "+bad+" without that text having been looked at: the last line of a file without a final newline is silently dropped")
			} else {
				res.ok(key, c.P.InstrPos(call), "on every way out the text that came with the error has been used (or the command fails)")
			}
		})
	}
	if n == 0 {
		res.ok("repository:no ReadString / ReadBytes", "-", fmt.Sprintf("%d functions scanned", res.Instances))
	}
	return res
}

// globalMapEntries: the constant key/value pairs of a package-level map that is
// only filled by its initialiser (a map literal).
func (c *Ctx) globalMapEntries(v ssa.Value) (entries [][2]ssa.Value, ok bool) {
	ld, isLd := v.(*ssa.UnOp)
	if !isLd || ld.Op != token.MUL {
		return nil, false
	}
	gl, isG := ld.X.(*ssa.Global)
	if !isG {
		return nil, false
	}
	okAll := true
	stores := 0
	for _, fn := range c.P.RepoFns {
		allInstrs(fn, func(in ssa.Instruction) {
			switch x := in.(type) {
			case *ssa.Store:
				if x.Addr != ssa.Value(gl) {
					return
				}
				stores++
				mk, isMk := x.Val.(*ssa.MakeMap)
				if fn.Name() != "init" || !isMk {
					okAll = false
					return
				}
				for _, r := range referrers(mk) {
					if mu, isMu := r.(*ssa.MapUpdate); isMu {
						k, v2 := stripConv(mu.Key), stripConv(mu.Value)
						if _, kc := k.(*ssa.Const); !kc {
							okAll = false
						}
						if _, vc := v2.(*ssa.Const); !vc {
							okAll = false
						}
						entries = append(entries, [2]ssa.Value{k, v2})
					}
				}
			case *ssa.MapUpdate:
				if l2, isL := x.Map.(*ssa.UnOp); isL && l2.X == ssa.Value(gl) {
					okAll = false
				}
			}
		})
	}
	return entries, okAll && stores == 1
}

// ---------- CTOR-DEFAULTS ----------

// RuleCtorDefaults (C06, C09, C15, C16): a constructor that can return more
// than one freshly made value of its result type (the configuration loader
// returns an empty Configuration when the file is missing or does not parse)
// gives all of them the same defaults. A default that is written into only one
// of the composite literals leaves the others with the zero value, and the
// zero value of a setting is rarely a no-op (an indentation width of 0, an
// empty directory name that makes the root the target, an empty marker).
func (c *Ctx) RuleCtorDefaults() *Result {
	res := &Result{Rule: "CTOR-DEFAULTS", MinInst: 1}
	res.Instances++
	res.ok("repository:constructors with several returned literals", "-", "scanned")
	for _, fn := range c.P.RepoFns {
		if len(fn.Blocks) == 0 || fn.Signature.Recv() != nil || fn.Signature.Results().Len() == 0 {
			continue
		}
		pt, ok := fn.Signature.Results().At(0).Type().Underlying().(*types.Pointer)
		if !ok {
			continue
		}
		if _, isStruct := pt.Elem().Underlying().(*types.Struct); !isStruct {
			continue
		}
		if pkg, _ := namedOf(pt.Elem()); !load.InModule(pkg) {
			continue
		}
		if types.Implements(pt, errorType.Underlying().(*types.Interface)) {
			continue // error values: what they carry differs by design
		}
		// composite literals of the result type that can be returned
		var lits []*ssa.Alloc
		allInstrs(fn, func(in ssa.Instruction) {
			al, ok := in.(*ssa.Alloc)
			if !ok || !types.Identical(al.Type(), fn.Signature.Results().At(0).Type()) {
				return
			}
			if flowsToReturn(al, 0) {
				lits = append(lits, al)
			}
		})
		if len(lits) < 2 {
			continue
		}
		res.Instances++
		key := load.FnName(fn) + ":every returned value starts from the same defaults"
		defaults := func(al *ssa.Alloc) map[string]string {
			out := map[string]string{}
			var walk func(addr ssa.Value, path string, d int)
			walk = func(addr ssa.Value, path string, d int) {
				if d > 5 {
					return
				}
				for _, r := range referrers(addr) {
					switch x := r.(type) {
					case *ssa.FieldAddr:
						if x.X != addr || x.Block() != al.Block() {
							continue
						}
						st := derefType(x.X.Type()).Underlying().(*types.Struct)
						walk(x, path+"."+st.Field(x.Field).Name(), d+1)
					case *ssa.Store:
						if x.Addr == addr && x.Block() == al.Block() && path != "" {
							if cst, ok := stripConv(x.Val).(*ssa.Const); ok {
								out[path[1:]] = cst.String()
							} else {
								out[path[1:]] = "<computed>"
							}
						}
					}
				}
			}
			walk(al, "", 0)
			return out
		}
		ref := defaults(lits[0])
		var diffs []string
		for _, al := range lits[1:] {
			got := defaults(al)
			for k, v := range ref {
				if got[k] != v {
					diffs = append(diffs, fmt.Sprintf("%s is %s in the value made at %s and %s in the one made at %s", k, v, c.P.InstrPos(lits[0]), orZero(got[k]), c.P.InstrPos(al)))
				}
			}
			for k, v := range got {
				if _, ok := ref[k]; !ok {
					diffs = append(diffs, fmt.Sprintf("%s is %s in the value made at %s and the zero value in the one made at %s", k, v, c.P.InstrPos(al), c.P.InstrPos(lits[0])))
				}
			}
		}
		if len(diffs) > 0 {
			sort.Strings(diffs)
			res.bad(key, c.P.FnPos(fn), load.FnName(fn)+" can return several freshly made values and they do not start from the same defaults: "+strings.Join(uniq(diffs), "; ")+". The value returned on the error path (a configuration file that exists but does not decode) silently lacks the default")
		} else {
			res.ok(key, c.P.FnPos(fn), fmt.Sprintf("%d composite literals can be returned; they initialise the same fields with the same constants (%d)", len(lits), len(ref)))
		}
	}
	return res
}

func orZero(s string) string {
	if s == "" {
		return "the zero value"
	}
	return s
}

// isParseFileFn: the function (or method of Parser) that parses an included file.
func isParseFileFn(fn *ssa.Function) bool {
	return fn.Name() == "parseFile" && load.ShortPkg(load.FnPkgPath(fn)) == "regex/parser"
}

// callsDirectly: f contains a static call of g (a thin wrapper such as mustParseFile).
func callsDirectly(f, g *ssa.Function) bool {
	found := false
	allInstrs(f, func(in ssa.Instruction) {
		if cc := callCommon(in); cc != nil && staticFn(cc) == g {
			found = true
		}
	})
	return found
}
