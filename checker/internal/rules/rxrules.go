package rules

import (
	"fmt"
	"go/constant"
	"go/token"
	"go/types"
	"regexp/syntax"
	"sort"
	"strings"

	"golang.org/x/tools/go/ssa"

	"crsverif/internal/load"
	"crsverif/internal/rx"
)

// ---------- pattern classification sets ----------

// patternMap is a map[string]*regexp.Regexp literal of the repository.
type patternMap struct {
	fn      *ssa.Function
	mk      *ssa.MakeMap
	entries map[string]*Pattern // constant key -> pattern
	unres   []string
	field   *types.Var // struct field the map is stored into, if any
}

func isPatternMapType(t types.Type) bool {
	m, ok := t.Underlying().(*types.Map)
	if !ok {
		return false
	}
	return isNamed(m.Elem(), "regexp", "Regexp")
}

func (c *Ctx) patternMaps() []*patternMap {
	var out []*patternMap
	tab := c.Rx()
	for _, fn := range c.P.RepoFns {
		allInstrs(fn, func(in ssa.Instruction) {
			mk, ok := in.(*ssa.MakeMap)
			if !ok || !isPatternMapType(mk.Type()) {
				return
			}
			pm := &patternMap{fn: fn, mk: mk, entries: map[string]*Pattern{}}
			for _, r := range referrers(mk) {
				switch x := r.(type) {
				case *ssa.MapUpdate:
					k, ok := constString(x.Key)
					if !ok {
						pm.unres = append(pm.unres, "non-constant key")
						continue
					}
					p, why := tab.Resolve(x.Value)
					if p == nil {
						pm.unres = append(pm.unres, k+": "+why)
						continue
					}
					pm.entries[k] = p
				case *ssa.Store:
					if fa, ok := x.Addr.(*ssa.FieldAddr); ok {
						st := derefType(fa.X.Type()).Underlying().(*types.Struct)
						pm.field = st.Field(fa.Field)
					}
				}
			}
			out = append(out, pm)
		})
	}
	return out
}

// lineDomain: lines as the parser sees them — no newline, not starting with
// blank (the parser trims indentation before classifying).
func lineDomain() *rx.Lang {
	l, err := rx.SearchPattern("line-domain", `^[^ \t\n]`)
	if err != nil {
		panic(err)
	}
	return l
}

func searchLang(p *Pattern) *rx.Lang {
	l, err := rx.Search(p.Name, p.Re)
	if err != nil {
		panic(fmt.Sprintf("pattern %s does not compile: %v", p.Name, err))
	}
	return l
}

// matchChain is an ordered classification: pattern i is tried only when
// patterns 0..i-1 did not match the same subject.
type matchChain struct {
	fn       *ssa.Function
	subject  ssa.Value
	patterns []*Pattern
	calls    []*ssa.Call
}

var regexpMatchMethods = map[string]bool{
	"Match": true, "MatchString": true, "Find": true, "FindString": true, "FindIndex": true, "FindStringIndex": true,
	"FindSubmatch": true, "FindStringSubmatch": true, "FindSubmatchIndex": true, "FindStringSubmatchIndex": true,
	"FindAllStringSubmatch": true, "FindAllSubmatch": true, "FindAllString": true, "FindAll": true,
	"FindAllStringIndex": true, "FindAllIndex": true,
}

// regexpCall decodes a call of a matching method of *regexp.Regexp.
func regexpCall(in ssa.Instruction) (call *ssa.Call, method string, recv, subject ssa.Value, ok bool) {
	call, isCall := in.(*ssa.Call)
	if !isCall {
		return nil, "", nil, nil, false
	}
	f := staticCallee(&call.Call)
	if f == nil || objPkgPath(f) != "regexp" || recvNamed(f) != "Regexp" || len(call.Call.Args) < 2 {
		return nil, "", nil, nil, false
	}
	return call, f.Name(), call.Call.Args[0], call.Call.Args[1], true
}

// matchChains finds the ordered classifications of a function: calls of
// matching methods on the same subject value where each later call is only
// reached when the earlier ones did not match.
func (c *Ctx) matchChains(fn *ssa.Function) []*matchChain {
	tab := c.Rx()
	bySubject := map[ssa.Value][]*ssa.Call{}
	var subjects []ssa.Value
	allInstrs(fn, func(in ssa.Instruction) {
		call, m, _, subj, ok := regexpCall(in)
		if !ok || !regexpMatchMethods[m] {
			return
		}
		subj = stripConv(subj)
		if _, seen := bySubject[subj]; !seen {
			subjects = append(subjects, subj)
		}
		bySubject[subj] = append(bySubject[subj], call)
	})
	var out []*matchChain
	for _, subj := range subjects {
		calls := bySubject[subj]
		if len(calls) < 2 {
			continue
		}
		// order by dominance
		sort.SliceStable(calls, func(i, j int) bool { return instrDominates(calls[i], calls[j]) })
		ch := &matchChain{fn: fn, subject: subj}
		for i, call := range calls {
			if i > 0 {
				// must be reached only when the previous call did not match
				prev := calls[i-1]
				if !instrDominates(prev, call) || !c.knownNoMatch(call, prev) {
					continue
				}
			}
			p, _ := tab.Resolve(call.Call.Args[0])
			if p == nil {
				continue
			}
			ch.patterns = append(ch.patterns, p)
			ch.calls = append(ch.calls, call)
		}
		if len(ch.patterns) >= 2 {
			out = append(out, ch)
		}
	}
	return out
}

// knownNoMatch: at instruction at, do the branch facts say that the result of
// the earlier match call was "no match" (nil / false / empty)?
func (c *Ctx) knownNoMatch(at ssa.Instruction, prev *ssa.Call) bool {
	f := c.factsAt(at)
	for cond, val := range f {
		if cond == ssa.Value(prev) { // bool result
			if !val {
				return true
			}
			continue
		}
		b, ok := cond.(*ssa.BinOp)
		if !ok {
			continue
		}
		if x, trueMeansNil, isTest := nilTest(b); isTest && x == ssa.Value(prev) {
			if val == trueMeansNil {
				return true
			}
		}
		if call, ok := b.X.(*ssa.Call); ok {
			if bi, ok := call.Call.Value.(*ssa.Builtin); ok && bi.Name() == "len" && call.Call.Args[0] == ssa.Value(prev) {
				if n, ok := constInt(b.Y); ok && n == 0 {
					if (b.Op == token.GTR && !val) || (b.Op == token.EQL && val) || (b.Op == token.NEQ && !val) {
						return true
					}
				}
			}
		}
	}
	return false
}

// RuleRxDisjoint: a line belongs to at most one directive kind, for the
// unordered classification sets (pattern maps) and for ordered chains that
// share patterns with such a set.
func (c *Ctx) RuleRxDisjoint(allPairs bool) *Result {
	res := &Result{Rule: "RX-DISJOINT", MinInst: 21}
	dom := lineDomain()
	maps := c.patternMaps()
	for _, pm := range maps {
		fnName := load.FnName(pm.fn)
		for _, u := range pm.unres {
			res.Instances++
			res.undecided(fnName+":pattern map entry "+u, c.P.InstrPos(pm.mk), "a member of the classification set is not a source constant")
		}
		keys := sortedKeys(pm.entries)
		// does anything range over this map with an early exit? If it is only
		// looked up by key the set need not be disjoint.
		if !c.mapIsRangedFirstMatch(pm) {
			res.note("pattern map in %s is not iterated with an early exit; disjointness not required", fnName)
			continue
		}
		for i := 0; i < len(keys); i++ {
			for j := i + 1; j < len(keys); j++ {
				a, b := pm.entries[keys[i]], pm.entries[keys[j]]
				res.Instances++
				key := fmt.Sprintf("%s:pair %s/%s", fnName, keys[i], keys[j])
				r, err := rx.Intersects(searchLang(a), searchLang(b), dom)
				switch {
				case err != nil:
					res.undecided(key, a.Pos, err.Error())
				case r.Found:
					res.bad(key, a.Pos, fmt.Sprintf("the line %q is matched by both %s and %s; the set is iterated in map order, so its kind depends on the hash seed", r.Witness, a.Name, b.Name))
				default:
					res.ok(key, a.Pos, fmt.Sprintf("L(%s) ∩ L(%s) = ∅ over trimmed lines (%d product states)", a.Name, b.Name, r.States))
				}
			}
		}
	}
	// the disjointness argument is about trimmed lines: the function that classifies by the
	// pattern map must be handed the line with its indentation removed
	for _, fn := range c.P.RepoFns {
		usesMapPattern := false
		var subject ssa.Value
		allInstrs(fn, func(in ssa.Instruction) {
			if _, m, recv, subj, ok := regexpCall(in); ok && regexpMatchMethods[m] {
				if ex, isEx := recv.(*ssa.Extract); isEx && ex.Index == 2 {
					if nx, isNx := ex.Tuple.(*ssa.Next); isNx {
						if rg, isRg := nx.Iter.(*ssa.Range); isRg && isPatternMapType(rg.X.Type()) {
							usesMapPattern, subject = true, stripConv(subj)
						}
					}
				}
			}
		})
		if !usesMapPattern {
			continue
		}
		pi := paramIndex(fn, subject)
		if pi < 0 {
			continue
		}
		for _, e := range c.Graph().In[fn] {
			cc := callCommon(e.Site)
			if cc == nil || staticFn(cc) != fn || pi >= len(cc.Args) {
				continue
			}
			res.Instances++
			key := load.FnName(e.Caller) + ":line handed to " + load.FnName(fn)
			trimmed := false
			if tc, ok := stripConv(cc.Args[pi]).(*ssa.Call); ok {
				f := staticCallee(&tc.Call)
				if isFn(f, "strings", "TrimLeft") || isFn(f, "strings", "TrimSpace") || isFn(f, "strings", "TrimLeftFunc") {
					trimmed = true
				}
			}
			if trimmed {
				res.ok(key, c.P.InstrPos(e.Site), "the line is classified after its indentation was removed (the domain of the disjointness proof)")
			} else {
				res.bad(key, c.P.InstrPos(e.Site), "the line is classified with its indentation: every directive pattern except the comment pattern is anchored at the first column, so an indented directive is no longer recognised (or is taken for another kind of line)")
			}
		}
	}
	if allPairs {
		// thorough tier: the full pairwise product of every pattern constant of the
		// repository's definitions package, as a summary (no verdict: patterns that
		// are never alternatives of one classification may overlap)
		var pats []*Pattern
		for _, p := range c.Rx().all {
			if strings.HasPrefix(p.Name, "regex.") {
				pats = append(pats, p)
			}
		}
		sort.Slice(pats, func(i, j int) bool { return pats[i].Name < pats[j].Name })
		overlaps, pairs := 0, 0
		var ex []string
		for i := 0; i < len(pats); i++ {
			for j := i + 1; j < len(pats); j++ {
				pairs++
				if r, err := rx.Intersects(searchLang(pats[i]), searchLang(pats[j]), dom); err == nil && r.Found {
					overlaps++
					if len(ex) < 12 {
						ex = append(ex, fmt.Sprintf("%s/%s:%q", strings.TrimPrefix(pats[i].Name, "regex."), strings.TrimPrefix(pats[j].Name, "regex."), r.Witness))
					}
				}
			}
		}
		res.note("full pairwise product of the %d pattern constants of package regex: %d pairs, %d overlap on some trimmed line (informational), e.g. %s", len(pats), pairs, overlaps, strings.Join(ex, "; "))
	}
	// ordered chains versus the unordered sets
	for _, fn := range c.P.RepoFns {
		for _, ch := range c.matchChains(fn) {
			for _, pm := range maps {
				shared := 0
				inMap := map[*Pattern]string{}
				for k, p := range pm.entries {
					inMap[p] = k
				}
				for _, p := range ch.patterns {
					if _, ok := inMap[p]; ok {
						shared++
					}
				}
				if shared == 0 {
					continue
				}
				// for every chain position i and every map pattern q of a different
				// kind: no line is kind i for the chain and kind q for the map
				for i, p := range ch.patterns {
					for _, k := range sortedKeys(pm.entries) {
						q := pm.entries[k]
						if q == p {
							continue
						}
						res.Instances++
						key := fmt.Sprintf("%s:chain[%s] vs %s[%s]", load.FnName(fn), p.Name, load.FnName(pm.fn), k)
						langs := []*rx.Lang{searchLang(p), searchLang(q), dom}
						for _, e := range ch.patterns[:i] {
							langs = append(langs, searchLang(e))
						}
						n := len(langs)
						qy := &rx.Query{Langs: langs, Accept: func(m []bool) bool {
							if !m[0] || !m[1] || !m[2] {
								return false
							}
							for x := 3; x < n; x++ {
								if m[x] {
									return false
								}
							}
							return true
						}}
						r, err := qy.Run()
						switch {
						case err != nil:
							res.undecided(key, c.P.InstrPos(ch.calls[i]), err.Error())
						case r.Found:
							res.bad(key, c.P.InstrPos(ch.calls[i]), fmt.Sprintf("the line %q is handled as %s by %s but classified as %q by %s: the two disagree on what kind of line it is", r.Witness, p.Name, load.FnName(fn), k, load.FnName(pm.fn)))
						default:
							res.ok(key, c.P.InstrPos(ch.calls[i]), "no line is classified differently")
						}
					}
				}
			}
		}
	}
	return res
}

// mapIsRangedFirstMatch: is some map of this type/field iterated with range
// in the repository (the MAP-ORDER rule classifies the loop body)?
func (c *Ctx) mapIsRangedFirstMatch(pm *patternMap) bool {
	found := false
	for _, fn := range c.P.RepoFns {
		allInstrs(fn, func(in ssa.Instruction) {
			rg, ok := in.(*ssa.Range)
			if !ok || !isPatternMapType(rg.X.Type()) {
				return
			}
			found = true
		})
	}
	return found
}

// RuleRxGrammar: the rule-id argument grammar is the one the property states.
func (c *Ctx) RuleRxGrammar() *Result {
	res := &Result{Rule: "RX-GRAMMAR", MinInst: 3}
	p := c.Rx().ByName("regex.RuleIdFileNameRegex")
	if p == nil {
		res.undecided("regex:RuleIdFileNameRegex", "-", "the rule-id file-name pattern is not a resolvable constant")
		return res
	}
	none := func(r rune) bool { return false }
	check := func(label string, have, want *rx.Lang, what string) {
		res.Instances++
		q := &rx.Query{Langs: []*rx.Lang{have, want}, Excluded: none, Accept: func(m []bool) bool { return m[0] != m[1] }}
		r, err := q.Run()
		switch {
		case err != nil:
			res.undecided("regex:"+label, p.Pos, err.Error())
		case r.Found:
			in := "accepted by the code but not by the stated grammar"
			q2 := &rx.Query{Langs: []*rx.Lang{have, want}, Excluded: none, Accept: func(m []bool) bool { return m[1] && !m[0] }}
			if r2, _ := q2.Run(); r2.Found && r2.Witness == r.Witness {
				in = "in the stated grammar but rejected by the code"
			}
			res.bad("regex:"+label, p.Pos, fmt.Sprintf("%s: %q is %s", what, r.Witness, in))
		default:
			res.ok("regex:"+label, p.Pos, what+": languages are equal")
		}
	}
	have := searchLang(p)
	want, _ := rx.SearchPattern("stated grammar", `^\d{6}(-chain\d+)?(\.ra)?$`)
	check("RuleIdFileNameRegex", have, want, "argument grammar NNNNNN[-chainK][.ra]")
	if g1 := rx.Capture(p.Re, 1); g1 != nil {
		h, _ := rx.Full("group 1", g1)
		w, _ := rx.FullPattern("six digits", `\d{6}`)
		check("RuleIdFileNameRegex group 1", h, w, "group 1 (rule id) is exactly six digits")
	} else {
		res.Instances++
		res.bad("regex:RuleIdFileNameRegex group 1", p.Pos, "the pattern has no capture group 1 for the rule id")
	}
	if g2 := rx.Capture(p.Re, 2); g2 != nil {
		h, _ := rx.Full("group 2", g2)
		w, _ := rx.FullPattern("digits", `\d+`)
		check("RuleIdFileNameRegex group 2", h, w, "group 2 (chain offset) is one or more digits")
	} else {
		res.Instances++
		res.bad("regex:RuleIdFileNameRegex group 2", p.Pos, "the pattern has no capture group 2 for the chain offset")
	}
	return res
}

// ---------- submatch results ----------

// submatchUse is one constant-index access of a Find*Submatch* result.
type submatchUse struct {
	at    ssa.Instruction
	group int // capture group index
	guard bool
	inFn  *ssa.Function
	val   ssa.Value // the element value (loaded)
}

// submatchSite is one Find*Submatch* call with its uses.
type submatchSite struct {
	fn      *ssa.Function
	call    *ssa.Call
	method  string
	pattern *Pattern
	why     string // unresolved reason
	all     bool   // FindAll*: first index selects the match
	index   bool   // *Index variants: positions, two per group
	uses    []submatchUse
	escapes []string
	keyed   map[string]*Pattern // for map-iterated patterns: key -> pattern
	keyVal  ssa.Value
}

func isSubmatchMethod(m string) (ok, all, index bool) {
	switch m {
	case "FindSubmatch", "FindStringSubmatch":
		return true, false, false
	case "FindAllSubmatch", "FindAllStringSubmatch":
		return true, true, false
	case "FindSubmatchIndex", "FindStringSubmatchIndex":
		return true, false, true
	}
	return false, false, false
}

// submatchSites enumerates the Find*Submatch* calls of the repository.
func (c *Ctx) submatchSites() []*submatchSite {
	if c.smCache != nil {
		return c.smCache
	}
	tab := c.Rx()
	var out []*submatchSite
	for _, fn := range c.P.RepoFns {
		allInstrs(fn, func(in ssa.Instruction) {
			call, m, recv, _, ok := regexpCall(in)
			if !ok {
				return
			}
			sub, all, idx := isSubmatchMethod(m)
			if !sub {
				return
			}
			s := &submatchSite{fn: fn, call: call, method: m, all: all, index: idx}
			s.pattern, s.why = tab.Resolve(recv)
			if s.pattern == nil {
				// pattern taken from a map iteration: pair through the literal's keys
				if ex, isEx := recv.(*ssa.Extract); isEx && ex.Index == 2 {
					if nx, isNx := ex.Tuple.(*ssa.Next); isNx {
						if rg, isRg := nx.Iter.(*ssa.Range); isRg && isPatternMapType(rg.X.Type()) {
							for _, pm := range c.patternMaps() {
								if len(pm.unres) == 0 {
									s.keyed = pm.entries
								}
							}
							for _, r := range referrers(nx) {
								if kx, ok := r.(*ssa.Extract); ok && kx.Index == 1 {
									s.keyVal = kx
								}
							}
						}
					}
				}
			}
			c.collectSubmatchUses(s, call, 0, fn, 0, !all)
			out = append(out, s)
		})
	}
	c.smCache = out
	return out
}

// collectSubmatchUses follows value v (the result slice, offset groups in) to
// its constant-index accesses. matchSelected=false while the first index of a
// FindAll result still has to pick a match.
func (c *Ctx) collectSubmatchUses(s *submatchSite, v ssa.Value, offset int, fn *ssa.Function, depth int, matchSelected bool) {
	if depth > 3 {
		s.escapes = append(s.escapes, "followed too deep")
		return
	}
	for _, r := range referrers(v) {
		switch x := r.(type) {
		case *ssa.DebugRef:
		case *ssa.IndexAddr:
			k, ok := constInt(x.Index)
			if !matchSelected {
				// choose the match; element is a group slice
				for _, rr := range referrers(x) {
					if ld, ok := rr.(*ssa.UnOp); ok && ld.Op == token.MUL {
						if !c.guardedNonEmpty(x, s.call) {
							s.uses = append(s.uses, submatchUse{at: x, group: -1, guard: false, inFn: fn})
						}
						c.collectSubmatchUses(s, ld, offset, fn, depth, true)
					}
				}
				continue
			}
			if !ok {
				s.escapes = append(s.escapes, "indexed with a non-constant at "+c.P.InstrPos(x))
				continue
			}
			u := submatchUse{at: x, group: offset + int(k), inFn: fn}
			u.guard = c.guardedNonEmpty(x, s.call) || (depth > 0)
			for _, rr := range referrers(x) {
				if ld, ok := rr.(*ssa.UnOp); ok && ld.Op == token.MUL {
					u.val = ld
				}
			}
			s.uses = append(s.uses, u)
		case *ssa.Index:
			if k, ok := constInt(x.Index); ok {
				s.uses = append(s.uses, submatchUse{at: x, group: offset + int(k), guard: c.guardedNonEmpty(x, s.call), inFn: fn, val: x})
			}
		case *ssa.Slice:
			lo := 0
			if x.Low != nil {
				k, ok := constInt(x.Low)
				if !ok {
					s.escapes = append(s.escapes, "sliced with a non-constant bound")
					continue
				}
				lo = int(k)
			}
			if x.High != nil {
				continue
			}
			// slicing R[lo:] needs lo <= len: treat as a use of group lo-1.. (len >= lo)
			s.uses = append(s.uses, submatchUse{at: x, group: offset + lo - 1, guard: c.guardedNonEmpty(x, s.call) || depth > 0, inFn: fn})
			c.collectSubmatchUses(s, x, offset+lo, fn, depth, matchSelected)
		case *ssa.Call:
			if bi, ok := x.Call.Value.(*ssa.Builtin); ok && (bi.Name() == "len" || bi.Name() == "cap") {
				continue
			}
			sf := staticFn(&x.Call)
			if sf != nil && c.P.IsRepoFn(sf) && len(sf.Blocks) > 0 {
				for i, a := range x.Call.Args {
					if a == v && i < len(sf.Params) {
						// guard must hold at the call
						if !c.guardedNonEmpty(x, s.call) && depth == 0 && v != ssa.Value(s.call) {
							// a slice of the result: guard is checked on the slice op
						}
						c.collectSubmatchUses(s, sf.Params[i], offset, sf, depth+1, matchSelected)
					}
				}
				continue
			}
			// handed to an external (logging with %v): harmless
		case *ssa.Return:
			// the match handed back by a helper of the repository ("split the rule line"): what
			// the callers do with the result are uses of the same match
			ri := -1
			for i, rv := range x.Results {
				if rv == v {
					ri = i
				}
			}
			if ri < 0 || !matchSelected && !s.all {
				continue
			}
			for _, e := range c.Graph().In[fn] {
				call, ok := e.Site.(*ssa.Call)
				if !ok || staticFn(&call.Call) != fn {
					continue
				}
				var got ssa.Value = call
				if len(x.Results) > 1 {
					got = nil
					for _, rr := range referrers(call) {
						if ex, ok := rr.(*ssa.Extract); ok && ex.Index == ri {
							got = ex
						}
					}
				}
				if got != nil {
					c.collectSubmatchUses(s, got, offset, e.Caller, depth+1, matchSelected)
				}
			}
		case *ssa.BinOp, *ssa.Phi, *ssa.Store, *ssa.MakeInterface, *ssa.Range:
			// comparisons with nil, logging, storing: not an element access
			if _, isPhi := x.(*ssa.Phi); isPhi {
				s.escapes = append(s.escapes, "merged with another value (phi)")
			}
		}
	}
}

// guardedNonEmpty: is the access dominated by a test that the submatch result
// of call is non-nil/non-empty (loud failing side counts), or by a
// MatchString/Match of the same pattern on the same subject?
func (c *Ctx) guardedNonEmpty(at ssa.Instruction, call *ssa.Call) bool {
	if at.Block().Parent() != call.Block().Parent() {
		return true // in a callee: the guard is the caller's business (checked at the slice/call)
	}
	f := c.factsAt(at)
	if knownNonEmpty(f, call) {
		return true
	}
	// same block, after a guard? facts are per block entry; accesses in the block that
	// follows the test are covered above. Also accept: result indexed right in
	// the block where a dominating MatchString of the same pattern and subject is known true.
	for cond, val := range f {
		if !val {
			continue
		}
		if mc, m, recv, subj, ok := regexpCall(asInstr(cond)); ok && (m == "MatchString" || m == "Match") {
			_ = mc
			if sameLoad(recv, call.Call.Args[0]) && stripConv(subj) == stripConv(call.Call.Args[1]) {
				return true
			}
		}
	}
	return false
}

func asInstr(v ssa.Value) ssa.Instruction {
	if in, ok := v.(ssa.Instruction); ok {
		return in
	}
	return nil
}

// sameLoad: two loads of the same global (or the same value).
func sameLoad(a, b ssa.Value) bool {
	if a == b {
		return true
	}
	ua, ok1 := a.(*ssa.UnOp)
	ub, ok2 := b.(*ssa.UnOp)
	if !ok1 || !ok2 {
		return false
	}
	if ua.X == ub.X {
		return true
	}
	fa, ok1 := ua.X.(*ssa.FieldAddr)
	fb, ok2 := ub.X.(*ssa.FieldAddr)
	if !ok1 || !ok2 || fa.Field != fb.Field {
		return false
	}
	if fa.X == fb.X {
		return true
	}
	// the base is itself loaded from the same variable (a receiver captured by a closure lives in a cell)
	la, ok1 := fa.X.(*ssa.UnOp)
	lb, ok2 := fb.X.(*ssa.UnOp)
	return ok1 && ok2 && la.X == lb.X
}

// RuleRxGroups: constant capture indices exist and are guarded.
func (c *Ctx) RuleRxGroups() *Result {
	res := &Result{Rule: "RX-GROUPS", MinInst: 15}
	resolved := 0
	for _, s := range c.submatchSites() {
		res.Instances++
		fnName := load.FnName(s.fn)
		label := calleeLabel(&s.call.Call)
		pos := c.P.InstrPos(s.call)
		if s.pattern == nil && s.keyed == nil {
			res.note("unresolved (not judged): %s in %s: %s", s.method, fnName, s.why)
			continue
		}
		resolved++
		pname := "map-iterated pattern"
		if s.pattern != nil {
			pname = s.pattern.Name
		}
		key := fmt.Sprintf("%s:%s on %s", fnName, strings.TrimPrefix(label, "regexp.(Regexp)."), pname)
		var problems []string
		for _, u := range s.uses {
			pat := s.pattern
			if pat == nil && u.group <= 0 {
				if !u.guard {
					problems = append(problems, fmt.Sprintf("index %d at %s is not dominated by a test that the match succeeded", u.group, c.P.InstrPos(u.at)))
				}
				continue
			}
			if pat == nil {
				// which key is known at the access?
				k, ok := c.knownStringKey(u.at, s.keyVal)
				if !ok {
					problems = append(problems, fmt.Sprintf("index %d at %s is not under a case of the pattern name", u.group, c.P.InstrPos(u.at)))
					continue
				}
				pat = s.keyed[k]
				if pat == nil {
					problems = append(problems, fmt.Sprintf("case %q at %s has no pattern in the map literal", k, c.P.InstrPos(u.at)))
					continue
				}
			}
			g := u.group
			limit := pat.NumCap()
			if s.index {
				limit = 2*pat.NumCap() + 1
			}
			if g > limit {
				problems = append(problems, fmt.Sprintf("index %d at %s but %s has only %d capture groups (%s)", g, c.P.InstrPos(u.at), pat.Name, pat.NumCap(), pat.Src))
			}
			if !u.guard {
				problems = append(problems, fmt.Sprintf("index %d at %s is not dominated by a test that the match succeeded", g, c.P.InstrPos(u.at)))
			}
		}
		for _, e := range s.escapes {
			res.note("%s: %s", key, e)
		}
		if len(problems) > 0 {
			res.bad(key, pos, strings.Join(problems, "; "))
		} else {
			res.ok(key, pos, fmt.Sprintf("%d constant group accesses within the pattern's groups and guarded", len(s.uses)))
		}
	}
	if resolved == 0 {
		res.undecided("all:patterns", "-", "no submatch site could be resolved to a pattern constant")
	}
	return res
}

// knownStringKey: which constant is keyVal known to equal at instruction at?
func (c *Ctx) knownStringKey(at ssa.Instruction, keyVal ssa.Value) (string, bool) {
	if keyVal == nil {
		return "", false
	}
	for cond, val := range c.factsAt(at) {
		b, ok := cond.(*ssa.BinOp)
		if !ok || b.Op != token.EQL || !val {
			continue
		}
		if b.X == keyVal {
			if s, ok := constString(b.Y); ok {
				return s, true
			}
		}
		if b.Y == keyVal {
			if s, ok := constString(b.X); ok {
				return s, true
			}
		}
	}
	// the name is known through a table: a field of a local struct that was set from
	// table[name] is compared with a constant that the table gives to exactly one name
	for cond, val := range c.factsAt(at) {
		b, ok := cond.(*ssa.BinOp)
		if !ok || b.Op != token.EQL || !val {
			continue
		}
		for _, pair := range [][2]ssa.Value{{b.X, b.Y}, {b.Y, b.X}} {
			want, isC := pair[1].(*ssa.Const)
			if !isC {
				continue
			}
			ld, isLd := pair[0].(*ssa.UnOp)
			if !isLd || ld.Op != token.MUL {
				continue
			}
			fa, isFA := ld.X.(*ssa.FieldAddr)
			if !isFA {
				continue
			}
			al, isAl := fa.X.(*ssa.Alloc)
			if !isAl {
				continue
			}
			// every store to that field of that variable
			var names []string
			clean := true
			for _, r := range referrers(al) {
				fa2, ok := r.(*ssa.FieldAddr)
				if !ok || fa2.Field != fa.Field {
					continue
				}
				for _, rr := range referrers(fa2) {
					st, ok := rr.(*ssa.Store)
					if !ok || st.Addr != ssa.Value(fa2) {
						continue
					}
					sv := stripConv(st.Val)
					if cst, ok := sv.(*ssa.Const); ok {
						if constantEqual(cst, want) {
							clean = false // the tested value is also a default
						}
						continue
					}
					ex, ok := sv.(*ssa.Extract)
					if !ok || ex.Index != 0 {
						clean = false
						continue
					}
					lk, ok := ex.Tuple.(*ssa.Lookup)
					if !ok || lk.Index != keyVal {
						clean = false
						continue
					}
					entries, okT := c.globalMapEntries(lk.X)
					if !okT {
						clean = false
						continue
					}
					for _, e := range entries {
						if ec, ok := e[1].(*ssa.Const); ok && constantEqual(ec, want) {
							if ks, ok := constString(e[0]); ok {
								names = append(names, ks)
							}
						}
					}
				}
			}
			if clean && len(names) == 1 {
				return names[0], true
			}
		}
	}
	return "", false
}

func constantEqual(a, b *ssa.Const) bool {
	if a.Value == nil || b.Value == nil {
		return a.Value == nil && b.Value == nil
	}
	return a.Value.ExactString() == b.Value.ExactString()
}

// ---------- RX-REBUILD ----------

// firstLast analyses whether the pattern covers the whole line.
func flattenConcat(re *syntax.Regexp) []*syntax.Regexp {
	if re.Op == syntax.OpConcat {
		var out []*syntax.Regexp
		for _, s := range re.Sub {
			out = append(out, flattenConcat(s)...)
		}
		return out
	}
	return []*syntax.Regexp{re}
}

func isAnyStar(re *syntax.Regexp) bool {
	return re.Op == syntax.OpStar && (re.Sub[0].Op == syntax.OpAnyCharNotNL || re.Sub[0].Op == syntax.OpAnyChar)
}

// startsCovering: does the expression begin with ^ or with .* inside groups
// that are all in keep (emitted or replaced on purpose)?
func startsCovering(re *syntax.Regexp, keep map[int]bool) bool {
	switch re.Op {
	case syntax.OpBeginText, syntax.OpBeginLine:
		return true
	case syntax.OpCapture:
		return keep[re.Cap] && startsCovering(re.Sub[0], keep)
	case syntax.OpConcat:
		for _, s := range re.Sub {
			if s.Op == syntax.OpEmptyMatch {
				continue
			}
			return startsCovering(s, keep)
		}
		return false
	case syntax.OpStar:
		return isAnyStar(re)
	}
	return false
}

func endsCovering(re *syntax.Regexp, keep map[int]bool) bool {
	switch re.Op {
	case syntax.OpEndText, syntax.OpEndLine:
		return true
	case syntax.OpCapture:
		return keep[re.Cap] && endsCovering(re.Sub[0], keep)
	case syntax.OpConcat:
		for i := len(re.Sub) - 1; i >= 0; i-- {
			if re.Sub[i].Op == syntax.OpEmptyMatch {
				continue
			}
			return endsCovering(re.Sub[i], keep)
		}
		return false
	case syntax.OpStar:
		return isAnyStar(re)
	}
	return false
}

// capTree records, for each group, the groups nested inside it.
func capChildren(re *syntax.Regexp, parent int, out map[int][]int) {
	p := parent
	if re.Op == syntax.OpCapture {
		out[parent] = append(out[parent], re.Cap)
		p = re.Cap
		if _, ok := out[p]; !ok {
			out[p] = nil
		}
	}
	for _, s := range re.Sub {
		capChildren(s, p, out)
	}
}

// looseText collects literal text and non-blank classes outside the groups in emitted.
func looseText(re *syntax.Regexp, emitted map[int]bool, lits *[]string, classes *[]string) {
	switch re.Op {
	case syntax.OpCapture:
		if emitted[re.Cap] {
			return
		}
	case syntax.OpLiteral:
		*lits = append(*lits, string(re.Rune))
		return
	case syntax.OpCharClass:
		blank := true
		for i := 0; i+1 < len(re.Rune); i += 2 {
			for r := re.Rune[i]; r <= re.Rune[i+1] && r < 0x80; r++ {
				if !(r == ' ' || r == '\t' || r == '\n' || r == '\r' || r == '\f' || r == '\v') {
					blank = false
				}
			}
			if re.Rune[i+1] >= 0x80 {
				blank = false
			}
		}
		if !blank {
			*classes = append(*classes, re.String())
		}
		return
	case syntax.OpAnyChar, syntax.OpAnyCharNotNL:
		*classes = append(*classes, ".")
		return
	}
	for _, s := range re.Sub {
		looseText(s, emitted, lits, classes)
	}
}

// builderInfo describes how elements of a submatch result flow into built strings.
type builderInfo struct {
	groups      map[int]bool
	constants   []string
	dynamic     bool // some operand is neither a group nor a constant
	transformed []string
	orders      [][]int // group order per builder expression
}

// stringOperands flattens a string-building expression into ordered operands.
func stringOperands(v ssa.Value, depth int) []ssa.Value {
	if depth > 6 {
		return []ssa.Value{v}
	}
	switch x := v.(type) {
	case *ssa.BinOp:
		if x.Op == token.ADD {
			return append(stringOperands(x.X, depth+1), stringOperands(x.Y, depth+1)...)
		}
	case *ssa.Convert:
		return stringOperands(x.X, depth+1)
	case *ssa.ChangeType:
		return stringOperands(x.X, depth+1)
	case *ssa.MakeInterface:
		return stringOperands(x.X, depth+1)
	case *ssa.Call:
		if bi, isB := x.Call.Value.(*ssa.Builtin); isB && bi.Name() == "append" && len(x.Call.Args) > 0 && isFreshBuffer(x.Call.Args[0], 0) {
			// a line assembled in a buffer of its own: append(append(make([]byte, 0, n), a...), b...)
			var out []ssa.Value
			if inner, ok := x.Call.Args[0].(*ssa.Call); ok && !isIndentBuffer(inner, 0) {
				out = append(out, stringOperands(inner, depth+1)...)
			}
			for _, a := range x.Call.Args[1:] {
				if kc, ok := constBytesOf(a); ok {
					out = append(out, kc)
					continue
				}
				out = append(out, stringOperands(a, depth+1)...)
			}
			return out
		}
		if sf := staticCallee(&x.Call); sf != nil && objPkgPath(sf) == "strconv" && strings.HasPrefix(sf.Name(), "Append") && len(x.Call.Args) > 1 && isFreshBuffer(x.Call.Args[0], 0) {
			// strconv.AppendInt(buf, n, 10): what is in the buffer, then the number
			var out []ssa.Value
			if inner, ok := x.Call.Args[0].(*ssa.Call); ok {
				out = append(out, stringOperands(inner, depth+1)...)
			}
			return append(out, x.Call.Args[1])
		}
		if bi, isB := x.Call.Value.(*ssa.Builtin); isB && bi.Name() == "append" && len(x.Call.Args) > 0 && isConstConv(x.Call.Args[0]) {
			var out []ssa.Value
			for _, a := range x.Call.Args {
				out = append(out, stringOperands(a, depth+1)...)
			}
			return out
		}
		if bf := staticCallee(&x.Call); bf != nil && (recvNamed(bf) == "Builder" || recvNamed(bf) == "Buffer") && (bf.Name() == "String" || bf.Name() == "Bytes") && len(x.Call.Args) == 1 {
			// everything written into the builder, in order
			var out []ssa.Value
			for _, w := range builderWrites(x.Call.Args[0]) {
				out = append(out, stringOperands(w, depth+1)...)
			}
			if len(out) > 0 {
				return out
			}
		}
		f := staticCallee(&x.Call)
		if isFn(f, "fmt", "Sprintf") || isFn(f, "fmt", "Sprint") || isFn(f, "fmt", "Sprintln") || isFn(f, "fmt", "Appendf") || isFn(f, "fmt", "Append") || isFn(f, "fmt", "Appendln") || isConcatHelper(staticFn(&x.Call)) {
			var out []ssa.Value
			if sep, ok := joinHelperSep(staticFn(&x.Call)); ok && sep != nil {
				// marker, then the arguments separated by the constant
				for i, a := range x.Call.Args {
					if sl, ok := a.(*ssa.Slice); ok {
						for j, e := range variadicElems(sl) {
							if j > 0 {
								out = append(out, sep)
							}
							out = append(out, stringOperands(e, depth+1)...)
						}
					} else {
						_ = i
						out = append(out, stringOperands(a, depth+1)...)
					}
				}
				return out
			}
			for _, a := range x.Call.Args {
				if sl, ok := a.(*ssa.Slice); ok {
					out = append(out, variadicElems(sl)...)
				} else {
					out = append(out, stringOperands(a, depth+1)...)
				}
			}
			return out
		}
	}
	return []ssa.Value{v}
}

// variadicElems returns the values stored into the backing array of a
// variadic argument slice, in index order.
func variadicElems(sl *ssa.Slice) []ssa.Value {
	al, ok := sl.X.(*ssa.Alloc)
	if !ok {
		return []ssa.Value{sl}
	}
	type el struct {
		i int64
		v ssa.Value
	}
	var els []el
	for _, r := range referrers(al) {
		if ia, ok := r.(*ssa.IndexAddr); ok {
			k, _ := constInt(ia.Index)
			for _, rr := range referrers(ia) {
				if st, ok := rr.(*ssa.Store); ok {
					els = append(els, el{k, st.Val})
				}
			}
		}
	}
	sort.Slice(els, func(i, j int) bool { return els[i].i < els[j].i })
	var out []ssa.Value
	for _, e := range els {
		out = append(out, stringOperands(e.v, 1)...)
	}
	return out
}

// RuleRxRebuild: a line rebuilt from captures is the same line.
func (c *Ctx) RuleRxRebuild() *Result {
	res := &Result{Rule: "RX-REBUILD", MinInst: 9}
	for _, s := range c.submatchSites() {
		if s.pattern == nil || s.index {
			continue
		}
		// element values by group
		elem := map[ssa.Value]int{}
		for _, u := range s.uses {
			if u.val != nil && u.group >= 0 {
				elem[u.val] = u.group
			}
		}
		if len(elem) == 0 {
			continue
		}
		// find builder roots: string-building instructions that (transitively) consume an element
		info := builderInfo{groups: map[int]bool{}}
		roots := map[ssa.Value]bool{}
		builderParam := map[ssa.Value]bool{}
		var climb func(v ssa.Value, depth int) bool
		climb = func(v ssa.Value, depth int) bool {
			if depth > 8 {
				return false
			}
			found := false
			for _, r := range referrers(v) {
				switch x := r.(type) {
				case *ssa.Convert:
					if climb(x, depth+1) {
						found = true
					}
				case *ssa.MakeInterface:
					if climb(x, depth+1) {
						found = true
					}
				case *ssa.ChangeType:
					if climb(x, depth+1) {
						found = true
					}
				case *ssa.BinOp:
					if x.Op == token.ADD {
						if !climb(x, depth+1) {
							roots[x] = true
						}
						found = true
					}
				case *ssa.Phi:
					if _, isElem := elem[v]; !isElem && climb(x, depth+1) {
						found = true
					}
				case *ssa.Call:
					// append([]byte("##!+ "), group...): a byte-level builder
					if bi, isB := x.Call.Value.(*ssa.Builtin); isB && bi.Name() == "append" {
						_, isLit := constString(stripConv(x.Call.Args[0]))
						// a line assembled in a scratch buffer of its own (append(buf[:0], group...), then more appends)
						_, vIsGroup := elem[stripConv(v)]
						scratch := isFreshBuffer(x.Call.Args[0], 0) && (x.Call.Args[0] == v || len(x.Call.Args) > 1 && x.Call.Args[1] == v && vIsGroup)
						if !isLit && !scratch {
							break // appending to something else (the indentation): not a rebuilt line
						}
						if !climb(x, depth+1) {
							roots[x] = true
						}
						found = true
						break
					}
					if af := staticCallee(&x.Call); af != nil && objPkgPath(af) == "strconv" && strings.HasPrefix(af.Name(), "Append") && len(x.Call.Args) > 0 && x.Call.Args[0] == v && isFreshBuffer(v, 0) {
						if !climb(x, depth+1) {
							roots[x] = true
						}
						found = true
						break
					}
					// written into a strings.Builder / bytes.Buffer: the text is what String() / Bytes() yields
					if wf := staticCallee(&x.Call); wf != nil && (recvNamed(wf) == "Builder" || recvNamed(wf) == "Buffer") && strings.HasPrefix(wf.Name(), "Write") && len(x.Call.Args) == 2 && x.Call.Args[1] == v && isElemOrParam(elem, builderParam, v) {
						for _, out := range builderOutputs(x.Call.Args[0]) {
							if !climb(out, depth+1) {
								roots[out] = true
							}
							found = true
						}
						break
					}
					// a string-building helper of the repository (returns the text): the group, or the
					// text built so far, arrives in its parameter; only what the helper returns counts
					sf := staticFn(&x.Call)
					if isConcatHelper(sf) {
						// joins its arguments in order, like fmt.Sprint without separators
						if !climb(x, depth+1) {
							roots[x] = true
						}
						found = true
						break
					}
					if sf == nil || !c.P.IsRepoFn(sf) || len(sf.Blocks) == 0 || sf == s.fn || sf.Signature.Results().Len() != 1 || !isTextType(sf.Signature.Results().At(0).Type()) {
						break
					}
					for i, a := range x.Call.Args {
						if a != v || i >= len(sf.Params) {
							continue
						}
						p := sf.Params[i]
						g, isElem := elem[stripConv(v)]
						if isElem {
							elem[p] = g
						} else {
							builderParam[p] = true
						}
						before := map[ssa.Value]bool{}
						for r := range roots {
							before[r] = true
						}
						climb(p, depth+1)
						used := false
						for r := range roots {
							if before[r] {
								continue
							}
							if reachesReturn(r, 0) {
								used = true
							} else {
								delete(roots, r)
							}
						}
						if !used && reachesReturn(p, 0) {
							used = true // handed back as it is
						}
						if used {
							if !isElem {
								roots[v] = true // the text built so far is complete at this point
							}
							climb(x, depth+1) // the returned text may be built upon further
							found = true
						}
					}
				case *ssa.Store:
					// variadic backing array
					if ia, ok := x.Addr.(*ssa.IndexAddr); ok && x.Val == v {
						if al, ok := ia.X.(*ssa.Alloc); ok {
							for _, r2 := range referrers(al) {
								if sl, ok := r2.(*ssa.Slice); ok {
									for _, r3 := range referrers(sl) {
										if call, ok := r3.(*ssa.Call); ok {
											f := staticCallee(&call.Call)
											if isFn(f, "fmt", "Sprintf") || isFn(f, "fmt", "Sprint") || isFn(f, "fmt", "Sprintln") || isFn(f, "fmt", "Appendf") || isFn(f, "fmt", "Append") || isFn(f, "fmt", "Appendln") || isConcatHelper(staticFn(&call.Call)) {
												if !climb(call, depth+1) {
													roots[call] = true
												}
												found = true
											}
										}
									}
								}
							}
						}
					}
				}
			}
			return found
		}
		var elems []ssa.Value
		for v := range elem {
			elems = append(elems, v)
		}
		for _, v := range elems {
			climb(v, 0)
		}
		for root := range roots {
			if onlyFeedsMessages(root, 0) {
				delete(roots, root)
			}
		}
		if len(roots) == 0 {
			continue
		}
		for root := range roots {
			var order []int
			for _, op := range stringOperands(root, 0) {
				if g, ok := elem[op]; ok {
					info.groups[g] = true
					order = append(order, g)
					continue
				}
				if sv, ok := constString(op); ok {
					info.constants = append(info.constants, sv)
					continue
				}
				if sv, ok := c.globalConstText(op); ok {
					info.constants = append(info.constants, sv)
					continue
				}
				if isBuilderOf(op, roots) || builderParam[op] {
					continue
				}
				if ph, ok := op.(*ssa.Phi); ok {
					// the text built so far, with or without the optional part appended
					all := true
					for _, e := range ph.Edges {
						if !roots[e] && !builderParam[e] {
							all = false
						}
					}
					if all {
						continue
					}
				}
				// a group that goes through a function before it is re-emitted is not re-emitted verbatim
				if tc, isCall := op.(*ssa.Call); isCall {
					for _, a := range tc.Call.Args {
						if g, ok := elem[stripConv(a)]; ok {
							info.transformed = append(info.transformed, fmt.Sprintf("group %d passes through %s", g, calleeLabel(&tc.Call)))
							info.groups[g] = true
						}
					}
				}
				info.dynamic = true
			}
			info.orders = append(info.orders, order)
		}
		// a group that is re-emitted only under a condition: the condition may only ask whether that group
		// matched anything (its own obligation, so that it is told apart from findings about the pattern)
		for root := range roots {
			rin, ok := root.(ssa.Instruction)
			if !ok || rin.Parent() != s.fn {
				continue
			}
			for _, op := range stringOperands(root, 0) {
				g, isElem := elem[op]
				if !isElem {
					continue
				}
				S := rin.Block()
				reachS := blocksReaching(S)
				for d := S.Idom(); d != nil; d = d.Idom() {
					iff, ok := d.Instrs[len(d.Instrs)-1].(*ssa.If)
					if !ok || len(d.Succs) != 2 {
						continue
					}
					// only conditions inside the branch that handles this match
					if !s.call.Block().Dominates(d) || d == s.call.Block() {
						continue
					}
					for oi, o := range d.Succs {
						if reachS[o] || o == S || !c.reachesNormalReturn(o) {
							continue
						}
						// the group is read inside the conditional part (otherwise it belongs to what was built before)
						t := d.Succs[1-oi]
						if oin, ok := op.(ssa.Instruction); !ok || !t.Dominates(oin.Block()) {
							continue
						}
						// the other side puts the group back as well (if long form ... else short form ...)
						otherToo := false
						for root2 := range roots {
							r2, ok := root2.(ssa.Instruction)
							if !ok || r2.Parent() != s.fn || !(o == r2.Block() || o.Dominates(r2.Block())) {
								continue
							}
							for _, op2 := range stringOperands(root2, 0) {
								if g2, ok := elem[op2]; ok && g2 == g {
									otherToo = true
								}
							}
						}
						if otherToo {
							continue
						}
						res.Instances++
						ck := fmt.Sprintf("%s:conditional re-emission of group %d of %s", load.FnName(s.fn), g, s.pattern.Name)
						cond, _ := unwrapNot(iff.Cond)
						if isLenTestOfSameElem(cond, op) {
							res.ok(ck, c.P.InstrPos(iff), "re-emitted whenever it matched something")
						} else {
							res.bad(ck, c.P.InstrPos(iff), fmt.Sprintf("group %d is put back into the line only under a condition that is not 'the group matched something': on the other side its text is dropped from the file", g))
						}
					}
				}
			}
		}
		res.Instances++
		key := fmt.Sprintf("%s:rebuild from %s", load.FnName(s.fn), s.pattern.Name)
		pos := c.P.InstrPos(s.call)
		var problems []string
		p := s.pattern
		n := p.NumCap()
		children := map[int][]int{}
		capChildren(p.Re, 0, children)
		var covered func(g int) bool
		covered = func(g int) bool {
			if info.groups[g] || info.groups[0] {
				return true
			}
			for _, ch := range children[g] {
				if covered(ch) {
					return true
				}
			}
			return false
		}
		var dropped []int
		for g := 1; g <= n; g++ {
			if !covered(g) {
				dropped = append(dropped, g)
			}
		}
		allowedDrop := 0
		if info.dynamic {
			allowedDrop = 1
		}
		keep := map[int]bool{}
		for g := range info.groups {
			keep[g] = true
		}
		if len(dropped) > allowedDrop {
			problems = append(problems, fmt.Sprintf("capture group(s) %v of %s are neither re-emitted nor replaced: their text is lost", dropped, p.Src))
		} else {
			for _, g := range dropped {
				keep[g] = true // replaced on purpose
			}
		}
		// the group that is replaced on purpose delimits the old value: it must be greedy
		if len(dropped) <= allowedDrop {
			for _, g := range dropped {
				if sub := rx.Capture(p.Re, g); sub != nil && hasLazyAny(sub) {
					problems = append(problems, fmt.Sprintf("group %d of %s, whose text is replaced, is lazy: when the old value itself contains the delimiter that follows, only its head is replaced and the tail stays in the line (writing and reading back no longer agree)", g, p.Src))
				}
			}
		}
		// groups containing kept groups are kept for the coverage test
		for g := 0; g <= n; g++ {
			if covered(g) {
				keep[g] = true
			}
		}
		if !startsCovering(p.Re, keep) {
			problems = append(problems, fmt.Sprintf("%s does not start with ^ or a re-emitted .*: text before the match is dropped from the line", p.Src))
		}
		if !endsCovering(p.Re, keep) {
			problems = append(problems, fmt.Sprintf("%s does not end with $ or a re-emitted .*: text after the match is dropped from the line", p.Src))
		}
		var lits, classes []string
		if !info.groups[0] {
			looseText(p.Re, keep, &lits, &classes)
		}
		allConst := strings.Join(info.constants, "\x00")
		for _, l := range lits {
			if t := strings.TrimSpace(l); t != "" && !strings.Contains(allConst, t) {
				problems = append(problems, fmt.Sprintf("literal %q of the pattern is outside every re-emitted group and not in the rebuilt text", t))
			}
		}
		for _, cl := range classes {
			problems = append(problems, fmt.Sprintf("%s outside every re-emitted group matches non-blank text that is not rebuilt", cl))
		}
		for _, t := range info.transformed {
			problems = append(problems, t+" before it is put back into the line: the text of the line changes (only white space outside the groups may)")
		}
		for _, o := range info.orders {
			for i := 1; i < len(o); i++ {
				if o[i] <= o[i-1] {
					problems = append(problems, fmt.Sprintf("groups are re-emitted in the order %v, not in pattern order", o))
					break
				}
			}
		}
		if len(problems) > 0 {
			res.bad(key, pos, strings.Join(problems, "; "))
		} else {
			gs := []int{}
			for g := range info.groups {
				gs = append(gs, g)
			}
			sort.Ints(gs)
			res.ok(key, pos, fmt.Sprintf("groups %v re-emitted in order, replaced on purpose %v, pattern covers the whole line", gs, dropped))
		}
	}
	return res
}

func isBuilderOf(v ssa.Value, roots map[ssa.Value]bool) bool { return roots[v] }

func isConstConv(v ssa.Value) bool {
	_, ok := constString(stripConv(v))
	return ok
}

// isLenTestOfSameElem: cond is len(X) compared with a constant where X is the same slice element as elemV
// (another load of the same index of the same slice).
func isLenTestOfSameElem(cond ssa.Value, elemV ssa.Value) bool {
	b, ok := cond.(*ssa.BinOp)
	if !ok {
		return false
	}
	var lenOp ssa.Value
	for _, side := range []ssa.Value{b.X, b.Y} {
		if call, ok := side.(*ssa.Call); ok {
			if bi, ok := call.Call.Value.(*ssa.Builtin); ok && bi.Name() == "len" {
				lenOp = stripConv(call.Call.Args[0])
			}
		}
	}
	if lenOp == nil {
		return false
	}
	ev := stripConv(elemV)
	if lenOp == ev {
		return true
	}
	la, ok1 := lenOp.(*ssa.UnOp)
	lb, ok2 := ev.(*ssa.UnOp)
	if !ok1 || !ok2 {
		return false
	}
	ia, ok1 := la.X.(*ssa.IndexAddr)
	ib, ok2 := lb.X.(*ssa.IndexAddr)
	if !ok1 || !ok2 || ia.X != ib.X {
		return false
	}
	ka, ok1 := constInt(ia.Index)
	kb, ok2 := constInt(ib.Index)
	return ok1 && ok2 && ka == kb
}

func isTextType(t types.Type) bool {
	if b, ok := t.Underlying().(*types.Basic); ok {
		return b.Kind() == types.String
	}
	if sl, ok := t.Underlying().(*types.Slice); ok {
		if b, ok := sl.Elem().Underlying().(*types.Basic); ok {
			return b.Kind() == types.Byte || b.Kind() == types.Uint8
		}
	}
	return false
}

// reachesReturn: v is returned by its function (through phis and conversions).
func reachesReturn(v ssa.Value, depth int) bool {
	if depth > 5 {
		return false
	}
	for _, r := range referrers(v) {
		switch x := r.(type) {
		case *ssa.Return:
			return true
		case *ssa.Phi, *ssa.Convert, *ssa.ChangeType:
			if reachesReturn(x.(ssa.Value), depth+1) {
				return true
			}
		}
	}
	return false
}

// onlyFeedsMessages: the built string ends up only in log events or error
// texts (it is a message, not a rebuilt line).
func onlyFeedsMessages(v ssa.Value, depth int) bool {
	if depth > 6 {
		return false
	}
	refs := referrers(v)
	n := 0
	for _, r := range refs {
		switch x := r.(type) {
		case *ssa.DebugRef:
			continue
		case *ssa.Phi:
			n++
			if !onlyFeedsMessages(x, depth+1) {
				return false
			}
		case *ssa.MakeInterface:
			n++
			if !onlyFeedsMessages(x, depth+1) {
				return false
			}
		case *ssa.Call:
			n++
			f := staticCallee(&x.Call)
			if f == nil {
				return false
			}
			if objPkgPath(f) == zerologPkg || isFn(f, "fmt", "Errorf") || isFn(f, "errors", "New") || isFn(f, "fmt", "Println") || isFn(f, "fmt", "Printf") || isFn(f, "fmt", "Print") {
				continue
			}
			return false
		case *ssa.Store:
			// variadic array of a message call
			ia, ok := x.Addr.(*ssa.IndexAddr)
			if !ok {
				return false
			}
			al, ok := ia.X.(*ssa.Alloc)
			if !ok {
				return false
			}
			n++
			for _, r2 := range referrers(al) {
				if sl, ok := r2.(*ssa.Slice); ok {
					if !onlyFeedsMessages(sl, depth+1) {
						return false
					}
				}
			}
		default:
			return false
		}
	}
	return n > 0
}

// hasLazyAny: a non-greedy repetition of "any character" inside re.
func hasLazyAny(re *syntax.Regexp) bool {
	switch re.Op {
	case syntax.OpStar, syntax.OpPlus, syntax.OpQuest, syntax.OpRepeat:
		if re.Flags&syntax.NonGreedy != 0 && (re.Sub[0].Op == syntax.OpAnyChar || re.Sub[0].Op == syntax.OpAnyCharNotNL) {
			return true
		}
	}
	for _, s := range re.Sub {
		if hasLazyAny(s) {
			return true
		}
	}
	return false
}

// isConcatHelper: a function of the repository that returns the concatenation
// of its parameters in parameter order and nothing else: every call in it is
// len / cap / make / append / copy or a write to a builder, every parameter of
// text type is appended exactly in one place, the places follow the parameter
// order, and a variadic parameter is appended element by element in a range
// loop. Such a helper is read like fmt.Sprint without separators.
func isConcatHelper(fn *ssa.Function) bool {
	if fn == nil || len(fn.Blocks) == 0 || fn.Signature.Results().Len() != 1 || !isTextType(fn.Signature.Results().At(0).Type()) || !load.InModule(load.FnPkgPath(fn)) {
		return false
	}
	if _, ok := joinHelperSep(fn); ok {
		return true
	}
	if len(fn.Params) == 0 {
		return false
	}
	ok := true
	var emits []ssa.Instruction // one per parameter, in parameter order
	allInstrs(fn, func(in ssa.Instruction) {
		cc := callCommon(in)
		if cc == nil {
			return
		}
		if bi, isB := cc.Value.(*ssa.Builtin); isB {
			switch bi.Name() {
			case "len", "cap", "append", "copy":
				return
			}
		}
		if f := staticCallee(cc); f != nil && (recvNamed(f) == "Builder" || recvNamed(f) == "Buffer") {
			return
		}
		ok = false
	})
	if !ok {
		return false
	}
	for _, p := range fn.Params {
		var emit ssa.Instruction
		n := 0
		isAppendOf := func(v ssa.Value) {
			for _, r := range referrers(v) {
				call, isCall := r.(*ssa.Call)
				if !isCall {
					continue
				}
				if bi, isB := call.Call.Value.(*ssa.Builtin); isB && bi.Name() == "append" && len(call.Call.Args) == 2 && call.Call.Args[1] == v {
					emit = call
					n++
				}
				if f := staticCallee(&call.Call); f != nil && (f.Name() == "WriteString" || f.Name() == "Write") && len(call.Call.Args) == 2 && call.Call.Args[1] == v {
					emit = call
					n++
				}
			}
		}
		if isTextType(p.Type()) {
			isAppendOf(p)
			for _, r := range referrers(p) {
				if cv, isConv := r.(*ssa.Convert); isConv {
					isAppendOf(cv)
				}
			}
		} else if st, isSlice := p.Type().Underlying().(*types.Slice); isSlice && isTextType(st.Elem()) {
			// range over the variadic parameter: element loads
			for _, r := range referrers(p) {
				if ia, isIA := r.(*ssa.IndexAddr); isIA {
					for _, rr := range referrers(ia) {
						if ld, isLd := rr.(*ssa.UnOp); isLd && ld.Op == token.MUL {
							// count only appends of the element (len(part) is not an emission)
							before := n
							isAppendOf(ld)
							if n == before {
								continue
							}
						}
					}
				}
			}
		} else {
			return false
		}
		if n != 1 || emit == nil {
			return false
		}
		emits = append(emits, emit)
	}
	for i := 1; i < len(emits); i++ {
		if !instrDominates(emits[i-1], emits[i]) {
			return false
		}
	}
	return true
}

// isFreshBuffer: an empty slice of its own (make, nil, x[:0] of such), or an append chain that starts with one.
func isFreshBuffer(v ssa.Value, depth int) bool {
	if depth > 6 {
		return false
	}
	if isIndentBuffer(v, depth) {
		return true
	}
	switch x := v.(type) {
	case *ssa.MakeSlice:
		if k, ok := constInt(x.Len); ok && k == 0 {
			return true
		}
	case *ssa.Const:
		return x.Value == nil
	case *ssa.Slice:
		// buf[:0]: the scratch buffer emptied for the next line
		if x.Low == nil && x.High != nil {
			if k, ok := constInt(x.High); ok && k == 0 {
				return true
			}
		}
	case *ssa.Call:
		if bi, isB := x.Call.Value.(*ssa.Builtin); isB && bi.Name() == "append" && len(x.Call.Args) > 0 {
			return isFreshBuffer(x.Call.Args[0], depth+1)
		}
		if f := staticCallee(&x.Call); f != nil && objPkgPath(f) == "strconv" && strings.HasPrefix(f.Name(), "Append") && len(x.Call.Args) > 0 {
			return isFreshBuffer(x.Call.Args[0], depth+1)
		}
	}
	return false
}

// isIndentBuffer: a new byte slice that holds nothing but blanks (the indentation a formatted line starts with):
// bytes.Repeat of a blank, a make whose elements are only ever assigned ' ', or a helper of the repository that
// returns one of these.
func isIndentBuffer(v ssa.Value, depth int) bool {
	if depth > 6 {
		return false
	}
	switch x := v.(type) {
	case *ssa.MakeSlice:
		stores := 0
		for _, r := range referrers(x) {
			switch y := r.(type) {
			case *ssa.IndexAddr:
				for _, rr := range referrers(y) {
					st, ok := rr.(*ssa.Store)
					if !ok {
						continue
					}
					if k, ok := constInt(st.Val); !ok || k != ' ' {
						return false
					}
					stores++
				}
			}
		}
		return stores > 0
	case *ssa.Call:
		f := staticCallee(&x.Call)
		if isFn(f, "bytes", "Repeat") && len(x.Call.Args) == 2 {
			if s, ok := constString(stripConv(x.Call.Args[0])); ok && strings.Trim(s, " ") == "" {
				return true
			}
		}
		if sf := staticFn(&x.Call); sf != nil && len(sf.Blocks) > 0 && sf.Pkg != nil && x.Parent() != nil && sf.Pkg == x.Parent().Pkg {
			n, all := 0, true
			allInstrs(sf, func(in ssa.Instruction) {
				if r, ok := in.(*ssa.Return); ok && len(r.Results) == 1 {
					n++
					if !isIndentBuffer(r.Results[0], depth+1) {
						all = false
					}
				}
			})
			return n > 0 && all
		}
	}
	return false
}

// constBytesOf: the variadic argument of append(buf, ' ', '-') - an array of constant bytes - as a string constant.
func constBytesOf(v ssa.Value) (ssa.Value, bool) {
	sl, ok := v.(*ssa.Slice)
	if !ok {
		return nil, false
	}
	al, ok := sl.X.(*ssa.Alloc)
	if !ok {
		return nil, false
	}
	at, ok := derefType(al.Type()).Underlying().(*types.Array)
	if !ok {
		return nil, false
	}
	if b, ok := at.Elem().Underlying().(*types.Basic); !ok || b.Kind() != types.Uint8 {
		return nil, false
	}
	buf := make([]byte, at.Len())
	n := 0
	for _, r := range referrers(al) {
		ia, ok := r.(*ssa.IndexAddr)
		if !ok {
			continue
		}
		i, ok := constInt(ia.Index)
		if !ok || i < 0 || i >= at.Len() {
			return nil, false
		}
		for _, rr := range referrers(ia) {
			st, ok := rr.(*ssa.Store)
			if !ok {
				continue
			}
			k, ok := constInt(st.Val)
			if !ok {
				return nil, false
			}
			buf[i] = byte(k)
			n++
		}
	}
	if int64(n) != at.Len() {
		return nil, false
	}
	return ssa.NewConst(constant.MakeString(string(buf)), types.Typ[types.String]), true
}

// builderWrites: the data arguments of the Write* calls on the builder value recv, in program order
// (block index, then instruction index: the builders of the repository are filled in straight-line code).
func builderWrites(recv ssa.Value) []ssa.Value {
	type w struct {
		b, i int
		v    ssa.Value
	}
	var ws []w
	for _, r := range referrers(recv) {
		call, ok := r.(*ssa.Call)
		if !ok || len(call.Call.Args) != 2 || call.Call.Args[0] != recv {
			continue
		}
		f := staticCallee(&call.Call)
		if f == nil || !strings.HasPrefix(f.Name(), "Write") {
			continue
		}
		ws = append(ws, w{call.Block().Index, instrIndex(call), call.Call.Args[1]})
	}
	sort.Slice(ws, func(i, j int) bool {
		if ws[i].b != ws[j].b {
			return ws[i].b < ws[j].b
		}
		return ws[i].i < ws[j].i
	})
	var out []ssa.Value
	for _, x := range ws {
		out = append(out, x.v)
	}
	return out
}

// builderOutputs: the String() / Bytes() calls on the builder value recv.
func builderOutputs(recv ssa.Value) []ssa.Value {
	var out []ssa.Value
	for _, r := range referrers(recv) {
		call, ok := r.(*ssa.Call)
		if !ok || len(call.Call.Args) != 1 || call.Call.Args[0] != recv {
			continue
		}
		if f := staticCallee(&call.Call); f != nil && (f.Name() == "String" || f.Name() == "Bytes") {
			out = append(out, call)
		}
	}
	return out
}

// isElemOrParam: v is a captured group (possibly converted) or a parameter through which one arrived:
// only those are pieces of a line that is being put together in a builder; a finished line written to
// the output buffer of the whole file is not.
func isElemOrParam(elem map[ssa.Value]int, builderParam map[ssa.Value]bool, v ssa.Value) bool {
	if _, ok := elem[v]; ok {
		return true
	}
	if _, ok := elem[stripConv(v)]; ok {
		return true
	}
	return builderParam[v] || builderParam[stripConv(v)]
}

// joinHelperSep: fn returns its text parameter followed by the elements of its
// variadic parameter; when a constant is appended between the elements (only
// under "index > 0" inside the range loop) that constant is returned as the
// separator (nil separator: plain concatenation is isConcatHelper's business).
func joinHelperSep(fn *ssa.Function) (sep ssa.Value, ok bool) {
	if fn == nil || len(fn.Blocks) == 0 || fn.Signature.Results().Len() != 1 || !isTextType(fn.Signature.Results().At(0).Type()) || !load.InModule(load.FnPkgPath(fn)) {
		return nil, false
	}
	if !fn.Signature.Variadic() || len(fn.Params) < 1 {
		return nil, false
	}
	vp := fn.Params[len(fn.Params)-1]
	st, isSlice := vp.Type().Underlying().(*types.Slice)
	if !isSlice || !isTextType(st.Elem()) {
		return nil, false
	}
	okCalls := true
	var constAppends []*ssa.Call
	elemAppends, paramAppends := 0, 0
	allInstrs(fn, func(in ssa.Instruction) {
		cc := callCommon(in)
		if cc == nil {
			return
		}
		bi, isB := cc.Value.(*ssa.Builtin)
		if !isB {
			okCalls = false
			return
		}
		switch bi.Name() {
		case "len", "cap", "copy":
			return
		case "append":
		default:
			okCalls = false
			return
		}
		if len(cc.Args) != 2 {
			okCalls = false
			return
		}
		src := stripConv(cc.Args[1])
		// constant: a literal string / byte(s)
		if _, isC := constString(src); isC {
			constAppends = append(constAppends, in.(*ssa.Call))
			return
		}
		if sl, ok := src.(*ssa.Slice); ok {
			els := variadicElems(sl)
			allConst := len(els) > 0
			for _, e := range els {
				if _, isC := e.(*ssa.Const); !isC {
					allConst = false
				}
			}
			if allConst {
				constAppends = append(constAppends, in.(*ssa.Call))
				return
			}
		}
		if p, isP := src.(*ssa.Parameter); isP && isTextType(p.Type()) {
			paramAppends++
			return
		}
		if ld, isLd := src.(*ssa.UnOp); isLd && ld.Op == token.MUL {
			if ia, isIA := ld.X.(*ssa.IndexAddr); isIA && ia.X == ssa.Value(vp) {
				elemAppends++
				return
			}
		}
		okCalls = false
	})
	if !okCalls || elemAppends != 1 || paramAppends > len(fn.Params)-1 {
		return nil, false
	}
	if len(constAppends) == 0 {
		return nil, false
	}
	if len(constAppends) != 1 {
		return nil, false
	}
	ca := constAppends[0]
	// guarded by "index > 0" / "index != 0"
	guarded := false
	for d := ca.Block(); d != nil; d = d.Idom() {
		dd := d.Idom()
		if dd == nil {
			break
		}
		iff, isIf := dd.Instrs[len(dd.Instrs)-1].(*ssa.If)
		if !isIf || dd.Succs[0] != d || len(d.Preds) != 1 {
			continue
		}
		if cmp, isCmp := iff.Cond.(*ssa.BinOp); isCmp && (cmp.Op == token.GTR || cmp.Op == token.NEQ) {
			if k, isK := constInt(cmp.Y); isK && k == 0 {
				guarded = true
			}
		}
		break
	}
	if !guarded {
		return nil, false
	}
	src := stripConv(ca.Call.Args[1])
	if _, isC := constString(src); isC {
		return src, true
	}
	if sl, ok := src.(*ssa.Slice); ok {
		els := variadicElems(sl)
		if len(els) == 1 {
			return els[0], true
		}
	}
	return nil, false
}

// globalConstText: v reads a package-level variable of the repository that is
// assigned once, by its initialiser, from a constant text ([]byte("--")).
func (c *Ctx) globalConstText(v ssa.Value) (string, bool) {
	ld, ok := stripConv(v).(*ssa.UnOp)
	if !ok || ld.Op != token.MUL {
		return "", false
	}
	g, ok := ld.X.(*ssa.Global)
	if !ok || g.Pkg == nil || !load.InModule(g.Pkg.Pkg.Path()) {
		return "", false
	}
	text, n, clean := "", 0, true
	for _, fn := range c.P.RepoFns {
		allInstrs(fn, func(in ssa.Instruction) {
			st, ok := in.(*ssa.Store)
			if !ok || st.Addr != ssa.Value(g) {
				return
			}
			n++
			if fn.Name() != "init" {
				clean = false
				return
			}
			if sv, ok := constString(stripConv(st.Val)); ok {
				text = sv
			} else {
				clean = false
			}
		})
	}
	return text, clean && n == 1
}
