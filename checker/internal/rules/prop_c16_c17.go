package rules

func init() {
	Properties["C17"] = &Property{
		ID:            "C17",
		Level:         "proof",
		Technique:     "static analysis: all-paths SSA rule over every bufio.Scanner (SCAN-ERR) plus error-propagation obligations up the repository call graph",
		Explanation:   "Every *bufio.Scanner value of the module is enumerated from the SSA form. For each, every control-flow path from a false result of Scan() to a function exit must call Err() on the same scanner (or the scanner must have an effectively unlimited buffer), and the Err() result must be returned or lead to a loud exit; the obligations ERR-DROP/ERR-HANDLE/ERR-EXIT then cover every call site on the call chains from the scanning functions up to the command entry points, so an overflow cannot be turned into a success on the way out.",
		DoesNotDecide: "Other ways of splitting lines (bytes.Split, strings.Split) have no length limit and are outside the rule. Memory exhaustion is not modelled.",
		Assumptions:   append([]string{"bufio.Scanner stops at a token longer than its buffer limit with Scan()==false and Err()==ErrTooLong (documented behaviour)"}, commonAssumptions...),
		TrustedBase:   commonTrusted,
		Run: func(c *Ctx, tier string) []*Result {
			scan := c.RuleScanErr()
			chain := c.errChainFor(scannerFns(c))
			return append([]*Result{scan, c.RuleLimitRead(), c.RuleRecvCopy(), c.RuleNoRecover(), c.RuleReadLine(), c.RuleBorrow(), c.RuleBufwFlush(), c.RuleScanSplit(), c.RuleDoubleWrap(), c.RuleReadEOF(), c.RuleCacheReader(), c.RuleAppendAlias(), c.RuleWalkSkip("update", "compare", "format", "renumber-tests", "update-copyright")}, chain...)
		},
	}
	Properties["C16"] = &Property{
		ID:            "C16",
		Level:         "other",
		Technique:     "static analysis: error-discipline rules over SSA (dropped errors, nil tests without a failing side, error logs followed by success, unterminated log events, exit status wiring)",
		Explanation:   "Every call site of the module whose callee returns an error is an obligation: the error must be used (ERR-DROP) and must either be returned or have a nil test whose non-nil side ends, on every path, in a loud exit, a non-nil error return or a recorded failure flag (ERR-HANDLE, ERR-FLAG). After every error-level log emission no path may return a nil error or fall off the end of a function without error result (ERR-LOG). Every zerolog event chain must be sent (ERR-EVENT) and cobra's error becomes exit status 1 (ERR-EXIT). VALIDATE covers faults that surface as values rather than errors.",
		DoesNotDecide: "Faults that surface as a wrong value rather than an error or a failed test; that nothing was printed before the failure is decided only structurally (the regex is printed by generate after the loud test of Run's error).",
		Assumptions:   commonAssumptions,
		TrustedBase:   commonTrusted,
		Run: func(c *Ctx, tier string) []*Result {
			drop, handle := c.RuleErrCached()
			return []*Result{drop, handle, c.RuleErrFlags(), c.RuleErrLog(), c.RuleErrEvent(), c.RuleErrExit(), c.RuleValidate(), c.RuleIsoFresh(), c.RuleFsWriteDiscipline(), c.RuleNarrow(), c.RuleSiblingRuleId(), c.RuleFlagsReject(), c.RuleProcStart(), c.RuleWalkErr(),
				c.RuleWalkSkip("update", "compare", "format", "renumber-tests", "update-copyright"), c.RuleWalkFilter("update", "compare", "format", "renumber-tests", "update-copyright"), c.RuleNoRecover(), c.RuleRecvCopy(), c.RuleCaptureRaw(), c.RuleIsoGlobal("update", "compare", "format", "renumber-tests", "update-copyright"), c.RuleErrWrap(), c.RuleValidateStore(), keyHas(c.RuleRxRebuild(), 0, "regex.FlagsRegex"), c.RuleRxGrammar(), c.RuleStdoutPure(), c.RuleSearchResume(), c.RuleCmdTypeEnum(), c.RuleGoShared(), c.RuleCtorDefaults(), c.RuleErrorfNil(), c.RuleSplitJoinFrame(), c.RuleCompareVerdict(), c.RuleLocComment(), c.RuleStdoutNone("update"), c.RuleWalkStop()}
		},
	}
}
