package rules

import (
	"fmt"
	"go/token"
	"go/types"
	"os"
	"sort"
	"strings"

	"golang.org/x/tools/go/ssa"

	"crsverif/internal/load"
)

const cobraPkg = "github.com/spf13/cobra"

// Edge of the repository call graph.
type Edge struct {
	Caller *ssa.Function
	Callee *ssa.Function
	Site   ssa.Instruction // the call or the instruction referencing the function value
	Kind   string          // static, callback, iface, dynamic, funcvalue, methodset
}

// Graph is the repository call graph of DESIGN.md section 3.1.
type Graph struct {
	Out   map[*ssa.Function][]Edge
	In    map[*ssa.Function][]Edge
	Edges int
	// function values stored into cobra.Command fields: not edges
	cmdFieldFns map[*ssa.Function]bool
}

// Command is one cobra.Command composite literal of package cmd.
type Command struct {
	Name    string // first word of Use
	Use     string
	Alloc   *ssa.Alloc
	In      *ssa.Function            // function holding the literal
	Entries map[string]*ssa.Function // field name -> function (Args, PreRunE, Run, RunE, ...)
	// ArgsInner: closures handed to cobra.MatchAll etc. that end in the Args field
	ArgsInner []*ssa.Function
}

// CommandModel lists the commands and the global roots.
type CommandModel struct {
	Commands []*Command
	ByName   map[string]*Command
	Roots    []*ssa.Function // roots shared by every command
}

func (c *Ctx) Commands() *CommandModel {
	if c.cmds != nil {
		return c.cmds
	}
	m := &CommandModel{ByName: map[string]*Command{}}
	for _, fn := range c.P.RepoFns {
		allInstrs(fn, func(in ssa.Instruction) {
			al, ok := in.(*ssa.Alloc)
			if !ok || !isNamed(derefType(al.Type()), cobraPkg, "Command") {
				return
			}
			cmd := &Command{Alloc: al, In: fn, Entries: map[string]*ssa.Function{}}
			st := derefType(al.Type()).Underlying().(*types.Struct)
			for _, r := range referrers(al) {
				fa, ok := r.(*ssa.FieldAddr)
				if !ok {
					continue
				}
				fname := st.Field(fa.Field).Name()
				for _, rr := range referrers(fa) {
					s, ok := rr.(*ssa.Store)
					if !ok || s.Addr != fa {
						continue
					}
					if fname == "Use" {
						if u, ok := constString(s.Val); ok {
							cmd.Use = u
							cmd.Name = strings.Fields(u + " ")[0]
						}
					}
					for _, f := range fnValuesIn(s.Val, 3) {
						if fname == "Args" && !isDirectFnValue(s.Val) {
							cmd.ArgsInner = append(cmd.ArgsInner, f)
							continue
						}
						cmd.Entries[fname] = f
					}
				}
			}
			if cmd.Name != "" {
				m.Commands = append(m.Commands, cmd)
			}
		})
	}
	sort.Slice(m.Commands, func(i, j int) bool { return m.Commands[i].Name < m.Commands[j].Name })
	for _, cmd := range m.Commands {
		m.ByName[cmd.Name] = cmd
	}
	// global roots
	for _, fn := range c.P.RepoFns {
		name := fn.Name()
		if fn.Parent() == nil && (name == "init" || strings.HasPrefix(name, "init#")) {
			m.Roots = append(m.Roots, fn)
			continue
		}
		if load.FnName(fn) == "main.main" || load.FnName(fn) == "cmd.Execute" {
			m.Roots = append(m.Roots, fn)
			continue
		}
		// methods of repository types implementing pflag.Value
		if fn.Signature.Recv() != nil && (name == "Set" || name == "String" || name == "Type") && c.implementsPflagValue(fn.Signature.Recv().Type()) {
			m.Roots = append(m.Roots, fn)
		}
	}
	c.cmds = m
	return m
}

func (c *Ctx) implementsPflagValue(t types.Type) bool {
	pk := c.P.All["github.com/spf13/pflag"]
	if pk == nil {
		return false
	}
	obj := pk.Types.Scope().Lookup("Value")
	if obj == nil {
		return false
	}
	iface, ok := obj.Type().Underlying().(*types.Interface)
	if !ok {
		return false
	}
	return types.Implements(t, iface) || types.Implements(types.NewPointer(t), iface)
}

func isDirectFnValue(v ssa.Value) bool {
	switch v.(type) {
	case *ssa.Function, *ssa.MakeClosure:
		return true
	}
	return false
}

// fnValuesIn collects the repository function values that make up v: v itself
// or, through calls (cobra.MatchAll(...)) and slices, its function arguments.
func fnValuesIn(v ssa.Value, depth int) []*ssa.Function {
	if depth == 0 {
		return nil
	}
	switch x := v.(type) {
	case *ssa.Function:
		return []*ssa.Function{x}
	case *ssa.MakeClosure:
		if f, ok := x.Fn.(*ssa.Function); ok {
			return []*ssa.Function{f}
		}
	case *ssa.ChangeType:
		return fnValuesIn(x.X, depth)
	case *ssa.Call:
		var out []*ssa.Function
		for _, a := range x.Call.Args {
			out = append(out, fnValuesIn(a, depth-1)...)
		}
		// a factory of the repository that returns the function value
		if sf := staticFn(&x.Call); sf != nil && len(sf.Blocks) > 0 && sf.Signature.Results().Len() == 1 {
			for _, b := range sf.Blocks {
				if r, ok := b.Instrs[len(b.Instrs)-1].(*ssa.Return); ok && len(r.Results) == 1 {
					out = append(out, fnValuesIn(r.Results[0], depth-1)...)
				}
			}
		}
		return out
	case *ssa.Slice:
		// variadic: slice of an alloc'd array whose elements are stored
		if al, ok := x.X.(*ssa.Alloc); ok {
			var out []*ssa.Function
			for _, r := range referrers(al) {
				if ia, ok := r.(*ssa.IndexAddr); ok {
					for _, rr := range referrers(ia) {
						if s, ok := rr.(*ssa.Store); ok {
							out = append(out, fnValuesIn(s.Val, depth-1)...)
						}
					}
				}
			}
			return out
		}
	}
	return nil
}

// repoIface: t is a named interface type declared in the module.
func repoIface(t types.Type) bool {
	n, ok := t.(*types.Named)
	if !ok || n.Obj() == nil || n.Obj().Pkg() == nil || !load.InModule(n.Obj().Pkg().Path()) {
		return false
	}
	_, isIface := n.Underlying().(*types.Interface)
	return isIface
}

// Graph builds (once) the repository call graph.
func (c *Ctx) Graph() *Graph {
	if c.graph != nil {
		return c.graph
	}
	g := &Graph{Out: map[*ssa.Function][]Edge{}, In: map[*ssa.Function][]Edge{}, cmdFieldFns: map[*ssa.Function]bool{}}
	cm := c.Commands()
	for _, cmd := range cm.Commands {
		for _, f := range cmd.Entries {
			g.cmdFieldFns[f] = true
		}
	}
	repoSet := map[*ssa.Function]bool{}
	for _, fn := range c.P.RepoFns {
		repoSet[fn] = true
	}
	add := func(from, to *ssa.Function, site ssa.Instruction, kind string) {
		if to == nil || !repoSet[to] {
			return
		}
		for _, e := range g.Out[from] {
			if e.Callee == to && e.Site == site {
				return
			}
		}
		e := Edge{Caller: from, Callee: to, Site: site, Kind: kind}
		g.Out[from] = append(g.Out[from], e)
		g.In[to] = append(g.In[to], e)
		g.Edges++
	}
	// address-taken functions by signature for unresolved dynamic calls
	addrTaken := map[*ssa.Function]bool{}
	for _, fn := range c.P.RepoFns {
		allInstrs(fn, func(in ssa.Instruction) {
			ops := in.Operands(nil)
			cc := callCommon(in)
			for _, op := range ops {
				if op == nil || *op == nil {
					continue
				}
				if cc != nil && !cc.IsInvoke() && *op == cc.Value {
					continue // callee position
				}
				switch v := (*op).(type) {
				case *ssa.Function:
					addrTaken[v] = true
				case *ssa.MakeClosure:
					if f, ok := v.Fn.(*ssa.Function); ok {
						addrTaken[f] = true
					}
				}
			}
			if mc, ok := in.(*ssa.MakeClosure); ok {
				if f, ok := mc.Fn.(*ssa.Function); ok {
					addrTaken[f] = true
				}
			}
		})
	}
	methodsOf := func(t types.Type, from *ssa.Function, site ssa.Instruction) {
		for _, tt := range []types.Type{t, types.NewPointer(t)} {
			ms := c.P.SSA.MethodSets.MethodSet(tt)
			for i := 0; i < ms.Len(); i++ {
				if mf := c.P.SSA.MethodValue(ms.At(i)); mf != nil {
					add(from, mf, site, "methodset")
				}
			}
		}
	}
	for _, fn := range c.P.RepoFns {
		allInstrs(fn, func(in ssa.Instruction) {
			// closures created here: edge unless stored into a cobra.Command field
			if mc, ok := in.(*ssa.MakeClosure); ok {
				if f, ok := mc.Fn.(*ssa.Function); ok && !g.cmdFieldFns[f] {
					add(fn, f, in, "funcvalue")
				}
			}
			cc := callCommon(in)
			// function values used as operands (not callee position)
			for _, op := range in.Operands(nil) {
				if op == nil || *op == nil {
					continue
				}
				if cc != nil && !cc.IsInvoke() && *op == cc.Value {
					continue
				}
				if f, ok := (*op).(*ssa.Function); ok && !g.cmdFieldFns[f] {
					add(fn, f, in, "funcvalue")
				}
				// repository type converted to an interface: its methods may be called
				if mi, ok := (*op).(*ssa.MakeInterface); ok && !repoIface(mi.Type()) {
					if pk, _ := namedOf(mi.X.Type()); load.InModule(pk) {
						methodsOf(mi.X.Type(), fn, in)
					}
				}
			}
			// A value converted to an interface that the repository declares is called
			// through that interface by the repository itself: those calls are resolved
			// at the invoke sites (class hierarchy, below). The conversion alone makes
			// nothing reachable - unless the interface value is later widened to an
			// interface of another package and handed out (ChangeInterface).
			if mi, ok := in.(*ssa.MakeInterface); ok && !repoIface(mi.Type()) {
				if pk, _ := namedOf(mi.X.Type()); load.InModule(pk) {
					methodsOf(mi.X.Type(), fn, in)
				}
			}
			if ci, ok := in.(*ssa.ChangeInterface); ok && repoIface(ci.X.Type()) && !repoIface(ci.Type()) {
				if src, _ := ci.X.Type().Underlying().(*types.Interface); src != nil {
					for _, pk := range c.P.Roots {
						sc := pk.Types.Scope()
						for _, nm := range sc.Names() {
							tn, ok := sc.Lookup(nm).(*types.TypeName)
							if !ok || tn.IsAlias() {
								continue
							}
							if _, isIface := tn.Type().Underlying().(*types.Interface); isIface {
								continue
							}
							if types.Implements(tn.Type(), src) || types.Implements(types.NewPointer(tn.Type()), src) {
								methodsOf(tn.Type(), fn, in)
							}
						}
					}
				}
			}
			if cc == nil {
				return
			}
			if cc.IsInvoke() {
				// class hierarchy over repository types
				iface, _ := cc.Value.Type().Underlying().(*types.Interface)
				if iface == nil {
					return
				}
				for _, pk := range c.P.Roots {
					sc := pk.Types.Scope()
					for _, nm := range sc.Names() {
						tn, ok := sc.Lookup(nm).(*types.TypeName)
						if !ok || tn.IsAlias() {
							continue
						}
						if _, isIface := tn.Type().Underlying().(*types.Interface); isIface {
							continue
						}
						for _, tt := range []types.Type{tn.Type(), types.NewPointer(tn.Type())} {
							if types.Implements(tt, iface) {
								sel := c.P.SSA.MethodSets.MethodSet(tt).Lookup(cc.Method.Pkg(), cc.Method.Name())
								if sel != nil {
									add(fn, c.P.SSA.MethodValue(sel), in, "iface")
								}
							}
						}
					}
				}
				return
			}
			if sf := staticFn(cc); sf != nil {
				add(fn, sf, in, "static")
				return
			}
			// dynamic call through a function value
			resolved := resolveFnValue(cc.Value, 4)
			if len(resolved) > 0 {
				for _, f := range resolved {
					add(fn, f, in, "dynamic")
				}
				return
			}
			// A call through a parameter (or through a parameter captured by a closure) invokes what a
			// caller handed in. Every function value that can arrive there is mentioned as an operand
			// somewhere, and that mention is an edge from the mentioning function (above): the callback
			// is reachable exactly when a function that mentions it is. The edges from the call site to
			// every function of the signature are kept for the rules that follow arguments into
			// callbacks, but reachability does not cross them - a walk helper shared by update and
			// compare would otherwise make each command reach the other's callback.
			kind := "dynamic"
			if calledThroughParameter(cc.Value) {
				kind = "dynamic-param"
			}
			for f := range addrTaken {
				if types.Identical(f.Signature, cc.Signature()) || sameParamsResults(f.Signature, cc.Signature()) {
					add(fn, f, in, kind)
				}
			}
		})
	}
	if dbg := os.Getenv("CRSVERIF_EDGES"); dbg != "" {
		for to, es := range g.In {
			if strings.Contains(load.FnName(to), dbg) {
				for _, e := range es {
					fmt.Printf("EDGE %s -> %s [%s] %s\n", load.FnName(e.Caller), load.FnName(to), e.Kind, c.P.InstrPos(e.Site))
				}
			}
		}
	}
	c.graph = g
	return g
}

func sameParamsResults(a, b *types.Signature) bool {
	return types.Identical(a.Params(), b.Params()) && types.Identical(a.Results(), b.Results()) && a.Variadic() == b.Variadic()
}

// resolveFnValue follows phis to closure/function constants.
func resolveFnValue(v ssa.Value, depth int) []*ssa.Function {
	if depth == 0 {
		return nil
	}
	switch x := v.(type) {
	case *ssa.Function:
		return []*ssa.Function{x}
	case *ssa.MakeClosure:
		if f, ok := x.Fn.(*ssa.Function); ok {
			return []*ssa.Function{f}
		}
	case *ssa.Phi:
		var out []*ssa.Function
		for _, e := range x.Edges {
			r := resolveFnValue(e, depth-1)
			if r == nil {
				return nil
			}
			out = append(out, r...)
		}
		return out
	case *ssa.ChangeType:
		return resolveFnValue(x.X, depth)
	}
	return nil
}

// calledThroughParameter: the function value called is a parameter, a captured variable, or the
// memory cell a parameter was moved to because a closure captures it.
func calledThroughParameter(v ssa.Value) bool {
	switch x := v.(type) {
	case *ssa.Parameter, *ssa.FreeVar:
		return true
	case *ssa.UnOp:
		if x.Op != token.MUL {
			return false
		}
		switch c := x.X.(type) {
		case *ssa.FreeVar:
			return true
		case *ssa.Alloc:
			n := 0
			for _, r := range referrers(c) {
				if st, ok := r.(*ssa.Store); ok && st.Addr == ssa.Value(c) {
					if _, isPar := st.Val.(*ssa.Parameter); !isPar {
						return false
					}
					n++
				}
			}
			return n > 0
		}
	}
	return false
}

// Reach returns the functions reachable from roots, with one witness
// predecessor edge each (for printing a path).
func (g *Graph) Reach(roots []*ssa.Function) map[*ssa.Function]*Edge {
	seen := map[*ssa.Function]*Edge{}
	var queue []*ssa.Function
	for _, r := range roots {
		if r == nil {
			continue
		}
		if _, ok := seen[r]; !ok {
			seen[r] = nil
			queue = append(queue, r)
		}
	}
	for len(queue) > 0 {
		f := queue[0]
		queue = queue[1:]
		for i := range g.Out[f] {
			e := g.Out[f][i]
			if e.Kind == "dynamic-param" {
				continue
			}
			if _, ok := seen[e.Callee]; !ok {
				ee := e
				seen[e.Callee] = &ee
				queue = append(queue, e.Callee)
			}
		}
	}
	return seen
}

// PathTo renders the witness chain root -> ... -> fn.
func PathTo(reach map[*ssa.Function]*Edge, fn *ssa.Function) string {
	var parts []string
	for f := fn; f != nil; {
		parts = append([]string{load.FnName(f)}, parts...)
		e := reach[f]
		if e == nil {
			break
		}
		f = e.Caller
		if len(parts) > 40 {
			break
		}
	}
	return strings.Join(parts, " -> ")
}

// CommandRoots returns the roots of one command: its entry points plus the
// global roots.
func (c *Ctx) CommandRoots(cmd *Command) []*ssa.Function {
	var roots []*ssa.Function
	for _, k := range sortedKeys(cmd.Entries) {
		roots = append(roots, cmd.Entries[k])
	}
	roots = append(roots, cmd.ArgsInner...)
	roots = append(roots, c.Commands().Roots...)
	return roots
}

// EntryRoots returns only the entry points of a command (no global roots).
func (c *Ctx) EntryRoots(cmd *Command) []*ssa.Function {
	var roots []*ssa.Function
	for _, k := range sortedKeys(cmd.Entries) {
		roots = append(roots, cmd.Entries[k])
	}
	roots = append(roots, cmd.ArgsInner...)
	return roots
}
