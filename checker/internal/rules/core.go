// Package rules holds the repository-specific static rules. Every rule
// enumerates constructs of the type-checked/SSA program and yields obligations.
package rules

import (
	"fmt"
	"sort"
	"strings"

	"golang.org/x/tools/go/ssa"

	"crsverif/internal/load"
)

// Verdict of one obligation.
type Verdict string

const (
	Discharged Verdict = "discharged"
	Violated   Verdict = "violated"
	Exempt     Verdict = "exempt"
	Undecided  Verdict = "undecided"
	Known      Verdict = "known-finding"
)

// Obligation is one instance of a rule on one construct of the program.
type Obligation struct {
	Rule    string  `json:"rule"`
	Key     string  `json:"key"` // RULE:pkg.Func:construct — never a line number
	Pos     string  `json:"pos"`
	Verdict Verdict `json:"verdict"`
	Detail  string  `json:"detail,omitempty"`
	Reason  string  `json:"reason,omitempty"` // exemption reason or known-finding text
}

// Result of one rule run.
type Result struct {
	Rule      string
	Instances int // constructs matched (for the non-vacuity floor)
	MinInst   int // floor confirmed by hand on the pinned tree
	Obls      []Obligation
	Notes     []string
}

// Ctx is shared by all rules of a run.
type Ctx struct {
	P *load.Program
	// lazily built shared analyses
	graph   *Graph
	loud    *LoudModel
	cmds    *CommandModel
	rxTable *RxTable
	factCache map[*ssa.Function]map[*ssa.BasicBlock]condFacts
	smCache   []*submatchSite
	defFrag   map[*ssa.Function]string
	depWr     map[*ssa.Function]string
	depCalls  int
	depNotes  []string
	wsites    []*writeSite
	flagStrong map[*ssa.Alloc]bool
	flagKnown  map[*ssa.Alloc]bool

	Exemptions map[string]string // obligation key -> reason (from exemptions.json)

	errDrop, errHandle *Result
	errVerdicts        map[ssa.Instruction]Obligation
	errDropKey         map[ssa.Instruction]string
	errHandleKey       map[ssa.Instruction]string
}

func NewCtx(p *load.Program) *Ctx { return &Ctx{P: p} }

func (r *Result) add(o Obligation) {
	o.Rule = r.Rule
	r.Obls = append(r.Obls, o)
}

func (r *Result) ok(key, pos, detail string) {
	r.add(Obligation{Key: r.Rule + ":" + key, Pos: pos, Verdict: Discharged, Detail: detail})
}

func (r *Result) bad(key, pos, detail string) {
	r.add(Obligation{Key: r.Rule + ":" + key, Pos: pos, Verdict: Violated, Detail: detail})
}

func (r *Result) undecided(key, pos, detail string) {
	r.add(Obligation{Key: r.Rule + ":" + key, Pos: pos, Verdict: Undecided, Detail: detail})
}

func (r *Result) note(format string, args ...any) {
	r.Notes = append(r.Notes, fmt.Sprintf(format, args...))
}

// Dedup makes obligation keys unique by appending #n to repeated keys in
// source order (so two calls of the same callee in one function stay apart
// without keying on line numbers).
func (r *Result) Dedup() {
	seen := map[string]int{}
	for i := range r.Obls {
		k := r.Obls[i].Key
		seen[k]++
		if seen[k] > 1 {
			r.Obls[i].Key = fmt.Sprintf("%s#%d", k, seen[k])
		}
	}
}

// Filter keeps the obligations whose key passes keep.
func (r *Result) Filter(keep func(o Obligation) bool) *Result {
	out := &Result{Rule: r.Rule, MinInst: 0, Notes: r.Notes}
	for _, o := range r.Obls {
		if keep(o) {
			out.Obls = append(out.Obls, o)
		}
	}
	out.Instances = len(out.Obls)
	return out
}

// KeyFn extracts the function part of an obligation key RULE:fn:construct.
func KeyFn(key string) string {
	parts := strings.SplitN(key, ":", 3)
	if len(parts) < 2 {
		return ""
	}
	return parts[1]
}

func sortedKeys[M ~map[string]V, V any](m M) []string {
	ks := make([]string, 0, len(m))
	for k := range m {
		ks = append(ks, k)
	}
	sort.Strings(ks)
	return ks
}
