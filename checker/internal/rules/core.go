// Package rules holds the repository-specific static rules. Every rule
// enumerates constructs of the type-checked/SSA program and yields obligations.
package rules

import (
	"fmt"
	"go/types"
	"sort"
	"strings"

	"golang.org/x/tools/go/ssa"

	"crsverif/internal/load"
)

// Verdict of one obligation.
type Verdict string

const (
	Discharged Verdict = "discharged"
	Violated   Verdict = "violated"
	Exempt     Verdict = "exempt"
	Undecided  Verdict = "undecided"
	Known      Verdict = "known-finding"
)

// Obligation is one instance of a rule on one construct of the program.
type Obligation struct {
	Rule    string  `json:"rule"`
	Key     string  `json:"key"` // RULE:pkg.Func:construct — never a line number
	Pos     string  `json:"pos"`
	Verdict Verdict `json:"verdict"`
	Detail  string  `json:"detail,omitempty"`
	Reason  string  `json:"reason,omitempty"` // exemption reason or known-finding text
}

// Result of one rule run.
type Result struct {
	Rule      string
	Instances int // constructs matched (for the non-vacuity floor)
	MinInst   int // floor confirmed by hand on the pinned tree
	Obls      []Obligation
	Notes     []string
}

// Ctx is shared by all rules of a run.
type Ctx struct {
	P *load.Program
	// lazily built shared analyses
	graph       *Graph
	loud        *LoudModel
	cmds        *CommandModel
	rxTable     *RxTable
	factCache   map[*ssa.Function]map[*ssa.BasicBlock]condFacts
	smCache     []*submatchSite
	defFrag     map[*ssa.Function]string
	depWr       map[*ssa.Function]string
	depCalls    int
	depNotes    []string
	wsites      []*writeSite
	flagStrong  map[*ssa.Alloc]bool
	flagKnown   map[*ssa.Alloc]bool
	fieldStrong map[*types.Var]bool
	fieldKnown  map[*types.Var]bool

	Exemptions map[string]string // obligation key -> reason (from exemptions.json)
	Scoped     []ScopedExemption // exemptions that name a construct within a scope instead of one function
	exclCache  map[string]map[string]bool

	errDrop, errHandle *Result
	errVerdicts        map[ssa.Instruction]Obligation
	errDropKey         map[ssa.Instruction]string
	errHandleKey       map[ssa.Instruction]string

	live      map[*ssa.Function]bool // functions some command can reach
	borrowFns map[*ssa.Function]int // repository functions that return a slice of a reader passed in (parameter index)
}

func NewCtx(p *load.Program) *Ctx {
	c := &Ctx{P: p}
	c.initSentinels()
	return c
}

// initSentinels records the sentinel error variables of the repository.
func (c *Ctx) initSentinels() {
	for k := range nonNilErrGlobals {
		delete(nonNilErrGlobals, k)
	}
	stores := map[*ssa.Global][]*ssa.Store{}
	for _, fn := range c.P.RepoFns {
		allInstrs(fn, func(in ssa.Instruction) {
			if st, ok := in.(*ssa.Store); ok {
				if g, ok := st.Addr.(*ssa.Global); ok && isErrorType(derefType(g.Type())) {
					stores[g] = append(stores[g], st)
				}
			}
		})
	}
	for g, sts := range stores {
		if len(sts) != 1 {
			continue
		}
		st := sts[0]
		fn := st.Block().Parent()
		if !(fn.Parent() == nil && (fn.Name() == "init" || strings.HasPrefix(fn.Name(), "init#"))) {
			continue
		}
		switch v := st.Val.(type) {
		case *ssa.MakeInterface:
			nonNilErrGlobals[g] = true
		case *ssa.Call:
			f := staticCallee(&v.Call)
			if isFn(f, "errors", "New") || isFn(f, "fmt", "Errorf") {
				nonNilErrGlobals[g] = true
			}
		}
	}
}

func (r *Result) add(o Obligation) {
	o.Rule = r.Rule
	r.Obls = append(r.Obls, o)
}

func (r *Result) ok(key, pos, detail string) {
	r.add(Obligation{Key: r.Rule + ":" + key, Pos: pos, Verdict: Discharged, Detail: detail})
}

func (r *Result) bad(key, pos, detail string) {
	r.add(Obligation{Key: r.Rule + ":" + key, Pos: pos, Verdict: Violated, Detail: detail})
}

func (r *Result) undecided(key, pos, detail string) {
	r.add(Obligation{Key: r.Rule + ":" + key, Pos: pos, Verdict: Undecided, Detail: detail})
}

func (r *Result) note(format string, args ...any) {
	r.Notes = append(r.Notes, fmt.Sprintf(format, args...))
}

// Dedup makes obligation keys unique by appending #n to repeated keys in
// source order (so two calls of the same callee in one function stay apart
// without keying on line numbers).
func (r *Result) Dedup() {
	seen := map[string]int{}
	for i := range r.Obls {
		k := r.Obls[i].Key
		seen[k]++
		if seen[k] > 1 {
			r.Obls[i].Key = fmt.Sprintf("%s#%d", k, seen[k])
		}
	}
}

// Filter keeps the obligations whose key passes keep.
func (r *Result) Filter(keep func(o Obligation) bool) *Result {
	out := &Result{Rule: r.Rule, MinInst: 0, Notes: r.Notes}
	for _, o := range r.Obls {
		if keep(o) {
			out.Obls = append(out.Obls, o)
		}
	}
	out.Instances = len(out.Obls)
	return out
}

// KeyFn extracts the function part of an obligation key RULE:fn:construct.
func KeyFn(key string) string {
	parts := strings.SplitN(key, ":", 3)
	if len(parts) < 2 {
		return ""
	}
	return parts[1]
}

func sortedKeys[M ~map[string]V, V any](m M) []string {
	ks := make([]string, 0, len(m))
	for k := range m {
		ks = append(ks, k)
	}
	sort.Strings(ks)
	return ks
}

// ScopedExemption exempts obligations of Rule whose construct (the part of the
// key after the function) is Construct, for functions within Scope:
// "package:<short path>" or "command:<name>" (functions reachable from that
// command's entry points and from no other command's). Renaming or splitting a
// function inside the scope does not invalidate it.
type ScopedExemption struct {
	Rule      string `json:"rule"`
	Construct string `json:"construct"`
	Scope     string `json:"scope"`
	Reason    string `json:"reason"`
}

// ExemptReason returns the reason if the obligation key is exempt.
func (c *Ctx) ExemptReason(rule, key string) (string, bool) {
	if r, ok := c.Exemptions[key]; ok {
		return r, true
	}
	parts := strings.SplitN(key, ":", 3)
	if len(parts) < 3 {
		return "", false
	}
	fn, construct := parts[1], parts[2]
	if i := strings.LastIndex(construct, "#"); i > 0 {
		construct = construct[:i]
	}
	for _, e := range c.Scoped {
		if e.Rule != rule || e.Construct != construct {
			continue
		}
		switch {
		case strings.HasPrefix(e.Scope, "package:"):
			pk := strings.TrimPrefix(e.Scope, "package:")
			f := strings.TrimPrefix(strings.TrimPrefix(fn, "(*"), "(")
			if strings.HasPrefix(f, pk+".") {
				return e.Reason, true
			}
		case strings.HasPrefix(e.Scope, "command:"):
			if c.exclusiveTo(strings.TrimPrefix(e.Scope, "command:"))[fn] {
				return e.Reason, true
			}
		}
	}
	return "", false
}

// exclusiveTo: names of the functions reachable from the entries of command
// name and from the entries of no other command.
func (c *Ctx) exclusiveTo(name string) map[string]bool {
	if c.exclCache == nil {
		c.exclCache = map[string]map[string]bool{}
	}
	if m, ok := c.exclCache[name]; ok {
		return m
	}
	mine := c.cmdFns(name)
	for _, cmd := range c.Commands().Commands {
		if cmd.Name == name || len(cmd.Entries) == 0 {
			continue
		}
		for f := range c.cmdFns(cmd.Name) {
			delete(mine, f)
		}
	}
	c.exclCache[name] = mine
	return mine
}
