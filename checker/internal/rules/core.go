// Package rules holds the repository-specific static rules. Every rule
// enumerates constructs of the type-checked/SSA program and yields obligations.
package rules

import (
	"fmt"
	"go/token"
	"go/types"
	"sort"
	"strings"

	"golang.org/x/tools/go/ssa"

	"crsverif/internal/load"
)

// Verdict of one obligation.
type Verdict string

const (
	Discharged Verdict = "discharged"
	Violated   Verdict = "violated"
	Exempt     Verdict = "exempt"
	Undecided  Verdict = "undecided"
	Known      Verdict = "known-finding"
)

// Obligation is one instance of a rule on one construct of the program.
type Obligation struct {
	Rule    string  `json:"rule"`
	Key     string  `json:"key"` // RULE:pkg.Func:construct — never a line number
	Pos     string  `json:"pos"`
	Verdict Verdict `json:"verdict"`
	Detail  string  `json:"detail,omitempty"`
	Reason  string  `json:"reason,omitempty"` // exemption reason or known-finding text
}

// Result of one rule run.
type Result struct {
	Rule      string
	Instances int // constructs matched (for the non-vacuity floor)
	MinInst   int // floor confirmed by hand on the pinned tree
	Obls      []Obligation
	Notes     []string
}

// Ctx is shared by all rules of a run.
type Ctx struct {
	P *load.Program
	// lazily built shared analyses
	graph       *Graph
	loud        *LoudModel
	cmds        *CommandModel
	rxTable     *RxTable
	factCache   map[*ssa.Function]map[*ssa.BasicBlock]condFacts
	smCache     []*submatchSite
	defFrag     map[*ssa.Function]string
	depWr       map[*ssa.Function]string
	depCalls    int
	depNotes    []string
	wsites      []*writeSite
	flagStrong  map[*ssa.Alloc]bool
	flagKnown   map[*ssa.Alloc]bool
	fieldStrong map[*types.Var]bool
	fieldKnown  map[*types.Var]bool

	Exemptions map[string]string // obligation key -> reason (from exemptions.json)
	Scoped     []ScopedExemption // exemptions that name a construct within a scope instead of one function
	aliasCache map[string]map[string]bool
	aliasFns   map[*ssa.Function]map[int]bool
	exclCache  map[string]map[string]bool

	errDrop, errHandle *Result
	errVerdicts        map[ssa.Instruction]Obligation
	errDropKey         map[ssa.Instruction]string
	errHandleKey       map[ssa.Instruction]string

	live      map[*ssa.Function]bool // functions some command can reach
	borrowFns map[*ssa.Function]int  // repository functions that return a slice of a reader passed in (parameter index)
}

func NewCtx(p *load.Program) *Ctx {
	c := &Ctx{P: p}
	c.initSentinels()
	c.initFuncVars()
	stdStreamHook = c.stdStreamThrough
	return c
}

// initSentinels records the sentinel error variables of the repository.
func (c *Ctx) initSentinels() {
	for k := range nonNilErrGlobals {
		delete(nonNilErrGlobals, k)
	}
	stores := map[*ssa.Global][]*ssa.Store{}
	for _, fn := range c.P.RepoFns {
		allInstrs(fn, func(in ssa.Instruction) {
			if st, ok := in.(*ssa.Store); ok {
				if g, ok := st.Addr.(*ssa.Global); ok && isErrorType(derefType(g.Type())) {
					stores[g] = append(stores[g], st)
				}
			}
		})
	}
	for g, sts := range stores {
		if len(sts) != 1 {
			continue
		}
		st := sts[0]
		fn := st.Block().Parent()
		if !(fn.Parent() == nil && (fn.Name() == "init" || strings.HasPrefix(fn.Name(), "init#"))) {
			continue
		}
		switch v := st.Val.(type) {
		case *ssa.MakeInterface:
			nonNilErrGlobals[g] = true
		case *ssa.Call:
			f := staticCallee(&v.Call)
			if isFn(f, "errors", "New") || isFn(f, "fmt", "Errorf") {
				nonNilErrGlobals[g] = true
			}
		}
	}
}

func (r *Result) add(o Obligation) {
	o.Rule = r.Rule
	r.Obls = append(r.Obls, o)
}

func (r *Result) ok(key, pos, detail string) {
	r.add(Obligation{Key: r.Rule + ":" + key, Pos: pos, Verdict: Discharged, Detail: detail})
}

func (r *Result) bad(key, pos, detail string) {
	r.add(Obligation{Key: r.Rule + ":" + key, Pos: pos, Verdict: Violated, Detail: detail})
}

func (r *Result) undecided(key, pos, detail string) {
	r.add(Obligation{Key: r.Rule + ":" + key, Pos: pos, Verdict: Undecided, Detail: detail})
}

// hasKey: an obligation with this key (without the rule prefix) was already recorded.
func (r *Result) hasKey(key string) bool {
	for _, o := range r.Obls {
		if o.Key == r.Rule+":"+key {
			return true
		}
	}
	return false
}

func (r *Result) note(format string, args ...any) {
	r.Notes = append(r.Notes, fmt.Sprintf(format, args...))
}

// Dedup makes obligation keys unique by appending #n to repeated keys in
// source order (so two calls of the same callee in one function stay apart
// without keying on line numbers).
func (r *Result) Dedup() {
	seen := map[string]int{}
	for i := range r.Obls {
		k := r.Obls[i].Key
		seen[k]++
		if seen[k] > 1 {
			r.Obls[i].Key = fmt.Sprintf("%s#%d", k, seen[k])
		}
	}
}

// Filter keeps the obligations whose key passes keep.
func (r *Result) Filter(keep func(o Obligation) bool) *Result {
	out := &Result{Rule: r.Rule, MinInst: 0, Notes: r.Notes}
	for _, o := range r.Obls {
		if keep(o) {
			out.Obls = append(out.Obls, o)
		}
	}
	out.Instances = len(out.Obls)
	return out
}

// KeyFn extracts the function part of an obligation key RULE:fn:construct.
func KeyFn(key string) string {
	parts := strings.SplitN(key, ":", 3)
	if len(parts) < 2 {
		return ""
	}
	return parts[1]
}

func sortedKeys[M ~map[string]V, V any](m M) []string {
	ks := make([]string, 0, len(m))
	for k := range m {
		ks = append(ks, k)
	}
	sort.Strings(ks)
	return ks
}

// ScopedExemption exempts obligations of Rule whose construct (the part of the
// key after the function) is Construct, for functions within Scope:
// "package:<short path>" or "command:<name>" (functions reachable from that
// command's entry points and from no other command's). Renaming or splitting a
// function inside the scope does not invalidate it.
type ScopedExemption struct {
	Rule      string `json:"rule"`
	Construct string `json:"construct"`
	Scope     string `json:"scope"`
	Reason    string `json:"reason"`
}

// ExemptReason returns the reason if the obligation key is exempt.
func (c *Ctx) ExemptReason(rule, key string) (string, bool) {
	if r, ok := c.Exemptions[key]; ok {
		return r, true
	}
	parts := strings.SplitN(key, ":", 3)
	if len(parts) < 3 {
		return "", false
	}
	fn, construct := parts[1], parts[2]
	if i := strings.LastIndex(construct, "#"); i > 0 {
		construct = construct[:i]
	}
	for _, e := range c.Scoped {
		if e.Rule != rule {
			continue
		}
		if strings.HasPrefix(e.Construct, "@") {
			if !c.aliasSet(e.Construct)[construct] {
				continue
			}
		} else if e.Construct != construct {
			continue
		}
		switch {
		case strings.HasPrefix(e.Scope, "package:"):
			pk := strings.TrimPrefix(e.Scope, "package:")
			f := strings.TrimPrefix(strings.TrimPrefix(fn, "(*"), "(")
			if strings.HasPrefix(f, pk+".") {
				return e.Reason, true
			}
		case strings.HasPrefix(e.Scope, "command:"):
			if c.exclusiveTo(strings.TrimPrefix(e.Scope, "command:"))[fn] {
				return e.Reason, true
			}
		}
	}
	return "", false
}

// aliasSet resolves a construct named by what it does instead of by its identifier, so that the
// exemption follows the function through a rename:
//
//	@rule-id-resolver  the functions that match regex.RuleIdFileNameRegex against their argument
func (c *Ctx) aliasSet(alias string) map[string]bool {
	if c.aliasCache == nil {
		c.aliasCache = map[string]map[string]bool{}
	}
	if m, ok := c.aliasCache[alias]; ok {
		return m
	}
	m := map[string]bool{}
	switch alias {
	case "@rule-id-resolver":
		for _, s := range c.submatchSites() {
			if s.pattern == nil || s.pattern.Name != "regex.RuleIdFileNameRegex" || s.fn == nil {
				continue
			}
			add := func(fn *ssa.Function) {
				if o, ok := fn.Object().(*types.Func); ok {
					m[qualName(o)] = true
				}
				m[load.FnName(fn)] = true
			}
			add(s.fn)
			// and the functions of the same package that resolve an argument by calling it
			for _, e := range c.Graph().In[s.fn] {
				if cc := callCommon(e.Site); cc != nil && staticFn(cc) == s.fn && e.Caller.Pkg == s.fn.Pkg && e.Caller.Parent() == nil {
					add(e.Caller)
				}
			}
		}
	}
	if alias == "@rule-id-resolver" {
		// a resolver written by hand: a function with a text parameter and an error result that fills two or more
		// fields of one package-level struct variable (id, file name, chain offset)
		for _, fn := range c.P.RepoFns {
			if !fnHasErrResult(fn) || fn.Parent() != nil {
				continue
			}
			hasText := false
			for _, p := range fn.Params {
				if isStringType(p.Type()) {
					hasText = true
				}
			}
			if !hasText {
				continue
			}
			fields := map[*ssa.Global]map[int]bool{}
			allInstrs(fn, func(in ssa.Instruction) {
				if st, ok := in.(*ssa.Store); ok {
					if fa, ok := st.Addr.(*ssa.FieldAddr); ok {
						if g, ok := fa.X.(*ssa.Global); ok {
							if fields[g] == nil {
								fields[g] = map[int]bool{}
							}
							fields[g][fa.Field] = true
						}
					}
				}
			})
			for _, fs := range fields {
				if len(fs) >= 3 {
					if o, ok := fn.Object().(*types.Func); ok {
						m[qualName(o)] = true
					}
					m[load.FnName(fn)] = true
				}
			}
		}
	}
	c.aliasCache[alias] = m
	return m
}

// exclusiveTo: names of the functions reachable from the entries of command
// name and from the entries of no other command.
func (c *Ctx) exclusiveTo(name string) map[string]bool {
	if c.exclCache == nil {
		c.exclCache = map[string]map[string]bool{}
	}
	if m, ok := c.exclCache[name]; ok {
		return m
	}
	mine := c.cmdFns(name)
	for _, cmd := range c.Commands().Commands {
		if cmd.Name == name || len(cmd.Entries) == 0 {
			continue
		}
		for f := range c.cmdFns(cmd.Name) {
			delete(mine, f)
		}
	}
	c.exclCache[name] = mine
	return mine
}

// initFuncVars records the package-level function variables of the repository
// that have a single store, in a package initialiser, of a named function.
func (c *Ctx) initFuncVars() {
	for k := range funcVarTargets {
		delete(funcVarTargets, k)
	}
	stores := map[*ssa.Global][]*ssa.Store{}
	inInit := map[*ssa.Store]bool{}
	addrTaken := map[*ssa.Global]bool{}
	for _, fn := range c.P.RepoFns {
		for _, b := range fn.Blocks {
			for _, in := range b.Instrs {
				if st, ok := in.(*ssa.Store); ok {
					if g, ok := st.Addr.(*ssa.Global); ok {
						if _, isSig := derefType(g.Type()).Underlying().(*types.Signature); isSig {
							stores[g] = append(stores[g], st)
							inInit[st] = fn.Name() == "init"
						}
					}
					continue
				}
				// the address handed to something else: could be assigned through it
				for _, op := range in.Operands(nil) {
					if op == nil || *op == nil {
						continue
					}
					if g, ok := (*op).(*ssa.Global); ok {
						if u, isLoad := in.(*ssa.UnOp); isLoad && u.X == ssa.Value(g) {
							continue
						}
						addrTaken[g] = true
					}
				}
			}
		}
	}
	for g, sts := range stores {
		if len(sts) != 1 || !inInit[sts[0]] || addrTaken[g] || g.Pkg == nil || !load.InModule(g.Pkg.Pkg.Path()) {
			continue
		}
		switch v := sts[0].Val.(type) {
		case *ssa.Function:
			funcVarTargets[g] = v
		case *ssa.MakeClosure:
			if fn, ok := v.Fn.(*ssa.Function); ok && len(v.Bindings) == 0 {
				funcVarTargets[g] = fn
			}
		}
	}
}

// stdStreamThrough: the io.Writer v is a standard stream because (a) it is a
// parameter and every caller passes one, (b) it is a phi of such values, or
// (c) it is what a helper of the repository returns, every result of which is
// one, or the value of a field that nothing in the (non-test) program assigns
// (an injectable output that defaults to os.Stdout when unset).
func (c *Ctx) stdStreamThrough(v ssa.Value, depth int) bool {
	switch x := v.(type) {
	case *ssa.Parameter:
		fn := x.Parent()
		pi := paramIndex(fn, x)
		n := 0
		for _, e := range c.Graph().In[fn] {
			cc := callCommon(e.Site)
			if cc == nil || staticFn(cc) != fn || pi < 0 || pi >= len(cc.Args) {
				continue
			}
			n++
			if !isStdStreamWriterDepth(cc.Args[pi], depth+1) {
				return false
			}
		}
		return n > 0
	case *ssa.Phi:
		for _, e := range x.Edges {
			if e == ssa.Value(x) {
				continue
			}
			if !isStdStreamWriterDepth(e, depth+1) {
				return false
			}
		}
		return len(x.Edges) > 0
	case *ssa.FreeVar:
		if bv := closureBinding(x); bv != nil {
			return isStdStreamWriterDepth(bv, depth+1)
		}
		return false
	case *ssa.UnOp:
		// a package-level writer of the repository that only its initialiser assigns (var stdout io.Writer = os.Stdout)
		if g, ok := x.X.(*ssa.Global); ok && x.Op == token.MUL && g.Pkg != nil && load.InModule(g.Pkg.Pkg.Path()) {
			n, all := 0, true
			for _, fn := range c.P.RepoFns {
				allInstrs(fn, func(in ssa.Instruction) {
					if st, ok := in.(*ssa.Store); ok && st.Addr == ssa.Value(g) {
						n++
						if fn.Name() != "init" || !isStdStreamWriterDepth(st.Val, depth+1) {
							all = false
						}
					}
				})
			}
			return n > 0 && all
		}
		// a field that is only ever assigned a standard stream (an injectable output with its default)
		if fa, ok := x.X.(*ssa.FieldAddr); ok && x.Op == token.MUL {
			stores, _ := c.fieldAccesses(fieldVarOf(fa))
			if len(stores) > 0 {
				for _, st := range stores {
					if !isStdStreamWriterDepth(st.Val, depth+1) {
						return false
					}
				}
				return true
			}
		}
		// a local variable kept in a cell (it is captured by a closure): every value stored into it
		if al, ok := x.X.(*ssa.Alloc); ok && x.Op == token.MUL {
			n, all := 0, true
			for _, r := range referrers(al) {
				if st, ok := r.(*ssa.Store); ok && st.Addr == ssa.Value(al) {
					n++
					if !isStdStreamWriterDepth(st.Val, depth+1) {
						all = false
					}
				}
			}
			return n > 0 && all
		}
		// a captured variable (the closure holds the address of the variable's cell)
		if fv, ok := x.X.(*ssa.FreeVar); ok && x.Op == token.MUL {
			if bv := closureBinding(fv); bv != nil {
				if al, ok := bv.(*ssa.Alloc); ok {
					n, all := 0, true
					for _, r := range referrers(al) {
						if st, ok := r.(*ssa.Store); ok && st.Addr == ssa.Value(al) {
							n++
							if !isStdStreamWriterDepth(st.Val, depth+1) {
								all = false
							}
						}
					}
					return n > 0 && all
				}
			}
		}
		return false
	case *ssa.Call:
		sf := staticFn(&x.Call)
		if sf == nil || !c.P.IsRepoFn(sf) || len(sf.Blocks) == 0 {
			return false
		}
		n, all := 0, true
		allInstrs(sf, func(in ssa.Instruction) {
			r, ok := in.(*ssa.Return)
			if !ok || len(r.Results) != 1 {
				return
			}
			n++
			rv := stripConv(r.Results[0])
			if isStdStreamWriterDepth(rv, depth+1) {
				return
			}
			// a field nothing assigns: on that path the value is nil and the guard around it is dead
			if ld, ok := rv.(*ssa.UnOp); ok {
				if fa, ok := ld.X.(*ssa.FieldAddr); ok {
					if stores, _ := c.fieldAccesses(fieldVarOf(fa)); len(stores) == 0 {
						return
					}
				}
			}
			all = false
		})
		return n > 0 && all
	}
	return false
}

// closureBinding: the value bound to the free variable where its closure is made.
func closureBinding(fv *ssa.FreeVar) ssa.Value {
	fn := fv.Parent()
	if fn == nil || fn.Parent() == nil {
		return nil
	}
	idx := -1
	for i, f := range fn.FreeVars {
		if f == fv {
			idx = i
		}
	}
	var out ssa.Value
	allInstrs(fn.Parent(), func(in ssa.Instruction) {
		if mc, ok := in.(*ssa.MakeClosure); ok && mc.Fn == ssa.Value(fn) && idx >= 0 && idx < len(mc.Bindings) && out == nil {
			out = mc.Bindings[idx]
		}
	})
	return out
}
