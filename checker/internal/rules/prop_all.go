package rules

import (
	"strings"

	"golang.org/x/tools/go/ssa"

	"crsverif/internal/load"
)

// fnSet: names of the functions reachable from the entry points of a command.
func (c *Ctx) cmdFns(name string) map[string]bool {
	out := map[string]bool{}
	cmd := c.Commands().ByName[name]
	if cmd == nil {
		return out
	}
	for fn := range c.Graph().Reach(c.EntryRoots(cmd)) {
		out[load.FnName(fn)] = true
	}
	return out
}

// reachFromNamed: names of the functions reachable from functions whose name passes sel.
func (c *Ctx) reachFromNamed(sel func(name string) bool) map[string]bool {
	var roots []*ssa.Function
	for _, fn := range c.P.RepoFns {
		if sel(load.FnName(fn)) {
			roots = append(roots, fn)
		}
	}
	out := map[string]bool{}
	for fn := range c.Graph().Reach(roots) {
		out[load.FnName(fn)] = true
	}
	return out
}

// inFns keeps the obligations whose function component is in set.
func inFns(r *Result, set map[string]bool, floor int) *Result {
	out := r.Filter(func(o Obligation) bool { return set[KeyFn(o.Key)] })
	out.MinInst = floor
	return out
}

// inPkg keeps the obligations whose function belongs to a package with the given short path prefix.
func inPkg(r *Result, floor int, prefixes ...string) *Result {
	out := r.Filter(func(o Obligation) bool {
		fn := KeyFn(o.Key)
		fn = strings.TrimPrefix(fn, "(*")
		fn = strings.TrimPrefix(fn, "(")
		for _, p := range prefixes {
			if strings.HasPrefix(fn, p+".") {
				return true
			}
		}
		return false
	})
	out.MinInst = floor
	return out
}

func keyHas(r *Result, floor int, subs ...string) *Result {
	out := r.Filter(func(o Obligation) bool {
		for _, s := range subs {
			if strings.Contains(o.Key, s) {
				return true
			}
		}
		return false
	})
	out.MinInst = floor
	return out
}

func (c *Ctx) errHandleOnly() *Result {
	_, handle := c.RuleErrCached()
	return handle
}

func prop(id, level, technique, explanation, doesNot string, extraAssume []string, run func(c *Ctx, tier string) []*Result) {
	Properties[id] = &Property{
		ID: id, Level: level, Technique: technique, Explanation: explanation, DoesNotDecide: doesNot,
		Assumptions: append(append([]string{}, extraAssume...), commonAssumptions...),
		TrustedBase: commonTrusted,
		Run:         run,
	}
}

func init() {
	prop("C02", "other",
		"static analysis: SSA rules on the clean-up passes (parity-aware escape test, value set of the flag predicate, sort-before-use of the flag letters, def-use chain of the sanitising passes)",
		"Decides four structural necessary conditions of the per-character invariants of the generated regex: ESC-PARITY (no 'is escaped' decision is taken from a single neighbouring byte; the property's 'quote right after a literal backslash' case), FLAG-SET (the set of letters the flag predicate admits, computed by symbolic evaluation of the predicate, is exactly {i,s} and every admission is guarded by it), MAP-ORDER on the flag loop (the letters are sorted before they are joined into the single leading flag group), SANITIZE (after the last call that prints the regex, the hex-escape, quote, backslash, vertical-tab and flag-group passes are all applied on the def-use chain to the returned value and nothing prints the regex again afterwards).",
		"that the passes compute the right strings (single line, RE2-parsable, \\s always together with \\x0b, no inline flag group surviving): value-level facts about text produced by a third-party optimiser.",
		nil,
		func(c *Ctx, tier string) []*Result {
			return []*Result{c.RuleEscParity(), c.RuleFlagSet(), inPkg(c.RuleMapOrder(), 0, "regex/operators", "regex"), c.RuleSanitize(), c.RuleTemplate(c.cmdFns("update")), c.RuleEscMatch(), c.RuleFlagPattern(), c.RuleLogStderr(), c.RuleStdoutPure(), inFns(c.RuleRxRebuild(), c.cmdFns("update"), 1), c.RulePrintfConst(), c.RuleEscPos(), c.RulePatternPin("regex.RuleRxRegex"), c.RuleIdxArray(), c.RuleLitGuard()}
		})

	prop("C03", "other",
		"static analysis: classification of every map iteration (collect-then-sort, commutative, first-match) over SSA; emptiness of pairwise intersections of the directive patterns by product automata; reachability of nondeterminism sources in the repository call graph",
		"All-paths, all-inputs argument for the repository's own code: every `range` over a map in the module is classified by its body (MAP-ORDER) — collected-then-sorted before any order-sensitive use, commutative, or first-match over the directive pattern set, in which case RX-DISJOINT proves with product automata over the regexp/syntax programs of the source constants that no trimmed line is matched by two patterns of the set (and that the formatter's ordered chain classifies every line like the parser does). DEF-FRAGMENT justifies the three loops of definition expansion. NONDET-SRC shows that no time, random, process-identity, goroutine or channel construct is reachable from generate, update, compare and format. If every map iteration is order-insensitive and no other source is reachable, no schedule of the Go runtime can change the output.",
		"determinism of the dependencies (rassemble-go, regexp, sort, mergo on map[string]string) is assumed; determinism of the exit status under I/O faults is not examined.",
		[]string{"rassemble-go v0.1.2, regexp, sort and mergo (for map[string]string) are deterministic"},
		func(c *Ctx, tier string) []*Result {
			return []*Result{c.RuleMapOrder(), c.RuleRxDisjoint(tier == "thorough"), c.RuleDefFragment(), c.RuleNondetSrc([]string{"generate", "update", "compare", "format"}), c.RuleOrderKey(), c.RuleSuffixOps(), c.RuleIsoGlobal("unit:(*regex/operators.Operator).Run"), keyHas(c.RuleIsoFresh(), 2, "cmd update", "cmd compare"), c.RuleLogStderr(), c.RuleStdoutPure(), c.RuleGoShared(), c.RuleCtorDefaults(), c.RuleIsoGlobal("update", "compare", "format"), c.RuleLimitRead(), c.RuleRecvCopy(), c.RuleIncludeName()}
		})

	prop("C05", "other",
		"static analysis: ownership inventory of Parser field writes, provenance of maps handed to child parsers, dominance of the flags check over every return of the included output, per-chain allocation frames of the recursive parser",
		"Decides the three isolation clauses of the statement: ISO-OWNER (every write to a field of parser.Parser — assignment, map update, or address handed to a callee — is made by a method on its own receiver or on a parser created in the same function; a map stored into a fresh parser never originates from a field of the including parser, followed through parameters to all callers), FLAGS-REJECT (in the function that parses an included file, a test len(included.Flags) > 0 with an all-paths failing side dominates every return of the included output and its error is handled loudly), ISO-FRESH (the parser that parses an included file is created for that file), and the ERR-* discipline of package regex/parser.",
		"equality of the final regex with that of the hand-inlined program (value-level; goes through the local assemble block and the optimiser), and the lookup order include dir / exclude dir.",
		nil,
		func(c *Ctx, tier string) []*Result {
			drop, handle := c.RuleErrCached()
			return []*Result{c.RuleIsoOwner(), c.RuleFlagsReject(), keyHas(c.RuleIsoFresh(), 2, "regex/parser."), c.RuleIsoGlobal("unit:(*regex/operators.Operator).Run"),
				inPkg(drop, 3, "regex/parser"), inPkg(handle, 3, "regex/parser"), c.RuleDeferInLoop(), c.RuleDefMerge(), c.RuleContextDirs(), c.RuleCutset(), c.RuleLogStderr(), c.RuleStdoutPure(), c.RuleIncludeName(), c.RulePatternPin("regex.IncludeRegex", "regex.IncludeExceptRegex"), c.RuleReadLine(), c.RuleBorrow(), c.RuleIncludeFrame(), c.RuleIncludePass(), c.RuleDoubleWrap(), c.RuleGoShared(), c.RuleLimitRead(), c.RuleDefKept(), c.RulePrintfConst(), c.RuleCacheReader(), c.RuleAppendAlias(), c.RulePathForm(), c.RuleCaptureRaw()}
		})

	prop("C06", "other",
		"static analysis: collect-then-sort obligations through the callee that joins the lines, comparator/insertion-index check, capture-index check of the include patterns, scanner-error rule for the three line loops",
		"Decides the order and determinism clauses: the surviving entries are collected from a map and sorted before every order-sensitive use, through stringFromInclusionLines (MAP-ORDER); the comparator orders by an integer field that every construction sets from the loop counter of the file scan, so sorting restores the file's order (ORDER-KEY); the suffix-replacement pairs are applied in an order that does not depend on map iteration (MAP-ORDER on the pair map); the capture groups the parser reads from the include / include-except patterns exist and are guarded (RX-GROUPS); none of the three line loops can silently stop on a long line (SCAN-ERR).",
		"the set difference itself, duplicates, and CutSuffix semantics (value-level).",
		nil,
		func(c *Ctx, tier string) []*Result {
			return []*Result{inPkg(c.RuleMapOrder(), 2, "regex/parser"), c.RuleOrderKey(),
				inPkg(c.RuleRxGroups(), 1, "regex/parser"), inPkg(c.RuleScanErr(), 0, "regex/parser"), c.RuleReadEOF(), c.RuleSuffixOps(), c.RuleExclKey(), c.RuleIsoGlobal("unit:(*regex/operators.Operator).Run"), c.RuleDefMerge(), c.RuleCutset(), c.RuleLogStderr(), c.RuleStdoutPure(), c.RuleIsoOwner(), c.RuleIncludeName(), c.RulePatternPin("regex.IncludeExceptRegex", "regex.IncludeRegex"), c.RuleReadLine(), c.RuleBorrow(), c.RuleIncludePass(), c.RuleExclOrder(), c.RuleGoShared(), c.RuleLimitRead(), c.RuleCtorDefaults(), c.RuleLineKeep(c.lineKeepScope("regex/parser"), 0), c.RuleLitGuard(), c.RulePrintfConst(), c.RuleCacheReader(), c.RuleAppendAlias(), inPkg(c.RuleErrLog(), 1, "regex/parser")}
		})

	prop("C07", "other",
		"static analysis: recognition of the definition-expansion fragment in SSA (three map loops, needle construction, loop-carried text) whose order-independence is proved on paper in DESIGN.md",
		"Decides that expandDefinitions is inside the program fragment for which DESIGN.md (C07) gives an order-independence argument: a nested pair of loops over the same map V whose only effect is V[s] = ReplaceAll(t, \"{{\"+n+\"}}\", r), followed by a loop that substitutes \"{{\"+n+\"}}\" by r in the loop-carried text, no early exit, no other effect, and a single application after the whole file was read (the call is not inside a loop). Any other shape is reported UNDECIDED, not green. After round eleven: TEMPLATE over what generate reaches (a definition value never stands in the template position of a Regexp.ReplaceAll/Expand call, where $name and $1 inside it would be expanded instead of pasted).",
		"anything outside the fragment; that undefined names stay literal and that definition lines contribute no entry (value-level).",
		[]string{"definitions are acyclic and contain no computed names (quantifier of C07)"},
		func(c *Ctx, tier string) []*Result {
			// every map iteration of the parser package except the ones that belong to C03/C06 alone
			mo := inPkg(c.RuleMapOrder(), 1, "regex/parser")
			return []*Result{c.RuleDefFragment(), mo, c.RuleIsoOwner(), keyHas(c.RuleRxDisjoint(false), 0, ":line handed to "), c.RuleDefMerge(), c.RuleRangeIndex(), inPkg(c.RuleErrLog(), 1, "regex/parser"), c.RuleLogStderr(), c.RuleStdoutPure(), c.RuleRxDisjoint(false), c.RulePatternPin("regex.DefinitionRegex"), c.RuleReadLine(), c.RuleBorrow(), c.RuleScanSplit(), inPkg(c.RuleEscParity(), 0, "regex/parser", "utils"), c.RuleDefKept(), c.RuleLitGuard(), c.RulePrintfConst(), c.RuleAppendAlias(), c.RuleLimitRead(), c.RuleTemplate(c.cmdFns("generate"))}
		})

	prop("C08", "other",
		"static analysis: per-call-chain allocation frames relative to the directory-walk callback, inventory of package-variable stores with a reset-before-use / empty-after-success justification, field-based taint of objects captured by the callback, sibling agreement of the id/offset derivation",
		"Decides that there is no location through which the processing of one assembly file can influence the next: ISO-FRESH (for generate, update, compare, format and every call chain, the Operator, its processors.Context — the stash — and every Parser are created in frames below the WalkDir callback), ISO-GLOBAL ((1) every package variable written in per-file code is either reset before its first use on every path or known empty after a successful run — either shape is accepted; (2) the callbacks store only constants into captured variables; (3) no store or map update goes through an object captured from outside the callback, by a field-based taint over the repository), SIBLING-ID (the --all callbacks derive id and chain offset exactly as the single-target path: same pattern, group 1, ParseUint(group 2, 10, 8)). With no carried state the traversal order cannot matter.",
		"byte equality of the reports (the compare summary lines are value-level).",
		nil,
		func(c *Ctx, tier string) []*Result {
			return []*Result{c.RuleIsoFresh(), c.RuleIsoGlobal("update", "compare", "format"), c.RuleSiblingRuleId(), c.RuleWalkSkip(), c.RuleWalkFilter("update", "compare", "format"), c.RuleErrWrap(), c.RuleRxGrammar(), c.RuleResolve(), keyHas(c.RuleFsGuard([]string{"format"}), 1, "cmd format"), keyHas(c.RuleFsTarget([]string{"format"}), 1, "cmd format"), c.RuleGoShared(), c.RuleCutset(), c.RulePathForm(), c.RuleWalkStop(), c.RuleRecvCopy()}
		})

	prop("C09", "other",
		"static analysis: edge-deletion guard of the write by the check flag along all call chains; SSA identity of the compared and the written bytes; path exploration of the check-mode verdict",
		"Decides the second sentence of the statement: FS-GUARD (with --check no file-system mutation is reachable: every call chain from the format entry to os.WriteFile passes a branch edge on which the flag — tracked from GetBool(\"check\") through parameters and captured variables — is false) and FS-SAME (the bytes compared by bytes.Equal in check mode are the same SSA value as the bytes format would write, compared with os.ReadFile of the same path value; with differing contents every path returns a non-nil error, with identical contents success is returned, up to the documented upper-case lint).",
		"canonicity and idempotence of the layout (value-level; reading the code shows they do not hold at the empty-file boundary — noted in DESIGN.md, not claimed).",
		nil,
		func(c *Ctx, tier string) []*Result {
			return []*Result{keyHas(c.RuleFsGuard([]string{"format"}), 1, "cmd format"), c.RuleFsSame([]string{"format"}),
				inFns(c.RuleErrFlags(), c.cmdFns("format"), 0), keyHas(c.RuleFsAlways([]string{"format"}), 1, "cmd format"), inFns(c.RuleFsWriteDiscipline(), c.cmdFns("format"), 1), c.RuleFormatOnly(),
				c.RuleWalkSkip("format"), c.RuleWalkFilter("format"), inFns(c.RuleResolve(), c.cmdFns("format"), 1), c.RulePredPure(), c.RuleFmtTrim(), inFns(c.errHandleOnly(), c.cmdFns("format"), 2), inFns(c.RuleErrLog(), c.cmdFns("format"), 1), c.RuleExactCompare(), c.RulePatternPin("regex.ProcessorEndRegex", "regex.ProcessorStartRegex"), c.RuleReadLine(), c.RuleBorrow(), c.RuleScanSplit(), c.RuleCtorDefaults(), c.RuleErrorfNil(), c.RuleLineKeep(c.lineKeepScope("cmd"), 0), c.RuleLitGuard(), c.RuleAppendAlias(), c.RuleIsoGlobal("format"), c.RuleRecvCopy()}
		})

	prop("C10", "other",
		"static analysis: syntax-tree checks of every pattern a line is rebuilt from (whole-line coverage, no lost group, literals re-emitted, group order), product automata between the formatter's ordered chain and the parser's pattern set, error discipline of the line loop",
		"Decides that the formatter re-emits what it matched: RX-REBUILD for each branch of processLine that rebuilds a line from capture groups (the pattern covers the whole line, every group is re-emitted or contains a re-emitted group, literal text outside the groups is blank or in the format strings, groups are emitted in pattern order); RX-DISJOINT between the formatter's first-match chain and the parser's pattern set (no trimmed line is one kind for the formatter and another for the compiler; the formatter's pattern variables are the parser's objects); RX-GROUPS; and the error discipline of the line loop (a line whose processing failed is not replaced and written: ERR-HANDLE / ERR-LOG on cmd.processFile).",
		"equality of generate before and after format (value-level); indentation bookkeeping.",
		nil,
		func(c *Ctx, tier string) []*Result {
			fmtFns := c.cmdFns("format")
			drop, handle := c.RuleErrCached()
			_ = drop
			return []*Result{inFns(c.RuleRxRebuild(), fmtFns, 7), c.RuleRxDisjoint(tier == "thorough"), inFns(c.RuleRxGroups(), fmtFns, 7),
				inFns(handle, fmtFns, 2), inFns(c.RuleErrLog(), fmtFns, 2), c.RuleFormatOnly(), inFns(c.RuleFsWriteDiscipline(), fmtFns, 1), c.RulePrintfConst(), c.RuleProcStart(), c.RulePredPure(), c.RuleFmtTrim(), c.RuleExactCompare(), c.RuleBufAlias(), c.RulePatternPin("regex.IncludeRegex", "regex.IncludeExceptRegex", "regex.DefinitionRegex", "regex.FlagsRegex", "regex.PrefixRegex", "regex.SuffixRegex", "regex.CommentRegex", "regex.ProcessorEndRegex", "regex.ProcessorStartRegex"), c.RuleReadLine(), c.RuleBorrow(), c.RuleScanSplit(), c.RuleDoubleWrap(), c.RuleStdoutPure(), c.RuleLineKeep(c.lineKeepScope("cmd"), 0), c.RuleLitGuard(), c.RulePrintfConst(), c.RuleAppendAlias(), c.RuleFormatLine(), c.RuleIsoGlobal("format")}
		})

	prop("C11", "other",
		"static analysis: per-chain provenance of the written path, the split/replace-one/join frame in SSA, syntax-tree coverage of the rule-line pattern",
		"Decides that update writes back exactly one rules file and one line of it: FS-TARGET for update (the path is an element of the glob RulesDir/*-<prefix>-*, guarded by the exactly-one-match test with a loud failing side, and is the path that was read), FRAME (the bytes written are bytes.Join(bytes.Split(ReadFile(path), sep), sep) with the same constant separator and exactly one element assigned), RX-REBUILD on the rule-line pattern (groups 1 and 3 are re-emitted around the new operand and the pattern covers the whole line), VALIDATE for the glob result.",
		"that the right line is chosen and that greedy matching delimits the operand correctly (value-level).",
		nil,
		func(c *Ctx, tier string) []*Result {
			upd := c.cmdFns("update")
			return []*Result{keyHas(c.RuleFsTarget([]string{"update"}), 1, "cmd update"), c.RuleSplitJoinFrame(), inFns(c.RuleRxRebuild(), upd, 1),
				inFns(c.RuleValidate(), upd, 1), c.RuleTemplate(upd), inFns(c.RuleFsWriteDiscipline(), upd, 1), inFns(c.RuleResolve(), upd, 1), keyHas(c.RuleIsoFresh(), 1, "cmd update"),
				inFns(c.RuleNarrow(), upd, 1), inFns(c.RuleSiblingRuleId(), upd, 1), c.RuleIsoGlobal("update"), c.RuleSiblingLocator(), inFns(c.errHandleOnly(), upd, 2), c.RuleWriteReached("update"), c.RuleRxGrammar(), keyHas(c.RuleResolve(), 1, "input of the assembler"), c.RulePatternPin("regex.RuleRxRegex", "regex.SecRuleRegex"), c.RuleReadLine(), c.RuleBorrow(), c.RuleSearchResume(), c.RuleGoShared(), c.RuleWalkSkip("update"), c.RuleLitGuard(), c.RuleLocComment(), c.RuleCompareVerdict(), c.RuleAppendAlias(), c.RuleStdoutNone("update"), c.RuleOperandVerbatim(), c.RuleWalkStop()}
		})

	prop("C12", "other",
		"static analysis: alpha-normalised SSA comparison of the two operand locators; path exploration of the verdict function under both outcomes of the string comparison",
		"Decides that the operand is read back by the same computation that wrote it (SIBLING-LOC: the SSA of updateRegex and readCurrentRegex from the split into lines to the rule-line match is identical up to renaming; log wording is ignored) and that the verdict is plain equality (CMP-VERDICT: the condition is == on the two string parameters, which reach it untransformed; with equal strings every path returns nil, with unequal strings every path returns a non-nil error, so compare fails in single-rule and GitHub mode).",
		"the round trip for regexes whose own text contains '\"@rx ' (value-level); that a second update is a no-op.",
		nil,
		func(c *Ctx, tier string) []*Result {
			both := c.cmdFns("update")
			for k := range c.cmdFns("compare") {
				both[k] = true
			}
			return []*Result{c.RuleSiblingLocator(), c.RuleCompareVerdict(), keyHas(inFns(c.RuleRxGroups(), both, 1), 1, "regex.RuleRxRegex"),
				inFns(c.RuleErrFlags(), c.cmdFns("compare"), 0), c.RuleTemplate(c.cmdFns("update")), inFns(c.RuleRxRebuild(), c.cmdFns("update"), 1),
				inFns(c.RuleNarrow(), both, 1), c.RuleSiblingRuleId(), c.RuleSplitJoinFrame(), c.RuleIsoGlobal("update", "compare"), inPkg(c.RuleMapOrder(), 2, "regex/parser"), c.RuleErrWrap(), c.RuleValidateStore(), c.RuleWriteReached("update"), c.RuleLogStderr(), c.RuleStdoutPure(), c.RuleRxGrammar(), c.RuleWalkSkip("update", "compare"), inFns(c.RuleValidate(), c.cmdFns("update"), 1), c.RulePrintfConst(), keyHas(c.RuleResolve(), 1, "input of the assembler"), c.RuleExactCompare(), c.RulePatternPin("regex.RuleRxRegex", "regex.SecRuleRegex"), c.RuleReadLine(), c.RuleBorrow(), c.RuleSearchResume(), inFns(c.errHandleOnly(), c.cmdFns("compare"), 1), c.RuleLitGuard(), c.RuleLocComment(), c.RuleErrorfNil(), c.RuleAppendAlias(), c.RuleOperandVerbatim(), c.RuleRecvCopy()}
		})

	prop("C13", "other",
		"static analysis: flag-guard, same-bytes and target rules for renumber-tests; syntax-tree checks of the two rewritten line kinds; scanner-error rule",
		"Decides the --check sentence completely (FS-GUARD: no write reachable with the flag set; FS-SAME: the verdict compares the bytes that would be written with the contents of the file that would be written and fails exactly when they differ), FS-TARGET (only files below the regression-test directory whose base name matches the test-file pattern, written back to the path read), RX-REBUILD for the test_id and test_title lines (group 1 re-emitted, the id replaced on purpose, whole line covered), SCAN-ERR for the line loop.",
		"the numbering itself, the final-newline normalisation and idempotence (value-level).",
		nil,
		func(c *Ctx, tier string) []*Result {
			return []*Result{keyHas(c.RuleFsGuard([]string{"renumber-tests"}), 1, "cmd renumber-tests"), c.RuleFsSame([]string{"renumber-tests"}),
				keyHas(c.RuleFsTarget([]string{"renumber-tests"}), 1, "cmd renumber-tests"), inFns(c.RuleRxRebuild(), c.cmdFns("renumber-tests"), 2),
				inFns(c.RuleScanErr(), c.cmdFns("renumber-tests"), 0), c.RuleReadEOF(), inFns(c.RuleRxGroups(), c.cmdFns("renumber-tests"), 3), c.RuleIsoGlobal("renumber-tests"),
				inFns(c.RuleErrFlags(), c.cmdFns("renumber-tests"), 0), c.RuleFsAlways([]string{"renumber-tests"}), inFns(c.RuleFsWriteDiscipline(), c.cmdFns("renumber-tests"), 1), c.RuleWalkFilter("renumber-tests"), c.RuleWalkSkip("renumber-tests"), inFns(c.errHandleOnly(), c.cmdFns("renumber-tests"), 2), c.RuleRxSibling(), c.RuleTestFileGrammar(), c.RuleBufAlias(), c.RulePatternPin("regex.TestIdRegex", "regex.TestTitleRegex"), c.RuleReadLine(), c.RuleBorrow(), c.RuleBufwFlush(), c.RuleErrorfNil(), c.RuleLineKeep(c.lineKeepScope("util"), 0), c.RuleAppendAlias(), c.RulePathForm(), c.RuleRecvCopy()}
		})

	prop("C14", "other",
		"static analysis: language inclusion by product automata between what the command inserts (semver's own pattern, read from the library's source constant) and the segment of each read-side marker pattern it replaces",
		"Decides the necessary condition for 'regardless of which accepted versions earlier runs wrote': for every ReplaceAllString of update-copyright the template is parsed, the inserted value is traced to its origin (the -v flag validated by semver.NewVersion, the digits of it, the -y flag) and the language of that value is shown to be included in the language of the pattern segment the template replaces (RX-INCL, with a shortest counter-example otherwise); plus FS-TARGET (only *.conf / *.example entries of the walk below the root) and SCAN-ERR for the line loop.",
		"that all other text is untouched (value-level; a missing final newline is added).",
		[]string{"semver.NewVersion accepts a subset of its anchored versionRegex (read from the library source in the module cache)", "the year is four digits (quantifier of C14; the command does not validate it)"},
		func(c *Ctx, tier string) []*Result {
			return []*Result{c.RuleRxIncl(), keyHas(c.RuleFsTarget([]string{"update-copyright"}), 1, "cmd update-copyright"), inFns(c.RuleScanErr(), c.cmdFns("update-copyright"), 0), c.RuleReadEOF(),
				c.RuleFsAlways([]string{"update-copyright"}), c.RuleTemplate(c.cmdFns("update-copyright")), c.RuleIsoGlobal("update-copyright"), inFns(c.RuleFsWriteDiscipline(), c.cmdFns("update-copyright"), 1), c.RuleWalkFilter("update-copyright"), c.RuleWalkSkip("update-copyright"), keyHas(c.RuleResolve(), 1, "root", "Root", "workingDirectory"), c.RuleBufAlias(), c.RuleReadLine(), c.RuleBorrow(), c.RuleBufwFlush(), c.RuleLineKeep(c.lineKeepScope("chore"), 0), c.RuleLitGuard(), c.RuleAppendAlias(), c.RulePathForm()}
		})

	prop("C15", "other",
		"static analysis: sound effect analysis — reachability of file-system mutation primitives (standard library list + computed closure through the third-party dependencies) in the repository call graph per command, check-flag guards by edge deletion, per-chain path provenance against the per-command target policy",
		"Decides the statement under the call-graph assumptions: FS-WRITE computes per command the reachable mutation sites — none for generate, compare, version and completion; FS-GUARD shows that with --check neither format nor renumber-tests can reach a mutation; FS-TARGET slices the written path backwards along every call chain and checks it against the policy taken from the statement (format: entries of the walk over the assembly directory with the .ra test, or a name joined below the include/assembly directory; update: the single glob match below the rules directory; renumber-tests: test files below the regression directory matching the test-file pattern; update-copyright: *.conf / *.example entries of the walk below the root; self-update: the executable), including that the file written is the file read.",
		"a user argument containing '..' joined below a context directory (hostile arguments are outside the quantifier); cobra's completion debug file, which only the hidden __complete command writes when BASH_COMP_DEBUG_FILE is set (reviewed exclusion, DESIGN.md).",
		[]string{"third-party functions write only where the computed static closure (calls and function-value references inside the dependencies) says"},
		func(c *Ctx, tier string) []*Result {
			return []*Result{c.RuleFsWrite(), c.RuleFsGuard([]string{"format", "renumber-tests"}), c.RuleFsTarget([]string{"format", "update", "renumber-tests", "update-copyright", "self-update"}), c.RuleFsWriteDiscipline(), keyHas(c.RuleResolve(), 1, "root", "Root", "workingDirectory"), keyHas(c.errHandleOnly(), 1, "workingDirectory"), c.RuleContextDirs(), c.RuleTestFileGrammar(), c.RuleWalkFilter("update", "compare", "format", "update-copyright"), c.RuleCtorDefaults(), c.RulePathForm()}
		})

	prop("C18", "other",
		"static analysis: language equivalence of the argument pattern with the grammar of the statement (product automata), range proof of every integer narrowing, sibling agreement and def-use checks of the resolution sites",
		"Decides RX-GRAMMAR (L(RuleIdFileNameRegex) equals L(^\\d{6}(-chain\\d+)?(\\.ra)?$); group 1 is exactly six digits, group 2 one or more digits; the reference grammar comes from the statement), NARROW (every integer narrowing has a ParseUint(_, 10, bits<=target) operand and is only reached when parsing succeeded or the input was empty, with a loud failing side: K above 255 is rejected, not wrapped), SIBLING-ID (the three derivation sites agree), RESOLVE (every use of the resolved file name is joined below AssemblyDir(); generate feeds stdin and file bytes through nothing but the string conversion into one Run call; every context.New gets the resolved -d value and the -f value; the -d flag stores the result of the upward search from filepath.Abs(value)).",
		"the upward search loop itself (value-level loop over paths), nested roots.",
		nil,
		func(c *Ctx, tier string) []*Result {
			return []*Result{c.RuleRxGrammar(), c.RuleNarrow(), c.RuleSiblingRuleId(), c.RuleResolve(), c.RuleSiblingLocator(), c.RuleLimitRead(), c.RuleContextDirs(), c.RuleCutset(), c.RuleWalkSkip("update", "compare", "format"), c.RuleSearchResume(), c.RuleWalkFilter("update")}
		})

	prop("C19", "other",
		"static analysis: escape-check dominance for cuts at metacharacter matches, loop-bound rule for character scans, capture-index existence and guards",
		"Decides the clause the statement spells out — text that merely looks like a flag group is ordinary text: ESC-MATCH (every cut of the regex text at a position found by a pattern that starts with an escaped metacharacter is only reached when the parity-counting IsEscaped said 'not escaped'; ReplaceAll with such a pattern is rejected) — and two structural crash conditions: SCAN-BOUND (every explicit loop that reads s[i] with its own induction variable is bounded by len(s) / 0) and RX-GROUPS (every constant capture index exists in the resolved pattern, through slicing and one call, and is dominated by a test that the match succeeded).",
		"absence of all runtime faults (about ninety compiler-unproven bounds checks remain unexamined) and termination.",
		nil,
		func(c *Ctx, tier string) []*Result {
			return []*Result{c.RuleEscMatch(), c.RuleScanBound(), c.RuleRxGroups(), c.RuleIdxParam(), keyHas(c.RuleValidate(), 1, "odd-length"), c.RulePrintfConst(), c.RuleLastIndex(), c.RuleDefFragment(), c.RuleRecBound(),
				inPkg(c.errHandleOnly(), 10, "regex/parser", "regex/operators", "regex/processors"), inPkg(c.RuleErrLog(), 5, "regex/parser", "regex/operators", "regex/processors"), c.RuleNoRecover(), c.RuleDeferInLoop(), c.RuleStrIndex(), c.RuleRangeIndex(), c.RuleLoopProgress(), c.RuleCtorNonNil(), c.RuleEscPos(), c.RuleSearchResume(), c.RuleIdxArray(), c.RuleGoShared(), c.RuleLitGuard(), c.RuleLoopReplace(), c.RuleIdxCall()}
		})

	prop("C20", "other",
		"static analysis: protocol rules on the calls into go-selfupdate (validator configured, installing API, strict version guard by edge deletion, found-flag path exploration) plus the error discipline of the updater package",
		"Decides the protocol wiring: UPD-VALIDATOR (the Config given to NewUpdater sets a checksum/signature validator of the library and does not pin OS/Arch), UPD-API (the executable is replaced only through a method of *selfupdate.Updater; the package-level UpdateTo builds a default updater without validator and never validates), UPD-GUARD (the install call is only reachable on the !LessOrEqual / GreaterThan side of the comparison with the running version), UPD-FOUND (found == false returns a non-nil error on every path), and ERR-DROP/ERR-HANDLE/ERR-EVENT for internal/updater and the self-update entry.",
		"the behaviour of the library against a hostile release service; asset selection by runtime.GOOS/GOARCH inside the library.",
		[]string{"go-selfupdate v1.4.1 does what its source says: (*Updater).UpdateTo validates when a validator is set, the package-level UpdateTo uses DefaultUpdater() without one"},
		func(c *Ctx, tier string) []*Result {
			drop, handle := c.RuleErrCached()
			upd := c.cmdFns("self-update")
			ev := c.RuleErrEvent()
			return append(c.RuleUpd(), inFns(drop, upd, 2), inFns(handle, upd, 2), inFns(ev, upd, 1), c.RuleErrExit(), c.RuleErrorfNil())
		})
}
