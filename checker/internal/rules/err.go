package rules

import (
	"fmt"
	"go/token"
	"go/types"
	"strings"

	"golang.org/x/tools/go/ssa"

	"crsverif/internal/load"
)

// errSite is one call whose callee's last result is an error.
type errSite struct {
	fn   *ssa.Function
	call *ssa.Call
	errV ssa.Value // nil if the error result is never extracted
}

// reasonedDrop: callees whose error may be ignored by construction.
func reasonedDrop(call *ssa.Call) (string, bool) {
	f := staticCallee(&call.Call)
	if f == nil {
		return "", false
	}
	pkg, recv := objPkgPath(f), recvNamed(f)
	switch {
	case pkg == "strings" && recv == "Builder":
		return "strings.Builder writes cannot fail", true
	case pkg == "bytes" && recv == "Buffer" && strings.HasPrefix(f.Name(), "Write"):
		return "bytes.Buffer writes cannot fail (they panic on out-of-memory)", true
	case (pkg == "bytes" && (recv == "Buffer" || recv == "Reader") || pkg == "strings" && recv == "Reader") && strings.HasPrefix(f.Name(), "Read"):
		return "reading from memory: the only error is io.EOF, which is the end of the data and not a failure", true
	case pkg == "fmt" && strings.HasPrefix(f.Name(), "Fprint") && len(call.Call.Args) > 0 && isMemoryWriter(call.Call.Args[0]):
		return "formatted write into a strings.Builder / bytes.Buffer cannot fail", true
	case pkg == "fmt" && strings.HasPrefix(f.Name(), "Fprint") && len(call.Call.Args) > 0 && isStdStreamWriter(call.Call.Args[0]):
		return "formatted write to a standard stream (through a buffered writer); a closed stream is outside the fault classes of C16", true
	case pkg == "bufio" && recv == "Writer" && f.Name() == "Flush" && len(call.Call.Args) > 0 && isStdStreamWriter(call.Call.Args[0]):
		return "flush of a buffered writer on a standard stream; a closed stream is outside the fault classes of C16", true
	case pkg == "os" && recv == "File" && f.Name() == "Close" && len(call.Call.Args) > 0 && openedReadOnly(call.Call.Args[0], call.Parent(), 0):
		return "closing a file that was opened with os.Open and only read: nothing that was written can be lost", true
	case pkg == "fmt" && (strings.HasPrefix(f.Name(), "Print")):
		return "printing to stdout; a closed stdout is outside the fault classes of C16", true
	case pkg == "os" && recv == "File" && (f.Name() == "WriteString" || f.Name() == "Write"):
		if len(call.Call.Args) > 0 {
			if u, ok := call.Call.Args[0].(*ssa.UnOp); ok {
				if g, ok := u.X.(*ssa.Global); ok && g.Pkg.Pkg.Path() == "os" && (g.Name() == "Stdout" || g.Name() == "Stderr") {
					return "write to a standard stream; a closed stream is outside the fault classes of C16", true
				}
			}
		}
	}
	return "", false
}

// openedReadOnly: the *os.File is the result of os.Open (possibly kept in a local variable that a
// deferred closure captured).
func openedReadOnly(v ssa.Value, fn *ssa.Function, depth int) bool {
	if depth > 4 || fn == nil {
		return false
	}
	switch x := v.(type) {
	case *ssa.Extract:
		if oc, ok := x.Tuple.(*ssa.Call); ok && x.Index == 0 {
			return isFn(staticCallee(&oc.Call), "os", "Open")
		}
	case *ssa.Phi:
		for _, e := range x.Edges {
			if isNilConst(e) {
				continue
			}
			if !openedReadOnly(e, fn, depth+1) {
				return false
			}
		}
		return len(x.Edges) > 0
	case *ssa.UnOp:
		if x.Op != token.MUL {
			return false
		}
		cell := allocOf(x.X, fn)
		if cell == nil {
			return false
		}
		n := 0
		for _, r := range referrers(cell) {
			if st, ok := r.(*ssa.Store); ok && st.Addr == ssa.Value(cell) {
				if isNilConst(st.Val) {
					continue
				}
				n++
				if !openedReadOnly(st.Val, cell.Parent(), depth+1) {
					return false
				}
			}
		}
		return n > 0
	case *ssa.FreeVar:
		// captured by value is not how go/ssa does it, but be complete
		return false
	}
	return false
}

// isMemoryWriter: the io.Writer is a *strings.Builder or *bytes.Buffer.
func isMemoryWriter(v ssa.Value) bool {
	if mi, ok := v.(*ssa.MakeInterface); ok {
		v = mi.X
	}
	return isNamed(derefType(v.Type()), "strings", "Builder") || isNamed(derefType(v.Type()), "bytes", "Buffer")
}

func (c *Ctx) errSites() []errSite {
	var out []errSite
	for _, fn := range c.P.RepoFns {
		allInstrs(fn, func(in ssa.Instruction) {
			call, ok := in.(*ssa.Call)
			if !ok {
				return
			}
			idx := errResultIndex(call.Call.Signature())
			if idx < 0 {
				return
			}
			// constructors of error values are not fallible calls
			if f := staticCallee(&call.Call); isFn(f, "errors", "New") || isFn(f, "fmt", "Errorf") || isFn(f, "errors", "Join") || isFn(f, "errors", "Unwrap") {
				return
			}
			out = append(out, errSite{fn: fn, call: call, errV: resultValue(call, idx)})
		})
	}
	return out
}

// fnHasErrResult reports whether fn's last result is an error.
func fnHasErrResult(fn *ssa.Function) bool { return errResultIndex(fn.Signature) >= 0 }

// errAliases computes the values that carry e onwards inside fn: phis,
// wrapping calls, loads of variables it is stored into.
func errAliases(e ssa.Value) []ssa.Value {
	seen := map[ssa.Value]bool{e: true}
	work := []ssa.Value{e}
	for len(work) > 0 {
		v := work[0]
		work = work[1:]
		for _, r := range referrers(v) {
			switch x := r.(type) {
			case *ssa.Phi:
				if !seen[x] {
					seen[x] = true
					work = append(work, x)
				}
			case *ssa.ChangeInterface:
				if !seen[x] {
					seen[x] = true
					work = append(work, x)
				}
			case *ssa.Call:
				f := staticCallee(&x.Call)
				if isFn(f, "fmt", "Errorf") || isFn(f, "errors", "Join") {
					if !seen[x] {
						seen[x] = true
						work = append(work, x)
					}
				}
			case *ssa.MakeInterface:
				// error stored in an []any for fmt.Errorf
				if !seen[x] {
					seen[x] = true
					work = append(work, x)
				}
			case *ssa.Store:
				if x.Val != v {
					continue
				}
				// variadic slice element of a wrapping call, or a variable
				root := x.Addr
				if ia, ok := root.(*ssa.IndexAddr); ok {
					root = ia.X
				}
				for _, rr := range referrers(root) {
					switch y := rr.(type) {
					case *ssa.UnOp:
						if !seen[y] {
							seen[y] = true
							work = append(work, y)
						}
					case *ssa.Slice:
						for _, r3 := range referrers(y) {
							if cc, ok := r3.(*ssa.Call); ok {
								f := staticCallee(&cc.Call)
								if isFn(f, "fmt", "Errorf") && !seen[cc] {
									seen[cc] = true
									work = append(work, cc)
								}
							}
						}
					}
				}
				// captured variable: loads inside closures are not followed
			}
		}
	}
	out := make([]ssa.Value, 0, len(seen))
	for v := range seen {
		out = append(out, v)
	}
	return out
}

// retErrOperand returns the error operand of a Return of fn, or nil.
func retErrOperand(r *ssa.Return) ssa.Value {
	fn := r.Parent()
	idx := errResultIndex(fn.Signature)
	if idx < 0 || idx >= len(r.Results) {
		return nil
	}
	return spilledResult(r, r.Results[idx])
}

// spilledResult undoes what go/ssa does to the results of a function that has a
// defer: the value is stored into a local result variable, the deferred calls
// run, and the return loads it back (store; rundefers; load; return in one
// block). The value that was stored is what is returned (nothing in the
// repository recovers, so deferred calls cannot change it: they have no access
// to unnamed results).
func spilledResult(r *ssa.Return, v ssa.Value) ssa.Value {
	ld, ok := v.(*ssa.UnOp)
	if !ok || ld.Op != token.MUL || ld.Block() != r.Block() {
		return v
	}
	al, ok := ld.X.(*ssa.Alloc)
	if !ok || al.Heap {
		return v
	}
	// a named result can be changed by a deferred closure; only the spill slot of an anonymous result is undone
	if al.Comment != "" {
		return v
	}
	instrs := r.Block().Instrs
scan:
	for i := instrIndex(ld) - 1; i >= 0; i-- {
		if st, ok := instrs[i].(*ssa.Store); ok && st.Addr == ssa.Value(al) {
			return st.Val
		}
		switch instrs[i].(type) {
		case *ssa.RunDefers, *ssa.UnOp, *ssa.Store:
		default:
			break scan
		}
	}
	return v
}

// isFlagStore: store of the constant true into a bool variable.
func isFlagStore(in ssa.Instruction) (ssa.Value, bool) {
	s, ok := in.(*ssa.Store)
	if !ok {
		return nil, false
	}
	if b, ok := constBool(s.Val); ok && b {
		switch a := s.Addr.(type) {
		case *ssa.Alloc, *ssa.FreeVar:
			return s.Addr, true
		case *ssa.FieldAddr:
			if fieldVarOf(a) != nil {
				return s.Addr, true
			}
		}
	}
	return nil, false
}

// loudFrom decides whether every path starting at block b (entered from
// pred with env) ends in a loud exit, a Return of a non-nil error, or a
// Return after a failure-flag store. It returns a description of the first
// offending exit otherwise.
func (c *Ctx) loudFrom(start *ssa.BasicBlock, env *pathEnv, carried map[ssa.Value]bool) (ok bool, how string, offending string) {
	return c.loudFromCut(start, env, carried, nil)
}

// loudFromCut is loudFrom with paths accepted as soon as cut says so (another
// test of the same error takes over from there).
func (c *Ctx) loudFromCut(start *ssa.BasicBlock, env *pathEnv, carried map[ssa.Value]bool, cut func(in ssa.Instruction) bool) (ok bool, how string, offending string) {
	ok = true
	kinds := map[string]bool{}
	c.explore(start, 0, env, exploreCB{
		instr: func(in ssa.Instruction, e *pathEnv) bool {
			if cut != nil && cut(in) {
				kinds["tested again"] = true
				return true
			}
			if v, isV := in.(ssa.Value); isV {
				delete(e.facts, v) // re-executed: earlier facts about it are stale
			}
			if addr, isFlag := isFlagStore(in); isFlag && c.flagCounts(addr, in) {
				e.flag = true
			}
			return false
		},
		ret: func(r *ssa.Return, e *pathEnv) {
			if e.flag {
				kinds["failure flag set before return"] = true
				return
			}
			op := retErrOperand(r)
			if op == nil {
				ok = false
				if offending == "" {
					offending = fmt.Sprintf("reaches the normal end of %s at %s", load.FnName(r.Parent()), c.P.InstrPos(r))
				}
				return
			}
			rv := e.resolve(op)
			if carried[rv] || carried[op] {
				kinds["returns the error"] = true
				return
			}
			// return logAndReturn(err, "..."): a helper of the repository that hands back the error it was given
			if hc, ok := rv.(*ssa.Call); ok {
				if sf := staticFn(&hc.Call); sf != nil && c.P.IsRepoFn(sf) {
					for i, a := range hc.Call.Args {
						ar := e.resolve(a)
						if (carried[a] || carried[ar] || e.nilnessOf(a) == nonNil) && i < len(sf.Params) && returnsParamOrNonNil(sf, sf.Params[i]) {
							kinds["returns the error (through "+load.FnName(sf)+")"] = true
							return
						}
					}
				}
			}
			switch e.nilnessOf(op) {
			case nonNil:
				kinds["returns a non-nil error"] = true
			default:
				ok = false
				if offending == "" {
					offending = fmt.Sprintf("returns a possibly nil error at %s", c.P.InstrPos(r))
				}
			}
		},
		loud: func(in ssa.Instruction, e *pathEnv) {
			kinds["loud exit ("+c.Loud().LoudKind(in)+")"] = true
		},
	})
	var ks []string
	for k := range kinds {
		ks = append(ks, k)
	}
	return ok, strings.Join(sortStrings(ks), ", "), offending
}

// returnsParamOrNonNil: every return of fn yields its parameter p, a wrapping of it
// (fmt.Errorf with p as an argument) or a freshly constructed error, at the error result.
func returnsParamOrNonNil(fn *ssa.Function, p *ssa.Parameter) bool {
	if len(fn.Blocks) == 0 {
		return false
	}
	ok, n := true, 0
	allInstrs(fn, func(in ssa.Instruction) {
		r, isRet := in.(*ssa.Return)
		if !isRet {
			return
		}
		op := retErrOperand(r)
		if op == nil {
			ok = false
			return
		}
		n++
		var good func(v ssa.Value, d int) bool
		good = func(v ssa.Value, d int) bool {
			if d > 3 {
				return false
			}
			switch x := v.(type) {
			case *ssa.Parameter:
				return x == p
			case *ssa.Phi:
				for _, e := range x.Edges {
					if !good(e, d+1) {
						return false
					}
				}
				return true
			case *ssa.MakeInterface:
				return true // a constructed error value
			case *ssa.Call:
				f := staticCallee(&x.Call)
				return isFn(f, "fmt", "Errorf") || isFn(f, "errors", "New") || isFn(f, "errors", "Join")
			}
			return false
		}
		if !good(op, 0) {
			ok = false
		}
	})
	return ok && n > 0
}

func sortStrings(s []string) []string {
	for i := 1; i < len(s); i++ {
		for j := i; j > 0 && s[j] < s[j-1]; j-- {
			s[j], s[j-1] = s[j-1], s[j]
		}
	}
	return s
}

// pureBlock: only side-effect-free instructions before the terminator.
func pureBlock(b *ssa.BasicBlock) bool {
	for _, in := range b.Instrs[:len(b.Instrs)-1] {
		switch x := in.(type) {
		case *ssa.BinOp, *ssa.UnOp, *ssa.Phi, *ssa.Extract, *ssa.Convert, *ssa.ChangeType, *ssa.FieldAddr, *ssa.IndexAddr, *ssa.Field, *ssa.Index, *ssa.Lookup, *ssa.DebugRef, *ssa.Slice:
		case *ssa.Call:
			if b, ok := x.Call.Value.(*ssa.Builtin); ok && (b.Name() == "len" || b.Name() == "cap") {
				continue
			}
			f := staticCallee(&x.Call)
			if isFn(f, "errors", "Is") || isFn(f, "errors", "As") {
				continue
			}
			return false
		default:
			return false
		}
	}
	return true
}

// RuleErr runs ERR-DROP and ERR-HANDLE over every call site of the repository
// whose callee returns an error.
func (c *Ctx) RuleErr() (drop, handle *Result) {
	drop = &Result{Rule: "ERR-DROP", MinInst: 100}
	handle = &Result{Rule: "ERR-HANDLE", MinInst: 100}
	var dropSites, handleSites []ssa.Instruction
	if c.errVerdicts == nil {
		c.errVerdicts = map[ssa.Instruction]Obligation{}
	}
	for _, s := range c.errSites() {
		fnName := load.FnName(s.fn)
		callee := calleeLabel(&s.call.Call)
		key := fnName + ":" + callee
		pos := c.P.InstrPos(s.call)
		if why, ok := reasonedDrop(s.call); ok {
			_ = why
			continue
		}
		drop.Instances++
		handle.Instances++
		var uses []ssa.Instruction
		if s.errV != nil {
			for _, r := range referrers(s.errV) {
				if _, dbg := r.(*ssa.DebugRef); !dbg {
					uses = append(uses, r)
				}
			}
		}
		if len(uses) == 0 {
			drop.bad(key, pos, "the error result of "+callee+" is discarded")
			dropSites = append(dropSites, s.call)
			continue
		}
		drop.ok(key, pos, "error result is used")
		dropSites = append(dropSites, s.call)

		aliases := errAliases(s.errV)
		carried := map[ssa.Value]bool{}
		for _, a := range aliases {
			carried[a] = true
		}
		handled, how, worst := false, "", ""
		tests := 0
		// (1) every nil test of the error has a failing non-nil side. A path that reaches another
		// nil test of the same error is that test's business.
		{
			testIfs := map[ssa.Instruction]bool{}
			type tst struct {
				a   ssa.Value
				br  condBranch
				tmn bool
			}
			var all []tst
			var sentinelTests []condBranch
			for _, a := range aliases {
				for _, r := range referrers(a) {
					bin, ok := r.(*ssa.BinOp)
					if !ok {
						continue
					}
					_, trueMeansNil, isTest := nilTest(bin)
					if !isTest {
						continue
					}
					for _, br := range condBranches(bin) {
						testIfs[br.iff] = true
						all = append(all, tst{a, br, trueMeansNil})
					}
				}
			}
			// errors.Is / errors.As on the error: it is non-nil on the true side, which must fail as well
			for _, a := range aliases {
				for _, r := range referrers(a) {
					call, ok := r.(*ssa.Call)
					if !ok || len(call.Call.Args) == 0 || call.Call.Args[0] != a {
						continue
					}
					f := staticCallee(&call.Call)
					if !(isFn(f, "errors", "Is") || isFn(f, "errors", "As")) {
						continue
					}
					// errors.Is(err, io.EOF): the end of the input, not a failure; errors.Is(err, errX) with errX a
					// sentinel the repository defines itself: a classification the repository introduced on
					// purpose ("not a rule file"). The true side is harmless; the other side still has to
					// deal with a non-nil error of another kind.
					if isFn(f, "errors", "Is") && len(call.Call.Args) == 2 && (isIoEOF(call.Call.Args[1]) || isRepoSentinel(call.Call.Args[1])) {
						for _, br := range condBranches(call) {
							testIfs[br.iff] = true
							sentinelTests = append(sentinelTests, condBranch{br.iff, br.neg})
						}
						continue
					}
					for _, br := range condBranches(call) {
						testIfs[br.iff] = true
						// "cond true <=> non-nil": modelled as a test whose true side is the non-nil side
						all = append(all, tst{a, br, false})
						// when the error is already known to be non-nil where it is classified, the
						// other side is a failure of another kind and must fail as well
						if domFacts(br.iff.Block())[a] == nonNil {
							all = append(all, tst{a, condBranch{br.iff, !br.neg}, false})
						}
					}
				}
			}
			// err == ErrSomething / err != ErrSomething: a classification of an error that may still be nil
			// or of another kind on the other side; that side must reach a real test of the error (or fail)
			for _, a := range aliases {
				for _, r := range referrers(a) {
					bin, ok := r.(*ssa.BinOp)
					if !ok || !(bin.Op == token.EQL || bin.Op == token.NEQ) {
						continue
					}
					if _, _, isNil := nilTest(bin); isNil {
						continue
					}
					other := bin.Y
					if other == a {
						other = bin.X
					}
					if !isErrorType(other.Type()) {
						continue
					}
					for _, br := range condBranches(bin) {
						testIfs[br.iff] = true
						// the side on which the error is NOT the sentinel
						neg := br.neg
						if bin.Op == token.NEQ {
							neg = !neg
						}
						sentinelTests = append(sentinelTests, condBranch{br.iff, neg})
					}
				}
			}
			tests = len(all) + len(sentinelTests)
			okTests := len(sentinelTests)
			// edges on which the error is known to be nil or the sentinel: a test that can only be
			// reached over such edges classifies a value that is not a failure of another kind
			harmless := map[[2]*ssa.BasicBlock]bool{}
			for _, t := range all {
				nilSide := 1
				if t.tmn != t.br.neg {
					nilSide = 0
				}
				blk := t.br.iff.Block()
				harmless[[2]*ssa.BasicBlock{blk, blk.Succs[nilSide]}] = true
			}
			for _, stt := range sentinelTests {
				side := 0
				if stt.neg {
					side = 1
				}
				blk := stt.iff.Block()
				harmless[[2]*ssa.BasicBlock{blk, blk.Succs[side]}] = true
			}
			reachesWithOtherFailure := func(target *ssa.BasicBlock) bool {
				start := s.call.Block()
				if start == target {
					return true
				}
				seen := map[*ssa.BasicBlock]bool{start: true}
				stack := []*ssa.BasicBlock{start}
				for len(stack) > 0 {
					x := stack[len(stack)-1]
					stack = stack[:len(stack)-1]
					if c.Loud().BlockDies(x) {
						continue
					}
					for _, sc := range x.Succs {
						if harmless[[2]*ssa.BasicBlock{x, sc}] || seen[sc] {
							continue
						}
						if sc == target {
							return true
						}
						seen[sc] = true
						stack = append(stack, sc)
					}
				}
				return false
			}
			for _, stt := range sentinelTests {
				if !reachesWithOtherFailure(stt.iff.Block()) {
					continue // only reached with nil or with the sentinel: nothing else to classify
				}
				// other side: index 1 when cond true means "is the sentinel"
				side := 1
				if stt.neg {
					side = 0
				}
				blk := stt.iff.Block()
				target := blk.Succs[side]
				env := newEnvAt(blk)
				env.enter(target, blk)
				self := stt.iff
				reachedPlainReturn := ""
				c.explore(target, 0, env, exploreCB{
					instr: func(in ssa.Instruction, e *pathEnv) bool { return testIfs[in] && in != ssa.Instruction(self) },
					ret: func(r *ssa.Return, e *pathEnv) {
						op := retErrOperand(r)
						if op != nil && (carried[op] || carried[e.resolve(op)]) {
							return
						}
						if op != nil && e.nilnessOf(op) == nonNil {
							return
						}
						if reachedPlainReturn == "" {
							reachedPlainReturn = c.P.InstrPos(r)
						}
					},
				})
				if reachedPlainReturn != "" {
					okTests--
					if worst == "" {
						worst = "the error is only compared with one particular error value (" + c.P.InstrPos(stt.iff) + "); every other failure reaches the successful return at " + reachedPlainReturn
					}
				}
			}
			var hows []string
			for _, t := range all {
				succ := 1
				if !t.tmn != t.br.neg { // cond true <=> non-nil (after negations)
					succ = 0
				}
				blk := t.br.iff.Block()
				if len(sentinelTests) > 0 && !reachesWithOtherFailure(blk) {
					// only reached with a nil error or with the sentinel (the end of the input): the
					// failures of another kind were dealt with before
					okTests++
					hows = append(hows, "other failures are dealt with before this test")
					continue
				}
				target := blk.Succs[succ]
				mkEnv := func() *pathEnv {
					env := newEnvAt(blk)
					env.facts[t.a] = nonNil
					env.facts[s.errV] = nonNil
					return env
				}
				cut := func(in ssa.Instruction) bool { return testIfs[in] }
				env := mkEnv()
				env.enter(target, blk)
				ok2, h, off := c.loudFromCut(target, env, carried, cut)
				if ok2 {
					okTests++
					hows = append(hows, h)
					continue
				}
				// conjunctive guard about the failed call's own input: err != nil && len(input) > 0
				okConj := false
				if pureBlock(target) && conjunctAbout(target, s.call, aliases) && !conjunctOnError(target, aliases) {
					for si, s2 := range target.Succs {
						env2 := mkEnv()
						env2.enter(target, blk)
						if !env2.branch(target, si) {
							continue
						}
						env2.enter(s2, target)
						if ok3, h3, _ := c.loudFromCut(s2, env2, carried, cut); ok3 {
							okConj = true
							hows = append(hows, "conjunctive guard, failing side: "+h3)
						}
					}
				}
				if okConj {
					okTests++
					continue
				}
				if worst == "" {
					worst = off
				}
			}
			if tests > 0 && okTests == tests {
				handled, how = true, "non-nil side: "+strings.Join(uniq(hows), "; ")
				// and no way to a successful return that never looks at the error
				if blk := s.call.Block(); blk != nil {
					env := newEnvAt(blk)
					unexamined := ""
					c.explore(blk, instrIndex(s.call)+1, env, exploreCB{
						instr: func(in ssa.Instruction, e *pathEnv) bool { return testIfs[in] },
						ret: func(r *ssa.Return, e *pathEnv) {
							op := retErrOperand(r)
							if op != nil && (carried[op] || carried[e.resolve(op)]) {
								return
							}
							if op != nil && e.nilnessOf(op) == nonNil {
								return
							}
							// the return is taken on a value of another result of the same call for which the
							// callee always hands back a nil error ("not matched, nothing to report")
							if c.siblingResultImpliesNilErr(r, s.call) {
								return
							}
							if unexamined == "" {
								unexamined = c.P.InstrPos(r)
							}
						},
					})
					if unexamined != "" {
						handled = false
						worst = "the function can return at " + unexamined + " before the error is looked at: when the call failed that path reports success"
					}
				}
			}
		}
		// (2) never tested, and an alias is the error operand of a Return: propagated as it is.
		// (When the error is tested, the non-nil side decides: returning nil there is a swallowed failure
		// even if the variable is returned somewhere else.)
		if !handled && tests == 0 {
			for _, a := range aliases {
				for _, r := range referrers(a) {
					if ret, ok := r.(*ssa.Return); ok && retErrOperand(ret) == a {
						handled, how = true, "propagated to the caller"
					}
				}
			}
		}
		// (3) a predicate: the function has one result, a bool, and answers false wherever the error is
		// not nil ("can the file be read and does it hold X"): the failure is its answer, and what the
		// caller does on false is the caller's business
		if !handled {
			if pf := s.call.Parent(); pf != nil && pf.Signature.Results().Len() == 1 {
				if bt, isB := pf.Signature.Results().At(0).Type().Underlying().(*types.Basic); isB && bt.Kind() == types.Bool {
					nTests, allFalse := 0, true
					for _, a := range aliases {
						for _, r := range referrers(a) {
							b, isBin := r.(*ssa.BinOp)
							if !isBin || !(b.Op == token.NEQ || b.Op == token.EQL) || !(isNilConst(b.X) || isNilConst(b.Y)) {
								continue
							}
							for _, br := range condBranches(b) {
								nTests++
								// the successor taken when the error is not nil
								nonNilSucc := 0
								if (b.Op == token.EQL) != br.neg {
									nonNilSucc = 1
								}
								blk := br.iff.Block()
								target := blk.Succs[nonNilSucc]
								env := newEnvAt(blk)
								env.enter(target, blk)
								c.explore(target, 0, env, exploreCB{
									ret: func(rt *ssa.Return, e *pathEnv) {
										if bv, isC := constBool(rt.Results[0]); !isC || bv {
											allFalse = false
										}
									},
								})
							}
						}
					}
					if nTests > 0 && allFalse {
						handled, how = true, "a predicate that answers false when the call fails"
					}
				}
			}
		}
		handleSites = append(handleSites, s.call)
		if handled {
			handle.ok(key, pos, how)
		} else {
			if worst == "" {
				worst = "no nil test of the error leads to a failure exit and it is not returned"
			}
			handle.bad(key, pos, "error of "+callee+" is looked at but not treated as a failure: "+worst)
		}
	}
	drop.Dedup()
	handle.Dedup()
	c.errDropKey, c.errHandleKey = map[ssa.Instruction]string{}, map[ssa.Instruction]string{}
	for i, ob := range drop.Obls {
		c.errDropKey[dropSites[i]] = ob.Key
		if ob.Verdict == Violated {
			if _, ex := c.ExemptReason(ob.Rule, ob.Key); ex {
				ob.Verdict = Exempt
			}
			c.errVerdicts[dropSites[i]] = ob
		}
	}
	for i, ob := range handle.Obls {
		c.errHandleKey[handleSites[i]] = ob.Key
		if _, ex := c.ExemptReason(ob.Rule, ob.Key); ex && ob.Verdict == Violated {
			ob.Verdict = Exempt
		}
		c.errVerdicts[handleSites[i]] = ob
	}
	return drop, handle
}

type condBranch struct {
	iff *ssa.If
	neg bool
}

// condBranches finds the If instructions controlled by cond (through
// negations).
func condBranches(cond ssa.Value) []condBranch {
	var out []condBranch
	var walk func(v ssa.Value, neg bool, depth int)
	walk = func(v ssa.Value, neg bool, depth int) {
		if depth > 4 {
			return
		}
		for _, r := range referrers(v) {
			switch x := r.(type) {
			case *ssa.If:
				out = append(out, condBranch{x, neg})
			case *ssa.UnOp:
				if x.Op.String() == "!" {
					walk(x, !neg, depth+1)
				}
			}
		}
	}
	walk(cond, false, 0)
	return out
}

// siblingResultImpliesNilErr: the return r is only reached over an edge that tests a bool result of
// call (found, matched, ok), and whenever the callee - a function of the repository - returns that
// value for that result, its error result is the constant nil.
func (c *Ctx) siblingResultImpliesNilErr(r *ssa.Return, call *ssa.Call) bool {
	H := staticFn(&call.Call)
	if H == nil || !c.P.IsRepoFn(H) || len(H.Blocks) == 0 {
		return false
	}
	res := H.Signature.Results()
	errIdx := -1
	for i := 0; i < res.Len(); i++ {
		if isErrorType(res.At(i).Type()) {
			errIdx = i
		}
	}
	if errIdx < 0 {
		return false
	}
	pred := func(cond ssa.Value, val bool) bool {
		ex, ok := cond.(*ssa.Extract)
		if !ok || ex.Tuple != ssa.Value(call) || ex.Index == errIdx {
			return false
		}
		if bt, isB := ex.Type().Underlying().(*types.Basic); !isB || bt.Kind() != types.Bool {
			return false
		}
		good, n := true, 0
		allInstrs(H, func(in ssa.Instruction) {
			rt, isRet := in.(*ssa.Return)
			if !isRet || len(rt.Results) <= errIdx || len(rt.Results) <= ex.Index {
				return
			}
			bv, isC := constBool(rt.Results[ex.Index])
			if !isC {
				good = false // the flag is computed: cannot tell which returns carry this value
				return
			}
			if bv != val {
				return
			}
			n++
			if !isNilConst(rt.Results[errIdx]) {
				good = false
			}
		})
		return good && n > 0
	}
	return c.guardedByEdges(r, pred)
}

// RuleErrFlags checks that every failure flag (bool variable set to true in
// an error handler) is read back and that its true side can fail.
func (c *Ctx) RuleErrFlags() *Result {
	res := &Result{Rule: "ERR-FLAG", MinInst: 2}
	for _, fn := range c.P.RepoFns {
		allInstrs(fn, func(in ssa.Instruction) {
			al, ok := in.(*ssa.Alloc)
			if !ok {
				return
			}
			if bt, isB := derefType(al.Type()).Underlying().(*types.Basic); !isB || bt.Kind() != types.Bool {
				return
			}
			owner := al.Parent()
			name := allocName(al)
			key := load.FnName(owner) + ":flag " + name
			// a failure flag: some load of it guards a path that fails
			okAny := false
			for _, r := range referrers(al) {
				ld, isLoad := r.(*ssa.UnOp)
				if !isLoad || ld.Op.String() != "*" {
					continue
				}
				for _, br := range condBranches(ld) {
					blk := br.iff.Block()
					succ := 0
					if br.neg {
						succ = 1
					}
					target := blk.Succs[succ]
					found := false
					env := newEnvAt(blk)
					env.enter(target, blk)
					c.explore(target, 0, env, exploreCB{
						ret: func(r *ssa.Return, e *pathEnv) {
							if op := retErrOperand(r); op != nil && e.nilnessOf(op) == nonNil {
								found = true
							}
						},
					})
					// the other side must be able to succeed (otherwise the variable is not a verdict)
					other := blk.Succs[1-succ]
					canSucceed := false
					env2 := newEnvAt(blk)
					env2.enter(other, blk)
					c.explore(other, 0, env2, exploreCB{
						ret: func(r *ssa.Return, e *pathEnv) {
							if op := retErrOperand(r); op != nil && e.nilnessOf(op) == isNil {
								canSucceed = true
							}
						},
					})
					if found && canSucceed {
						okAny = true
					}
				}
			}
			// only variables written inside a closure (per-item verdicts collected by a walk) are flags
			inClosure := false
			latched := true
			var scan func(v ssa.Value, depth int)
			scan = func(v ssa.Value, depth int) {
				for _, r := range referrers(v) {
					switch x := r.(type) {
					case *ssa.Store:
						if x.Addr != v {
							continue
						}
						if depth > 0 {
							inClosure = true
						}
						if bv, isC := constBool(x.Val); !isC || (!bv && depth > 0) {
							if depth > 0 || !isC {
								latched = false
							}
						}
					case *ssa.MakeClosure:
						for i, b := range x.Bindings {
							if b == v {
								if cf, ok := x.Fn.(*ssa.Function); ok && i < len(cf.FreeVars) {
									scan(cf.FreeVars[i], depth+1)
								}
							}
						}
					}
				}
			}
			scan(al, 0)
			if !okAny || !inClosure {
				return
			}
			res.Instances++
			if !latched {
				res.bad(key, c.P.Pos(al.Pos()), "the failure flag "+name+" is assigned a computed value (or reset) inside the per-item callback: a later success overwrites an earlier failure, so the run reports success although one item failed")
				return
			}
			res.ok(key, c.P.Pos(al.Pos()), "flag is latched (the callback only ever sets it to true), read back after the walk, and its true side fails")
		})
	}
	// failure flags kept in a struct field (a walk callback turned into a method)
	seenField := map[*types.Var]bool{}
	for _, fn := range c.P.RepoFns {
		allInstrs(fn, func(in ssa.Instruction) {
			fa, ok := in.(*ssa.FieldAddr)
			if !ok {
				return
			}
			f := fieldVarOf(fa)
			if f == nil || seenField[f] {
				return
			}
			if bt, isB := f.Type().Underlying().(*types.Basic); !isB || bt.Kind() != types.Bool {
				return
			}
			if pk, _ := namedOf(fa.X.Type()); !load.InModule(pk) {
				return
			}
			seenField[f] = true
			stores, loads := c.fieldAccesses(f)
			if len(stores) == 0 || len(loads) == 0 {
				return
			}
			// a verdict: some load guards a failing side whose other side can succeed
			verdict := false
			for _, ld := range loads {
				for _, br := range condBranches(ld) {
					blk := br.iff.Block()
					succ := 0
					if br.neg {
						succ = 1
					}
					fails, succeeds := false, false
					for si, t := range blk.Succs {
						env := newEnvAt(blk)
						env.enter(t, blk)
						c.explore(t, 0, env, exploreCB{
							ret: func(r *ssa.Return, e *pathEnv) {
								op := retErrOperand(r)
								if op == nil {
									return
								}
								if si == succ && e.nilnessOf(op) == nonNil {
									fails = true
								}
								if si != succ && e.nilnessOf(op) == isNil {
									succeeds = true
								}
							},
						})
					}
					if fails && succeeds {
						verdict = true
					}
				}
			}
			if !verdict {
				return
			}
			// an option, not a verdict: the field is only ever set to a constant or to what a setter
			// or constructor is handed (configuration that a caller chose, e.g. from a command-line flag)
			option, computed := false, false
			for _, st := range stores {
				switch st.Val.(type) {
				case *ssa.Parameter:
					option = true
				case *ssa.Const:
				default:
					computed = true
				}
			}
			if option && !computed {
				return
			}
			res.Instances++
			_, tn := namedOf(fa.X.Type())
			key := fmt.Sprintf("%s.%s:flag field", tn, f.Name())
			latched := true
			for _, st := range stores {
				// stores in the function that builds the object (composite literal) are initialisation
				if _, isAlloc := st.Addr.(*ssa.FieldAddr).X.(*ssa.Alloc); isAlloc {
					continue
				}
				if bv, isC := constBool(st.Val); !isC || !bv {
					latched = false
				}
			}
			if latched {
				res.ok(key, c.P.Pos(f.Pos()), "flag field is latched (only ever set to true after construction), read back, and its true side fails")
			} else {
				res.bad(key, c.P.Pos(f.Pos()), "the failure flag "+f.Name()+" is assigned a computed value (or reset) per item: a later success overwrites an earlier failure")
			}
		})
	}
	return res
}

func flagSetUnderErrTest(al *ssa.Alloc, c *Ctx) bool { return true }

// condBranchesDeep: like condBranches but also through && / || chains
// (a loaded flag used as a plain condition of an If in short-circuit form).
func condBranchesDeep(v ssa.Value) []condBranch { return condBranches(v) }

// allocOf maps a store address (Alloc or FreeVar of a closure) to the Alloc.
func allocOf(addr ssa.Value, fn *ssa.Function) *ssa.Alloc {
	switch a := addr.(type) {
	case *ssa.Alloc:
		return a
	case *ssa.FreeVar:
		// find the binding in the parent's MakeClosure
		parent := fn.Parent()
		if parent == nil {
			return nil
		}
		idx := -1
		for i, fv := range fn.FreeVars {
			if fv == a {
				idx = i
			}
		}
		var out *ssa.Alloc
		allInstrs(parent, func(in ssa.Instruction) {
			if mc, ok := in.(*ssa.MakeClosure); ok && mc.Fn == fn && idx >= 0 && idx < len(mc.Bindings) {
				out = allocOf(mc.Bindings[idx], parent)
			}
		})
		return out
	}
	return nil
}

func allocName(al *ssa.Alloc) string {
	if al.Comment != "" {
		return al.Comment
	}
	return al.Name()
}

// RuleErrLog: after an error-level log emission no path may return success.
func (c *Ctx) RuleErrLog() *Result {
	res := &Result{Rule: "ERR-LOG", MinInst: 25}
	lm := c.Loud()
	for _, fn := range c.P.RepoFns {
		n := 0
		for _, em := range lm.emissions[fn] {
			if em.Level != "error" {
				continue
			}
			n++
			res.Instances++
			key := load.FnName(fn) + ":error-log"
			pos := c.P.InstrPos(em.Term)
			blk := em.Term.Block()
			if call := c.failedCallGuarding(blk); call != nil {
				if v, have := c.ErrVerdicts()[call]; have && v.Verdict == Exempt {
					res.ok(key, pos, "the emission is the handler of "+calleeLabel(&call.Call)+", which cannot fail here (reviewed exemption of ERR-HANDLE): unreachable")
					continue
				}
			}
			env := newEnvAt(blk)
			bad := ""
			c.explore(blk, instrIndex(em.Term)+1, env, exploreCB{
				instr: func(in ssa.Instruction, e *pathEnv) bool {
					if v, isV := in.(ssa.Value); isV {
						delete(e.facts, v)
					}
					if addr, isFlag := isFlagStore(in); isFlag && c.flagCounts(addr, in) {
						e.flag = true
					}
					return false
				},
				ret: func(r *ssa.Return, e *pathEnv) {
					if e.flag || bad != "" {
						return
					}
					op := retErrOperand(r)
					if op == nil {
						bad = fmt.Sprintf("after logging at error level, %s carries on to its normal end at %s (no error result to report the failure)", load.FnName(fn), c.P.InstrPos(r))
						return
					}
					if e.nilnessOf(op) == isNil {
						bad = fmt.Sprintf("after logging at error level, a nil error is returned at %s", c.P.InstrPos(r))
					}
				},
			})
			if bad != "" {
				res.bad(key, pos, bad)
			} else {
				res.ok(key, pos, "every path after the emission fails (non-nil error, flag, or loud exit)")
			}
		}
	}
	return res
}

// emissionLabel gives a line-free label for an emission: the constant message
// when there is one.
func emissionLabel(em LogEmission) string {
	for _, a := range em.Term.Call.Args[1:] {
		if s, ok := constString(a); ok {
			if len(s) > 48 {
				s = s[:48]
			}
			return s
		}
	}
	return "dynamic message"
}

// RuleErrEvent: every zerolog event chain is terminated.
func (c *Ctx) RuleErrEvent() *Result {
	res := &Result{Rule: "ERR-EVENT", MinInst: 100}
	lm := c.Loud()
	for _, fn := range c.P.RepoFns {
		res.Instances += len(lm.emissions[fn])
		for _, em := range lm.emissions[fn] {
			_ = em
		}
		if n := len(lm.emissions[fn]); n > 0 {
			res.ok(load.FnName(fn)+":terminated chains", c.P.FnPos(fn), fmt.Sprintf("%d event chains end in Msg/Msgf/Send", n))
		}
		for _, d := range lm.dangling[fn] {
			res.Instances++
			_, level := walkEventChain(d)
			if level == "" {
				continue // not a log event: a zerolog.Dict() being filled, or the event handed to a Func callback
			}
			res.bad(load.FnName(fn)+":unterminated "+level+" event", c.P.InstrPos(d), "zerolog event at level "+level+" is never sent: it neither logs nor (for fatal) ends the process")
		}
	}
	return res
}

// RuleErrExit: the error returned by cobra's Execute becomes a non-zero exit.
func (c *Ctx) RuleErrExit() *Result {
	res := &Result{Rule: "ERR-EXIT", MinInst: 1}
	for _, s := range c.errSites() {
		f := staticCallee(&s.call.Call)
		if !(isMeth(f, cobraPkg, "Command", "Execute") || isMeth(f, cobraPkg, "Command", "ExecuteC") || isMeth(f, cobraPkg, "Command", "ExecuteContext")) {
			continue
		}
		res.Instances++
		key := load.FnName(s.fn) + ":" + qualName(f)
		pos := c.P.InstrPos(s.call)
		if s.errV == nil {
			res.bad(key, pos, "the error returned by the command tree is discarded: failures exit with status 0")
			continue
		}
		okAll := false
		detail := "the error of Execute is not turned into a non-zero exit status"
		for _, r := range referrers(s.errV) {
			bin, ok := r.(*ssa.BinOp)
			if !ok {
				continue
			}
			_, trueMeansNil, isTest := nilTest(bin)
			if !isTest {
				continue
			}
			for _, br := range condBranches(bin) {
				succ := 1
				if !trueMeansNil != br.neg {
					succ = 0
				}
				blk := br.iff.Block()
				env := newEnvAt(blk)
				env.facts[s.errV] = nonNil
				target := blk.Succs[succ]
				env.enter(target, blk)
				all := true
				c.explore(target, 0, env, exploreCB{
					ret: func(r *ssa.Return, e *pathEnv) {
						if op := retErrOperand(r); op == nil || e.nilnessOf(op) != nonNil {
							all = false
						}
					},
				})
				if all {
					okAll = true
				}
			}
		}
		if okAll {
			res.ok(key, pos, "non-nil side of the test ends in a loud exit (os.Exit with a non-zero constant) on every path")
		} else {
			res.bad(key, pos, detail)
		}
	}
	// main must reach it
	return res
}

// typesSigOf is a helper for other rules.
func typesSigOf(fn *ssa.Function) *types.Signature { return fn.Signature }

// flagCounts: does setting this failure flag amount to reporting the failure?
// Yes if every path from the flag's test (true side) fails; or if the store is
// only reached when errors.Is/As recognised an expected failure kind (then
// the flag's weaker, documented meaning applies: compare --all in text mode).
func (c *Ctx) flagCounts(addr ssa.Value, store ssa.Instruction) bool {
	fn := store.Block().Parent()
	isErrKindF := func(cond ssa.Value, val bool) bool {
		call, ok := cond.(*ssa.Call)
		if !ok || !val {
			return false
		}
		f := staticCallee(&call.Call)
		return isFn(f, "errors", "Is") || isFn(f, "errors", "As")
	}
	if fa, ok := addr.(*ssa.FieldAddr); ok {
		f := fieldVarOf(fa)
		if f == nil {
			return false
		}
		if c.fieldStrong == nil {
			c.fieldStrong = map[*types.Var]bool{}
			c.fieldKnown = map[*types.Var]bool{}
		}
		if !c.fieldKnown[f] {
			c.fieldKnown[f] = true
			_, loads := c.fieldAccesses(f)
			c.fieldStrong[f] = c.strongFlagLoads(loads)
		}
		return c.fieldStrong[f] || c.guardedByEdges(store, isErrKindF)
	}
	al := allocOf(addr, fn)
	if al == nil {
		return false
	}
	if c.flagStrong == nil {
		c.flagStrong = map[*ssa.Alloc]bool{}
		c.flagKnown = map[*ssa.Alloc]bool{}
	}
	if !c.flagKnown[al] {
		c.flagKnown[al] = true
		strong := false
		for _, r := range referrers(al) {
			ld, isLoad := r.(*ssa.UnOp)
			if !isLoad || ld.Op.String() != "*" {
				continue
			}
			for _, br := range condBranches(ld) {
				blk := br.iff.Block()
				succ := 0
				if br.neg {
					succ = 1
				}
				target := blk.Succs[succ]
				all, any := true, false
				env := newEnvAt(blk)
				env.enter(target, blk)
				c.explore(target, 0, env, exploreCB{
					ret: func(r *ssa.Return, e *pathEnv) {
						any = true
						if op := retErrOperand(r); op == nil || e.nilnessOf(op) != nonNil {
							all = false
						}
					},
					loud: func(in ssa.Instruction, e *pathEnv) { any = true },
				})
				if all && any {
					strong = true
				}
			}
		}
		// the flag is handed back to the caller as a result: every caller must treat "true" as a failure
		if !strong {
			P := al.Parent()
			for _, r := range referrers(al) {
				ld, isLoad := r.(*ssa.UnOp)
				if !isLoad || ld.Op.String() != "*" {
					continue
				}
				for _, rr := range referrers(ld) {
					ret, isRet := rr.(*ssa.Return)
					if !isRet {
						continue
					}
					ri := -1
					for i, rv := range ret.Results {
						if rv == ssa.Value(ld) {
							ri = i
						}
					}
					if ri < 0 {
						continue
					}
					n, allStrong := 0, true
					for _, e := range c.Graph().In[P] {
						call, ok := e.Site.(*ssa.Call)
						if !ok || staticFn(&call.Call) != P {
							continue
						}
						n++
						rv := resultValue(call, ri)
						if rv == nil {
							allStrong = false
							continue
						}
						var lds []*ssa.UnOp
						_ = lds
						okSite := false
						for _, br := range condBranches(rv) {
							blk := br.iff.Block()
							succ := 0
							if br.neg {
								succ = 1
							}
							target := blk.Succs[succ]
							all, any := true, false
							env := newEnvAt(blk)
							env.enter(target, blk)
							c.explore(target, 0, env, exploreCB{
								ret: func(r2 *ssa.Return, e2 *pathEnv) {
									any = true
									if op := retErrOperand(r2); op == nil || e2.nilnessOf(op) != nonNil {
										all = false
									}
								},
								loud: func(in ssa.Instruction, e2 *pathEnv) { any = true },
							})
							if all && any {
								okSite = true
							}
						}
						if !okSite {
							allStrong = false
						}
					}
					if n > 0 && allStrong {
						strong = true
					}
				}
			}
		}
		c.flagStrong[al] = strong
	}
	if c.flagStrong[al] {
		return true
	}
	isErrKind := func(cond ssa.Value, val bool) bool {
		call, ok := cond.(*ssa.Call)
		if !ok || !val {
			return false
		}
		f := staticCallee(&call.Call)
		return isFn(f, "errors", "Is") || isFn(f, "errors", "As")
	}
	return c.guardedByEdges(store, isErrKind)
}

// conjunctOnError: the branch condition of block b looks at the error itself (errors.Is/As):
// the error is non-nil on both sides, so both must fail.
func conjunctOnError(b *ssa.BasicBlock, aliases []ssa.Value) bool {
	iff, ok := b.Instrs[len(b.Instrs)-1].(*ssa.If)
	if !ok {
		return false
	}
	cond, _ := unwrapNot(iff.Cond)
	call, ok := cond.(*ssa.Call)
	if !ok {
		return false
	}
	f := staticCallee(&call.Call)
	return isFn(f, "errors", "Is") || isFn(f, "errors", "As")
}

// conjunctAbout: the branch condition of block b only looks at arguments of
// the failed call (len(s) > 0 for ParseUint(s, ...)) or at the error itself
// (errors.Is/As).
func conjunctAbout(b *ssa.BasicBlock, call *ssa.Call, aliases []ssa.Value) bool {
	iff, ok := b.Instrs[len(b.Instrs)-1].(*ssa.If)
	if !ok {
		return false
	}
	allowed := map[ssa.Value]bool{}
	for _, a := range call.Call.Args {
		allowed[a] = true
	}
	for _, a := range aliases {
		allowed[a] = true
	}
	var ok2 func(v ssa.Value, d int) bool
	ok2 = func(v ssa.Value, d int) bool {
		if d > 6 {
			return false
		}
		if allowed[v] {
			return true
		}
		switch x := v.(type) {
		case *ssa.Const:
			return true
		case *ssa.BinOp:
			return ok2(x.X, d+1) && ok2(x.Y, d+1)
		case *ssa.UnOp:
			return ok2(x.X, d+1)
		case *ssa.Call:
			if bi, isB := x.Call.Value.(*ssa.Builtin); isB && bi.Name() == "len" {
				return ok2(x.Call.Args[0], d+1)
			}
			f := staticCallee(&x.Call)
			if isFn(f, "errors", "Is") || isFn(f, "errors", "As") {
				return ok2(x.Call.Args[0], d+1)
			}
			return false
		case *ssa.MakeInterface, *ssa.ChangeInterface:
			return true
		case *ssa.Alloc:
			return true
		}
		return false
	}
	return ok2(iff.Cond, 0)
}

func instrInEntryBlock(in ssa.Instruction) bool {
	return in.Block() == in.Block().Parent().Blocks[0]
}

// fieldVarOf returns the struct field a FieldAddr addresses.
func fieldVarOf(fa *ssa.FieldAddr) *types.Var {
	st, ok := derefType(fa.X.Type()).Underlying().(*types.Struct)
	if !ok {
		return nil
	}
	return st.Field(fa.Field)
}

// fieldAccesses collects, over the repository, the stores to and loads of a struct field.
func (c *Ctx) fieldAccesses(f *types.Var) (stores []*ssa.Store, loads []*ssa.UnOp) {
	for _, fn := range c.P.RepoFns {
		allInstrs(fn, func(in ssa.Instruction) {
			fa, ok := in.(*ssa.FieldAddr)
			if !ok || fieldVarOf(fa) != f {
				return
			}
			for _, r := range referrers(fa) {
				switch x := r.(type) {
				case *ssa.Store:
					if x.Addr == ssa.Value(fa) {
						stores = append(stores, x)
					}
				case *ssa.UnOp:
					if x.Op.String() == "*" {
						loads = append(loads, x)
					}
				}
			}
		})
	}
	return
}

// strongFlagLoads: does some load of the flag guard a side on which every path fails?
func (c *Ctx) strongFlagLoads(loads []*ssa.UnOp) bool {
	for _, ld := range loads {
		for _, br := range condBranches(ld) {
			blk := br.iff.Block()
			succ := 0
			if br.neg {
				succ = 1
			}
			target := blk.Succs[succ]
			all, any := true, false
			env := newEnvAt(blk)
			env.enter(target, blk)
			c.explore(target, 0, env, exploreCB{
				ret: func(r *ssa.Return, e *pathEnv) {
					any = true
					if op := retErrOperand(r); op == nil || e.nilnessOf(op) != nonNil {
						all = false
					}
				},
				loud: func(in ssa.Instruction, e *pathEnv) { any = true },
			})
			if all && any {
				return true
			}
		}
	}
	return false
}

// isIoEOF: the value is io.EOF.
func isIoEOF(v ssa.Value) bool {
	ld, ok := stripConv(v).(*ssa.UnOp)
	if !ok {
		return false
	}
	g, ok := ld.X.(*ssa.Global)
	return ok && g.Pkg != nil && g.Pkg.Pkg.Path() == "io" && g.Name() == "EOF"
}

// stdStreamHook lets isStdStreamWriter follow a writer through parameters and helpers of the
// repository (set by NewCtx; it needs the call graph).
var stdStreamHook func(v ssa.Value, depth int) bool

// isStdStreamWriter: os.Stdout / os.Stderr, or a bufio.Writer made from one of them.
func isStdStreamWriter(v ssa.Value) bool {
	return isStdStreamWriterDepth(v, 0)
}

func isStdStreamWriterDepth(v ssa.Value, depth int) bool {
	if depth > 8 {
		return false
	}
	v = stripConv(v)
	if stdStreamHook != nil && stdStreamHook(v, depth) {
		return true
	}
	if u, ok := v.(*ssa.UnOp); ok {
		if g, ok := u.X.(*ssa.Global); ok && g.Pkg != nil && g.Pkg.Pkg.Path() == "os" && (g.Name() == "Stdout" || g.Name() == "Stderr") {
			return true
		}
	}
	if call, ok := v.(*ssa.Call); ok {
		f := staticCallee(&call.Call)
		if (isFn(f, "bufio", "NewWriter") || isFn(f, "bufio", "NewWriterSize")) && len(call.Call.Args) > 0 {
			return isStdStreamWriterDepth(call.Call.Args[0], depth+1)
		}
	}
	return false
}

// isRepoSentinel: a package-level error variable of the repository.
func isRepoSentinel(v ssa.Value) bool {
	ld, ok := stripConv(v).(*ssa.UnOp)
	if !ok {
		return false
	}
	g, ok := ld.X.(*ssa.Global)
	return ok && g.Pkg != nil && load.InModule(g.Pkg.Pkg.Path()) && isErrorType(derefType(g.Type()))
}

// failedCallGuarding: blk lies on the non-nil side of a nil test of the error
// of a call; that call.
func (c *Ctx) failedCallGuarding(blk *ssa.BasicBlock) *ssa.Call {
	for b := blk; b != nil; b = b.Idom() {
		d := b.Idom()
		if d == nil {
			return nil
		}
		iff, ok := d.Instrs[len(d.Instrs)-1].(*ssa.If)
		if !ok || len(b.Preds) != 1 {
			continue
		}
		cond, neg := unwrapNot(iff.Cond)
		v, trueMeansNil, ok := nilTest(cond)
		if !ok || !isErrorType(v.Type()) {
			continue
		}
		nonNilSide := 1
		if trueMeansNil == neg {
			nonNilSide = 0
		}
		if d.Succs[nonNilSide] != b {
			continue
		}
		switch x := v.(type) {
		case *ssa.Call:
			return x
		case *ssa.Extract:
			if call, ok := x.Tuple.(*ssa.Call); ok {
				return call
			}
		}
		return nil
	}
	return nil
}
