package rules

import (
	"fmt"
	"go/token"
	"go/types"
	"regexp"
	"regexp/syntax"
	"strings"

	"golang.org/x/tools/go/ssa"

	"crsverif/internal/load"
	"crsverif/internal/rx"
)

const semverPkg = "github.com/Masterminds/semver/v3"

// tmplTok is one token of a ReplaceAllString template built with Sprintf.
type tmplTok struct {
	kind string // lit, group, verb
	text string
	n    int
}

var tmplRe = regexp.MustCompile(`\$\{(\d+)\}|\$(\d+)|%[sdvq]`)

func parseTemplate(format string) []tmplTok {
	var out []tmplTok
	pos := 0
	for _, m := range tmplRe.FindAllStringSubmatchIndex(format, -1) {
		if m[0] > pos {
			out = append(out, tmplTok{kind: "lit", text: format[pos:m[0]]})
		}
		switch {
		case m[2] >= 0:
			n := 0
			fmt.Sscanf(format[m[2]:m[3]], "%d", &n)
			out = append(out, tmplTok{kind: "group", n: n})
		case m[4] >= 0:
			n := 0
			fmt.Sscanf(format[m[4]:m[5]], "%d", &n)
			out = append(out, tmplTok{kind: "group", n: n})
		default:
			out = append(out, tmplTok{kind: "verb", text: format[m[0]:m[1]]})
		}
		pos = m[1]
	}
	if pos < len(format) {
		out = append(out, tmplTok{kind: "lit", text: format[pos:]})
	}
	return out
}

// valueLanguage determines the language of a value inserted by update-copyright.
func (c *Ctx) valueLanguage(v ssa.Value, fn *ssa.Function, depth int) (*rx.Lang, string, string) {
	v = stripConv(v)
	if depth > 8 {
		return nil, "", "value followed too deep"
	}
	switch x := v.(type) {
	case *ssa.Parameter:
		// follow to the callers: all must agree
		idx := -1
		for i, p := range fn.Params {
			if p == x {
				idx = i
			}
		}
		var lang *rx.Lang
		var what string
		for _, e := range c.Graph().In[fn] {
			cc := callCommon(e.Site)
			if cc == nil || staticFn(cc) != fn || idx >= len(cc.Args) {
				continue
			}
			if !c.liveFn(e.Caller) {
				continue // a function no command can reach (kept for the tests): it inserts nothing at run time
			}
			l, w, why := c.valueLanguage(cc.Args[idx], e.Caller, depth+1)
			if l == nil {
				return nil, "", why
			}
			if lang != nil && what != w {
				return nil, "", "callers disagree on what is inserted"
			}
			lang, what = l, w
		}
		if lang == nil {
			return nil, "", "no caller found for parameter " + x.Name()
		}
		return lang, what, ""
	case *ssa.UnOp:
		// captured variable of a closure: the value stored in the parent
		if fv, ok := x.X.(*ssa.FreeVar); ok {
			if al := allocOf(fv, fn); al != nil {
				var stored []ssa.Value
				for _, r := range referrers(al) {
					if st, ok := r.(*ssa.Store); ok && st.Addr == ssa.Value(al) {
						stored = append(stored, st.Val)
					}
				}
				if len(stored) == 1 {
					return c.valueLanguage(stored[0], al.Parent(), depth+1)
				}
			}
			return nil, "", "captured variable with several assignments"
		}
		if al, ok := x.X.(*ssa.Alloc); ok {
			var stored []ssa.Value
			for _, r := range referrers(al) {
				if st, ok := r.(*ssa.Store); ok && st.Addr == ssa.Value(al) {
					stored = append(stored, st.Val)
				}
			}
			if len(stored) == 1 {
				return c.valueLanguage(stored[0], fn, depth+1)
			}
		}
		// a flag variable of the command: which validation does it get?
		if fa, ok := x.X.(*ssa.FieldAddr); ok {
			if h := structHolder(fa.X, fn, 0); h != nil {
				if l, w, why := c.flagFieldLanguage(h, fa.Field); l != nil || strings.HasPrefix(why, "REASSIGNED") || isGlobalValue(h) {
					return l, w, why
				}
			}
			// a field of a state struct (walk callback turned into a method, a table of templates):
			// every store to that field in the repository must agree
			if l, w, why, found := c.fieldLanguage(fa, depth); found {
				return l, w, why
			}
		}
	case *ssa.Field:
		// the same through a struct value
		if st, ok := x.X.Type().Underlying().(*types.Struct); ok {
			if l, w, why, found := c.fieldLanguageOf(st.Field(x.Field), depth); found {
				return l, w, why
			}
		}
	case *ssa.Call:
		// strings.Join(re.FindAllString(_, -1), "") with re = `\d+`: digits only
		f := staticCallee(&x.Call)
		if isFn(f, "strings", "Join") {
			if sep, ok := constString(x.Call.Args[1]); ok && sep == "" {
				if inner, ok := x.Call.Args[0].(*ssa.Call); ok {
					if _, m, recv, _, ok := regexpCall(inner); ok && m == "FindAllString" {
						if p, _ := c.Rx().Resolve(recv); p != nil {
							l, err := rx.FullPattern("digits of the version", "(?:"+p.Src+")+")
							if err == nil {
								return l, "the concatenation of all matches of " + p.Src + " in the version", ""
							}
						}
					}
				}
			}
		}
	}
	// a function of package strings applied to a value with a known language: over-approximate
	// by the alphabet of that language (plus the runes of constant arguments)
	if call, ok := v.(*ssa.Call); ok {
		if f := staticCallee(&call.Call); f != nil && objPkgPath(f) == "strings" && len(call.Call.Args) > 0 {
			inner, what, why := c.valueLanguage(call.Call.Args[0], fn, depth+1)
			if inner == nil {
				return nil, "", why
			}
			extra := ""
			for _, a := range call.Call.Args[1:] {
				if sv, ok := constString(a); ok {
					extra += sv
				}
			}
			l, err := rx.AlphabetStar("strings."+f.Name()+" of "+inner.Name, inner, extra)
			if err != nil {
				return nil, "", err.Error()
			}
			return l, "the result of strings." + f.Name() + " applied to " + what + " (over-approximated by its alphabet)", ""
		}
	}
	return nil, "", fmt.Sprintf("inserted value %T has no known language", v)
}

func (c *Ctx) fieldLanguage(fa *ssa.FieldAddr, depth int) (*rx.Lang, string, string, bool) {
	st, ok := derefType(fa.X.Type()).Underlying().(*types.Struct)
	if !ok {
		return nil, "", "", false
	}
	return c.fieldLanguageOf(st.Field(fa.Field), depth)
}

// fieldLanguageOf: the common language of everything the repository stores into field fv.
func (c *Ctx) fieldLanguageOf(fv *types.Var, depth int) (*rx.Lang, string, string, bool) {
	type stored struct {
		v  ssa.Value
		fn *ssa.Function
	}
	var vals []stored
	for _, fn := range c.P.RepoFns {
		allInstrs(fn, func(in ssa.Instruction) {
			st, ok := in.(*ssa.Store)
			if !ok {
				return
			}
			fa, ok := st.Addr.(*ssa.FieldAddr)
			if !ok {
				return
			}
			sty, ok := derefType(fa.X.Type()).Underlying().(*types.Struct)
			if ok && sty.Field(fa.Field) == fv {
				vals = append(vals, stored{st.Val, fn})
			}
		})
	}
	if len(vals) == 0 {
		return nil, "", "", false
	}
	var lang *rx.Lang
	what := ""
	for _, sv := range vals {
		l, w, why := c.valueLanguage(sv.v, sv.fn, depth+1)
		if l == nil {
			return nil, "", why, true
		}
		if lang != nil && w != what {
			return nil, "", "the stores to field " + fv.Name() + " disagree on what is inserted", true
		}
		lang, what = l, w
	}
	return lang, what, "", true
}

// flagFieldLanguage: the language of a string flag bound to field fieldIdx of
// global g, from the validation its command performs before running.
func (c *Ctx) flagFieldLanguage(g ssa.Value, fieldIdx int) (*rx.Lang, string, string) {
	// the field must hold what the user typed: no store to it besides the flag binding
	for _, fn := range c.P.RepoFns {
		reassigned := ""
		allInstrs(fn, func(in ssa.Instruction) {
			if st, ok := in.(*ssa.Store); ok {
				if fa, ok := st.Addr.(*ssa.FieldAddr); ok && fa.Field == fieldIdx && structHolder(fa.X, fn, 0) == g {
					if _, isConst := st.Val.(*ssa.Const); !isConst {
						reassigned = load.FnName(fn)
					}
				}
			}
		})
		if reassigned != "" {
			return nil, "", "REASSIGNED: the flag variable is overwritten in " + reassigned + " before it is used: what is written to the files is not the value given on the command line"
		}
	}
	// is the field validated as a semantic version somewhere in an entry point?
	validated := false
	for _, cmd := range c.Commands().Commands {
		for _, entry := range c.EntryRoots(cmd) {
			allInstrs(entry, func(in ssa.Instruction) {
				call, ok := in.(*ssa.Call)
				if !ok {
					return
				}
				for _, a := range call.Call.Args {
					u, ok := a.(*ssa.UnOp)
					if !ok {
						continue
					}
					fa, ok := u.X.(*ssa.FieldAddr)
					if !ok || fa.Field != fieldIdx || structHolder(fa.X, entry, 0) != g {
						continue
					}
					if c.callsSemverNewVersion(staticFn(&call.Call), 0) || isFn(staticCallee(&call.Call), semverPkg, "NewVersion") {
						if v, ok := c.ErrVerdicts()[call]; ok && v.Verdict == Violated {
							continue
						}
						validated = true
					}
				}
			})
		}
	}
	// which command-line flag is bound to the field?
	flagName := ""
	for _, fn := range c.P.RepoFns {
		allInstrs(fn, func(in ssa.Instruction) {
			call, ok := in.(*ssa.Call)
			if !ok {
				return
			}
			f := staticCallee(&call.Call)
			if f == nil || objPkgPath(f) != "github.com/spf13/pflag" || !strings.HasPrefix(f.Name(), "StringVar") || len(call.Call.Args) < 3 {
				return
			}
			fa, ok := call.Call.Args[1].(*ssa.FieldAddr)
			if !ok || fa.Field != fieldIdx || structHolder(fa.X, fn, 0) != g {
				return
			}
			if n, ok := constString(call.Call.Args[2]); ok {
				flagName = n
			}
		})
	}
	switch {
	case validated:
		// semver.NewVersion accepts (a subset of) its anchored versionRegex
		for gg, p := range c.Rx().byGlobal {
			if gg.Pkg.Pkg.Path() == semverPkg && gg.Name() == "versionRegex" {
				l, err := rx.Search("versions accepted by semver.NewVersion", p.Re)
				if err != nil {
					return nil, "", err.Error()
				}
				return l, "a version accepted by semver.NewVersion (" + p.Src + ")", ""
			}
		}
		return nil, "", "semver's version pattern is not a resolvable constant"
	case flagName == "year":
		// four digits by the statement of the property
		l, _ := rx.FullPattern("four-digit year", `\d{4}`)
		return l, "a four-digit year (quantifier of C14; the command does not validate it)", ""
	default:
		l, _ := rx.FullPattern("any text", `(?s).*`)
		return l, "the unvalidated value of the --" + flagName + " flag (nothing restricts it before it is written)", ""
	}
}

// structHolder: the struct a field address belongs to, when it is one known object: a package variable,
// or a struct literal of the enclosing function reached directly, through the local variable that holds
// its address, or through that variable captured by a closure. nil otherwise.
func structHolder(v ssa.Value, fn *ssa.Function, d int) ssa.Value {
	if d > 4 || fn == nil {
		return nil
	}
	switch x := v.(type) {
	case *ssa.Global:
		return x
	case *ssa.Alloc:
		if _, ok := derefType(x.Type()).Underlying().(*types.Struct); ok {
			return x
		}
	case *ssa.UnOp:
		if x.Op != token.MUL {
			return nil
		}
		cell := allocOf(x.X, fn)
		if cell == nil {
			return nil
		}
		var stored []ssa.Value
		for _, r := range referrers(cell) {
			if st, ok := r.(*ssa.Store); ok && st.Addr == ssa.Value(cell) {
				stored = append(stored, st.Val)
			}
		}
		if len(stored) == 1 {
			return structHolder(stored[0], cell.Parent(), d+1)
		}
	}
	return nil
}

func isGlobalValue(v ssa.Value) bool {
	_, ok := v.(*ssa.Global)
	return ok
}

func (c *Ctx) callsSemverNewVersion(fn *ssa.Function, depth int) bool {
	if fn == nil || !c.P.IsRepoFn(fn) || depth > 2 {
		return false
	}
	found := false
	allInstrs(fn, func(in ssa.Instruction) {
		if call, ok := in.(*ssa.Call); ok {
			if isFn(staticCallee(&call.Call), semverPkg, "NewVersion") {
				found = true
			}
			// through a helper that hands its argument on
			if sf := staticFn(&call.Call); sf != nil && sf != fn && c.callsSemverNewVersion(sf, depth+1) {
				found = true
			}
		}
	})
	return found
}

// RuleRxIncl: what one run writes the next run recognises (C14).
func (c *Ctx) RuleRxIncl() *Result {
	res := &Result{Rule: "RX-INCL", MinInst: 5}
	cmd := c.Commands().ByName["update-copyright"]
	if cmd == nil {
		res.undecided("cmd update-copyright", "-", "command not found")
		return res
	}
	reach := c.Graph().Reach(c.EntryRoots(cmd))
	for fn := range reach {
		allInstrs(fn, func(in ssa.Instruction) {
			call, m, recv, _, ok := regexpCall(in)
			if !ok || !(m == "ReplaceAllString" || m == "ReplaceAll") {
				return
			}
			for _, row := range expandTable(recv, call.Call.Args[2]) {
				c.inclOne(res, fn, call, row[0], row[1])
			}
			// every marker pattern is applied to every line: inside the line loop the call may not
			// depend on a condition (other than the loop's own)
			for _, l := range naturalLoops(fn) {
				if !l.body[call.Block()] {
					continue
				}
				// innermost loop containing the call that also contains a Scan() call (the line loop)
				hasScan := false
				for b := range l.body {
					for _, in2 := range b.Instrs {
						if sc, ok := in2.(*ssa.Call); ok && isMeth(staticCallee(&sc.Call), "bufio", "Scanner", "Scan") {
							hasScan = true
						}
					}
				}
				if !hasScan {
					continue
				}
				res.Instances++
				pname := "pattern"
				if p, _ := c.Rx().Resolve(recv); p != nil {
					pname = p.Name
				}
				key := load.FnName(fn) + ":every line gets " + pname
				// the call must lie on every path from the Scan()==true edge to the write of the line:
				// its block dominates every block of the loop that leaves towards the header (latches)
				okAll := true
				// a call inside a table loop nested in the line loop runs for every entry when it
				// dominates the latches of that loop; the table loop's header then stands for it
				anchor := call.Block()
				// a cheap literal test of the same line in front of the replacement that the pattern implies
				// (every line the pattern matches passes the test) skips nothing the replacement would change:
				// the block of the test stands for the call
				if pat, _ := c.Rx().Resolve(recv); pat != nil {
					for steps := 0; steps < 4 && len(anchor.Preds) == 1; steps++ {
						pred := anchor.Preds[0]
						iff, ok := pred.Instrs[len(pred.Instrs)-1].(*ssa.If)
						if !ok || pred.Succs[0] != anchor || !l.body[pred] {
							break
						}
						t, ok := iff.Cond.(*ssa.Call)
						if !ok {
							break
						}
						guard, subj, ok := literalTestLang(t)
						if !ok || !sameEntry(call.Call.Args[1], subj) {
							break
						}
						if r, err := rx.NotIncluded(searchLang(pat), guard); err != nil || r.Found {
							break
						}
						anchor = pred
					}
				}
				for changed := true; changed; {
					changed = false
					for _, il := range naturalLoops(fn) {
						if il.header == l.header || !l.body[il.header] || !il.body[anchor] || il.header == anchor {
							continue
						}
						for b := range il.body {
							for _, sc := range b.Succs {
								if sc == il.header && b != il.header && !anchor.Dominates(b) {
									okAll = false
								}
							}
						}
						anchor, changed = il.header, true
						break
					}
				}
				for b := range l.body {
					for _, sc := range b.Succs {
						if sc == l.header && b != l.header && !anchor.Dominates(b) {
							okAll = false
						}
					}
				}
				if okAll {
					res.ok(key, c.P.InstrPos(call), "applied on every iteration of the line loop")
				} else {
					res.bad(key, c.P.InstrPos(call), "the replacement is only applied to some lines (it depends on a condition inside the line loop): markers on the other lines keep the old value")
				}
			}
		})
	}
	return res
}

// templateShape normalises a replacement template to a constant format with %s
// verbs and the inserted values: a Sprintf of a constant format, a
// concatenation of constants and values, or either of them stored once in a
// local or in a struct field (a table of templates built by a helper).
func (c *Ctx) templateShape(v ssa.Value, fn *ssa.Function, depth int) (string, []ssa.Value, *ssa.Function, string) {
	if depth > 4 {
		return "", nil, nil, "the replacement template is followed too deep"
	}
	v = stripConv(v)
	switch x := v.(type) {
	case *ssa.Const:
		if sv, ok := constString(x); ok {
			return strings.ReplaceAll(sv, "%", "%%"), nil, fn, ""
		}
	case *ssa.Call:
		if isFn(staticCallee(&x.Call), "fmt", "Sprintf") {
			format, ok := constString(x.Call.Args[0])
			if !ok {
				return "", nil, nil, "the replacement template format is not constant"
			}
			var args []ssa.Value
			if len(x.Call.Args) > 1 {
				if sl, ok := x.Call.Args[1].(*ssa.Slice); ok {
					args = variadicElems(sl)
				}
			}
			return format, args, fn, ""
		}
		// the []byte form: fmt.Appendf(nil, format, values...)
		if isFn(staticCallee(&x.Call), "fmt", "Appendf") && len(x.Call.Args) >= 2 {
			if k, isC := x.Call.Args[0].(*ssa.Const); !isC || k.Value != nil {
				return "", nil, nil, "the replacement template is appended to an existing buffer"
			}
			format, ok := constString(x.Call.Args[1])
			if !ok {
				return "", nil, nil, "the replacement template format is not constant"
			}
			var args []ssa.Value
			if len(x.Call.Args) > 2 {
				if sl, ok := x.Call.Args[2].(*ssa.Slice); ok {
					args = variadicElems(sl)
				}
			}
			return format, args, fn, ""
		}
	case *ssa.BinOp:
		if x.Op == token.ADD {
			var ops []ssa.Value
			var flat func(w ssa.Value)
			flat = func(w ssa.Value) {
				if b, ok := w.(*ssa.BinOp); ok && b.Op == token.ADD {
					flat(b.X)
					flat(b.Y)
					return
				}
				ops = append(ops, w)
			}
			flat(x)
			format := ""
			var args []ssa.Value
			for _, o := range ops {
				if sv, ok := constString(o); ok {
					format += strings.ReplaceAll(sv, "%", "%%")
				} else {
					format += "%s"
					args = append(args, o)
				}
			}
			return format, args, fn, ""
		}
	case *ssa.UnOp:
		if x.Op != token.MUL {
			break
		}
		if al, ok := x.X.(*ssa.Alloc); ok {
			var stored []ssa.Value
			for _, r := range referrers(al) {
				if st, ok := r.(*ssa.Store); ok && st.Addr == ssa.Value(al) {
					stored = append(stored, st.Val)
				}
			}
			if len(stored) == 1 {
				return c.templateShape(stored[0], fn, depth+1)
			}
		}
		if fa, ok := x.X.(*ssa.FieldAddr); ok {
			if _, isGlobal := fa.X.(*ssa.Global); !isGlobal {
				if st, ok := derefType(fa.X.Type()).Underlying().(*types.Struct); ok {
					return c.templateFromField(st.Field(fa.Field), depth)
				}
			}
		}
	case *ssa.Field:
		if st, ok := x.X.Type().Underlying().(*types.Struct); ok {
			return c.templateFromField(st.Field(x.Field), depth)
		}
	}
	return "", nil, nil, "the replacement template is not a Sprintf of a constant format or a concatenation around the inserted value"
}

func (c *Ctx) templateFromField(fv *types.Var, depth int) (string, []ssa.Value, *ssa.Function, string) {
	var val ssa.Value
	var in *ssa.Function
	n := 0
	for _, fn := range c.P.RepoFns {
		allInstrs(fn, func(inr ssa.Instruction) {
			st, ok := inr.(*ssa.Store)
			if !ok {
				return
			}
			fa, ok := st.Addr.(*ssa.FieldAddr)
			if !ok {
				return
			}
			if sty, ok := derefType(fa.X.Type()).Underlying().(*types.Struct); ok && sty.Field(fa.Field) == fv {
				val, in = st.Val, fn
				n++
			}
		})
	}
	if n != 1 {
		return "", nil, nil, fmt.Sprintf("the replacement template is read from field %s, which is assigned at %d places", fv.Name(), n)
	}
	return c.templateShape(val, in, depth+1)
}

// inclOne judges one (pattern, template) pair of a ReplaceAll call.
func (c *Ctx) inclOne(res *Result, fn *ssa.Function, call *ssa.Call, recv ssa.Value, tmpl ssa.Value) {
	func() {
		res.Instances++
		p, why := c.Rx().Resolve(recv)
		pos := c.P.InstrPos(call)
		if p == nil {
			res.undecided(load.FnName(fn)+":replace with unresolved pattern", pos, why)
			return
		}
		key := load.FnName(fn) + ":replace " + p.Name
		// template
		format, args, argFn, twhy := c.templateShape(tmpl, fn, 0)
		if twhy != "" {
			res.undecided(key, pos, twhy)
			return
		}
		fn := argFn
		toks := parseTemplate(format)
		// top-level elements of the pattern without anchors
		elems := flattenConcat(p.Re)
		var body []*syntax.Regexp
		for _, e := range elems {
			switch e.Op {
			case syntax.OpBeginText, syntax.OpBeginLine, syntax.OpEndText, syntax.OpEndLine, syntax.OpEmptyMatch:
			default:
				body = append(body, e)
			}
		}
		topCap := map[int]int{} // group number -> position in body
		for i, e := range body {
			if e.Op == syntax.OpCapture {
				topCap[e.Cap] = i
			}
		}
		var problems []string
		ai := 0
		cursor := 0 // next body position not yet accounted for
		for ti, t := range toks {
			switch t.kind {
			case "group":
				bi, ok := topCap[t.n]
				if !ok {
					problems = append(problems, fmt.Sprintf("template keeps group %d, which is not a top-level group of %s", t.n, p.Src))
					continue
				}
				if bi < cursor {
					problems = append(problems, "template keeps groups out of pattern order")
					continue
				}
				if bi > cursor && (ti == 0 || toks[ti-1].kind != "verb") {
					problems = append(problems, fmt.Sprintf("text matched before group %d is dropped by the replacement", t.n))
				}
				cursor = bi + 1
			case "lit":
				problems = append(problems, fmt.Sprintf("the template inserts the literal %q", t.text))
			case "verb":
				if ai >= len(args) {
					problems = append(problems, "template has more verbs than arguments")
					continue
				}
				val := args[ai]
				ai++
				// the segment this verb replaces: body[cursor : next kept group)
				end := len(body)
				for _, t2 := range toks[ti+1:] {
					if t2.kind == "group" {
						if bi, ok := topCap[t2.n]; ok {
							end = bi
						}
						break
					}
				}
				if cursor >= end {
					problems = append(problems, "the inserted value replaces nothing: it is added on every run")
					continue
				}
				seg := &syntax.Regexp{Op: syntax.OpConcat, Sub: body[cursor:end], Flags: p.Re.Flags}
				if end-cursor == 1 {
					seg = body[cursor]
				}
				cursor = end
				segLang, err := rx.Full("replaced segment of "+p.Name, seg)
				if err != nil {
					res.undecided(key, pos, err.Error())
					return
				}
				vl, what, why := c.valueLanguage(val, fn, 0)
				if vl == nil && strings.Contains(why, "REASSIGNED: ") {
					problems = append(problems, why[strings.Index(why, "REASSIGNED: ")+len("REASSIGNED: "):])
					continue
				}
				if vl == nil {
					res.undecided(key, pos, "cannot determine what is inserted: "+why)
					return
				}
				// the replaced segment must stop at the text that follows it: if it can match across the
				// literal that begins the rest of the pattern, a greedy match swallows more of the line
				if end < len(body) {
					if lit := leadingLiteral(body[end]); lit != "" {
						delim, _ := rx.SearchPattern("delimiter", regexp.QuoteMeta(lit))
						if r, err := rx.Intersects(segLang, delim); err == nil && r.Found {
							problems = append(problems, fmt.Sprintf("the replaced segment %s can itself contain %q, the text that must follow it: being greedy it runs to the last %q on the line and everything in between is replaced too", seg.String(), lit, lit))
						}
					}
				}
				r, err := rx.NotIncluded(vl, segLang)
				if err != nil {
					res.undecided(key, pos, err.Error())
					return
				}
				if r.Found {
					problems = append(problems, fmt.Sprintf("the command inserts %s, e.g. %q, but the segment %s of the read pattern does not match it: the next run no longer recognises (and so no longer updates) this marker", what, r.Witness, seg.String()))
				}
			}
		}
		if len(problems) > 0 {
			res.bad(key, pos, strings.Join(problems, "; "))
		} else {
			res.ok(key, pos, fmt.Sprintf("template %q: every inserted value's language is included in the language of the pattern segment it replaces", format))
		}

	}()
}

// expandTable: a pattern and its template taken from the same element of a
// table (slice literal of structs ranged over) stand for one pair per row;
// otherwise the pair itself.
func expandTable(recv, tmpl ssa.Value) [][2]ssa.Value {
	same := [][2]ssa.Value{{recv, tmpl}}
	// element source and field index of a value read from a table element
	norm := func(v ssa.Value) (ssa.Value, int, bool) {
		switch x := v.(type) {
		case *ssa.Field:
			return x.X, x.Field, true
		case *ssa.UnOp:
			fa, ok := x.X.(*ssa.FieldAddr)
			if !ok {
				return nil, 0, false
			}
			al, ok := fa.X.(*ssa.Alloc)
			if !ok {
				return nil, 0, false
			}
			var stored []ssa.Value
			for _, r := range referrers(al) {
				if st, ok := r.(*ssa.Store); ok && st.Addr == ssa.Value(al) {
					stored = append(stored, st.Val)
				}
			}
			if len(stored) != 1 {
				return nil, 0, false
			}
			return stored[0], fa.Field, true
		}
		return nil, 0, false
	}
	re, rfld, ok1 := norm(recv)
	te, tfld, ok2 := norm(stripConv(tmpl))
	if !ok1 || !ok2 || re != te {
		return same
	}
	ld, ok := re.(*ssa.UnOp)
	if !ok {
		return same
	}
	ia, ok := ld.X.(*ssa.IndexAddr)
	if !ok {
		return same
	}
	var arr *ssa.Alloc
	switch x := ia.X.(type) {
	case *ssa.Slice:
		arr, _ = x.X.(*ssa.Alloc)
	case *ssa.Alloc:
		arr = x
	}
	if arr == nil {
		return same
	}
	fieldStores := func(base ssa.Value, into map[int]ssa.Value) {
		for _, rr := range referrers(base) {
			fa, ok := rr.(*ssa.FieldAddr)
			if !ok {
				continue
			}
			for _, r3 := range referrers(fa) {
				if st, ok := r3.(*ssa.Store); ok && st.Addr == ssa.Value(fa) {
					into[fa.Field] = st.Val
				}
			}
		}
	}
	rows := map[int64]map[int]ssa.Value{}
	for _, r := range referrers(arr) {
		ea, ok := r.(*ssa.IndexAddr)
		if !ok {
			continue
		}
		i, ok := constInt(ea.Index)
		if !ok {
			continue
		}
		if rows[i] == nil {
			rows[i] = map[int]ssa.Value{}
		}
		fieldStores(ea, rows[i])
		// whole-struct store of a composite literal built in a local
		for _, rr := range referrers(ea) {
			if st, ok := rr.(*ssa.Store); ok && st.Addr == ssa.Value(ea) {
				if l2, ok := st.Val.(*ssa.UnOp); ok {
					if tmp, ok := l2.X.(*ssa.Alloc); ok {
						fieldStores(tmp, rows[i])
					}
				}
			}
		}
	}
	var out [][2]ssa.Value
	for i := int64(0); i < int64(len(rows)); i++ {
		row, ok := rows[i]
		if !ok || row[rfld] == nil || row[tfld] == nil {
			return same
		}
		out = append(out, [2]ssa.Value{row[rfld], row[tfld]})
	}
	if len(out) == 0 {
		return same
	}
	return out
}

// leadingLiteral returns the literal text a subexpression must start with ("" if none).
func leadingLiteral(re *syntax.Regexp) string {
	switch re.Op {
	case syntax.OpLiteral:
		return string(re.Rune)
	case syntax.OpCapture:
		return leadingLiteral(re.Sub[0])
	case syntax.OpConcat:
		if len(re.Sub) > 0 {
			return leadingLiteral(re.Sub[0])
		}
	}
	return ""
}

// inInnerLoopOf: a and b are in the same inner loop nested in l (a table loop inside the line loop).
func inInnerLoopOf(a, b *ssa.BasicBlock, fn *ssa.Function, outer *natLoop) bool {
	for _, l := range naturalLoops(fn) {
		if l == outer || l.header == outer.header {
			continue
		}
		if outer.body[l.header] && l.body[a] && l.body[b] {
			return true
		}
	}
	return false
}

// liveFn: fn is reachable from a command entry point or a global root (init, main, cobra wiring).
func (c *Ctx) liveFn(fn *ssa.Function) bool {
	if c.live == nil {
		var roots []*ssa.Function
		for _, cmd := range c.Commands().Commands {
			roots = append(roots, c.CommandRoots(cmd)...)
		}
		c.live = map[*ssa.Function]bool{}
		for f := range c.Graph().Reach(roots) {
			c.live[f] = true
		}
	}
	return c.live[fn]
}

// literalTestLang: the language of the texts that pass strings/bytes HasPrefix, HasSuffix, Contains or
// ContainsAny with a constant, and the text that is tested.
func literalTestLang(t *ssa.Call) (*rx.Lang, ssa.Value, bool) {
	if len(t.Call.Args) != 2 {
		return nil, nil, false
	}
	f := staticCallee(&t.Call)
	if f == nil || (objPkgPath(f) != "strings" && objPkgPath(f) != "bytes") {
		return nil, nil, false
	}
	text, isC := constString(stripConv(t.Call.Args[1]))
	if !isC || text == "" {
		return nil, nil, false
	}
	var src string
	switch f.Name() {
	case "HasPrefix":
		src = `(?s)^` + regexpQuote(text)
	case "HasSuffix":
		src = `(?s)` + regexpQuote(text) + `$`
	case "Contains":
		src = regexpQuote(text)
	case "ContainsAny":
		src = `[` + classQuote(text) + `]`
	default:
		return nil, nil, false
	}
	l, err := rx.SearchPattern("texts that pass "+f.Name()+"("+text+")", src)
	if err != nil {
		return nil, nil, false
	}
	return l, t.Call.Args[0], true
}
