package rules

import (
	"fmt"
	"go/types"
	"math"

	"golang.org/x/tools/go/ssa"

	"crsverif/internal/load"
)

func isScannerPtr(t types.Type) bool {
	p, ok := t.(*types.Pointer)
	return ok && isNamed(p.Elem(), "bufio", "Scanner")
}

// scannerSite is one *bufio.Scanner value born in a repository function.
type scannerSite struct {
	fn     *ssa.Function
	origin ssa.Value // the call creating it, or a parameter
	label  string
}

// RuleScanErr is SCAN-ERR: after Scan() returned false, every path to a
// function exit asks the scanner for its error and treats it as a failure.
// errVerdicts maps call instructions to the ERR-HANDLE/ERR-DROP verdict.
func (c *Ctx) RuleScanErr() *Result {
	res := &Result{Rule: "SCAN-ERR", MinInst: 1}
	handle := c.ErrVerdicts()
	var sites []scannerSite
	for _, fn := range c.P.RepoFns {
		for _, p := range fn.Params {
			if isScannerPtr(p.Type()) {
				sites = append(sites, scannerSite{fn, p, "parameter " + p.Name()})
			}
		}
		allInstrs(fn, func(in ssa.Instruction) {
			call, ok := in.(*ssa.Call)
			if !ok {
				return
			}
			if isScannerPtr(call.Type()) {
				sites = append(sites, scannerSite{fn, call, calleeLabel(&call.Call)})
			}
			// length-limited reader calls are reported as such
			f := staticCallee(&call.Call)
			if isMeth(f, "bufio", "Reader", "ReadLine") {
				res.Instances++
				if pv := resultValue(call, 1); pv == nil || len(usesOf(pv)) == 0 {
					res.bad(load.FnName(fn)+":"+qualName(f), c.P.InstrPos(call), "bufio.Reader.ReadLine returns a line in pieces when it is longer than the reader's buffer (4096 bytes by default) and says so in isPrefix; that result is ignored here, so every piece of a long line is treated as a line of its own")
				} else {
					res.ok(load.FnName(fn)+":"+qualName(f), c.P.InstrPos(call), "ReadLine has no length limit; isPrefix is looked at (what is done with the pieces: READLINE, BORROW)")
				}
			}
			if isMeth(f, "bufio", "Reader", "ReadSlice") {
				res.Instances++
				res.undecided(load.FnName(fn)+":"+qualName(f), c.P.InstrPos(call), "length-limited reading through bufio.Reader.ReadSlice is not modelled; use a Scanner with an Err() check or an unbounded reader")
			}
		})
	}
	res.Instances++
	res.ok("repository:scanner sites", "-", fmt.Sprintf("%d *bufio.Scanner values in %d functions of the repository", len(sites), len(c.P.RepoFns)))
	for _, s := range sites {
		res.Instances++
		key := load.FnName(s.fn) + ":scanner " + s.label
		pos := c.P.FnPos(s.fn)
		if in, ok := s.origin.(ssa.Instruction); ok {
			pos = c.P.InstrPos(in)
		}
		var scans, errs, buffers []*ssa.Call
		escape := ""
		for _, r := range referrers(s.origin) {
			switch x := r.(type) {
			case *ssa.DebugRef:
			case *ssa.Call:
				f := staticCallee(&x.Call)
				if f != nil && objPkgPath(f) == "bufio" && recvNamed(f) == "Scanner" && len(x.Call.Args) > 0 && x.Call.Args[0] == s.origin {
					switch f.Name() {
					case "Scan":
						scans = append(scans, x)
					case "Err":
						errs = append(errs, x)
					case "Buffer":
						buffers = append(buffers, x)
					}
					continue
				}
				if sf := staticFn(&x.Call); sf != nil && c.P.IsRepoFn(sf) {
					continue // followed as a parameter site of the callee
				}
				escape = "is passed to " + calleeLabel(&x.Call)
			case *ssa.Return:
				// handed to the caller: the caller's call value is a site of its own
			default:
				escape = fmt.Sprintf("is used by %T", r)
			}
		}
		if escape != "" {
			res.undecided(key, pos, "scanner "+escape+": its uses cannot be followed")
			continue
		}
		if len(scans) == 0 {
			res.ok(key, pos, "no Scan call on this value in this function")
			continue
		}
		// accepted alternative: effectively unlimited token size set before the first Scan
		unlimited := false
		for _, b := range buffers {
			if len(b.Call.Args) == 3 {
				if n, ok := constInt(b.Call.Args[2]); ok && n >= math.MaxInt32 {
					dom := true
					for _, sc := range scans {
						if !instrDominates(b, sc) {
							dom = false
						}
					}
					if dom {
						unlimited = true
					}
				}
			}
		}
		if unlimited {
			res.ok(key, pos, "Buffer(_, max) with max >= 2^31-1 dominates every Scan: ErrTooLong is unreachable before memory exhaustion")
			continue
		}
		errSet := map[ssa.Instruction]bool{}
		for _, e := range errs {
			errSet[e] = true
		}
		problem := ""
		for _, sc := range scans {
			starts := []struct {
				b    *ssa.BasicBlock
				idx  int
				pred *ssa.BasicBlock
			}{}
			brs := condBranches(sc)
			if len(brs) == 0 {
				starts = append(starts, struct {
					b    *ssa.BasicBlock
					idx  int
					pred *ssa.BasicBlock
				}{sc.Block(), instrIndex(sc) + 1, nil})
			}
			for _, br := range brs {
				succ := 1 // false successor: Scan returned false
				if br.neg {
					succ = 0
				}
				starts = append(starts, struct {
					b    *ssa.BasicBlock
					idx  int
					pred *ssa.BasicBlock
				}{br.iff.Block().Succs[succ], 0, br.iff.Block()})
			}
			for _, st := range starts {
				env := newEnvAt(st.b)
				if st.pred != nil {
					env.enter(st.b, st.pred)
				}
				c.explore(st.b, st.idx, env, exploreCB{
					instr: func(in ssa.Instruction, e *pathEnv) bool {
						return errSet[in] // path is fine once Err() is asked
					},
					ret: func(r *ssa.Return, e *pathEnv) {
						if problem == "" {
							problem = fmt.Sprintf("Scan() at %s can stop on a too-long line and the function returns at %s without asking Err()", c.P.InstrPos(sc), c.P.InstrPos(r))
						}
					},
				})
			}
		}
		if problem != "" {
			res.bad(key, pos, problem+": the rest of the input is silently dropped")
			continue
		}
		// every Err() result is looked at before the same call produces the next one
		for _, e := range errs {
			lost := ""
			env := newEnvAt(e.Block())
			c.explore(e.Block(), instrIndex(e)+1, env, exploreCB{
				instr: func(in ssa.Instruction, pe *pathEnv) bool {
					if in == ssa.Instruction(e) {
						if lost == "" {
							lost = fmt.Sprintf("the result of Err() at %s is overwritten by the next call before it is looked at: an overflow in one pass of the loop is forgotten when a later pass succeeds", c.P.InstrPos(e))
						}
						return true
					}
					if iff, ok := in.(*ssa.If); ok {
						cond, _ := unwrapNot(iff.Cond)
						if v, _, isTest := nilTest(cond); isTest && (pe.resolve(v) == ssa.Value(e) || v == ssa.Value(e)) {
							return true
						}
					}
					return false
				},
				ret: func(r *ssa.Return, pe *pathEnv) {},
			})
			if lost != "" && problem == "" {
				problem = lost
			}
		}
		if problem != "" {
			res.bad(key, pos, problem)
			continue
		}
		// every Err() result must be treated as a failure
		for _, e := range errs {
			if v, ok := handle[e]; ok && v.Verdict != Discharged && v.Verdict != Exempt {
				problem = fmt.Sprintf("Err() at %s is called but %s", c.P.InstrPos(e), v.Detail)
			}
		}
		if problem != "" {
			res.bad(key, pos, problem)
			continue
		}
		res.ok(key, pos, fmt.Sprintf("%d Scan site(s); every path after a false Scan() reaches Err(), whose result is handled as a failure", len(scans)))
	}
	return res
}

// instrDominates: a executes before b on every path to b.
func instrDominates(a, b ssa.Instruction) bool {
	if a.Block() == b.Block() {
		return instrIndex(a) < instrIndex(b)
	}
	return a.Block().Dominates(b.Block())
}

// ErrVerdicts maps every error-returning call to its ERR-DROP/ERR-HANDLE
// verdict (exemptions applied).
func (c *Ctx) ErrVerdicts() map[ssa.Instruction]Obligation {
	c.RuleErrCached()
	return c.errVerdicts
}

// RuleErrCached runs RuleErr once.
func (c *Ctx) RuleErrCached() (*Result, *Result) {
	if c.errDrop == nil {
		c.errVerdicts = map[ssa.Instruction]Obligation{}
		c.errDrop, c.errHandle = c.RuleErr()
	}
	return c.errDrop, c.errHandle
}

// scannerFns lists the functions that own a scanner.
func scannerFns(c *Ctx) map[*ssa.Function]bool {
	out := map[*ssa.Function]bool{}
	for _, fn := range c.P.RepoFns {
		allInstrs(fn, func(in ssa.Instruction) {
			if call, ok := in.(*ssa.Call); ok && isScannerPtr(call.Type()) {
				out[fn] = true
			}
		})
	}
	return out
}

// errChainFor returns the ERR-DROP/ERR-HANDLE obligations of every call site
// whose callee is one of fns or a transitive caller of them, plus ERR-EXIT.
func (c *Ctx) errChainFor(fns map[*ssa.Function]bool) []*Result {
	g := c.Graph()
	chain := map[*ssa.Function]bool{}
	var work []*ssa.Function
	for f := range fns {
		chain[f] = true
		work = append(work, f)
	}
	for len(work) > 0 {
		f := work[0]
		work = work[1:]
		for _, e := range g.In[f] {
			if !chain[e.Caller] {
				chain[e.Caller] = true
				work = append(work, e.Caller)
			}
		}
	}
	drop, handle := c.RuleErrCached()
	inChain := map[string]bool{}
	mark := func(site ssa.Instruction) {
		if k, ok := c.errDropKey[site]; ok {
			inChain[k] = true
		}
		if k, ok := c.errHandleKey[site]; ok {
			inChain[k] = true
		}
	}
	for site := range c.errDropKey {
		call := site.(*ssa.Call)
		if sf := staticFn(&call.Call); sf != nil && chain[sf] {
			mark(site)
		}
		// callbacks handed to an external (WalkDir): the external's error is the callback's
		for _, a := range call.Call.Args {
			for _, f := range fnValuesIn(a, 1) {
				if chain[f] {
					mark(site)
				}
			}
		}
		// the Err() calls themselves
		if f := staticCallee(&call.Call); isMeth(f, "bufio", "Scanner", "Err") {
			mark(site)
		}
	}
	keep := func(o Obligation) bool { return inChain[o.Key] }
	d := drop.Filter(keep)
	h := handle.Filter(keep)
	return []*Result{d, h, c.RuleErrExit()}
}

// usesOf returns the referrers of v that are not debug references.
func usesOf(v ssa.Value) []ssa.Instruction {
	var out []ssa.Instruction
	for _, r := range referrers(v) {
		if _, dbg := r.(*ssa.DebugRef); !dbg {
			out = append(out, r)
		}
	}
	return out
}
