package rules

import (
	"go/token"

	"golang.org/x/tools/go/ssa"
)

// condFact: the boolean SSA value Cond is known to be Val.
type condFacts map[ssa.Value]bool

// blockFacts computes, for every block of fn, the branch conditions whose
// outcome is known on entry (forward must-analysis over the CFG with loud
// exits removed: an edge out of a block that ends the process carries
// nothing).
func (c *Ctx) blockFacts(fn *ssa.Function) map[*ssa.BasicBlock]condFacts {
	if c.factCache == nil {
		c.factCache = map[*ssa.Function]map[*ssa.BasicBlock]condFacts{}
	}
	if f, ok := c.factCache[fn]; ok {
		return f
	}
	lm := c.Loud()
	in := map[*ssa.BasicBlock]condFacts{}
	visited := map[*ssa.BasicBlock]bool{}
	if len(fn.Blocks) == 0 {
		c.factCache[fn] = in
		return in
	}
	in[fn.Blocks[0]] = condFacts{}
	visited[fn.Blocks[0]] = true
	edgeFacts := func(p *ssa.BasicBlock, si int) condFacts {
		out := condFacts{}
		for k, v := range in[p] {
			out[k] = v
		}
		if iff, ok := p.Instrs[len(p.Instrs)-1].(*ssa.If); ok && p.Succs[0] != p.Succs[1] {
			cond, neg := unwrapNot(iff.Cond)
			val := si == 0
			if neg {
				val = !val
			}
			out[cond] = val
			if cond != iff.Cond {
				out[iff.Cond] = si == 0
			}
		}
		return out
	}
	changed := true
	for iter := 0; changed && iter < 100; iter++ {
		changed = false
		for _, b := range fn.Blocks {
			if b == fn.Blocks[0] {
				continue
			}
			var acc condFacts
			have := false
			for _, p := range b.Preds {
				if !visited[p] || lm.BlockDies(p) {
					continue
				}
				for si, s := range p.Succs {
					if s != b {
						continue
					}
					ef := edgeFacts(p, si)
					if !have {
						acc, have = ef, true
					} else {
						for k, v := range acc {
							if w, ok := ef[k]; !ok || w != v {
								delete(acc, k)
							}
						}
					}
				}
			}
			if !have {
				continue
			}
			// kill facts about values (re)defined in loops is unnecessary: SSA
			// values are immutable; a fact about a value computed in a loop
			// body refers to the current iteration's value only when the
			// defining block dominates b, which the intersection guarantees.
			old, was := in[b]
			if !was || !sameFacts(old, acc) {
				in[b] = acc
				visited[b] = true
				changed = true
			}
		}
	}
	c.factCache[fn] = in
	return in
}

func sameFacts(a, b condFacts) bool {
	if len(a) != len(b) {
		return false
	}
	for k, v := range a {
		if w, ok := b[k]; !ok || w != v {
			return false
		}
	}
	return true
}

// factsAt returns the facts known just before instruction in.
func (c *Ctx) factsAt(in ssa.Instruction) condFacts {
	return c.blockFacts(in.Block().Parent())[in.Block()]
}

// knownNonEmpty: do the facts establish that slice/pointer value v is non-nil
// or has length > 0?
func knownNonEmpty(f condFacts, v ssa.Value) bool {
	for cond, val := range f {
		b, ok := cond.(*ssa.BinOp)
		if !ok {
			continue
		}
		// v == nil / v != nil
		if x, trueMeansNil, isTest := nilTest(b); isTest && x == v {
			if val != trueMeansNil {
				return true
			}
			continue
		}
		// len(v) OP const
		lenOf := func(e ssa.Value) bool {
			call, ok := e.(*ssa.Call)
			if !ok {
				return false
			}
			bi, ok := call.Call.Value.(*ssa.Builtin)
			return ok && bi.Name() == "len" && len(call.Call.Args) == 1 && call.Call.Args[0] == v
		}
		if lenOf(b.X) {
			if n, ok := constInt(b.Y); ok {
				switch {
				case b.Op == token.GTR && n >= 0 && val,
					b.Op == token.GEQ && n >= 1 && val,
					b.Op == token.NEQ && n == 0 && val,
					b.Op == token.EQL && n == 0 && !val,
					b.Op == token.LEQ && n >= 0 && !val,
					b.Op == token.LSS && n >= 1 && !val,
					b.Op == token.EQL && n >= 1 && val:
					return true
				}
			}
		}
		if lenOf(b.Y) {
			if n, ok := constInt(b.X); ok {
				switch {
				case b.Op == token.LSS && n >= 0 && val,
					b.Op == token.LEQ && n >= 1 && val,
					b.Op == token.NEQ && n == 0 && val,
					b.Op == token.EQL && n == 0 && !val:
					return true
				}
			}
		}
	}
	return false
}

// knownMinLen: do the facts establish len(v) >= want?
func knownMinLen(f condFacts, v ssa.Value, want int) bool {
	for cond, val := range f {
		b, ok := cond.(*ssa.BinOp)
		if !ok {
			continue
		}
		lenOf := func(e ssa.Value) bool {
			call, ok := e.(*ssa.Call)
			if !ok {
				return false
			}
			bi, ok := call.Call.Value.(*ssa.Builtin)
			return ok && bi.Name() == "len" && len(call.Call.Args) == 1 && call.Call.Args[0] == v
		}
		w := int64(want)
		if lenOf(b.X) {
			if n, ok := constInt(b.Y); ok {
				switch {
				case b.Op == token.GTR && val && n+1 >= w,
					b.Op == token.GEQ && val && n >= w,
					b.Op == token.EQL && val && n >= w,
					b.Op == token.LEQ && !val && n+1 >= w,
					b.Op == token.LSS && !val && n >= w,
					b.Op == token.NEQ && val && n == 0 && w <= 1,
					b.Op == token.EQL && !val && n == 0 && w <= 1:
					return true
				}
			}
		}
		if lenOf(b.Y) {
			if n, ok := constInt(b.X); ok {
				switch {
				case b.Op == token.LSS && val && n+1 >= w,
					b.Op == token.LEQ && val && n >= w,
					b.Op == token.EQL && val && n >= w,
					b.Op == token.GEQ && !val && n+1 >= w,
					b.Op == token.GTR && !val && n >= w:
					return true
				}
			}
		}
	}
	return false
}
