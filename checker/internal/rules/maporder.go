package rules

import (
	"fmt"
	"go/token"
	"go/types"
	"strings"

	"golang.org/x/tools/go/ssa"

	"crsverif/internal/load"
)

// mapLoop is one `range` over a map.
type mapLoop struct {
	fn     *ssa.Function
	rng    *ssa.Range
	next   *ssa.Next
	header *ssa.BasicBlock
	body   *ssa.BasicBlock // first block of the body
	done   *ssa.BasicBlock
	key    ssa.Value // Extract #1 (may be nil)
	val    ssa.Value // Extract #2 (may be nil)
	region map[*ssa.BasicBlock]bool
	// carriedAddr: the field that carries the text from one iteration to the next when it is
	// kept in the receiver's state instead of a local variable (DEF-FRAGMENT)
	carriedAddr *ssa.FieldAddr
}

func isMapType(t types.Type) bool {
	_, ok := t.Underlying().(*types.Map)
	return ok
}

// mapLoops enumerates the map iterations of a function.
func mapLoops(fn *ssa.Function) []*mapLoop {
	var out []*mapLoop
	allInstrs(fn, func(in ssa.Instruction) {
		rg, ok := in.(*ssa.Range)
		if !ok || !isMapType(rg.X.Type()) {
			return
		}
		l := &mapLoop{fn: fn, rng: rg, region: map[*ssa.BasicBlock]bool{}}
		for _, r := range referrers(rg) {
			nx, ok := r.(*ssa.Next)
			if !ok {
				continue
			}
			l.next = nx
			l.header = nx.Block()
			for _, rr := range referrers(nx) {
				ex, ok := rr.(*ssa.Extract)
				if !ok {
					continue
				}
				switch ex.Index {
				case 0:
					for _, r3 := range referrers(ex) {
						if iff, ok := r3.(*ssa.If); ok {
							l.body = iff.Block().Succs[0]
							l.done = iff.Block().Succs[1]
						}
					}
				case 1:
					l.key = ex
				case 2:
					l.val = ex
				}
			}
		}
		if l.next == nil || l.body == nil {
			return
		}
		for _, b := range fn.Blocks {
			if l.body.Dominates(b) {
				l.region[b] = true
			}
		}
		out = append(out, l)
	})
	return out
}

func isSortCall(call *ssa.Call) bool {
	f := staticCallee(&call.Call)
	if f == nil {
		return false
	}
	switch objPkgPath(f) {
	case "sort":
		switch f.Name() {
		case "Strings", "Ints", "Float64s", "Slice", "SliceStable", "Sort", "Stable":
			return recvNamed(f) == ""
		}
	case "slices":
		return strings.HasPrefix(f.Name(), "Sort")
	}
	return false
}

func isBuiltinCall(in ssa.Instruction, names ...string) (*ssa.Call, bool) {
	call, ok := in.(*ssa.Call)
	if !ok {
		return nil, false
	}
	b, ok := call.Call.Value.(*ssa.Builtin)
	if !ok {
		return nil, false
	}
	for _, n := range names {
		if b.Name() == n {
			return call, true
		}
	}
	return nil, false
}

// isLogCall: zerolog calls are not output in the sense of C03 (stderr, with timestamps).
func isLogCall(call *ssa.Call) bool {
	f := staticCallee(&call.Call)
	return f != nil && objPkgPath(f) == zerologPkg
}

// pureCall: calls that neither write anything nor depend on order.
func pureCall(call *ssa.Call) bool {
	if _, ok := isBuiltinCall(call, "len", "cap", "append", "copy", "delete", "min", "max"); ok {
		return true
	}
	f := staticCallee(&call.Call)
	if f == nil {
		return false
	}
	switch objPkgPath(f) {
	case "strings", "bytes", "unicode", "unicode/utf8", "strconv", "path", "path/filepath", "regexp", "fmt", "errors":
		// formatting and string functions: pure (fmt.Print* write to stdout: excluded)
		if objPkgPath(f) == "fmt" && (strings.HasPrefix(f.Name(), "Print") || strings.HasPrefix(f.Name(), "Fprint")) {
			return false
		}
		if recvNamed(f) == "Builder" || recvNamed(f) == "Buffer" || recvNamed(f) == "Writer" {
			return false
		}
		return true
	}
	return false
}

// RuleMapOrder: nothing observable depends on map iteration order.
func (c *Ctx) RuleMapOrder() *Result {
	res := &Result{Rule: "MAP-ORDER", MinInst: 6}
	defOK := c.defFragmentFns()
	for _, fn := range c.P.RepoFns {
		// maps.Keys/Values/All and friends: iteration-order dependent sequences
		allInstrs(fn, func(in ssa.Instruction) {
			if call, ok := in.(*ssa.Call); ok {
				if f := staticCallee(&call.Call); f != nil && (objPkgPath(f) == "maps" || objPkgPath(f) == "golang.org/x/exp/maps") {
					switch f.Name() {
					case "Keys", "Values", "All":
						res.Instances++
						key := load.FnName(fn) + ":" + qualName(f)
						verdict, why := "", ""
						for _, r := range referrers(call) {
							uc, ok := r.(*ssa.Call)
							if !ok {
								verdict, why = "undecided", "the sequence is consumed by something other than slices.Sorted / slices.Collect"
								break
							}
							uf := staticCallee(&uc.Call)
							switch {
							case uf != nil && objPkgPath(uf) == "slices" && strings.HasPrefix(uf.Name(), "Sorted"):
								if verdict == "" {
									verdict, why = "ok", "the sequence goes straight into slices."+uf.Name()+": a sorted slice, whatever the iteration order"
								}
							case uf != nil && objPkgPath(uf) == "slices" && (uf.Name() == "Collect" || uf.Name() == "AppendSeq"):
								if w := c.sortedBeforeUse(uc, nil, 0); w != "" {
									verdict, why = "bad", "elements are collected in map order and "+w
								} else if verdict == "" {
									verdict, why = "ok", "collect-then-sort: the collected slice is sorted before every order-sensitive use"
								}
							default:
								verdict, why = "undecided", "the sequence is consumed by "+calleeLabel(&uc.Call)+", which is not modelled"
							}
						}
						switch verdict {
						case "ok":
							res.ok(key, c.P.InstrPos(call), why)
						case "bad":
							res.bad(key, c.P.InstrPos(call), why)
						default:
							if why == "" {
								why = "iteration through the maps package is not modelled; sort the result or range over sorted keys"
							}
							res.undecided(key, c.P.InstrPos(call), why)
						}
					}
				}
			}
		})
		for _, l := range mapLoops(fn) {
			res.Instances++
			key := fmt.Sprintf("%s:range %s", load.FnName(fn), describeMapOperand(l.rng.X))
			pos := c.P.InstrPos(l.rng)
			if st, ok := defOK[fn]; ok {
				if st == "" || strings.HasPrefix(st, "VIOLATION: ") {
					res.ok(key, pos, "inside the order-independent substitution fragment checked by DEF-FRAGMENT (the fragment's own verdict is reported there)")
					continue
				}
				// outside the fragment the special argument does not apply: judge the loop like any other
				if v, d := c.classifyMapLoop(l); v == Violated {
					// the general classification cannot see that the substitution is order independent; that it
					// is not recognised as the fragment either is a gap of the recogniser, not a finding
					res.undecided(key, pos, d+" (and the definition-expansion fragment of DEF-FRAGMENT, whose order independence is argued separately, is not recognised here: "+st+")")
				} else if v == Discharged {
					res.ok(key, pos, d)
				} else {
					res.undecided(key, pos, d)
				}
				continue
			}
			verdict, detail := c.classifyMapLoop(l)
			switch verdict {
			case Discharged:
				res.ok(key, pos, detail)
			case Violated:
				res.bad(key, pos, detail)
			default:
				res.undecided(key, pos, detail)
			}
		}
	}
	return res
}

// cellCollectedThenSorted: st is `cell = append(cell, ...)` inside the loop for a slice variable kept
// in memory, a sort call on the cell follows the loop, and every other reading of the cell outside
// the loop (loads, closures that capture it) comes after that sort.
func (c *Ctx) cellCollectedThenSorted(st *ssa.Store, l *mapLoop) bool {
	al, ok := st.Addr.(*ssa.Alloc)
	if !ok {
		return false
	}
	if _, isSlice := derefType(al.Type()).Underlying().(*types.Slice); !isSlice {
		return false
	}
	ac, ok := isBuiltinCall(asInstr(st.Val), "append")
	if !ok || len(ac.Call.Args) == 0 {
		return false
	}
	if ld, isLd := ac.Call.Args[0].(*ssa.UnOp); !isLd || ld.X != ssa.Value(al) {
		return false
	}
	var sorter *ssa.Call
	var sortLoad ssa.Value
	for _, r := range referrers(al) {
		ld, isLd := r.(*ssa.UnOp)
		if !isLd || l.region[ld.Block()] {
			continue
		}
		for _, rr := range referrers(ld) {
			if call, isCall := rr.(*ssa.Call); isCall && isSortCall(call) && !l.region[call.Block()] {
				if sorter == nil || instrDominates(call, sorter) {
					sorter, sortLoad = call, ld
				}
			}
		}
	}
	if sorter == nil {
		return false
	}
	for _, r := range referrers(al) {
		in, isIn := r.(ssa.Instruction)
		if !isIn || l.region[in.Block()] || ssa.Instruction(sortLoad.(*ssa.UnOp)) == r {
			continue
		}
		switch x := r.(type) {
		case *ssa.Store:
			// the initial value, set before the loop
			if !instrDominates(x, l.header.Instrs[0]) {
				return false
			}
		case *ssa.UnOp, *ssa.MakeClosure:
			if !instrDominates(sorter, in) {
				return false
			}
		case *ssa.DebugRef:
		default:
			return false
		}
	}
	return true
}

func describeMapOperand(v ssa.Value) string {
	switch x := v.(type) {
	case *ssa.Parameter:
		return "parameter " + x.Name()
	case *ssa.UnOp:
		if fa, ok := x.X.(*ssa.FieldAddr); ok {
			st := derefType(fa.X.Type()).Underlying().(*types.Struct)
			return "field " + st.Field(fa.Field).Name()
		}
		if g, ok := x.X.(*ssa.Global); ok {
			return "global " + g.Name()
		}
	case *ssa.Field:
		st := x.X.Type().Underlying().(*types.Struct)
		return "field " + st.Field(x.Field).Name()
	case *ssa.MakeMap:
		return "local map"
	case *ssa.Call:
		return "result of " + calleeLabel(&x.Call)
	}
	return "map " + strings.ReplaceAll(v.Type().String(), load.ModulePath+"/", "")
}

// classifyMapLoop decides whether the loop's effect is independent of order.
func (c *Ctx) classifyMapLoop(l *mapLoop) (Verdict, string) {
	lm := c.Loud()
	// exits from inside the body other than falling back to the header
	var earlyExits []ssa.Instruction
	var effects []string
	var effectInstrs []ssa.Instruction
	var appendCalls []*ssa.Call
	addEffect := func(in ssa.Instruction, what string) {
		effects = append(effects, what)
		effectInstrs = append(effectInstrs, in)
	}
	for _, b := range l.fn.Blocks {
		if !l.region[b] {
			continue
		}
		for _, in := range b.Instrs {
			switch x := in.(type) {
			case *ssa.Return:
				earlyExits = append(earlyExits, in)
			case *ssa.Jump:
				if t := b.Succs[0]; !l.region[t] && t != l.header {
					earlyExits = append(earlyExits, in)
				}
			case *ssa.If:
				for _, t := range b.Succs {
					if !l.region[t] && t != l.header {
						earlyExits = append(earlyExits, in)
					}
				}
			case *ssa.Store:
				if bv, ok := constBool(x.Val); ok {
					_ = bv // constant flag store: commutative
					continue
				}
				if al := rootAlloc(x.Addr); al != nil && l.region[al.Block()] {
					continue // storage created in this iteration (variadic argument arrays, temporaries)
				}
				// collect-then-sort on a variable that lives in memory because a closure captures it:
				// cell = append(cell, ...) in the loop, sort(cell) behind it, every later use behind the sort
				if c.cellCollectedThenSorted(x, l) {
					continue
				}
				addEffect(in, "store at "+c.P.InstrPos(in))
			case *ssa.MapUpdate:
				// keyed by the iteration key with a value built from this iteration only: commutative
				if x.Key == l.key && !dependsOnCarried(x.Value, l) {
					continue
				}
				addEffect(in, "map update at "+c.P.InstrPos(in))
			case *ssa.Send, *ssa.Go, *ssa.Defer:
				addEffect(in, fmt.Sprintf("%T at %s", in, c.P.InstrPos(in)))
			case *ssa.Call:
				if lm.IsLoud(in) {
					continue
				}
				if ac, ok := isBuiltinCall(in, "append"); ok {
					appendCalls = append(appendCalls, ac)
					continue
				}
				if isLogCall(x) || pureCall(x) {
					continue
				}
				addEffect(in, "call of "+calleeLabel(&x.Call)+" at "+c.P.InstrPos(in))
			}
		}
	}
	// loop-carried values: phis of the header other than the slice being collected
	var carried []*ssa.Phi
	for _, in := range l.header.Instrs {
		if p, ok := in.(*ssa.Phi); ok {
			carried = append(carried, p)
		}
	}
	if len(earlyExits) > 0 {
		// first match wins
		if isPatternMapType(l.rng.X.Type()) {
			for _, ex := range earlyExits {
				if !c.exitUnderMatchOf(ex, l) {
					return Violated, fmt.Sprintf("the loop over the pattern map leaves at %s on a condition other than 'this pattern matched': which element wins depends on map order", c.P.InstrPos(ex))
				}
			}
			for i, ef := range effectInstrs {
				if !c.exitUnderMatchOf(ef, l) {
					return Violated, "first-match loop over the pattern map has an effect that does not depend on 'this pattern matched': " + effects[i]
				}
			}
			// once matched, the loop must be left: no way back to the header from a block under the match
			for b := range l.region {
				if len(b.Instrs) > 0 && c.exitUnderMatchOf(b.Instrs[0], l) {
					for _, t := range b.Succs {
						if t == l.header {
							return Violated, "after a pattern matched the loop continues with the next pattern: later matches overwrite earlier ones in map order"
						}
					}
				}
			}
			return Discharged, "first match wins over a set of patterns: order-insensitive iff at most one pattern matches a line — obligation handed to RX-DISJOINT"
		}
		return Violated, fmt.Sprintf("the loop leaves early at %s: which element is taken first depends on map order", c.P.InstrPos(earlyExits[0]))
	}
	if len(effects) > 0 {
		return Violated, "the body has order-sensitive effects (" + strings.Join(effects, ", ") + "): their sequence follows the map's iteration order"
	}
	// collect-then-sort: the only carried values are slices grown by append
	for _, p := range carried {
		if !flowsOnlyFromAppends(p, l) {
			if isCounterPhi(p, l) {
				continue
			}
			return Violated, fmt.Sprintf("the value of %s is carried from one iteration to the next and updated non-commutatively: the result depends on map order", phiLabel(p))
		}
		if why := c.sortedBeforeUse(p, l, 0); why != "" {
			return Violated, "elements are collected in map order and " + why
		}
	}
	if len(carried) == 0 && len(appendCalls) == 0 {
		return Discharged, "the body has no order-sensitive effect"
	}
	return Discharged, "collect-then-sort: the collected slice is sorted before every order-sensitive use"
}

func phiLabel(p *ssa.Phi) string {
	if p.Comment != "" {
		return p.Comment
	}
	return p.Name()
}

// dependsOnCarried: does v depend on a header phi of the loop?
func dependsOnCarried(v ssa.Value, l *mapLoop) bool {
	seen := map[ssa.Value]bool{}
	var walk func(v ssa.Value, d int) bool
	walk = func(v ssa.Value, d int) bool {
		if d > 12 || seen[v] {
			return false
		}
		seen[v] = true
		if p, ok := v.(*ssa.Phi); ok && p.Block() == l.header {
			return true
		}
		if u, ok := v.(*ssa.UnOp); ok && u.Op == token.MUL && l.carriedAddr != nil && l.region[u.Block()] {
			if fa, ok := u.X.(*ssa.FieldAddr); ok && fa.Field == l.carriedAddr.Field && fa.X == l.carriedAddr.X {
				return true
			}
		}
		in, ok := v.(ssa.Instruction)
		if !ok {
			return false
		}
		for _, op := range in.Operands(nil) {
			if op != nil && *op != nil && walk(*op, d+1) {
				return true
			}
		}
		return false
	}
	return walk(v, 0)
}

// flowsOnlyFromAppends: header phi = phi(init, append(phi, ...)) possibly
// through inner phis of the body.
func flowsOnlyFromAppends(p *ssa.Phi, l *mapLoop) bool {
	if _, ok := p.Type().Underlying().(*types.Slice); !ok {
		return false
	}
	seen := map[ssa.Value]bool{}
	var ok func(v ssa.Value) bool
	ok = func(v ssa.Value) bool {
		if v == ssa.Value(p) || seen[v] {
			return true
		}
		seen[v] = true
		switch x := v.(type) {
		case *ssa.Phi:
			if !l.region[x.Block()] {
				return false
			}
			for _, e := range x.Edges {
				if !ok(e) {
					return false
				}
			}
			return true
		case *ssa.Call:
			if _, isApp := isBuiltinCall(x, "append"); isApp && l.region[x.Block()] {
				return ok(x.Call.Args[0])
			}
		}
		return false
	}
	for i, e := range p.Edges {
		pred := l.header.Preds[i]
		if l.region[pred] || pred == l.header {
			if !ok(e) {
				return false
			}
		}
	}
	return true
}

// isCounterPhi: phi(init, phi + const): a counter, commutative.
func isCounterPhi(p *ssa.Phi, l *mapLoop) bool {
	for i, e := range p.Edges {
		pred := l.header.Preds[i]
		if !(l.region[pred] || pred == l.header) {
			continue
		}
		b, ok := e.(*ssa.BinOp)
		if !ok || (b.Op != token.ADD && b.Op != token.SUB) {
			return false
		}
		if !((b.X == ssa.Value(p) && isConst(b.Y)) || (b.Y == ssa.Value(p) && isConst(b.X))) {
			return false
		}
	}
	return true
}

func isConst(v ssa.Value) bool { _, ok := v.(*ssa.Const); return ok }

// sortedBeforeUse: every order-sensitive use of slice value s outside the
// loop is dominated by a sort call on it. Returns "" if so.
func (c *Ctx) sortedBeforeUse(s ssa.Value, l *mapLoop, depth int) string {
	if depth > 2 {
		return "is handed on too deep to follow"
	}
	type use struct {
		in   ssa.Instruction
		kind string
	}
	var sorts []ssa.Instruction
	var sens []use
	var visit func(v ssa.Value, d int)
	seen := map[ssa.Value]bool{}
	visit = func(v ssa.Value, d int) {
		if d > 4 || seen[v] {
			return
		}
		seen[v] = true
		for _, r := range referrers(v) {
			if l != nil && (l.region[r.Block()] || r.Block() == l.header) {
				continue // the collecting loop itself
			}
			switch x := r.(type) {
			case *ssa.DebugRef:
			case *ssa.Call:
				if _, ok := isBuiltinCall(x, "len", "cap"); ok {
					continue
				}
				if isSortCall(x) {
					sorts = append(sorts, x)
					continue
				}
				if isLogCall(x) {
					continue
				}
				sens = append(sens, use{x, "is passed to " + calleeLabel(&x.Call)})
			case *ssa.MakeInterface, *ssa.ChangeType, *ssa.Convert:
				visit(x.(ssa.Value), d+1)
			case *ssa.BinOp:
				// comparison with nil
			case *ssa.Phi:
				visit(x, d+1)
			case *ssa.Index, *ssa.IndexAddr, *ssa.Slice, *ssa.Range, *ssa.Return, *ssa.Store, *ssa.MapUpdate:
				sens = append(sens, use{r, fmt.Sprintf("is used by %T", r)})
			default:
				sens = append(sens, use{r, fmt.Sprintf("is used by %T", r)})
			}
		}
	}
	visit(s, 0)
	for _, u := range sens {
		ok := false
		for _, so := range sorts {
			if instrDominates(so, u.in) {
				ok = true
			}
		}
		if ok {
			continue
		}
		// a slice of at most one element has only one order
		if c.knownLenAtMostOne(u.in, s) {
			continue
		}
		// handed to a repository function: follow the parameter
		if call, isCall := u.in.(*ssa.Call); isCall {
			if sf := staticFn(&call.Call); sf != nil && c.P.IsRepoFn(sf) && len(sf.Blocks) > 0 {
				all := true
				for i, a := range call.Call.Args {
					if (a == s || seen[a]) && i < len(sf.Params) {
						if why := c.sortedBeforeUse(sf.Params[i], nil, depth+1); why != "" {
							return why + " (in " + load.FnName(sf) + ")"
						}
					} else if a == s {
						all = false
					}
				}
				if all {
					continue
				}
			}
		}
		// handed back to the callers (a helper that only collects): every caller sorts what it gets
		if ret, isRet := u.in.(*ssa.Return); isRet {
			fn := ret.Parent()
			n, why := 0, ""
			for _, e := range c.Graph().In[fn] {
				cc := callCommon(e.Site)
				cv, isVal := e.Site.(ssa.Value)
				if cc == nil || staticFn(cc) != fn || !isVal {
					continue
				}
				n++
				if w := c.sortedBeforeUse(cv, nil, depth+1); w != "" {
					why = w + " (in " + load.FnName(e.Caller) + ")"
				}
			}
			if n > 0 && why == "" {
				continue
			}
			if why != "" {
				return why
			}
		}
		return fmt.Sprintf("%s at %s without a dominating sort", u.kind, c.P.InstrPos(u.in))
	}
	return ""
}

// knownLenAtMostOne: facts at in say len(s) is 0 or 1.
func (c *Ctx) knownLenAtMostOne(in ssa.Instruction, s ssa.Value) bool {
	for cond, val := range c.factsAt(in) {
		b, ok := cond.(*ssa.BinOp)
		if !ok {
			continue
		}
		call, ok := b.X.(*ssa.Call)
		if !ok {
			continue
		}
		if bi, ok := call.Call.Value.(*ssa.Builtin); !ok || bi.Name() != "len" || stripConv(call.Call.Args[0]) != stripConv(s) {
			continue
		}
		n, ok := constInt(b.Y)
		if !ok {
			continue
		}
		if val && ((b.Op == token.EQL && n <= 1) || (b.Op == token.LEQ && n <= 1) || (b.Op == token.LSS && n <= 2)) {
			return true
		}
		if !val && ((b.Op == token.GTR && n <= 1) || (b.Op == token.GEQ && n <= 2)) {
			return true
		}
	}
	return false
}

// exitUnderMatchOf: the exit instruction is only reached when a match call on
// the iteration's pattern value succeeded.
func (c *Ctx) exitUnderMatchOf(exit ssa.Instruction, l *mapLoop) bool {
	if l.val == nil {
		return false
	}
	var calls []*ssa.Call
	for _, r := range referrers(l.val) {
		if call, m, recv, _, ok := regexpCall(r); ok && recv == l.val && regexpMatchMethods[m] {
			calls = append(calls, call)
		}
	}
	f := c.factsAt(exit)
	for _, call := range calls {
		if knownNonEmpty(f, call) {
			return true
		}
		if v, ok := f[call]; ok && v {
			return true
		}
	}
	return false
}

// ---------- DEF-FRAGMENT ----------

// defFragmentFns finds the functions that substitute "{{name}}" references by
// ranging over a map (at least two map loops with ReplaceAll in the body) and
// reports, per function, "" if it is inside the fragment, else why not.
func (c *Ctx) defFragmentFns() map[*ssa.Function]string {
	if c.defFrag != nil {
		return c.defFrag
	}
	out := map[*ssa.Function]string{}
	for _, fn := range c.P.RepoFns {
		loops := mapLoops(fn)
		if len(loops) == 0 {
			continue
		}
		// a definition-expansion function: some map loop calls ReplaceAll with a needle built from "{{"
		isExp := false
		allInstrs(fn, func(in ssa.Instruction) {
			if call, ok := in.(*ssa.Call); ok {
				f := staticCallee(&call.Call)
				if (isFn(f, "strings", "ReplaceAll") || isFn(f, "bytes", "ReplaceAll")) && len(call.Call.Args) == 3 {
					if _, ok := needleKey(call.Call.Args[1]); ok {
						isExp = true
					}
				}
			}
		})
		if !isExp {
			continue
		}
		// map iterations that neither substitute nor update (a sorted list of names collected for a trace line)
		// are not part of the fragment: MAP-ORDER classifies them on their own
		var frag []*mapLoop
		for _, l := range loops {
			works := false
			for b := range l.region {
				for _, in := range b.Instrs {
					switch x := in.(type) {
					case *ssa.MapUpdate:
						works = true
					case *ssa.Call:
						if f := staticCallee(&x.Call); isFn(f, "strings", "ReplaceAll") || isFn(f, "bytes", "ReplaceAll") || isFn(f, "strings", "Replace") || isFn(f, "bytes", "Replace") {
							works = true
						}
					}
				}
			}
			if works {
				frag = append(frag, l)
			}
		}
		out[fn] = c.checkDefFragment(fn, frag)
	}
	c.defFrag = out
	return out
}

// needleKey recognises "{{" + k + "}}" (optionally converted to []byte) and returns k.
func needleKey(v ssa.Value) (ssa.Value, bool) {
	v = stripConv(v)
	// a helper that builds the reference text from the name: func ref(name string) string { return "{{" + name + "}}" }
	if call, ok := v.(*ssa.Call); ok {
		if sf := staticFn(&call.Call); sf != nil && len(sf.Blocks) == 1 && len(sf.Params) == 1 && len(call.Call.Args) == 1 {
			if r, ok := sf.Blocks[0].Instrs[len(sf.Blocks[0].Instrs)-1].(*ssa.Return); ok && len(r.Results) == 1 {
				if k, ok := needleKey(r.Results[0]); ok && k == ssa.Value(sf.Params[0]) {
					return call.Call.Args[0], true
				}
			}
		}
	}
	ops := stringOperands(v, 0)
	if len(ops) != 3 {
		return nil, false
	}
	a, ok1 := constString(ops[0])
	b, ok2 := constString(ops[2])
	if !ok1 || !ok2 || a != "{{" || b != "}}" {
		return nil, false
	}
	return ops[1], true
}

func (c *Ctx) checkDefFragment(fn *ssa.Function, loops []*mapLoop) string {
	if len(loops) != 3 {
		return fmt.Sprintf("%d map iterations instead of the three of the fragment (nested pair + substitution loop)", len(loops))
	}
	// identify outer, inner, last
	var outer, inner, last *mapLoop
	for _, a := range loops {
		for _, b := range loops {
			if a != b && a.region[b.header] {
				outer, inner = a, b
			}
		}
	}
	if outer == nil {
		return "no nested pair of map iterations"
	}
	for _, l := range loops {
		if l != outer && l != inner {
			last = l
		}
	}
	// the same map: one value, or loads of one field of one struct that nothing in the function assigns
	// (and no function of the repository is called that could)
	sameMap := func(a, b ssa.Value) bool {
		if a == b {
			return true
		}
		ua, ok := a.(*ssa.UnOp)
		if !ok || !sameLoad(a, b) {
			return false
		}
		// a parameter that a closure captured lives in a cell: loads of the cell are the same map as long as
		// the cell is assigned once (the parameter itself)
		if cell, isCell := ua.X.(*ssa.Alloc); isCell {
			stores := 0
			for _, r := range referrers(cell) {
				if st, ok := r.(*ssa.Store); ok && st.Addr == ssa.Value(cell) {
					stores++
					if _, isPar := st.Val.(*ssa.Parameter); !isPar {
						return false
					}
				}
			}
			return stores == 1
		}
		fa, ok := ua.X.(*ssa.FieldAddr)
		if !ok {
			return false
		}
		if _, isPar := fa.X.(*ssa.Parameter); !isPar {
			return false
		}
		stable := true
		allInstrs(fn, func(in ssa.Instruction) {
			switch x := in.(type) {
			case *ssa.Store:
				if f2, ok := x.Addr.(*ssa.FieldAddr); ok && f2.Field == fa.Field && types.Identical(f2.X.Type(), fa.X.Type()) {
					stable = false
				}
			case *ssa.Call:
				if lm0 := c.Loud(); lm0.IsLoud(in) || isLogCall(x) || pureCall(x) {
					return
				}
				if _, isNeedle := needleKey(x); isNeedle {
					return
				}
				if sf := staticFn(&x.Call); (sf != nil && c.P.IsRepoFn(sf)) || (sf == nil && staticCallee(&x.Call) == nil && x.Call.Value != nil) {
					if _, isBuiltin := x.Call.Value.(*ssa.Builtin); !isBuiltin {
						stable = false
					}
				}
			}
		})
		return stable
	}
	if !sameMap(outer.rng.X, inner.rng.X) || !sameMap(outer.rng.X, last.rng.X) {
		return "the three loops do not range over the same map value"
	}
	V := outer.rng.X
	// the text may be carried in a field of the same struct instead of a local variable: the one store in
	// the substitution loop
	for b := range last.region {
		for _, in := range b.Instrs {
			st, ok := in.(*ssa.Store)
			if !ok {
				continue
			}
			fa, ok := st.Addr.(*ssa.FieldAddr)
			if !ok || last.carriedAddr != nil {
				return fmt.Sprintf("%T inside the fragment at %s", in, c.P.InstrPos(in))
			}
			if _, isPar := fa.X.(*ssa.Parameter); !isPar {
				return fmt.Sprintf("%T inside the fragment at %s", in, c.P.InstrPos(in))
			}
			if vu, ok := V.(*ssa.UnOp); ok {
				if vf, ok := vu.X.(*ssa.FieldAddr); ok && vf.Field == fa.Field && types.Identical(vf.X.Type(), fa.X.Type()) {
					return "the substitution loop assigns the map it ranges over"
				}
			}
			last.carriedAddr = fa
		}
	}
	// no loop other than the three map iterations (a repeat-until-stable loop does not terminate on cyclic definitions)
	for _, l := range naturalLoops(fn) {
		if l.header != outer.header && l.header != inner.header && l.header != last.header && l.body[outer.header] {
			return "VIOLATION: definition expansion is wrapped in a further loop (repeat until nothing changes): definitions that refer to themselves or to each other make it run forever, where one pass leaves the reference as literal text"
		}
	}
	if !outer.header.Dominates(last.header) || outer.region[last.header] {
		return "the substitution loop does not come after the definition-in-definition loop"
	}
	lm := c.Loud()
	// inner loop body: exactly one MapUpdate V[innerKey] = strings.ReplaceAll(innerVal, "{{"+outerKey+"}}", outerVal)
	updates := 0
	for _, b := range fn.Blocks {
		inInner, inOuter, inLast := inner.region[b], outer.region[b], last.region[b]
		if !inOuter && !inLast {
			continue
		}
		for _, in := range b.Instrs {
			switch x := in.(type) {
			case *ssa.Return:
				return "a loop of the fragment returns early"
			case *ssa.MapUpdate:
				if !inInner {
					return "map update outside the inner loop at " + c.P.InstrPos(in)
				}
				if !sameMap(x.Map, V) || x.Key != inner.key {
					return "the inner loop updates something other than V[innerKey]"
				}
				call, ok := x.Value.(*ssa.Call)
				if !ok || !isFn(staticCallee(&call.Call), "strings", "ReplaceAll") {
					return "the inner update is not a ReplaceAll"
				}
				k, ok := needleKey(call.Call.Args[1])
				if !ok || k != outer.key || call.Call.Args[0] != inner.val || call.Call.Args[2] != outer.val {
					return "the inner update is not ReplaceAll(innerValue, \"{{\"+outerKey+\"}}\", outerValue)"
				}
				updates++
			case *ssa.Store:
				if last.carriedAddr != nil && x.Addr == ssa.Value(last.carriedAddr) && inLast {
					continue
				}
				return fmt.Sprintf("%T inside the fragment at %s", in, c.P.InstrPos(in))
			case *ssa.Send, *ssa.Go, *ssa.Defer:
				return fmt.Sprintf("%T inside the fragment at %s", in, c.P.InstrPos(in))
			case *ssa.Call:
				if lm.IsLoud(in) || isLogCall(x) || pureCall(x) {
					continue
				}
				if _, isNeedle := needleKey(x); isNeedle {
					continue // a helper that only builds "{{name}}"
				}
				if f := staticCallee(&x.Call); isFn(f, "bytes", "NewBuffer") || isFn(f, "bytes", "NewBufferString") || isMeth(f, "bytes", "Buffer", "Bytes") || isMeth(f, "bytes", "Buffer", "String") {
					continue
				}
				return "call of " + calleeLabel(&x.Call) + " inside the fragment"
			case *ssa.Jump:
				t := b.Succs[0]
				for _, l := range []*mapLoop{inner, outer, last} {
					if l.region[b] && !l.region[t] && t != l.header {
						return "break out of a loop of the fragment"
					}
				}
			}
		}
	}
	if updates != 1 {
		return fmt.Sprintf("%d updates in the inner loop instead of one", updates)
	}
	if len(inner.region) != 1 {
		return "a loop body of the fragment contains control flow (the argument covers unconditional substitution only)"
	}
	if len(last.region) != 1 {
		// the only control flow the argument tolerates in the substitution loop: skipping the
		// ReplaceAll when the text does not contain the needle, which is what ReplaceAll does anyway
		for b := range last.region {
			iff, ok := b.Instrs[len(b.Instrs)-1].(*ssa.If)
			if !ok || b == last.header {
				continue
			}
			cond, _ := unwrapNot(iff.Cond)
			call, ok := cond.(*ssa.Call)
			okGuard := false
			if ok {
				f := staticCallee(&call.Call)
				if (isFn(f, "bytes", "Contains") || isFn(f, "strings", "Contains")) && len(call.Call.Args) == 2 {
					if k, ok := needleKey(call.Call.Args[1]); ok && k == last.key && dependsOnCarried(call.Call.Args[0], last) {
						okGuard = true
					}
				}
			}
			if !okGuard {
				return "a loop body of the fragment contains control flow (the argument covers unconditional substitution, or substitution skipped when the text does not contain the reference)"
			}
		}
	}
	// the outer loop body is straight-line apart from the inner loop
	for b := range outer.region {
		if inner.region[b] || b == inner.header {
			continue
		}
		if _, isIf := b.Instrs[len(b.Instrs)-1].(*ssa.If); isIf {
			return "the outer loop of the fragment skips some definitions conditionally (the argument needs every definition substituted into every other)"
		}
	}

	// last loop: src' = ReplaceAll(src, "{{"+key+"}}", val) carried through the header phi
	found := 0
	for _, b := range fn.Blocks {
		if !last.region[b] {
			continue
		}
		for _, in := range b.Instrs {
			call, ok := in.(*ssa.Call)
			if !ok {
				continue
			}
			f := staticCallee(&call.Call)
			if !(isFn(f, "strings", "ReplaceAll") || isFn(f, "bytes", "ReplaceAll")) {
				continue
			}
			k, ok := needleKey(call.Call.Args[1])
			if !ok || k != last.key || stripConv(call.Call.Args[2]) != last.val {
				return "the substitution loop does not replace \"{{\"+key+\"}}\" by the value"
			}
			if !dependsOnCarried(call.Call.Args[0], last) {
				return "the substitution loop does not substitute in the text carried from the previous iteration"
			}
			if last.carriedAddr != nil {
				// what is stored back is that substitution
				stored := false
				for _, r := range referrers(last.carriedAddr) {
					if st, ok := r.(*ssa.Store); ok && st.Addr == ssa.Value(last.carriedAddr) && derivesFrom(st.Val, call, 6) {
						stored = true
					}
				}
				if !stored {
					return "the substitution loop does not keep the substituted text for the next iteration"
				}
			}
			found++
		}
	}
	if found != 1 {
		return fmt.Sprintf("%d substitutions in the last loop instead of one", found)
	}
	// the header of the last loop carries exactly one value
	n := 0
	for _, in := range last.header.Instrs {
		if ph, ok := in.(*ssa.Phi); ok {
			// a boolean "something was replaced" flag carries no text
			if isBoolType(ph) {
				flag := true
				for _, e := range ph.Edges {
					if _, isC := e.(*ssa.Const); !isC && e != ssa.Value(ph) {
						if p2, isP := e.(*ssa.Phi); !isP || !isBoolType(p2) {
							flag = false
						}
					}
				}
				if flag {
					continue
				}
			}
			n++
		}
	}
	if last.carriedAddr != nil {
		n++
	}
	if n != 1 {
		return fmt.Sprintf("the substitution loop carries %d values instead of the text alone", n)
	}
	// call sites: not inside a loop
	for _, e := range c.Graph().In[fn] {
		if inCycle(e.Site.Block()) {
			return "VIOLATION: called from inside a loop in " + load.FnName(e.Caller) + ": definitions are applied before the whole file was read, so a definition that comes later in the file is not substituted into text that was already expanded (the result depends on the order of the definition lines)"
		}
	}
	// and the call is skipped only when there is nothing to expand
	for _, e := range c.Graph().In[fn] {
		cc := callCommon(e.Site)
		if cc == nil || staticFn(cc) != fn {
			continue
		}
		S := e.Site.Block()
		reachS := blocksReaching(S)
		for d := S.Idom(); d != nil; d = d.Idom() {
			iff, ok := d.Instrs[len(d.Instrs)-1].(*ssa.If)
			if !ok || len(d.Succs) != 2 {
				continue
			}
			for _, o := range d.Succs {
				if reachS[o] || o == S {
					continue
				}
				if !c.reachesNormalReturn(o) {
					continue // a failure exit, not a way around the call
				}
				cond, _ := unwrapNot(iff.Cond)
				mapField := -1
				if vu, ok := V.(*ssa.UnOp); ok {
					if vf, ok := vu.X.(*ssa.FieldAddr); ok {
						mapField = vf.Field
					}
				}
				if !isLenTestOfArg(cond, cc.Args, mapField) {
					return "VIOLATION: the expansion in " + load.FnName(e.Caller) + " is skipped under a condition other than 'no definitions' (" + c.P.InstrPos(iff) + "): references that the condition does not anticipate stay in the text as literal {{name}}"
				}
			}
		}
	}
	return ""
}

// blocksReaching: blocks from which b is reachable.
func blocksReaching(b *ssa.BasicBlock) map[*ssa.BasicBlock]bool {
	out := map[*ssa.BasicBlock]bool{}
	stack := append([]*ssa.BasicBlock(nil), b.Preds...)
	for len(stack) > 0 {
		x := stack[len(stack)-1]
		stack = stack[:len(stack)-1]
		if out[x] {
			continue
		}
		out[x] = true
		stack = append(stack, x.Preds...)
	}
	return out
}

// reachesNormalReturn: a Return is reachable from b without passing a loud exit.
func (c *Ctx) reachesNormalReturn(b *ssa.BasicBlock) bool {
	lm := c.Loud()
	seen := map[*ssa.BasicBlock]bool{}
	stack := []*ssa.BasicBlock{b}
	for len(stack) > 0 {
		x := stack[len(stack)-1]
		stack = stack[:len(stack)-1]
		if seen[x] {
			continue
		}
		seen[x] = true
		if lm.BlockDies(x) {
			continue
		}
		if _, ok := x.Instrs[len(x.Instrs)-1].(*ssa.Return); ok {
			return true
		}
		stack = append(stack, x.Succs...)
	}
	return false
}

// isLenTestOfArg: cond is len(X) compared with a constant, X one of the call's arguments
// (the same value, or a load of the same field).
func isLenTestOfArg(cond ssa.Value, args []ssa.Value, mapField int) bool {
	b, ok := cond.(*ssa.BinOp)
	if !ok {
		return false
	}
	var lenOp ssa.Value
	for _, side := range []ssa.Value{b.X, b.Y} {
		if call, ok := side.(*ssa.Call); ok {
			if bi, ok := call.Call.Value.(*ssa.Builtin); ok && bi.Name() == "len" {
				lenOp = call.Call.Args[0]
			}
		}
	}
	if lenOp == nil {
		return false
	}
	for _, a := range args {
		if a == lenOp || sameLoad(a, lenOp) {
			return true
		}
		// the map is a field of the struct that is handed over (the receiver of a method that expands its own state)
		if u, ok := lenOp.(*ssa.UnOp); ok && u.Op == token.MUL {
			if fa, ok := u.X.(*ssa.FieldAddr); ok && fa.X == a && fa.Field == mapField {
				return true
			}
		}
	}
	return false
}

// inCycle: can the block reach itself?
func inCycle(b *ssa.BasicBlock) bool {
	seen := map[*ssa.BasicBlock]bool{}
	stack := append([]*ssa.BasicBlock(nil), b.Succs...)
	for len(stack) > 0 {
		x := stack[len(stack)-1]
		stack = stack[:len(stack)-1]
		if x == b {
			return true
		}
		if seen[x] {
			continue
		}
		seen[x] = true
		stack = append(stack, x.Succs...)
	}
	return false
}

// RuleDefFragment reports the DEF-FRAGMENT obligations.
func (c *Ctx) RuleDefFragment() *Result {
	res := &Result{Rule: "DEF-FRAGMENT", MinInst: 1}
	for fn, why := range c.defFragmentFns() {
		res.Instances++
		key := load.FnName(fn) + ":definition expansion"
		if why == "" {
			res.ok(key, c.P.FnPos(fn), "nested definition loop + substitution loop are inside the fragment whose order-independence is argued in DESIGN.md (C07); applied once after the file is read")
		} else if strings.HasPrefix(why, "VIOLATION: ") {
			res.bad(key, c.P.FnPos(fn), strings.TrimPrefix(why, "VIOLATION: "))
		} else {
			res.undecided(key, c.P.FnPos(fn), "definition expansion is outside the fragment the order-independence argument covers: "+why)
		}
	}
	return res
}

// ---------- NONDET-SRC ----------

var nondetFns = map[string]map[string]bool{
	"time":                   {"Now": true, "Since": true, "Until": true},
	"hash/maphash":           nil, // seeded at random in every process
	"os":                     {"Getpid": true, "Getppid": true, "Hostname": true},
	"runtime":                {"NumGoroutine": true, "Stack": true, "NumCPU": true, "GOMAXPROCS": true},
	"math/rand":              nil, // any
	"math/rand/v2":           nil,
	"crypto/rand":            nil,
	"github.com/google/uuid": nil,
}

// RuleNondetSrc: no other source of nondeterminism is reachable from the
// deterministic commands.
func (c *Ctx) RuleNondetSrc(commands []string) *Result {
	res := &Result{Rule: "NONDET-SRC", MinInst: 4}
	g := c.Graph()
	cm := c.Commands()
	reported := map[ssa.Instruction]bool{}
	for _, name := range commands {
		cmd := cm.ByName[name]
		if cmd == nil {
			res.undecided("cmd:"+name, "-", "command "+name+" not found in the command model")
			continue
		}
		res.Instances++
		reach := g.Reach(c.CommandRoots(cmd))
		n := 0
		for fn := range reach {
			allInstrs(fn, func(in ssa.Instruction) {
				what := ""
				switch x := in.(type) {
				case *ssa.Go:
					what = "go statement"
				case *ssa.Select:
					what = "select"
				case *ssa.Send:
					what = "channel send"
				case *ssa.UnOp:
					if x.Op == token.ARROW {
						what = "channel receive"
					}
					if g, ok := x.X.(*ssa.Global); ok && x.Op == token.MUL && g.Pkg != nil && g.Pkg.Pkg.Path() == "os" && g.Name() == "Args" {
						what = "os.Args (how the process was started)"
					}
				case *ssa.Call:
					if x.Call.IsInvoke() && x.Call.Method.Name() == "ModTime" {
						what = "the modification time of a file (ModTime)"
					}
					f := staticCallee(&x.Call)
					if f == nil {
						break
					}
					names, ok := nondetFns[objPkgPath(f)]
					if ok && (names == nil || names[f.Name()]) {
						what = qualName(f)
					}
					switch {
					case objPkgPath(f) == "os" && recvNamed(f) == "File" && (f.Name() == "ReadDir" || f.Name() == "Readdir" || f.Name() == "Readdirnames"):
						what = qualName(f) + " (directory entries in the order the file system keeps them; os.ReadDir and filepath.WalkDir sort)"
					case objPkgPath(f) == "os" && (f.Name() == "Getenv" || f.Name() == "LookupEnv" || f.Name() == "Environ"):
						what = qualName(f) + " (the environment of the process is not one of the files the output may depend on)"
					case f.Name() == "ModTime":
						what = "the modification time of a file (" + qualName(f) + ")"
					}
				}
				if what == "" {
					return
				}
				if call, ok := in.(*ssa.Call); ok {
					if owner := c.flagRegistrationOnly(call, commands); owner != "" {
						if !reported[in] {
							reported[in] = true
							res.Instances++
							res.ok(load.FnName(fn)+":"+what, c.P.InstrPos(in), "the value flows only into the registration of a flag of command "+owner+", which is not one of the commands this rule is about: it is the flag's default (or help text) there and no other command parses that flag set")
						}
						return
					}
				}
				n++
				if reported[in] {
					return
				}
				reported[in] = true
				res.Instances++
				res.bad(load.FnName(fn)+":"+what, c.P.InstrPos(in), fmt.Sprintf("%s is reachable from command %s (%s): its value differs between runs", what, name, PathTo(reach, fn)))
			})
		}
		if n == 0 {
			res.ok("cmd:"+name, c.P.FnPos(cmd.In), fmt.Sprintf("%d functions reachable; no time, random, process-identity, goroutine or channel construct", len(reach)))
		} else {
			res.ok("cmd:"+name, c.P.FnPos(cmd.In), fmt.Sprintf("%d functions reachable; %d nondeterministic constructs reported separately", len(reach), n))
		}
	}
	return res
}

// flagRegistrationOnly: every use of the value of call ends (through method calls on it, conversions and
// strconv/fmt formatting) as an argument of a registration method of the local flag set (Flags(), not
// PersistentFlags()) of one command that runs and is none of the named ones. Returns that command's name.
func (c *Ctx) flagRegistrationOnly(call *ssa.Call, commands []string) string {
	owner := ""
	ok := true
	seen := map[ssa.Value]bool{}
	var walk func(v ssa.Value, d int)
	walk = func(v ssa.Value, d int) {
		if !ok || seen[v] {
			return
		}
		if d > 6 {
			ok = false
			return
		}
		seen[v] = true
		refs := referrers(v)
		uses := 0
		for _, r := range refs {
			switch x := r.(type) {
			case *ssa.DebugRef:
			case *ssa.ChangeType:
				uses++
				walk(x, d+1)
			case *ssa.Convert:
				uses++
				walk(x, d+1)
			case *ssa.Call:
				uses++
				f := staticCallee(&x.Call)
				if f == nil {
					ok = false
					return
				}
				if objPkgPath(f) == "github.com/spf13/pflag" && recvNamed(f) == "FlagSet" {
					// the registration: the flag set is Flags() of which command
					if len(x.Call.Args) == 0 {
						ok = false
						return
					}
					fs, isCall := x.Call.Args[0].(*ssa.Call)
					if !isCall || !isMeth(staticCallee(&fs.Call), cobraPkg, "Command", "Flags") || len(fs.Call.Args) == 0 {
						ok = false
						return
					}
					cmd := c.commandOf(fs.Call.Args[0], 0)
					if cmd == nil || cmd.Name == "" || (cmd.Entries["Run"] == nil && cmd.Entries["RunE"] == nil) {
						ok = false
						return
					}
					for _, n := range commands {
						if n == cmd.Name {
							ok = false
							return
						}
					}
					if owner != "" && owner != cmd.Name {
						ok = false
						return
					}
					owner = cmd.Name
					continue
				}
				// a pure step on the way: a method of the value itself (time.Time.Year), strconv / fmt formatting
				pure := (x.Call.Args[0] == v && x.Call.Signature().Recv() != nil && objPkgPath(f) == "time") ||
					objPkgPath(f) == "strconv" || (objPkgPath(f) == "fmt" && strings.HasPrefix(f.Name(), "Sprint"))
				if !pure {
					ok = false
					return
				}
				walk(x, d+1)
			default:
				// the variadic slot of fmt.Sprint*: interface conversion stored into the argument array
				if mi, isMI := r.(*ssa.MakeInterface); isMI {
					uses++
					walk(mi, d+1)
					continue
				}
				if st, isSt := r.(*ssa.Store); isSt && st.Val == v {
					if ia, isIA := st.Addr.(*ssa.IndexAddr); isIA {
						if al, isAl := ia.X.(*ssa.Alloc); isAl && al.Comment == "varargs" {
							uses++
							for _, r2 := range referrers(al) {
								if sl, isSl := r2.(*ssa.Slice); isSl {
									walk(sl, d+1)
								}
							}
							continue
						}
					}
				}
				ok = false
				return
			}
		}
		if uses == 0 {
			// a value nobody looks at decides nothing either way; but the call itself must end somewhere
			if v == ssa.Value(call) {
				ok = false
			}
		}
	}
	walk(call, 0)
	if !ok {
		return ""
	}
	return owner
}

// commandOf: the command a *cobra.Command value is: the literal itself, the result of the constructor
// that returns the literal, or a package variable that is only ever assigned such a value.
func (c *Ctx) commandOf(v ssa.Value, d int) *Command {
	if d > 4 {
		return nil
	}
	switch x := stripConv(v).(type) {
	case *ssa.Alloc:
		for _, cmd := range c.Commands().Commands {
			if cmd.Alloc == x {
				return cmd
			}
		}
	case *ssa.Call:
		F := staticFn(&x.Call)
		if F == nil || !c.P.IsRepoFn(F) {
			return nil
		}
		var out *Command
		bad := false
		allInstrs(F, func(in ssa.Instruction) {
			if r, ok := in.(*ssa.Return); ok && len(r.Results) > 0 {
				got := c.commandOf(r.Results[0], d+1)
				if got == nil || (out != nil && got != out) {
					bad = true
				}
				out = got
			}
		})
		if bad {
			return nil
		}
		return out
	case *ssa.UnOp:
		g, ok := x.X.(*ssa.Global)
		if !ok || x.Op != token.MUL {
			return nil
		}
		var out *Command
		bad := false
		n := 0
		for _, fn := range c.P.RepoFns {
			allInstrs(fn, func(in ssa.Instruction) {
				st, ok := in.(*ssa.Store)
				if !ok || st.Addr != ssa.Value(g) {
					return
				}
				n++
				got := c.commandOf(st.Val, d+1)
				if got == nil || (out != nil && got != out) {
					bad = true
				}
				out = got
			})
		}
		if bad || n == 0 {
			return nil
		}
		return out
	}
	return nil
}

// rootAlloc follows FieldAddr/IndexAddr chains to the Alloc they address.
func rootAlloc(addr ssa.Value) *ssa.Alloc {
	for i := 0; i < 8; i++ {
		switch x := addr.(type) {
		case *ssa.Alloc:
			return x
		case *ssa.FieldAddr:
			addr = x.X
		case *ssa.IndexAddr:
			addr = x.X
		default:
			return nil
		}
	}
	return nil
}

// derivesFrom: src is v or one of the values v is computed from (operands, d levels).
func derivesFrom(v, src ssa.Value, d int) bool {
	if v == src {
		return true
	}
	if d <= 0 {
		return false
	}
	in, ok := v.(ssa.Instruction)
	if !ok {
		return false
	}
	if _, isPhi := v.(*ssa.Phi); isPhi {
		return false
	}
	for _, op := range in.Operands(nil) {
		if op != nil && *op != nil && derivesFrom(*op, src, d-1) {
			return true
		}
	}
	return false
}
