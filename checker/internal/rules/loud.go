package rules

import (
	"go/types"

	"golang.org/x/tools/go/ssa"
)

const zerologPkg = "github.com/rs/zerolog"

// LogEmission is a terminated zerolog event chain.
type LogEmission struct {
	Term  *ssa.Call // the Msg/Msgf/Send/MsgFunc call
	Start *ssa.Call // the Logger.<Level>() call, nil if the chain could not be walked
	Level string    // "fatal", "panic", "error", "warn", "info", "debug", "trace", "" unknown
}

// LoudModel knows which instructions end the process and the level of every
// log emission.
type LoudModel struct {
	loud      map[ssa.Instruction]string // instruction -> kind ("fatal", "panic", "os.Exit", "go-panic", "log.Fatal", "noreturn-call")
	emissions map[*ssa.Function][]LogEmission
	emitAt    map[ssa.Instruction]LogEmission
	// unterminated event chains (ERR-EVENT)
	dangling map[*ssa.Function][]*ssa.Call
	noReturn map[*ssa.Function]bool
}

var zerologTerminators = map[string]bool{"Msg": true, "Msgf": true, "Send": true, "MsgFunc": true}
var zerologLevels = map[string]string{
	"Fatal": "fatal", "Panic": "panic", "Error": "error", "Warn": "warn", "Info": "info", "Debug": "debug", "Trace": "trace",
}

func isEventPtr(t types.Type) bool {
	p, ok := t.(*types.Pointer)
	return ok && isNamed(p.Elem(), zerologPkg, "Event")
}

// walkEventChain walks back from an *Event value to the Logger call starting it.
func walkEventChain(v ssa.Value) (start *ssa.Call, level string) {
	for i := 0; i < 64; i++ {
		// an event kept in a variable that is optionally decorated (event = event.Err(cause)): every
		// edge must lead back to an event of the same level
		if ph, ok := v.(*ssa.Phi); ok {
			var st *ssa.Call
			lv := ""
			for j, e := range ph.Edges {
				if e == ssa.Value(ph) {
					continue
				}
				s2, l2 := walkEventChain(e)
				if s2 == nil || (j > 0 && st != nil && l2 != lv) {
					return nil, ""
				}
				if st == nil {
					st, lv = s2, l2
				}
			}
			return st, lv
		}
		c, ok := v.(*ssa.Call)
		if !ok {
			return nil, ""
		}
		f := staticCallee(&c.Call)
		if f == nil {
			return nil, ""
		}
		switch recvNamed(f) {
		case "Event":
			if objPkgPath(f) != zerologPkg || len(c.Call.Args) == 0 {
				return nil, ""
			}
			v = c.Call.Args[0]
			continue
		case "Logger":
			if objPkgPath(f) != zerologPkg {
				return nil, ""
			}
			if lv, ok := zerologLevels[f.Name()]; ok {
				return c, lv
			}
			return c, ""
		default:
			return nil, ""
		}
	}
	return nil, ""
}

func (c *Ctx) Loud() *LoudModel {
	if c.loud != nil {
		return c.loud
	}
	m := &LoudModel{
		loud:      map[ssa.Instruction]string{},
		emissions: map[*ssa.Function][]LogEmission{},
		emitAt:    map[ssa.Instruction]LogEmission{},
		dangling:  map[*ssa.Function][]*ssa.Call{},
		noReturn:  map[*ssa.Function]bool{},
	}
	for _, fn := range c.P.RepoFns {
		allInstrs(fn, func(in ssa.Instruction) {
			switch x := in.(type) {
			case *ssa.Panic:
				m.loud[in] = "go-panic"
			case *ssa.Call:
				f := staticCallee(&x.Call)
				if f == nil {
					return
				}
				switch {
				case isFn(f, "os", "Exit"):
					if n, ok := constInt(x.Call.Args[0]); ok && n != 0 {
						m.loud[in] = "os.Exit"
					}
				case objPkgPath(f) == "log" && recvNamed(f) == "" && (f.Name() == "Fatal" || f.Name() == "Fatalf" || f.Name() == "Fatalln" || f.Name() == "Panic" || f.Name() == "Panicf" || f.Name() == "Panicln"):
					m.loud[in] = "log.Fatal"
				case objPkgPath(f) == zerologPkg && recvNamed(f) == "Event" && zerologTerminators[f.Name()]:
					start, level := walkEventChain(x.Call.Args[0])
					em := LogEmission{Term: x, Start: start, Level: level}
					m.emissions[fn] = append(m.emissions[fn], em)
					m.emitAt[in] = em
					if level == "fatal" || level == "panic" {
						m.loud[in] = level
					}
				}
				// unterminated chain: a call yielding *Event whose value is never used
				if isEventPtr(x.Type()) && len(referrers(x)) == 0 {
					m.dangling[fn] = append(m.dangling[fn], x)
				}
			}
		})
	}
	// repository functions that never return normally (fixpoint)
	changed := true
	for changed {
		changed = false
		for _, fn := range c.P.RepoFns {
			if m.noReturn[fn] || len(fn.Blocks) == 0 {
				continue
			}
			if !m.canReturn(fn) {
				m.noReturn[fn] = true
				changed = true
				// calls to it become loud
				for _, g := range c.P.RepoFns {
					allInstrs(g, func(in ssa.Instruction) {
						if call, ok := in.(*ssa.Call); ok && staticFn(&call.Call) == fn {
							if _, done := m.loud[in]; !done {
								m.loud[in] = "noreturn-call"
							}
						}
					})
				}
			}
		}
	}
	c.loud = m
	return m
}

// canReturn: is a Return instruction reachable from the entry when blocks are
// cut at loud instructions?
func (m *LoudModel) canReturn(fn *ssa.Function) bool {
	seen := map[*ssa.BasicBlock]bool{}
	var walk func(b *ssa.BasicBlock) bool
	walk = func(b *ssa.BasicBlock) bool {
		if seen[b] {
			return false
		}
		seen[b] = true
		for _, in := range b.Instrs {
			if m.IsLoud(in) {
				return false
			}
			if _, ok := in.(*ssa.Return); ok {
				return true
			}
		}
		for _, s := range b.Succs {
			if walk(s) {
				return true
			}
		}
		return false
	}
	return walk(fn.Blocks[0])
}

// IsLoud reports whether executing in ends the process with a failure status.
func (m *LoudModel) IsLoud(in ssa.Instruction) bool {
	_, ok := m.loud[in]
	return ok
}

// LoudKind names the kind of loud exit.
func (m *LoudModel) LoudKind(in ssa.Instruction) string { return m.loud[in] }

// FirstLoud returns the index of the first loud instruction of b, or -1.
func (m *LoudModel) FirstLoud(b *ssa.BasicBlock) int {
	for i, in := range b.Instrs {
		if m.IsLoud(in) {
			return i
		}
	}
	return -1
}

// BlockDies reports whether control never leaves b normally.
func (m *LoudModel) BlockDies(b *ssa.BasicBlock) bool { return m.FirstLoud(b) >= 0 }

// Succs returns the live successors of b (none if b dies).
func (m *LoudModel) Succs(b *ssa.BasicBlock) []*ssa.BasicBlock {
	if m.BlockDies(b) {
		return nil
	}
	return b.Succs
}
