package rules

import (
	"fmt"
	"go/token"
	"go/types"
	"os"
	"sort"
	"strings"

	"golang.org/x/tools/go/ssa"

	"crsverif/internal/load"
)

// ---------- primitives ----------

// fsPrimitive describes a standard-library function that modifies the file system.
type fsPrimitive struct {
	pathArg int // index of the path argument in Call.Args (receiver counted), -1 if none
	dataArg int // index of the data argument, -1 if none
}

var fsPrims = map[string]fsPrimitive{
	"os.WriteFile": {0, 1}, "os.Create": {0, -1}, "os.CreateTemp": {0, -1}, "os.OpenFile": {0, -1},
	"os.Remove": {0, -1}, "os.RemoveAll": {0, -1}, "os.Rename": {1, -1}, "os.Mkdir": {0, -1}, "os.MkdirAll": {0, -1},
	"os.MkdirTemp": {0, -1}, "os.Symlink": {1, -1}, "os.Link": {1, -1}, "os.Truncate": {0, -1}, "os.Chmod": {0, -1},
	"os.Chown": {0, -1}, "os.Lchown": {0, -1}, "os.Chtimes": {0, -1},
	"os.(File).Truncate": {-1, -1}, "os.(File).Chmod": {-1, -1}, "os.(File).Chown": {-1, -1},
	"io/ioutil.WriteFile": {0, 1}, "io/ioutil.TempFile": {0, -1}, "io/ioutil.TempDir": {0, -1},
	"os/exec.Command": {-1, -1}, "os/exec.CommandContext": {-1, -1}, "os.StartProcess": {-1, -1},
	"syscall.Unlink": {0, -1}, "syscall.Rename": {1, -1}, "syscall.Mkdir": {0, -1}, "syscall.Rmdir": {0, -1},
	"syscall.Open": {0, -1}, "syscall.Creat": {0, -1}, "syscall.Truncate": {0, -1}, "syscall.Chmod": {0, -1},
	"syscall.Symlink": {1, -1}, "syscall.Link": {1, -1},
}

func isStdlib(pkg string) bool {
	first := pkg
	if i := strings.Index(pkg, "/"); i >= 0 {
		first = pkg[:i]
	}
	return !strings.Contains(first, ".")
}

// primitiveOf classifies a call as a direct primitive.
func primitiveOf(call *ssa.CallCommon) (string, fsPrimitive, bool) {
	f := staticCallee(call)
	if f == nil {
		return "", fsPrimitive{}, false
	}
	name := qualName(f)
	p, ok := fsPrims[name]
	if !ok {
		return "", fsPrimitive{}, false
	}
	if name == "os.OpenFile" && len(call.Args) >= 2 {
		if n, ok := constInt(call.Args[1]); ok && n == 0 {
			return "", fsPrimitive{}, false // O_RDONLY
		}
	}
	return name, p, true
}

// depExempt: reviewed third-party functions that are cut out of the closure.
var depExempt = map[string]string{
	"github.com/spf13/cobra.CompDebug": "cobra's shell-completion debug log: appends to the file named by the environment variable BASH_COMP_DEBUG_FILE, and only from the hidden __complete/__completeNoDesc commands that a shell's completion script invokes; not reachable from any command the property names with any of their flags, and never below the CRS root unless the user's environment says so",
}

// depWrites computes which third-party functions can reach a primitive through
// static calls and function-value references inside the dependencies.
func (c *Ctx) depWrites() map[*ssa.Function]string {
	if c.depWr != nil {
		return c.depWr
	}
	memo := map[*ssa.Function]string{}
	state := map[*ssa.Function]int{} // 1 visiting, 2 done
	var visit func(fn *ssa.Function) string
	visit = func(fn *ssa.Function) string {
		if state[fn] == 2 {
			return memo[fn]
		}
		if state[fn] == 1 || fn == nil || len(fn.Blocks) == 0 {
			return ""
		}
		if why, ok := depExempt[load.FnName(fn)]; ok {
			c.depNotes = append(c.depNotes, load.FnName(fn)+": "+why)
			state[fn] = 2
			return ""
		}
		state[fn] = 1
		res := ""
		allInstrs(fn, func(in ssa.Instruction) {
			if res != "" {
				return
			}
			if cc := callCommon(in); cc != nil {
				if name, _, ok := primitiveOf(cc); ok {
					res = name
					return
				}
				if sf := staticFn(cc); sf != nil {
					pk := load.FnPkgPath(sf)
					if !isStdlib(pk) && !load.InModule(pk) {
						if r := visit(sf); r != "" {
							res = load.FnName(sf) + " -> " + r
							return
						}
					}
				}
			}
			for _, op := range in.Operands(nil) {
				if op == nil || *op == nil {
					continue
				}
				var fv *ssa.Function
				switch v := (*op).(type) {
				case *ssa.Function:
					fv = v
				case *ssa.MakeClosure:
					fv, _ = v.Fn.(*ssa.Function)
				}
				if fv != nil && fv != fn {
					pk := load.FnPkgPath(fv)
					if !isStdlib(pk) && !load.InModule(pk) {
						if r := visit(fv); r != "" {
							res = load.FnName(fv) + " -> " + r
							return
						}
					}
				}
			}
		})
		state[fn] = 2
		memo[fn] = res
		return res
	}
	out := map[*ssa.Function]string{}
	n := 0
	for _, fn := range c.P.RepoFns {
		allInstrs(fn, func(in ssa.Instruction) {
			cc := callCommon(in)
			if cc == nil {
				return
			}
			sf := staticFn(cc)
			if sf == nil || c.P.IsRepoFn(sf) {
				return
			}
			pk := load.FnPkgPath(sf)
			if isStdlib(pk) {
				return
			}
			n++
			if r := visit(sf); r != "" {
				out[sf] = r
			}
		})
	}
	c.depWr = out
	c.depCalls = n
	return out
}

// writeSite is a call in a repository function that modifies the file system.
type writeSite struct {
	fn    *ssa.Function
	call  ssa.Instruction
	cc    *ssa.CallCommon
	name  string // primitive or external callee
	via   string // for externals: how the primitive is reached
	prim  fsPrimitive
	isExt bool
}

func (c *Ctx) writeSites() []*writeSite {
	if c.wsites != nil {
		return c.wsites
	}
	dep := c.depWrites()
	var out []*writeSite
	for _, fn := range c.P.RepoFns {
		allInstrs(fn, func(in ssa.Instruction) {
			cc := callCommon(in)
			if cc == nil {
				return
			}
			if name, p, ok := primitiveOf(cc); ok {
				out = append(out, &writeSite{fn: fn, call: in, cc: cc, name: name, prim: p})
				return
			}
			if sf := staticFn(cc); sf != nil {
				if via, ok := dep[sf]; ok {
					ws := &writeSite{fn: fn, call: in, cc: cc, name: calleeLabel(cc), via: via, prim: fsPrimitive{-1, -1}, isExt: true}
					// the executable-replacing entry points of go-selfupdate take the target path last
					if strings.Contains(ws.name, "go-selfupdate") {
						ws.prim.pathArg = len(cc.Args) - 1
					}
					out = append(out, ws)
				}
			}
		})
	}
	c.wsites = out
	return out
}

// ---------- call chains ----------

// chain is one acyclic call path from a command entry to a function.
type chain struct {
	edges []Edge // edges[i].Caller -> edges[i].Callee; empty if the site is in the entry itself
	entry *ssa.Function
}

func (ch *chain) String() string {
	parts := []string{load.FnName(ch.entry)}
	for _, e := range ch.edges {
		parts = append(parts, load.FnName(e.Callee))
	}
	return strings.Join(parts, " -> ")
}

// chainsTo enumerates the acyclic chains from the entries of cmd to fn.
func (c *Ctx) chainsTo(cmd *Command, fn *ssa.Function, limit int) ([]*chain, bool) {
	g := c.Graph()
	entries := map[*ssa.Function]bool{}
	for _, r := range c.CommandRoots(cmd) {
		entries[r] = true
	}
	reach := g.Reach(c.CommandRoots(cmd))
	var out []*chain
	complete := true
	var walk func(cur *ssa.Function, suffix []Edge, on map[*ssa.Function]bool)
	walk = func(cur *ssa.Function, suffix []Edge, on map[*ssa.Function]bool) {
		if len(out) >= limit {
			complete = false
			return
		}
		if entries[cur] {
			es := make([]Edge, len(suffix))
			for i := range suffix {
				es[i] = suffix[len(suffix)-1-i]
			}
			out = append(out, &chain{edges: es, entry: cur})
			// an entry can also be called from elsewhere; keep walking
		}
		for _, e := range g.In[cur] {
			if _, ok := reach[e.Caller]; !ok || on[e.Caller] {
				continue
			}
			on[e.Caller] = true
			walk(e.Caller, append(suffix, e), on)
			delete(on, e.Caller)
		}
	}
	walk(fn, nil, map[*ssa.Function]bool{fn: true})
	return out, complete
}

// ---------- provenance ----------

// prov is the provenance tree of a string value along one chain.
type prov struct {
	Kind string // getter, join, concat, const, arg, walkentry, globelem, executable, global, field, unknown, alt, call
	Name string
	Args []*prov
}

func (p *prov) String() string {
	if p == nil {
		return "?"
	}
	switch p.Kind {
	case "const":
		return fmt.Sprintf("%q", p.Name)
	case "getter", "global", "arg", "executable", "unknown", "field":
		if p.Name != "" {
			return p.Kind + "(" + p.Name + ")"
		}
		return p.Kind
	}
	var as []string
	for _, a := range p.Args {
		as = append(as, a.String())
	}
	n := p.Kind
	if p.Name != "" {
		n += ":" + p.Name
	}
	return n + "(" + strings.Join(as, ", ") + ")"
}

const contextPkg = load.ModulePath + "/context"

var dirGetters = map[string]bool{"RootDir": true, "AssemblyDir": true, "IncludesDir": true, "ExcludesDir": true, "RulesDir": true, "RegressionTestsDir": true}

// frameOf tells in which frame of the chain a function's values live.
type slicer struct {
	c     *Ctx
	ch    *chain
	depth int
}

// frameIndex: frame k is the function edges[k-1].Callee (frame 0 = entry).
func (s *slicer) fnAt(k int) *ssa.Function {
	if k == 0 {
		return s.ch.entry
	}
	return s.ch.edges[k-1].Callee
}

// resolve computes the provenance of v living in frame k.
func (s *slicer) resolve(v ssa.Value, k int, depth int) *prov {
	if depth > 40 {
		return &prov{Kind: "unknown", Name: "too deep"}
	}
	switch x := v.(type) {
	case *ssa.Const:
		if sv, ok := constString(x); ok {
			return &prov{Kind: "const", Name: sv}
		}
		return &prov{Kind: "const", Name: x.String()}
	case *ssa.Parameter:
		return s.resolveParam(x, k, depth)
	case *ssa.FreeVar:
		return s.resolveFreeVar(x, k, depth)
	case *ssa.Phi:
		p := &prov{Kind: "alt"}
		for _, e := range x.Edges {
			if e == v {
				continue
			}
			p.Args = append(p.Args, s.resolve(e, k, depth+1))
		}
		return p
	case *ssa.Convert:
		return s.resolve(x.X, k, depth+1)
	case *ssa.ChangeType:
		return s.resolve(x.X, k, depth+1)
	case *ssa.MakeInterface:
		return s.resolve(x.X, k, depth+1)
	case *ssa.BinOp:
		if x.Op == token.ADD {
			return &prov{Kind: "concat", Args: []*prov{s.resolve(x.X, k, depth+1), s.resolve(x.Y, k, depth+1)}}
		}
	case *ssa.UnOp:
		if x.Op == token.MUL {
			return s.resolveLoad(x, k, depth)
		}
	case *ssa.Extract:
		if call, ok := x.Tuple.(*ssa.Call); ok {
			return s.resolveCall(call, x.Index, k, depth)
		}
	case *ssa.Call:
		return s.resolveCall(x, 0, k, depth)
	case *ssa.Slice:
		if al, ok := x.X.(*ssa.Alloc); ok {
			if _, isArr := derefType(al.Type()).Underlying().(*types.Array); isArr {
				// variadic argument list
				p := &prov{Kind: "list"}
				for _, e := range variadicElems(x) {
					p.Args = append(p.Args, s.resolve(e, k, depth+1))
				}
				return p
			}
		}
		return &prov{Kind: "substr", Args: []*prov{s.resolve(x.X, k, depth+1)}}
	case *ssa.Index, *ssa.IndexAddr:
	}
	return &prov{Kind: "unknown", Name: fmt.Sprintf("%T", v)}
}

func (s *slicer) resolveLoad(u *ssa.UnOp, k int, depth int) *prov {
	switch a := u.X.(type) {
	case *ssa.Alloc:
		// local variable: union of stored values
		p := &prov{Kind: "alt"}
		for _, r := range referrers(a) {
			if st, ok := r.(*ssa.Store); ok && st.Addr == a {
				p.Args = append(p.Args, s.resolve(st.Val, k, depth+1))
			}
		}
		if len(p.Args) == 1 {
			return p.Args[0]
		}
		return p
	case *ssa.FreeVar:
		return s.resolveFreeVar(a, k, depth)
	case *ssa.IndexAddr:
		// element of a slice: provenance of the slice, marked as element
		base := s.resolve(a.X, k, depth+1)
		// the matches of a glob, possibly handed back by a helper of the repository
		for g := base; g != nil; {
			if g.Kind == "glob" {
				return &prov{Kind: "globelem", Args: g.Args}
			}
			if g.Kind == "call" {
				var real []*prov
				for _, x := range g.Args {
					if !(x.Kind == "const" && (x.Name == "" || x.Name == "nil")) {
						real = append(real, x)
					}
				}
				if len(real) == 1 {
					g = real[0]
					continue
				}
			}
			break
		}
		return &prov{Kind: "elem", Args: []*prov{base}}
	case *ssa.FieldAddr:
		st := derefType(a.X.Type()).Underlying().(*types.Struct)
		name := st.Field(a.Field).Name()
		if g, ok := a.X.(*ssa.Global); ok {
			return &prov{Kind: "global", Name: g.Name() + "." + name}
		}
		return &prov{Kind: "field", Name: name}
	case *ssa.Global:
		return &prov{Kind: "global", Name: a.Name()}
	}
	return &prov{Kind: "unknown", Name: "load"}
}

func (s *slicer) resolveFreeVar(fv *ssa.FreeVar, k int, depth int) *prov {
	fn := s.fnAt(k)
	idx := -1
	for i, f := range fn.FreeVars {
		if f == fv {
			idx = i
		}
	}
	if k == 0 || idx < 0 {
		return &prov{Kind: "unknown", Name: "free variable " + fv.Name()}
	}
	// the closure was created in the caller frame
	parent := s.fnAt(k - 1)
	var out *prov
	allInstrs(parent, func(in ssa.Instruction) {
		if mc, ok := in.(*ssa.MakeClosure); ok && mc.Fn == fn && idx < len(mc.Bindings) {
			b := mc.Bindings[idx]
			if al, ok := b.(*ssa.Alloc); ok {
				p := &prov{Kind: "alt"}
				for _, r := range referrers(al) {
					if st, ok := r.(*ssa.Store); ok && st.Addr == al {
						p.Args = append(p.Args, s.resolve(st.Val, k-1, depth+1))
					}
				}
				out = p
				if len(p.Args) == 1 {
					out = p.Args[0]
				}
			} else {
				out = s.resolve(b, k-1, depth+1)
			}
		}
	})
	if out == nil {
		return &prov{Kind: "unknown", Name: "free variable " + fv.Name()}
	}
	return out
}

// walkSkeleton: H calls filepath.WalkDir / Walk on one of its parameters (root) with a closure that
// calls another parameter of H (visit) with the walked path as its first argument, unchanged.
func walkSkeleton(H *ssa.Function) (root, visit int, ok bool) {
	root, visit, _, ok = walkSkeletonPath(H)
	return
}

// walkSkeletonPath also reports at which position of the call of visit the walked path is handed on (-1: not at all).
func walkSkeletonPath(H *ssa.Function) (root, visit, pathPos int, ok bool) {
	root, visit, pathPos = -1, -1, -1
	allInstrs(H, func(in ssa.Instruction) {
		call, isCall := in.(*ssa.Call)
		if !isCall || ok {
			return
		}
		f := staticCallee(&call.Call)
		if !(isFn(f, "path/filepath", "WalkDir") || isFn(f, "path/filepath", "Walk")) || len(call.Call.Args) < 2 {
			return
		}
		rp, isPar := stripConv(call.Call.Args[0]).(*ssa.Parameter)
		if !isPar {
			return
		}
		cb := call.Call.Args[1]
		if ct, isCT := cb.(*ssa.ChangeType); isCT {
			cb = ct.X
		}
		mc, isMC := cb.(*ssa.MakeClosure)
		if !isMC {
			return
		}
		G, _ := mc.Fn.(*ssa.Function)
		if G == nil || len(G.Params) == 0 {
			return
		}
		allInstrs(G, func(in2 ssa.Instruction) {
			c2, isCall2 := in2.(*ssa.Call)
			if !isCall2 || c2.Call.IsInvoke() {
				return
			}
			pp := -1
			for ai, a := range c2.Call.Args {
				if a == ssa.Value(G.Params[0]) {
					pp = ai
				}
			}
			// the callee is a captured parameter of H
			v := c2.Call.Value
			if ld, isLd := v.(*ssa.UnOp); isLd && ld.Op == token.MUL {
				v = ld.X
			}
			fv, isFV := v.(*ssa.FreeVar)
			if !isFV {
				return
			}
			for i, q := range G.FreeVars {
				if q != fv || i >= len(mc.Bindings) {
					continue
				}
				b := mc.Bindings[i]
				if al, isAl := b.(*ssa.Alloc); isAl {
					for _, rr := range referrers(al) {
						if st, isSt := rr.(*ssa.Store); isSt && st.Addr == ssa.Value(al) {
							b = st.Val
						}
					}
				}
				if vp, isVP := b.(*ssa.Parameter); isVP {
					root, visit, pathPos, ok = paramIndex(H, rp), paramIndex(H, vp), pp, true
				}
			}
		})
	})
	if root < 0 || visit < 0 {
		ok = false
	}
	return
}

func (s *slicer) resolveParam(p *ssa.Parameter, k int, depth int) *prov {
	fn := s.fnAt(k)
	idx := -1
	for i, q := range fn.Params {
		if q == p {
			idx = i
		}
	}
	if k == 0 || idx < 0 {
		// parameter of the entry point: cobra hands (cmd, args)
		if isNamed(p.Type(), cobraPkg, "Command") {
			return &prov{Kind: "arg", Name: "cobra command"}
		}
		return &prov{Kind: "arg", Name: p.Name()}
	}
	e := s.ch.edges[k-1]
	cc := callCommon(e.Site)
	if cc != nil && staticFn(cc) == fn {
		if idx < len(cc.Args) {
			return s.resolve(cc.Args[idx], k-1, depth+1)
		}
		return &prov{Kind: "unknown", Name: "missing argument"}
	}
	// called through a function value by a function of the repository (a callback parameter): the
	// arguments of that call are what the parameters receive
	if cc != nil && !cc.IsInvoke() && cc.StaticCallee() == nil && e.Site.Parent() == s.fnAt(k-1) {
		if _, isBuiltin := cc.Value.(*ssa.Builtin); !isBuiltin && idx < len(cc.Args) && len(cc.Args) == len(fn.Params) {
			return s.resolve(cc.Args[idx], k-1, depth+1)
		}
	}
	// callback handed to an external: filepath.WalkDir(root, fn)
	if cc != nil {
		f := staticCallee(cc)
		if isFn(f, "path/filepath", "WalkDir") || isFn(f, "path/filepath", "Walk") {
			if idx == 0 {
				return &prov{Kind: "walkentry", Args: []*prov{s.resolve(cc.Args[0], k-1, depth+1)}}
			}
			return &prov{Kind: "walkparam", Name: p.Name()}
		}
	}
	// the closure is created in the caller and passed somewhere we do not model
	if mc, ok := e.Site.(*ssa.MakeClosure); ok && mc.Fn == fn {
		// find the call the closure is handed to
		var users []ssa.Instruction
		for _, r := range referrers(mc) {
			users = append(users, r)
			if ct, ok := r.(*ssa.ChangeType); ok {
				users = append(users, referrers(ct)...)
			}
		}
		for _, r := range users {
			if call, ok := r.(*ssa.Call); ok {
				f := staticCallee(&call.Call)
				if isFn(f, "path/filepath", "WalkDir") || isFn(f, "path/filepath", "Walk") {
					if idx == 0 {
						return &prov{Kind: "walkentry", Args: []*prov{s.resolve(call.Call.Args[0], k-1, depth+1)}}
					}
					return &prov{Kind: "walkparam", Name: p.Name()}
				}
			}
		}
		// handed to a helper of the repository that walks a directory and calls its function
		// parameter with the walked path (a walk skeleton shared by several commands)
		for _, r := range users {
			call, ok := r.(*ssa.Call)
			if !ok {
				continue
			}
			H := staticFn(&call.Call)
			if H == nil || len(H.Blocks) == 0 {
				continue
			}
			if ri, vi, pp, isWalk := walkSkeletonPath(H); isWalk && vi < len(call.Call.Args) && ri < len(call.Call.Args) {
				a := call.Call.Args[vi]
				if ct, isCT := a.(*ssa.ChangeType); isCT {
					a = ct.X
				}
				if a == ssa.Value(mc) {
					// the closure's parameters follow its captured variables in Params
					if pp >= 0 && idx == pp {
						return &prov{Kind: "walkentry", Args: []*prov{s.resolve(call.Call.Args[ri], k-1, depth+1)}}
					}
					if pp >= 0 {
						return &prov{Kind: "walkparam", Name: p.Name()}
					}
				}
			}
		}
		// the function value is returned by a factory: look at what the factory's caller does with it
		for _, r := range users {
			if _, isRet := r.(*ssa.Return); !isRet || k < 2 {
				continue
			}
			call2, ok := s.ch.edges[k-2].Site.(*ssa.Call)
			if !ok || staticFn(&call2.Call) != s.fnAt(k-1) {
				continue
			}
			var users2 []ssa.Instruction
			for _, r2 := range referrers(call2) {
				users2 = append(users2, r2)
				if ct, ok := r2.(*ssa.ChangeType); ok {
					users2 = append(users2, referrers(ct)...)
				}
			}
			for _, r2 := range users2 {
				if call, ok := r2.(*ssa.Call); ok {
					f := staticCallee(&call.Call)
					if isFn(f, "path/filepath", "WalkDir") || isFn(f, "path/filepath", "Walk") {
						if idx == 0 {
							return &prov{Kind: "walkentry", Args: []*prov{s.resolve(call.Call.Args[0], k-2, depth+1)}}
						}
						return &prov{Kind: "walkparam", Name: p.Name()}
					}
				}
			}
		}
	}
	return &prov{Kind: "unknown", Name: "parameter " + p.Name() + " of a callback"}
}

func (s *slicer) resolveCall(call *ssa.Call, result int, k int, depth int) *prov {
	f := staticCallee(&call.Call)
	if f == nil {
		return &prov{Kind: "unknown", Name: "dynamic call"}
	}
	args := func() []*prov {
		var out []*prov
		for _, a := range call.Call.Args {
			p := s.resolve(a, k, depth+1)
			if p.Kind == "list" {
				out = append(out, p.Args...)
			} else {
				out = append(out, p)
			}
		}
		return out
	}
	switch {
	case objPkgPath(f) == contextPkg && recvNamed(f) == "Context" && dirGetters[f.Name()]:
		return &prov{Kind: "getter", Name: f.Name()}
	case isFn(f, "path", "Join") || isFn(f, "path/filepath", "Join"):
		return &prov{Kind: "join", Args: args()}
	case isFn(f, "fmt", "Sprintf") || isFn(f, "fmt", "Sprint"):
		return &prov{Kind: "concat", Args: args()}
	case isFn(f, "path/filepath", "Glob"):
		if result == 0 {
			return &prov{Kind: "glob", Args: args()}
		}
	case isFn(f, "os", "Executable"):
		if result == 0 {
			return &prov{Kind: "executable"}
		}
	case isFn(f, "path/filepath", "Abs") || isFn(f, "path/filepath", "Clean") || isFn(f, "path", "Clean"):
		return s.resolve(call.Call.Args[0], k, depth+1)
	}
	// repository function returning a string: union of its returned values (one level)
	if sf := staticFn(&call.Call); sf != nil && s.c.P.IsRepoFn(sf) && len(sf.Blocks) > 0 && depth < 30 {
		p := &prov{Kind: "alt"}
		// resolve the callee's results with its parameters bound to this call's arguments:
		// extend the chain by a virtual edge caller -> callee
		edges := append(append([]Edge{}, s.ch.edges[:k]...), Edge{Caller: s.fnAt(k), Callee: sf, Site: call, Kind: "static"})
		sub := &slicer{c: s.c, ch: &chain{entry: s.ch.entry, edges: edges}}
		allInstrs(sf, func(in ssa.Instruction) {
			if r, ok := in.(*ssa.Return); ok && result < len(r.Results) {
				p.Args = append(p.Args, sub.resolve(r.Results[result], k+1, depth+5))
			}
		})
		// parameters of that function are its own arguments: mark as call
		return &prov{Kind: "call", Name: qualName(f), Args: p.Args}
	}
	return &prov{Kind: "unknown", Name: "result of " + qualName(f)}
}

// heads returns the possible leading components of a path provenance:
// the alternatives' first operands, recursively.
func (p *prov) heads() []*prov {
	switch p.Kind {
	case "alt", "call":
		var out []*prov
		for _, a := range p.Args {
			if a.Kind == "const" && a.Name == "" && len(p.Args) > 1 {
				continue // the empty string of an error return: not a path
			}
			out = append(out, a.heads()...)
		}
		if len(out) == 0 {
			return []*prov{p}
		}
		return out
	case "join", "concat":
		if len(p.Args) == 0 {
			return []*prov{p}
		}
		// Sprintf: first arg is the format; the head is the first substituted operand
		// when the format starts with a verb
		if p.Kind == "concat" && p.Args[0].Kind == "const" && strings.HasPrefix(p.Args[0].Name, "%") && len(p.Args) > 1 {
			return p.Args[1].heads()
		}
		return p.Args[0].heads()
	case "walkentry", "globelem", "elem":
		if len(p.Args) > 0 {
			return p.Args[0].heads()
		}
	}
	return []*prov{p}
}

// shapes returns the set of structural kinds on the way to the heads (walkentry, globelem, join...).
func (p *prov) has(kind string) bool {
	if p.Kind == kind {
		return true
	}
	for _, a := range p.Args {
		if a.has(kind) {
			return true
		}
	}
	return false
}

// ---------- the rules ----------

// inspectingCommands never write (C15).
var inspectingCommands = []string{"generate", "compare", "version", "completion"}

// targetPolicy is the per-command policy of FS-TARGET, from the statement of C15.
type targetPolicy struct {
	getters []string // allowed directory getters at the head of the written path
	shape   string   // "walk-or-join", "glob", "walk-or-glob", "walk", "executable"
	guard   string   // "ext:.ra", "globcount", "match:RuleIdTestFileNameRegex", "suffix:.conf|.example", ""
}

var targetPolicies = map[string]targetPolicy{
	"format":           {[]string{"AssemblyDir", "IncludesDir"}, "walk-or-join", "ext:.ra"},
	"update":           {[]string{"RulesDir"}, "glob", "globcount"},
	"renumber-tests":   {[]string{"RegressionTestsDir"}, "walk-or-glob", "match:regex.RuleIdTestFileNameRegex"},
	"update-copyright": {[]string{"RootDir"}, "walk", "suffix:.conf|.example"},
	"self-update":      {nil, "executable", ""},
}

// RuleFsWrite: which commands can reach a file-system mutation.
func (c *Ctx) RuleFsWrite() *Result {
	res := &Result{Rule: "FS-WRITE", MinInst: 9}
	g := c.Graph()
	cm := c.Commands()
	sites := c.writeSites()
	res.note("%d third-party call sites examined for reachable primitives; %d write sites in the repository", c.depCalls, len(sites))
	for _, cmd := range cm.Commands {
		if len(cmd.Entries) == 0 {
			continue // pure command groups
		}
		res.Instances++
		reach := g.Reach(c.CommandRoots(cmd))
		var hits []string
		for _, ws := range sites {
			if _, ok := reach[ws.fn]; ok {
				hits = append(hits, fmt.Sprintf("%s in %s", ws.name, load.FnName(ws.fn)))
			}
		}
		sort.Strings(hits)
		key := "cmd " + cmd.Name + ":reachable mutations"
		pos := c.P.FnPos(cmd.In)
		inspecting := false
		for _, n := range inspectingCommands {
			if n == cmd.Name {
				inspecting = true
			}
		}
		_, hasPolicy := targetPolicies[cmd.Name]
		switch {
		case inspecting && len(hits) > 0:
			for _, ws := range sites {
				if _, ok := reach[ws.fn]; ok {
					res.Instances++
					res.bad(fmt.Sprintf("cmd %s:%s:%s", cmd.Name, load.FnName(ws.fn), ws.name), c.P.InstrPos(ws.call),
						fmt.Sprintf("inspecting command %q can modify the file system: %s is reachable through %s", cmd.Name, ws.name, PathTo(reach, ws.fn)))
				}
			}
		case inspecting:
			res.ok(key, pos, fmt.Sprintf("no file-system mutation reachable (%d functions reachable)", len(reach)))
		case !hasPolicy && len(hits) > 0:
			res.bad(key, pos, fmt.Sprintf("command %q writes (%s) but the property grants it no target", cmd.Name, strings.Join(hits, "; ")))
		default:
			res.ok(key, pos, fmt.Sprintf("rewriting command; mutation sites: %s (each judged by FS-TARGET)", strings.Join(hits, "; ")))
		}
	}
	return res
}

// flagValues computes the SSA values that always equal the value of the
// command's boolean flag `name`.
// helperReturnsGetBool: fn's first result is, on every return, the result of GetBool(nameParam) (or false next to an error).
func helperReturnsGetBool(fn *ssa.Function, nameParam *ssa.Parameter) bool {
	var get ssa.Value
	allInstrs(fn, func(in ssa.Instruction) {
		if call, ok := in.(*ssa.Call); ok {
			if isMeth(staticCallee(&call.Call), "github.com/spf13/pflag", "FlagSet", "GetBool") && len(call.Call.Args) == 2 && call.Call.Args[1] == ssa.Value(nameParam) {
				get = resultValue(call, 0)
			}
		}
	})
	if get == nil {
		return false
	}
	ok := true
	allInstrs(fn, func(in ssa.Instruction) {
		r, isRet := in.(*ssa.Return)
		if !isRet || len(r.Results) == 0 {
			return
		}
		var good func(v ssa.Value, d int) bool
		good = func(v ssa.Value, d int) bool {
			if v == get {
				return true
			}
			if bv, isC := constBool(v); isC && !bv {
				return true
			}
			if ph, isPhi := v.(*ssa.Phi); isPhi && d < 3 {
				for _, e := range ph.Edges {
					if !good(e, d+1) {
						return false
					}
				}
				return true
			}
			return false
		}
		if !good(r.Results[0], 0) {
			ok = false
		}
	})
	return ok
}

func (c *Ctx) flagValues(cmd *Command, name string) (map[ssa.Value]bool, ssa.Value) {
	vals := map[ssa.Value]bool{}
	var origin ssa.Value
	for _, fn := range c.EntryRoots(cmd) {
		allInstrs(fn, func(in ssa.Instruction) {
			call, ok := in.(*ssa.Call)
			if !ok {
				return
			}
			f := staticCallee(&call.Call)
			if isMeth(f, "github.com/spf13/pflag", "FlagSet", "GetBool") && len(call.Call.Args) == 2 {
				if s, ok := constString(call.Call.Args[1]); ok && s == name {
					if v := resultValue(call, 0); v != nil {
						vals[v] = true
						origin = v
					}
				}
			}
			// a helper of the repository that reads the named flag: readBoolFlag(cmd, "check")
			if sf := staticFn(&call.Call); sf != nil && c.P.IsRepoFn(sf) && len(sf.Blocks) > 0 {
				for i, a := range call.Call.Args {
					if s, ok := constString(a); !ok || s != name || i >= len(sf.Params) {
						continue
					}
					if helperReturnsGetBool(sf, sf.Params[i]) {
						if v := resultValue(call, 0); v != nil {
							vals[v] = true
							origin = v
						}
					}
				}
			}
		})
	}
	// the flag bound to a variable: BoolVar(&x, name, ...) / BoolVarP(&opts.X, name, ...); every load of that
	// variable (a package-level variable or a field of one) is the flag's value
	for _, fn := range c.P.RepoFns {
		allInstrs(fn, func(in ssa.Instruction) {
			call, ok := in.(*ssa.Call)
			if !ok {
				return
			}
			f := staticCallee(&call.Call)
			if !(isMeth(f, "github.com/spf13/pflag", "FlagSet", "BoolVar") || isMeth(f, "github.com/spf13/pflag", "FlagSet", "BoolVarP")) || len(call.Call.Args) < 3 {
				return
			}
			if s, ok := constString(call.Call.Args[2]); !ok || s != name {
				return
			}
			var gl *ssa.Global
			field := -1
			switch a := call.Call.Args[1].(type) {
			case *ssa.Global:
				gl = a
			case *ssa.FieldAddr:
				gl, _ = a.X.(*ssa.Global)
				field = a.Field
			}
			if gl == nil {
				return
			}
			for _, fn2 := range c.P.RepoFns {
				allInstrs(fn2, func(in2 ssa.Instruction) {
					ld, ok := in2.(*ssa.UnOp)
					if !ok || ld.Op != token.MUL {
						return
					}
					switch a := ld.X.(type) {
					case *ssa.Global:
						if a == gl && field < 0 {
							vals[ld] = true
							origin = ld
						}
					case *ssa.FieldAddr:
						if g2, _ := a.X.(*ssa.Global); g2 == gl && a.Field == field {
							vals[ld] = true
							origin = ld
						}
					}
				})
			}
		})
	}
	if origin == nil {
		return vals, nil
	}
	g := c.Graph()
	modes := map[ssa.Value]*flagMode{}
	changed := true
	for changed {
		changed = false
		add := func(v ssa.Value) {
			if v != nil && !vals[v] {
				vals[v] = true
				changed = true
			}
		}
		for v := range vals {
			for _, r := range referrers(v) {
				switch x := r.(type) {
				case *ssa.Store:
					// a struct field holding the flag: every store to that field must be a flag value
					if fa, isFA := x.Addr.(*ssa.FieldAddr); isFA && x.Val == v {
						if f := fieldVarOf(fa); f != nil {
							stores, loads := c.fieldAccesses(f)
							all := true
							for _, st := range stores {
								if !vals[st.Val] {
									all = false
								}
							}
							if all {
								for _, ld := range loads {
									add(ld)
								}
							}
						}
						continue
					}
					// variable holding the flag: every store to it must be a flag value
					al, ok := x.Addr.(*ssa.Alloc)
					if !ok || x.Val != v {
						continue
					}
					all := true
					for _, rr := range referrers(al) {
						if st, ok := rr.(*ssa.Store); ok && st.Addr == al && !vals[st.Val] {
							all = false
						}
					}
					if all {
						add(al) // the address: loads of it are flag values
					}
				case *ssa.UnOp:
					if x.Op == token.MUL && x.X == v {
						add(x)
					}
				case *ssa.MakeClosure:
					for i, b := range x.Bindings {
						if b == v {
							if fn, ok := x.Fn.(*ssa.Function); ok && i < len(fn.FreeVars) {
								add(fn.FreeVars[i])
							}
						}
					}
				case *ssa.Call:
					sf := staticFn(&x.Call)
					if sf == nil || !c.P.IsRepoFn(sf) {
						continue
					}
					for i, a := range x.Call.Args {
						if a != v || i >= len(sf.Params) {
							continue
						}
						// every call site of sf must pass a flag value at position i
						all := true
						for _, e := range g.In[sf] {
							cc := callCommon(e.Site)
							if cc == nil || staticFn(cc) != sf {
								all = false
								continue
							}
							if i >= len(cc.Args) || !vals[cc.Args[i]] {
								all = false
							}
						}
						if all {
							add(sf.Params[i])
						}
						// the flag turned into a mode: a helper that returns one constant when its
						// parameter is true and another when it is false
						if kt, kf, isSel := selectsConstBy(c, sf, i); isSel {
							if rv := resultValue(x, 0); rv != nil && modes[rv] == nil {
								modes[rv] = &flagMode{kt, kf}
								changed = true
							}
						}
					}
				}
			}
		}
		// the same selection written in place: mode := A; if flag { mode = B }
		fnsWithFlag := map[*ssa.Function]bool{}
		for v := range vals {
			if in, ok := v.(ssa.Instruction); ok && in.Parent() != nil {
				fnsWithFlag[in.Parent()] = true
			}
			if par, ok := v.(*ssa.Parameter); ok {
				fnsWithFlag[par.Parent()] = true
			}
		}
		for f := range fnsWithFlag {
			if os.Getenv("CRSVERIF_NOPHI") != "" {
				break
			}
			allInstrs(f, func(in ssa.Instruction) {
				ph, ok := in.(*ssa.Phi)
				if !ok || len(ph.Edges) != 2 || modes[ph] != nil {
					return
				}
				k0, ok0 := ph.Edges[0].(*ssa.Const)
				k1, ok1 := ph.Edges[1].(*ssa.Const)
				if !ok0 || !ok1 || sameConst(k0, k1) {
					return
				}
				onFlag := func(i int) bool {
					pred := ph.Block().Preds[i]
					return c.guardedByEdges(pred.Instrs[len(pred.Instrs)-1], func(cond ssa.Value, val bool) bool { return vals[cond] && val })
				}
				g0, g1 := onFlag(0), onFlag(1)
				switch {
				case g0 && !g1:
					modes[ph] = &flagMode{k0, k1}
					changed = true
				case g1 && !g0:
					modes[ph] = &flagMode{k1, k0}
					changed = true
				}
			})
		}
		// modes travel through parameters like the flag itself; comparing a mode with the constant
		// that stands for "flag set" is the flag again
		for mv, fm := range modes {
			for _, r := range referrers(mv) {
				switch x := r.(type) {
				case *ssa.BinOp:
					var other ssa.Value
					if x.X == mv {
						other = x.Y
					} else {
						other = x.X
					}
					k, isK := other.(*ssa.Const)
					if !isK {
						continue
					}
					if (x.Op == token.EQL && sameConst(k, fm.whenTrue)) || (x.Op == token.NEQ && sameConst(k, fm.whenFalse)) {
						add(x)
					}
				case *ssa.Call:
					sf := staticFn(&x.Call)
					if sf == nil || !c.P.IsRepoFn(sf) {
						continue
					}
					for i, a := range x.Call.Args {
						if a != mv || i >= len(sf.Params) || modes[sf.Params[i]] != nil {
							continue
						}
						all := true
						for _, e := range g.In[sf] {
							cc := callCommon(e.Site)
							if cc == nil || staticFn(cc) != sf || i >= len(cc.Args) {
								all = false
								continue
							}
							om := modes[cc.Args[i]]
							if om == nil || !sameConst(om.whenTrue, fm.whenTrue) || !sameConst(om.whenFalse, fm.whenFalse) {
								all = false
							}
						}
						if all {
							modes[sf.Params[i]] = fm
							changed = true
						}
					}
				case *ssa.MakeClosure:
					for i, b := range x.Bindings {
						if b == mv {
							if fn, ok := x.Fn.(*ssa.Function); ok && i < len(fn.FreeVars) && modes[fn.FreeVars[i]] == nil {
								modes[fn.FreeVars[i]] = fm
								changed = true
							}
						}
					}
				case *ssa.Store:
					// a variable that holds the mode (captured by a closure): every store to it is that mode
					al, isAl := x.Addr.(*ssa.Alloc)
					if !isAl || x.Val != mv || modes[al] != nil {
						continue
					}
					all := true
					for _, rr := range referrers(al) {
						if st, ok := rr.(*ssa.Store); ok && st.Addr == ssa.Value(al) {
							if om := modes[st.Val]; om == nil || !sameConst(om.whenTrue, fm.whenTrue) || !sameConst(om.whenFalse, fm.whenFalse) {
								all = false
							}
						}
					}
					if all {
						modes[al] = fm
						changed = true
					}
				case *ssa.UnOp:
					if x.Op == token.MUL && x.X == mv && modes[x] == nil {
						modes[x] = fm
						changed = true
					}
				}
			}
		}
	}
	return vals, origin
}

// flagMode: a value that is one constant when a flag is set and another when it is not.
type flagMode struct{ whenTrue, whenFalse *ssa.Const }

func sameConst(a, b *ssa.Const) bool {
	return a != nil && b != nil && types.Identical(a.Type(), b.Type()) && fmt.Sprint(a.Value) == fmt.Sprint(b.Value)
}

// selectsConstBy: f returns exactly two different constants, one on the paths where its bool
// parameter i is true and the other where it is false.
func selectsConstBy(c *Ctx, f *ssa.Function, i int) (whenTrue, whenFalse *ssa.Const, ok bool) {
	if len(f.Blocks) == 0 || f.Signature.Results().Len() != 1 || i >= len(f.Params) {
		return nil, nil, false
	}
	p := f.Params[i]
	if bt, isB := p.Type().Underlying().(*types.Basic); !isB || bt.Kind() != types.Bool {
		return nil, nil, false
	}
	good := true
	allInstrs(f, func(in ssa.Instruction) {
		r, isRet := in.(*ssa.Return)
		if !isRet {
			return
		}
		var leaves []ssa.Value
		var preds []*ssa.BasicBlock
		if ph, isPhi := r.Results[0].(*ssa.Phi); isPhi {
			for j, e := range ph.Edges {
				leaves = append(leaves, e)
				preds = append(preds, ph.Block().Preds[j])
			}
		} else {
			leaves = append(leaves, r.Results[0])
			preds = append(preds, r.Block())
		}
		for j, lv := range leaves {
			k, isK := lv.(*ssa.Const)
			if !isK {
				good = false
				return
			}
			at := preds[j].Instrs[len(preds[j].Instrs)-1]
			onTrue := c.guardedByEdges(at, func(cond ssa.Value, val bool) bool { return cond == ssa.Value(p) && val })
			onFalse := c.guardedByEdges(at, func(cond ssa.Value, val bool) bool { return cond == ssa.Value(p) && !val })
			switch {
			case onTrue && !onFalse && (whenTrue == nil || sameConst(whenTrue, k)):
				whenTrue = k
			case onFalse && !onTrue && (whenFalse == nil || sameConst(whenFalse, k)):
				whenFalse = k
			default:
				good = false
			}
		}
	})
	if !good || whenTrue == nil || whenFalse == nil || sameConst(whenTrue, whenFalse) {
		return nil, nil, false
	}
	return whenTrue, whenFalse, true
}

// knownFlagFalse: do the facts at in say that a flag value is false?
func knownFlag(f condFacts, vals map[ssa.Value]bool, want bool) bool {
	for cond, val := range f {
		if vals[cond] && val == want {
			return true
		}
	}
	return false
}

// RuleFsGuard: with --check no file-system mutation is reachable.
func (c *Ctx) RuleFsGuard(commands []string) *Result {
	res := &Result{Rule: "FS-GUARD", MinInst: len(commands)}
	g := c.Graph()
	cm := c.Commands()
	for _, name := range commands {
		cmd := cm.ByName[name]
		if cmd == nil {
			res.undecided("cmd "+name, "-", "command not found")
			continue
		}
		vals, origin := c.flagValues(cmd, "check")
		if origin == nil {
			res.Instances++
			res.undecided("cmd "+name+":check flag", c.P.FnPos(cmd.In), "the command does not read a boolean flag named \"check\" in its entry point")
			continue
		}
		flagFalse := func(cond ssa.Value, val bool) bool { return vals[cond] && !val }
		// reachability under check == true: do not traverse call sites that are
		// only reached when the flag is false
		seen := map[*ssa.Function]*Edge{}
		var queue []*ssa.Function
		for _, r := range c.CommandRoots(cmd) {
			if _, ok := seen[r]; !ok {
				seen[r] = nil
				queue = append(queue, r)
			}
		}
		for len(queue) > 0 {
			f := queue[0]
			queue = queue[1:]
			for i := range g.Out[f] {
				e := g.Out[f][i]
				if c.guardedByEdges(e.Site, flagFalse) {
					continue
				}
				if _, ok := seen[e.Callee]; !ok {
					ee := e
					seen[e.Callee] = &ee
					queue = append(queue, e.Callee)
				}
			}
		}
		n := 0
		for _, ws := range c.writeSites() {
			full := g.Reach(c.CommandRoots(cmd))
			if _, ok := full[ws.fn]; !ok {
				continue
			}
			n++
			res.Instances++
			key := fmt.Sprintf("cmd %s --check:%s:%s", name, load.FnName(ws.fn), ws.name)
			pos := c.P.InstrPos(ws.call)
			if _, ok := seen[ws.fn]; !ok {
				res.ok(key, pos, "the function is only called from sites that are reached when the check flag is false")
				continue
			}
			if c.guardedByEdges(ws.call, flagFalse) {
				res.ok(key, pos, "the write is control dependent on the check flag being false")
				continue
			}
			res.bad(key, pos, fmt.Sprintf("%s can be reached with --check set (%s): check mode would modify the file", ws.name, PathTo(seen, ws.fn)))
		}
		if n == 0 {
			res.Instances++
			res.ok("cmd "+name+" --check:no write site", c.P.FnPos(cmd.In), "the command reaches no file-system mutation at all")
		}
	}
	return res
}

// chainFacts collects the branch facts known along a chain and at the site.
func (c *Ctx) chainFacts(ch *chain, site ssa.Instruction) []condFacts {
	var out []condFacts
	for _, e := range ch.edges {
		out = append(out, c.factsAt(e.Site))
	}
	out = append(out, c.factsAt(site))
	return out
}

// RuleFsTarget: rewriting commands touch only their targets.
func (c *Ctx) RuleFsTarget(commands []string) *Result {
	res := &Result{Rule: "FS-TARGET", MinInst: len(commands)}
	g := c.Graph()
	cm := c.Commands()
	for _, name := range commands {
		cmd := cm.ByName[name]
		if cmd == nil {
			res.undecided("cmd "+name, "-", "command not found")
			continue
		}
		pol, ok := targetPolicies[name]
		if !ok {
			continue
		}
		reach := g.Reach(c.CommandRoots(cmd))
		for _, ws := range c.writeSites() {
			if _, ok := reach[ws.fn]; !ok {
				continue
			}
			res.Instances++
			key := fmt.Sprintf("cmd %s:%s:%s", name, load.FnName(ws.fn), ws.name)
			pos := c.P.InstrPos(ws.call)
			if ws.prim.pathArg < 0 || ws.prim.pathArg >= len(ws.cc.Args) {
				res.bad(key, pos, fmt.Sprintf("%s modifies the file system and its target cannot be related to the command's target (%s)", ws.name, ws.via))
				continue
			}
			chains, complete := c.chainsTo(cmd, ws.fn, 64)
			if !complete || len(chains) == 0 {
				res.undecided(key, pos, fmt.Sprintf("%d call chains found (complete=%v)", len(chains), complete))
				continue
			}
			var problems, oks []string
			for _, ch := range chains {
				sl := &slicer{c: c, ch: ch}
				k := len(ch.edges)
				p := sl.resolve(ws.cc.Args[ws.prim.pathArg], k, 0)
				if why := c.judgeTarget(name, pol, p, ch, ws); why != "" {
					problems = append(problems, fmt.Sprintf("via %s: path = %s: %s", ch.String(), p.String(), why))
				} else {
					oks = append(oks, fmt.Sprintf("via %s: path = %s", ch.String(), p.String()))
				}
			}
			// rewrite-what-was-read: the written path is the path of a dominating read
			if name != "self-update" {
				if why := c.readBeforeWrite(ws); why != "" {
					problems = append(problems, why)
				}
			}
			if len(problems) > 0 {
				res.bad(key, pos, strings.Join(problems, "; "))
			} else {
				res.ok(key, pos, strings.Join(oks, "; ")+fmt.Sprintf("; guard %q holds on every chain; the file written is the file read", pol.guard))
			}
		}
	}
	return res
}

// readBeforeWrite: some os.ReadFile/os.Open of the same path value dominates the
// write — in the writing function, or, when path is a parameter of a writing
// helper, in every caller before the call.
func (c *Ctx) readBeforeWrite(ws *writeSite) string {
	for _, w := range c.writeContexts(ws) {
		if dominatingRead(w.fn, w.pathV, w.site) == nil {
			if c.callersReadFirst(w.fn, w.pathV) {
				continue
			}
			return fmt.Sprintf("the written path is not the path of a read that dominates the write (looked in %s): the command could create a file instead of rewriting one", load.FnName(w.fn))
		}
	}
	return ""
}

// judgeTarget applies the command's policy to one chain.
func (c *Ctx) judgeTarget(name string, pol targetPolicy, p *prov, ch *chain, ws *writeSite) string {
	if pol.shape == "executable" {
		// the executable itself, or the (test-only) path parameter that the command passes as ""
		for _, h := range p.heads() {
			switch h.Kind {
			case "executable":
			case "const":
				if h.Name != "" {
					return "the replaced file is a constant path"
				}
			default:
				return "the replaced file is " + h.String() + ", not the running executable"
			}
		}
		return ""
	}
	allowed := map[string]bool{}
	for _, gname := range pol.getters {
		allowed[gname] = true
	}
	for _, h := range p.heads() {
		if h.Kind != "getter" {
			return fmt.Sprintf("the path is not rooted in a directory of the CRS root context (head %s)", h.String())
		}
		if !allowed[h.Name] {
			return fmt.Sprintf("the path is rooted in %s(), which is not a target directory of %s (allowed: %s)", h.Name, name, strings.Join(pol.getters, ", "))
		}
	}
	// shape
	walk, glob, join := p.has("walkentry"), p.has("globelem"), p.has("join")
	switch pol.shape {
	case "walk":
		if !walk {
			return "the path is not an entry of the directory walk"
		}
	case "glob":
		if !glob {
			return "the path is not an element of the rules-file glob"
		}
	case "walk-or-glob":
		if !walk && !glob {
			return "the path is neither a walk entry nor a glob result"
		}
	case "walk-or-join":
		if !walk && !join {
			return "the path is neither a walk entry nor a file name joined below a context directory"
		}
	}
	// guard: somewhere on the chain the next step (call or the write itself) is only
	// reachable through branch edges on which the recognised predicate holds
	sites := chainSites(ch, ws.call)
	guarded := func(pred func(cond ssa.Value, val bool) bool) bool {
		for _, st := range sites {
			if c.guardedByEdges(st, pred) {
				return true
			}
		}
		return false
	}
	switch {
	case strings.HasPrefix(pol.guard, "ext:"):
		if walk && !guarded(extPred(strings.TrimPrefix(pol.guard, "ext:"))) {
			return "on the directory walk the write is not guarded by the test path.Ext(name) == \"" + strings.TrimPrefix(pol.guard, "ext:") + "\""
		}
	case strings.HasPrefix(pol.guard, "suffix:"):
		if !guarded(suffixOrExtPred(strings.Split(strings.TrimPrefix(pol.guard, "suffix:"), "|"))) {
			return "the write is not guarded by a suffix test for " + strings.TrimPrefix(pol.guard, "suffix:")
		}
	case strings.HasPrefix(pol.guard, "match:"):
		if !guarded(c.matchPred(strings.TrimPrefix(pol.guard, "match:"))) {
			return "the write is not guarded by a successful match of " + strings.TrimPrefix(pol.guard, "match:") + " on the file's base name"
		}
	case pol.guard == "globcount":
		if !guarded(globNonEmptyPred) || !guarded(globSinglePred) {
			return "the write is not guarded by the test that exactly one rules file matched (none or several must fail loudly)"
		}
	}
	return ""
}

// chainSites lists the instructions whose reachability matters along a chain:
// every call site of the chain and the final site.
func chainSites(ch *chain, site ssa.Instruction) []ssa.Instruction {
	var out []ssa.Instruction
	for _, e := range ch.edges {
		out = append(out, e.Site)
	}
	return append(out, site)
}

// guardedByEdges: with every branch edge on which pred holds deleted from the
// (loud-pruned) CFG of site's function, site is unreachable from the entry.
func (c *Ctx) guardedByEdges(site ssa.Instruction, pred func(cond ssa.Value, val bool) bool) bool {
	pred = c.liftPred(pred, 0)
	fn := site.Block().Parent()
	lm := c.Loud()
	target := site.Block()
	seen := map[*ssa.BasicBlock]bool{}
	stack := []*ssa.BasicBlock{fn.Blocks[0]}
	for len(stack) > 0 {
		b := stack[len(stack)-1]
		stack = stack[:len(stack)-1]
		if seen[b] {
			continue
		}
		seen[b] = true
		if b == target {
			// reachable without crossing a satisfied edge; but the site may sit behind
			// a loud exit in its own block
			if fl := lm.FirstLoud(b); fl >= 0 && fl < instrIndex(site) {
				continue
			}
			return false
		}
		if lm.BlockDies(b) {
			continue
		}
		iff, isIf := b.Instrs[len(b.Instrs)-1].(*ssa.If)
		for si, sc := range b.Succs {
			if isIf && b.Succs[0] != b.Succs[1] {
				cond, neg := unwrapNot(iff.Cond)
				val := si == 0
				if neg {
					val = !val
				}
				if pred(cond, val) {
					continue
				}
			}
			stack = append(stack, sc)
		}
	}
	return true
}

// liftPred extends an edge predicate through boolean helper functions of the
// repository: the edge "helper(...) is true" satisfies pred when the helper
// can only return true after crossing an edge that satisfies pred (or by
// returning the value of a condition that does), e.g.
// func isCarrier(n string) bool { return HasSuffix(n, ".conf") || HasSuffix(n, ".example") }.
func (c *Ctx) liftPred(pred func(cond ssa.Value, val bool) bool, depth int) func(cond ssa.Value, val bool) bool {
	if depth > 1 {
		return pred
	}
	var lifted func(cond ssa.Value, val bool) bool
	lifted = func(cond ssa.Value, val bool) bool {
		if pred(cond, val) {
			return true
		}
		call, ok := cond.(*ssa.Call)
		if !ok {
			return false
		}
		sf := staticFn(&call.Call)
		if sf == nil || !c.P.IsRepoFn(sf) || len(sf.Blocks) == 0 || sf.Signature.Results().Len() != 1 {
			return false
		}
		if b, ok := sf.Signature.Results().At(0).Type().Underlying().(*types.Basic); !ok || b.Kind() != types.Bool {
			return false
		}
		inner := c.liftPred(pred, depth+1)
		// explore the helper without crossing satisfied edges; every return that can yield val must be justified
		type st struct{ b, from *ssa.BasicBlock }
		seen := map[st]bool{}
		stack := []st{{sf.Blocks[0], nil}}
		for len(stack) > 0 {
			cur := stack[len(stack)-1]
			stack = stack[:len(stack)-1]
			if seen[cur] {
				continue
			}
			seen[cur] = true
			last := cur.b.Instrs[len(cur.b.Instrs)-1]
			if r, ok := last.(*ssa.Return); ok {
				op := r.Results[0]
				if ph, ok := op.(*ssa.Phi); ok && ph.Block() == cur.b && cur.from != nil {
					for i, p := range cur.b.Preds {
						if p == cur.from {
							op = ph.Edges[i]
						}
					}
				}
				if cv, ok := constBool(op); ok {
					if cv == val {
						return false
					}
					continue
				}
				co, neg := unwrapNot(op)
				want := val
				if neg {
					want = !want
				}
				if !inner(co, want) {
					return false
				}
				continue
			}
			iff, isIf := last.(*ssa.If)
			for si, sc := range cur.b.Succs {
				if isIf && cur.b.Succs[0] != cur.b.Succs[1] {
					co, neg := unwrapNot(iff.Cond)
					v := si == 0
					if neg {
						v = !v
					}
					if inner(co, v) {
						continue
					}
				}
				stack = append(stack, st{sc, cur.b})
			}
		}
		return true
	}
	return lifted
}

func extPred(ext string) func(cond ssa.Value, val bool) bool {
	return func(cond ssa.Value, val bool) bool {
		b, ok := cond.(*ssa.BinOp)
		if !ok {
			return false
		}
		isExt := func(v ssa.Value) bool {
			call, ok := v.(*ssa.Call)
			if !ok {
				return false
			}
			f := staticCallee(&call.Call)
			return isFn(f, "path", "Ext") || isFn(f, "path/filepath", "Ext")
		}
		var other ssa.Value
		switch {
		case isExt(b.X):
			other = b.Y
		case isExt(b.Y):
			other = b.X
		default:
			return false
		}
		s, ok := constString(other)
		if !ok || s != ext {
			return false
		}
		return (b.Op == token.EQL && val) || (b.Op == token.NEQ && !val)
	}
}

// suffixOrExtPred: HasSuffix(name, s) for an allowed suffix s, or Ext(name) == s when s is an extension
// (starts with the only dot it contains): for such suffixes the two tests are the same test.
func suffixOrExtPred(allowed []string) func(cond ssa.Value, val bool) bool {
	sp := suffixPred(allowed)
	var eps []func(cond ssa.Value, val bool) bool
	for _, a := range allowed {
		if strings.HasPrefix(a, ".") && strings.Count(a, ".") == 1 {
			eps = append(eps, extPred(a))
		}
	}
	return func(cond ssa.Value, val bool) bool {
		if sp(cond, val) {
			return true
		}
		for _, ep := range eps {
			if ep(cond, val) {
				return true
			}
		}
		return false
	}
}

func suffixPred(allowed []string) func(cond ssa.Value, val bool) bool {
	ok := map[string]bool{}
	for _, a := range allowed {
		ok[a] = true
	}
	return func(cond ssa.Value, val bool) bool {
		call, isCall := cond.(*ssa.Call)
		if !isCall || !val {
			return false
		}
		f := staticCallee(&call.Call)
		if !isFn(f, "strings", "HasSuffix") {
			return false
		}
		s, isConst := constString(call.Call.Args[1])
		if isConst {
			return ok[s]
		}
		// an element of a package-level list of suffixes, all of which are allowed
		if list, isList := globalStringList(call.Call.Args[1]); isList && len(list) > 0 {
			for _, e := range list {
				if !ok[e] {
					return false
				}
			}
			return true
		}
		return false
	}
}

// globalStringList: v is an element of a package-level []string that is initialised once with constants.
func globalStringList(v ssa.Value) ([]string, bool) {
	ld, isLoad := v.(*ssa.UnOp)
	if !isLoad {
		return nil, false
	}
	ia, isIA := ld.X.(*ssa.IndexAddr)
	if !isIA {
		return nil, false
	}
	sl, isLoad2 := ia.X.(*ssa.UnOp)
	if !isLoad2 {
		return nil, false
	}
	g, isGlobal := sl.X.(*ssa.Global)
	if !isGlobal || g.Pkg == nil {
		return nil, false
	}
	var out []string
	stores := 0
	for _, m := range g.Pkg.Members {
		fn, isFn := m.(*ssa.Function)
		if !isFn {
			continue
		}
		allInstrs(fn, func(in ssa.Instruction) {
			st, isStore := in.(*ssa.Store)
			if !isStore || st.Addr != ssa.Value(g) {
				return
			}
			stores++
			if s2, isSlice := st.Val.(*ssa.Slice); isSlice {
				for _, e := range variadicElems(s2) {
					if cs, isC := constString(e); isC {
						out = append(out, cs)
					} else {
						stores += 10
					}
				}
			} else {
				stores += 10
			}
		})
	}
	return out, stores == 1
}

func (c *Ctx) matchPred(patName string) func(cond ssa.Value, val bool) bool {
	tab := c.Rx()
	check := func(v ssa.Value) bool {
		_, _, recv, _, ok := regexpCall(asInstr(v))
		if !ok {
			return false
		}
		p, _ := tab.Resolve(recv)
		return p != nil && p.Name == patName
	}
	return func(cond ssa.Value, val bool) bool {
		if b, ok := cond.(*ssa.BinOp); ok {
			if x, trueMeansNil, isTest := nilTest(b); isTest && check(x) {
				return val != trueMeansNil
			}
			// len(found) > 0 and the like
			if call, ok := b.X.(*ssa.Call); ok {
				if bi, ok := call.Call.Value.(*ssa.Builtin); ok && bi.Name() == "len" && check(call.Call.Args[0]) {
					if n, ok := constInt(b.Y); ok && n == 0 {
						return (b.Op == token.GTR && val) || (b.Op == token.NEQ && val) || (b.Op == token.EQL && !val)
					}
				}
			}
		}
		return check(cond) && val
	}
}

func isGlobResult(v ssa.Value) bool {
	ex, ok := v.(*ssa.Extract)
	if !ok || ex.Index != 0 {
		return false
	}
	call, ok := ex.Tuple.(*ssa.Call)
	if !ok {
		return false
	}
	if isFn(staticCallee(&call.Call), "path/filepath", "Glob") {
		return true
	}
	// a helper of the repository that hands back what Glob returned
	if H := staticFn(&call.Call); H != nil && len(H.Blocks) > 0 && load.InModule(load.FnPkgPath(H)) {
		n, all := 0, true
		allInstrs(H, func(in ssa.Instruction) {
			r, ok := in.(*ssa.Return)
			if !ok || len(r.Results) == 0 {
				return
			}
			n++
			if !isGlobResult(r.Results[0]) {
				all = false
			}
		})
		return n > 0 && all
	}
	return false
}

func globLen(b *ssa.BinOp) (int64, bool) {
	call, ok := b.X.(*ssa.Call)
	if !ok {
		return 0, false
	}
	bi, ok := call.Call.Value.(*ssa.Builtin)
	if !ok || bi.Name() != "len" || !isGlobResult(call.Call.Args[0]) {
		return 0, false
	}
	return constInt(b.Y)
}

// globNonEmptyPred: the glob result is known to have at least one element.
func globNonEmptyPred(cond ssa.Value, val bool) bool {
	b, ok := cond.(*ssa.BinOp)
	if !ok {
		return false
	}
	if x, trueMeansNil, isTest := nilTest(b); isTest && isGlobResult(x) {
		return val != trueMeansNil
	}
	if n, ok := globLen(b); ok {
		switch {
		case b.Op == token.EQL && n == 1 && val, b.Op == token.NEQ && n == 1 && !val,
			b.Op == token.EQL && n == 0 && !val, b.Op == token.NEQ && n == 0 && val,
			b.Op == token.GTR && n == 0 && val, b.Op == token.GEQ && n == 1 && val,
			b.Op == token.LSS && n == 1 && !val, b.Op == token.LEQ && n == 0 && !val:
			return true
		}
	}
	return false
}

// globSinglePred: the glob result is known to have at most one element.
func globSinglePred(cond ssa.Value, val bool) bool {
	b, ok := cond.(*ssa.BinOp)
	if !ok {
		return false
	}
	if n, ok := globLen(b); ok {
		switch {
		case b.Op == token.GTR && n == 1 && !val, b.Op == token.GEQ && n == 2 && !val,
			b.Op == token.EQL && n == 1 && val, b.Op == token.NEQ && n == 1 && !val,
			b.Op == token.LEQ && n == 1 && val, b.Op == token.LSS && n == 2 && val:
			return true
		}
	}
	return false
}

// RuleFsSame: the check-mode verdict compares exactly the bytes the rewrite
// would write with the current contents of the file that would be written,
// and fails exactly when they differ.
func (c *Ctx) RuleFsSame(commands []string) *Result {
	res := &Result{Rule: "FS-SAME", MinInst: len(commands)}
	g := c.Graph()
	cm := c.Commands()
	for _, name := range commands {
		cmd := cm.ByName[name]
		if cmd == nil {
			res.undecided("cmd "+name, "-", "command not found")
			continue
		}
		vals, origin := c.flagValues(cmd, "check")
		if origin == nil {
			res.Instances++
			res.undecided("cmd "+name+":check flag", c.P.FnPos(cmd.In), "no boolean flag named \"check\" is read")
			continue
		}
		reach := g.Reach(c.CommandRoots(cmd))
		for _, ws := range c.writeSites() {
			if _, ok := reach[ws.fn]; !ok {
				continue
			}
			res.Instances++
			key := fmt.Sprintf("cmd %s:%s:%s", name, load.FnName(ws.fn), ws.name)
			pos := c.P.InstrPos(ws.call)
			if ws.prim.dataArg < 0 || ws.prim.pathArg < 0 {
				res.undecided(key, pos, "the write primitive has no data argument to compare")
				continue
			}
			var problems []string
			for _, w := range c.writeContexts(ws) {
				where := load.FnName(w.fn)
				data := stripConv(w.dataV)
				flagHere := flagValuesIn(vals, w.fn)
				if len(flagHere) == 0 {
					problems = append(problems, where+" does not see the check flag: check mode cannot agree with the rewrite here")
					continue
				}
				var eq *ssa.Call
				allInstrs(w.fn, func(in ssa.Instruction) {
					call, ok := in.(*ssa.Call)
					if !ok || !isFn(staticCallee(&call.Call), "bytes", "Equal") {
						return
					}
					a, b := stripConv(call.Call.Args[0]), stripConv(call.Call.Args[1])
					var other ssa.Value
					switch {
					case a == data:
						other = b
					case b == data:
						other = a
					default:
						return
					}
					if ex, ok := other.(*ssa.Extract); ok && ex.Index == 0 {
						if rc, ok := ex.Tuple.(*ssa.Call); ok && isFn(staticCallee(&rc.Call), "os", "ReadFile") && rc.Call.Args[0] == w.pathV {
							eq = call
						}
					}
					// the bytes of the file as they passed by: a buffer filled by io.TeeReader(file, &buf), file
					// opened from the written path (what was read is the whole file: the reader behind the tee runs to
					// the end of the input or ends the process, which is C17's business)
					if teeCopyOf(other, w.pathV) {
						eq = call
					}
				})
				if eq == nil {
					// the check may live in a helper that is handed the path and the data and whose verdict is returned as it is
					if why, ok := c.sameInHelper(w, data); ok {
						if why != "" {
							problems = append(problems, why)
						}
						continue
					}
					problems = append(problems, "no bytes.Equal(<contents read from the written path>, <bytes passed to the write>) in "+where+": the check verdict is not about the bytes the rewrite would write")
					continue
				}
				helperFails := false
				if w.helper != nil {
					helperFails = c.helperFailsUnder(w.helper, flagValuesIn(vals, w.helper))
				}
				nilOf := func(op ssa.Value, e *pathEnv) nilness {
					if op == nil {
						return nilUnknown
					}
					if w.helper != nil && e.resolve(op) == ssa.Value(w.site.(*ssa.Call)) {
						if helperFails {
							return nonNil
						}
						return nilUnknown
					}
					return e.nilnessOf(op)
				}
				mk := func(eqv bool) map[ssa.Value]bool {
					m := map[ssa.Value]bool{eq: eqv}
					for _, f := range flagHere {
						m[f] = true
					}
					return m
				}
				env := newEnvAt(eq.Block())
				env.bools = mk(false)
				c.explore(eq.Block(), instrIndex(eq)+1, env, exploreCB{
					ret: func(r *ssa.Return, e *pathEnv) {
						if nilOf(retErrOperand(r), e) != nonNil {
							problems = append(problems, fmt.Sprintf("with --check and differing contents %s can return success at %s", where, c.P.InstrPos(r)))
						}
					},
				})
				env2 := newEnvAt(eq.Block())
				env2.bools = mk(true)
				okNil := false
				c.explore(eq.Block(), instrIndex(eq)+1, env2, exploreCB{
					ret: func(r *ssa.Return, e *pathEnv) {
						if nilOf(retErrOperand(r), e) == isNil {
							okNil = true
						}
					},
				})
				if !okNil {
					problems = append(problems, "with --check and identical contents "+where+" never returns success")
				}
			}
			if len(problems) > 0 {
				res.bad(key, pos, strings.Join(uniq(problems), "; "))
			} else {
				res.ok(key, pos, "bytes.Equal(ReadFile(path), data) with the same path and data values as the write; under --check: differing => every path returns a non-nil error, identical => success is returned")
			}
		}
	}
	return res
}

// sameInHelper: the per-file function hands path and data to a helper that
// compares bytes.Equal(ReadFile(path), data) and returns the verdict, and the
// per-file function returns what the helper returned. found reports whether
// such a helper exists; why is non-empty when its verdict is wrong.
func (c *Ctx) sameInHelper(w *writeCtx, data ssa.Value) (why string, found bool) {
	allInstrs(w.fn, func(in ssa.Instruction) {
		call, ok := in.(*ssa.Call)
		if !ok || found {
			return
		}
		H := staticFn(&call.Call)
		if H == nil || !c.P.IsRepoFn(H) || len(H.Blocks) == 0 || !fnHasErrResult(H) {
			return
		}
		di, pi := -1, -1
		for i, a := range call.Call.Args {
			if stripConv(a) == data {
				di = i
			}
			if a == w.pathV {
				pi = i
			}
		}
		if pi < 0 || di >= len(H.Params) || pi >= len(H.Params) {
			return
		}
		// the helper is handed the data itself, or what the data is computed from: then the value it
		// compares must be the same pure expression over its parameters as the data is over the arguments
		isData := func(x ssa.Value) bool {
			if di >= 0 {
				return x == ssa.Value(H.Params[di])
			}
			return samePureExpr(data, x, H, &call.Call, 0)
		}
		var eq *ssa.Call
		allInstrs(H, func(in2 ssa.Instruction) {
			c2, ok := in2.(*ssa.Call)
			if !ok || !isFn(staticCallee(&c2.Call), "bytes", "Equal") {
				return
			}
			a, b := stripConv(c2.Call.Args[0]), stripConv(c2.Call.Args[1])
			var other ssa.Value
			switch {
			case isData(a):
				other = b
			case isData(b):
				other = a
			default:
				return
			}
			if ex, ok := other.(*ssa.Extract); ok && ex.Index == 0 {
				if rc, ok := ex.Tuple.(*ssa.Call); ok && isFn(staticCallee(&rc.Call), "os", "ReadFile") && rc.Call.Args[0] == ssa.Value(H.Params[pi]) {
					eq = c2
				}
			}
		})
		if eq == nil {
			return
		}
		found = true
		// the caller returns the helper's verdict
		returned := false
		for _, r := range referrers(call) {
			if _, ok := r.(*ssa.Return); ok {
				returned = true
			}
			if ph, ok := r.(*ssa.Phi); ok {
				for _, rr := range referrers(ph) {
					if _, ok := rr.(*ssa.Return); ok {
						returned = true
					}
				}
			}
		}
		if !returned {
			why = load.FnName(w.fn) + " does not return the verdict of " + load.FnName(H)
			return
		}
		env := newEnvAt(eq.Block())
		env.bools = map[ssa.Value]bool{eq: false}
		c.explore(eq.Block(), instrIndex(eq)+1, env, exploreCB{
			ret: func(r *ssa.Return, e *pathEnv) {
				if e.nilnessOf(retErrOperand(r)) != nonNil && why == "" {
					why = fmt.Sprintf("with --check and differing contents %s can return success at %s", load.FnName(H), c.P.InstrPos(r))
				}
			},
		})
		env2 := newEnvAt(eq.Block())
		env2.bools = map[ssa.Value]bool{eq: true}
		okNil := false
		c.explore(eq.Block(), instrIndex(eq)+1, env2, exploreCB{
			ret: func(r *ssa.Return, e *pathEnv) {
				if e.nilnessOf(retErrOperand(r)) == isNil {
					okNil = true
				}
			},
		})
		if !okNil && why == "" {
			why = "with --check and identical contents " + load.FnName(H) + " never returns success"
		}
	})
	return why, found
}

// samePureExpr: x, a value of the caller, and y, a value of the helper H called at cc,
// are the same expression: the same constants, the same side-effect-free functions of
// strings / bytes / path applied to the same operands, and where y is a parameter of H,
// x is the argument handed in for it.
func samePureExpr(x, y ssa.Value, H *ssa.Function, cc *ssa.CallCommon, d int) bool {
	x, y = stripConv(x), stripConv(y)
	if d > 6 {
		return false
	}
	if p, ok := y.(*ssa.Parameter); ok {
		pi := paramIndex(H, p)
		return pi >= 0 && pi < len(cc.Args) && stripConv(cc.Args[pi]) == x
	}
	switch b := y.(type) {
	case *ssa.Const:
		a, ok := x.(*ssa.Const)
		return ok && types.Identical(a.Type(), b.Type()) && fmt.Sprint(a.Value) == fmt.Sprint(b.Value)
	case *ssa.Call:
		a, ok := x.(*ssa.Call)
		if !ok || len(a.Call.Args) != len(b.Call.Args) {
			return false
		}
		fa, fb := staticCallee(&a.Call), staticCallee(&b.Call)
		if fa == nil || fa != fb {
			return false
		}
		switch objPkgPath(fa) {
		case "strings", "bytes", "path", "path/filepath":
		default:
			return false
		}
		if recvNamed(fa) != "" {
			return false
		}
		for i := range a.Call.Args {
			if !samePureExpr(a.Call.Args[i], b.Call.Args[i], H, cc, d+1) {
				return false
			}
		}
		return true
	}
	return false
}

func uniq(xs []string) []string {
	seen := map[string]bool{}
	var out []string
	for _, x := range xs {
		if !seen[x] {
			seen[x] = true
			out = append(out, x)
		}
	}
	return out
}

// writeCtx is the place where a write is judged together with the read of the
// same file: the write site itself, or — when the writing function receives
// path and data as parameters (a helper split off the per-file function) — each
// call of that helper, with the arguments standing for path and data.
type writeCtx struct {
	fn     *ssa.Function
	site   ssa.Instruction // the write, or the call of the writing helper
	pathV  ssa.Value
	dataV  ssa.Value
	helper *ssa.Function // non-nil when lifted
	ws     *writeSite
}

func paramIndex(fn *ssa.Function, v ssa.Value) int {
	v = stripConv(v)
	for i, p := range fn.Params {
		if ssa.Value(p) == v {
			return i
		}
	}
	return -1
}

func dominatingRead(fn *ssa.Function, pathV ssa.Value, site ssa.Instruction) *ssa.Call {
	var read *ssa.Call
	allInstrs(fn, func(in ssa.Instruction) {
		call, ok := in.(*ssa.Call)
		if !ok || read != nil {
			return
		}
		f := staticCallee(&call.Call)
		if (isFn(f, "os", "ReadFile") || isFn(f, "os", "Open")) && call.Call.Args[0] == pathV && instrDominates(call, site) {
			read = call
			return
		}
		// the read sits in a helper of the repository that is handed the path
		if H := staticFn(&call.Call); H != nil && len(H.Blocks) > 0 && load.InModule(load.FnPkgPath(H)) && instrDominates(call, site) {
			for i, a := range call.Call.Args {
				if a == pathV && i < len(H.Params) && readsParamPath(H, i) {
					read = call
				}
			}
		}
	})
	return read
}

// readsParamPath: H reads the file named by its parameter i (os.ReadFile / os.Open in its entry region).
func readsParamPath(H *ssa.Function, i int) bool {
	found := false
	allInstrs(H, func(in ssa.Instruction) {
		call, ok := in.(*ssa.Call)
		if !ok {
			return
		}
		f := staticCallee(&call.Call)
		if (isFn(f, "os", "ReadFile") || isFn(f, "os", "Open")) && call.Call.Args[0] == ssa.Value(H.Params[i]) {
			found = true
		}
	})
	return found
}

// writeContexts returns where to judge ws (see writeCtx).
func (c *Ctx) writeContexts(ws *writeSite) []*writeCtx {
	if ws.prim.pathArg < 0 {
		return nil
	}
	pathV := ws.cc.Args[ws.prim.pathArg]
	var dataV ssa.Value
	if ws.prim.dataArg >= 0 {
		dataV = ws.cc.Args[ws.prim.dataArg]
	}
	if dominatingRead(ws.fn, pathV, ws.call) != nil {
		return []*writeCtx{{fn: ws.fn, site: ws.call, pathV: pathV, dataV: dataV, ws: ws}}
	}
	pi := paramIndex(ws.fn, pathV)
	di := -1
	if dataV != nil {
		di = paramIndex(ws.fn, dataV)
	}
	if pi < 0 || (dataV != nil && di < 0) {
		return []*writeCtx{{fn: ws.fn, site: ws.call, pathV: pathV, dataV: dataV, ws: ws}}
	}
	var out []*writeCtx
	for _, e := range c.Graph().In[ws.fn] {
		cc := callCommon(e.Site)
		if cc == nil || staticFn(cc) != ws.fn || pi >= len(cc.Args) {
			continue
		}
		w := &writeCtx{fn: e.Caller, site: e.Site, pathV: cc.Args[pi], helper: ws.fn, ws: ws}
		if di >= 0 && di < len(cc.Args) {
			w.dataV = cc.Args[di]
		}
		out = append(out, w)
	}
	if len(out) == 0 {
		return []*writeCtx{{fn: ws.fn, site: ws.call, pathV: pathV, dataV: dataV, ws: ws}}
	}
	return out
}

// helperFailsUnder: with the given flag parameters of helper assumed true, does
// every path of helper end in a non-nil error (or a loud exit)?
func (c *Ctx) helperFailsUnder(helper *ssa.Function, flagParams []ssa.Value) bool {
	if len(helper.Blocks) == 0 || len(flagParams) == 0 {
		return false
	}
	env := newEnvAt(helper.Blocks[0])
	env.bools = map[ssa.Value]bool{}
	for _, p := range flagParams {
		env.bools[p] = true
	}
	all := true
	c.explore(helper.Blocks[0], 0, env, exploreCB{
		ret: func(r *ssa.Return, e *pathEnv) {
			if op := retErrOperand(r); op == nil || e.nilnessOf(op) != nonNil {
				all = false
			}
		},
	})
	return all
}

// helperWritesOrFails: with the flag parameters assumed false, every success
// return of helper follows the write.
func (c *Ctx) helperWritesOrFails(helper *ssa.Function, write ssa.Instruction, flagParams []ssa.Value) bool {
	if len(helper.Blocks) == 0 {
		return false
	}
	env := newEnvAt(helper.Blocks[0])
	env.bools = map[ssa.Value]bool{}
	for _, p := range flagParams {
		env.bools[p] = false
	}
	ok := true
	c.explore(helper.Blocks[0], 0, env, exploreCB{
		instr: func(in ssa.Instruction, e *pathEnv) bool { return in == write },
		ret: func(r *ssa.Return, e *pathEnv) {
			if op := retErrOperand(r); op == nil || e.nilnessOf(op) != nonNil {
				ok = false
			}
		},
	})
	return ok
}

func flagValuesIn(vals map[ssa.Value]bool, fn *ssa.Function) []ssa.Value {
	var out []ssa.Value
	for v := range vals {
		switch x := v.(type) {
		case *ssa.Parameter:
			if x.Parent() == fn {
				out = append(out, v)
			}
		case *ssa.FreeVar:
			if x.Parent() == fn {
				out = append(out, v)
			}
		case ssa.Instruction:
			if x.Parent() == fn {
				out = append(out, v)
			}
		}
	}
	return out
}

// callersReadFirst: pathV is a parameter of fn and every caller reads the file it
// names (os.ReadFile / os.Open, directly or in a helper) before it calls fn.
func (c *Ctx) callersReadFirst(fn *ssa.Function, pathV ssa.Value) bool {
	pi := paramIndex(fn, pathV)
	if pi < 0 {
		return false
	}
	n := 0
	for _, e := range c.Graph().In[fn] {
		cc := callCommon(e.Site)
		if cc == nil || staticFn(cc) != fn || pi >= len(cc.Args) {
			continue
		}
		n++
		if dominatingRead(e.Caller, cc.Args[pi], e.Site) == nil {
			return false
		}
	}
	return n > 0
}

// teeCopyOf: v is buf.Bytes() (or buf.String()) of a bytes.Buffer that is the copy side of an
// io.TeeReader whose source is the file opened from pathV.
func teeCopyOf(v ssa.Value, pathV ssa.Value) bool {
	call, ok := stripConv(v).(*ssa.Call)
	if !ok || len(call.Call.Args) != 1 {
		return false
	}
	f := staticCallee(&call.Call)
	if !isMeth(f, "bytes", "Buffer", "Bytes") && !isMeth(f, "bytes", "Buffer", "String") {
		return false
	}
	buf := call.Call.Args[0]
	for _, r := range referrers(buf) {
		mi, ok := r.(*ssa.MakeInterface)
		if !ok {
			continue
		}
		for _, rr := range referrers(mi) {
			tee, ok := rr.(*ssa.Call)
			if !ok || !isFn(staticCallee(&tee.Call), "io", "TeeReader") || len(tee.Call.Args) != 2 || tee.Call.Args[1] != ssa.Value(mi) {
				continue
			}
			src := stripConv(tee.Call.Args[0])
			if ex, ok := src.(*ssa.Extract); ok && ex.Index == 0 {
				if oc, ok := ex.Tuple.(*ssa.Call); ok {
					of := staticCallee(&oc.Call)
					if (isFn(of, "os", "Open") || isFn(of, "os", "OpenFile")) && len(oc.Call.Args) > 0 && oc.Call.Args[0] == pathV {
						return true
					}
				}
			}
		}
	}
	return false
}
